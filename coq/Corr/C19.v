(* Correspondence checker for C19.  Two kinds of case:
   CLoop: one run of the real Reconnect / ReconnectAuth against the scripted fault-injecting
          servers; per attempt the harness reports which servers were contacted, whether the
          websocket was established, how many messages passed, and two gaps in ns.
   CBoff: an exact differential of backoff.Backoff (Duration / Reset) - no timing involved. *)
From Relay Require Import Base.Prelude Model.Reconws.
Local Open Scope Z_scope.

Record obs := mkobs {
  o_gap_ss : Z;    (* start of this attempt - start of the previous one (launch for the first) *)
  o_gap_es : Z;    (* start of this attempt - end of the previous one (launch for the first) *)
  o_timed : bool;  (* false: the harness saw its own scheduler lag, upper bound not compared *)
  o_acc : bool;    (* the access server was contacted *)
  o_ws : bool;     (* the websocket server was contacted *)
  o_est : bool;    (* the websocket was established *)
  o_k : nat;       (* messages that passed each way on it *)
  o_in : list N;   (* numbers of the server's messages in the order they arrived on r.In *)
  o_ack : list N;  (* numbers of the client's messages in the order the server received them *)
  o_later : list N; (* numbers of the busy sender's messages that arrived on LATER connections (drop noticed by the writer) *)
  o_garbled : list N; (* numbers of the server's messages that were sent undecodable (pkg/status run only) *)
  o_closed : bool  (* cancel iteration only: the server saw the TCP connection end within 1 s of the cancellation *)
}.

Inductive case :=
| CLoop (l : loopk) (c : cfg) (sch : list sbeh) (cp : cancelpt) (returned : bool) (os : list obs)
| CBoff (c : cfg) (ops : list bop) (ds : list Z)
| CBoffJ (mn mx : Z) (ds : list Z).   (* Jitter = true: durations are random, only the bounds are compared *)

Definition ms : Z := 1000000.

(* one-sided below (a sleep never returns early): gap >= wait - 5 ms; generous above:
   gap <= wait + 60% + 150 ms *)
Definition timing_ok (w : Z) (o : obs) : bool :=
  (w - 5 * ms <=? o_gap_ss o) &&
  (negb (o_timed o) || (o_gap_es o <=? w + (w * 6) / 10 + 150 * ms)).

(* cancelled while connected: was the connection closed, as Dial's ctx.Done() branch says it is? *)
Definition close_ok (b : beh) (e : event) (o : obs) : bool :=
  negb (is_success (ev_out e)) || Bool.eqb (o_closed o) (reaches_close (peer_answers b) dial_on_cancel).

(* what passed on an established connection, judged by the pump model of Dial: the server sent
   0,1,..,sent-1; r.In must show what the reader pump delivers after that many read steps (a prefix, in
   order, nothing twice), all of it if the server dropped the connection only after the last
   acknowledgement; the server must have received what the writer pump wrote after that many steps *)
Definition iotaN (n : nat) : list N := map N.of_nat (seq 0 n).
Definition msgs_ok (b : beh) (is_cancel_iter : bool) (o : obs) : bool :=
  let sent := match b with
              | AcceptThenDrop k | AcceptThenHang k => k
              | AcceptThenDropW _ => 1%nat
              | AcceptThenStay _ => o_k o        (* the echo of what the server received *)
              | _ => O
              end in
  let n := length (o_in o) in
  let m := length (o_ack o) in
  (* through the reader pump, then (pkg/status run) through the decoding stage, which drops the garbled ones *)
  let ok m := negb (existsb (N.eqb m) (o_garbled o)) in
  let through := snd (filt_run ok sent (to_in (pump_run (pumps_init (iotaN sent) []) (repeat PRead sent)), [])) in
  list_eqb N.eqb (firstn n through) (o_in o) &&
  list_eqb N.eqb (conn_out (pump_run (pumps_init [] (iotaN m)) (repeat PWrite m))) (o_ack o) &&
  (is_cancel_iter || match b with AcceptThenDrop k => Nat.eqb n k | _ => true end) &&
  (* over all connections the busy sender's messages are an order-preserving sub-list of 0,1,2,.. *)
  (let all := o_ack o ++ o_later o in
   is_subseq all (iotaN (S (N.to_nat (fold_right N.max 0%N all))))).

Definition ev_ok (l : loopk) (is_cancel_iter : bool) (b : beh) (e : event) (o : obs) : bool :=
  (negb is_cancel_iter || close_ok b e o) &&
  (negb (is_success (ev_out e)) || msgs_ok b is_cancel_iter o) &&
  Bool.eqb (contacts_access l) (o_acc o) &&
  Bool.eqb (contacts_ws (ev_out e)) (o_ws o) &&
  Bool.eqb (is_success (ev_out e)) (o_est o) &&
  (is_cancel_iter || match b with AcceptThenDropW _ => true | _ => false end  (* busy sender: count not scripted *)
   || match ev_out e with OConnected k => Nat.eqb k (o_k o) | _ => true end) &&
  timing_ok (ev_wait e) o.

Fixpoint evs_ok (l : loopk) (sch : list sbeh) (cp : cancelpt) (i : nat) (es : list event) (os : list obs) : bool :=
  match es, os with
  | [], [] => true
  | e :: es', o :: os' =>
      ev_ok l (match phase_here cp i with Some _ => true | None => false end)
              (snd (nth i sch (AOk, Refuse))) e o
      && evs_ok l sch cp (S i) es' os'
  | _, _ => false
  end.

Definition case_ok (x : case) : bool :=
  match x with
  | CLoop l c sch cp returned os => returned && evs_ok l sch cp 0 (client l c sch cp) os
  | CBoff c ops ds => list_eqb Z.eqb (boff_run c 0 ops) ds
  | CBoffJ mn mx ds =>
      (* each observed duration is a value the model allows: the model applied to it gives it back *)
      forallb (fun d => Z.eqb (backoff_dur_jitter mn mx d) d) ds
  end.

(* non-trivial: a loop case with at least three attempts of which one was preceded by a wait;
   a backoff case with at least four durations *)
Definition case_nontrivial (x : case) : bool :=
  match x with
  | CLoop l c sch cp _ _ =>
      let es := client l c sch cp in
      (3 <=? length es)%nat && existsb (fun e => 0 <? ev_wait e) es
  | CBoff c ops _ => (4 <=? length (boff_run c 0 ops))%nat
  | CBoffJ _ _ ds => (4 <=? length ds)%nat
  end.

Definition mismatches (cs : list case) : list N := mismatch_idx case_ok 0 cs.
Definition nontrivial (cs : list case) : list N := idx_where case_nontrivial cs.
