(* Correspondence for C11: every case is the history
     list denied; list allowed; X; list denied; list allowed; known-good session
   run on a real access.API; the model must give the same six answers (see Access_common.v for the projection,
   "no answer at all" being the observation [Panic]).
   Non-trivial: X gets past the router and the authenticator, i.e. all six requests reach a handler. *)
From Relay Require Import Base.Prelude Model.DenyStore Model.Token Model.Access Corr.Access_common.

Definition case := Access_common.case.
Definition case_ok : case -> bool := Access_common.case_ok.

Definition nreq (ops : list op) : N :=
  count_true (fun o => match o with OReq _ => true | _ => false end) ops.

Definition case_nontrivial (c : case) : bool :=
  let '(cfg, t, ops, _) := c in (count_reaching cfg (init t) ops =? nreq ops)%N.

Definition mismatches (cs : list case) : list N := mismatch_idx case_ok 0 cs.
Definition nontrivial (cs : list case) : list N := idx_where case_nontrivial cs.
