(* Correspondence for C11.  A case is a history run on a real access.API plus the positions of its test
   requests:
     - the short form  [list denied; list allowed; X; list denied; list allowed; known-good session]  (X at 2);
     - stateful histories: steps drawn from a small pool of bearers / booking ids / expiries (the same strings
       again and again, exact repeats, clock moves in between), each step followed by a probe of all six
       endpoints with known-good requests.
   The model must give the same answer to every request (projection in Access_common.v; "no answer at all" is
   the observation [Panic]).
   Non-trivial: at least one of the test requests gets past the router and the authenticator. *)
From Relay Require Import Base.Prelude Model.DenyStore Model.Token Model.Access Corr.Access_common.

Definition case := (Access_common.case * list N)%type.
Definition case_ok (c : case) : bool := Access_common.case_ok (fst c).

Fixpoint reach_flags (cfg : config) (s : st) (ops : list op) : list bool :=
  match ops with
  | [] => []
  | o :: r => reaches_handler cfg s o :: reach_flags cfg (fst (step cfg s o)) r
  end.

Definition case_nontrivial (c : case) : bool :=
  let '((cfg, t, ops, _), idx) := c in
  existsb (fun i => nth (N.to_nat i) (reach_flags cfg (init t) ops) false) idx.

Definition mismatches (cs : list case) : list N := mismatch_idx case_ok 0 cs.
Definition nontrivial (cs : list case) : list N := idx_where case_nontrivial cs.
