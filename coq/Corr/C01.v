(* Correspondence for C01.  Two kinds of case:
     CHist: a history (session requests, websocket attempts, clock readings) with the outputs observed on a
            real access.API (harness clock) or on the whole relay (wall clock) - compared as in Access_common.v;
     CPath: a request path with what the real slashify / getConnectionTypeFromPath / getTopicFromPath returned
            for it - compared with the model's scanners.
   Non-trivial: a history in which at least two operations get past their first guard (a request past router
   and authenticator, a websocket attempt as far as the code exchange); a path whose topic is not empty. *)
From Relay Require Import Base.Prelude Model.DenyStore Model.Token Model.Access Corr.Access_common.

Inductive case :=
| CHist (c : Access_common.case)
| CPath (path slashed prefix topic : string).

Definition case_ok (c : case) : bool :=
  match c with
  | CHist h => Access_common.case_ok h
  | CPath p s pre top =>
      String.eqb (slashify p) s && String.eqb (prefix_of_path (slashify p)) pre
      && String.eqb (topic_of_path (slashify p)) top
  end.

Definition case_nontrivial (c : case) : bool :=
  match c with
  | CHist (cfg, t, ops, _) => (2 <=? count_reaching cfg (init t) ops)%N
  | CPath p _ _ _ => negb (String.eqb (topic_of_path (slashify p)) EmptyString)
  end.

Definition mismatches (cs : list case) : list N := mismatch_idx case_ok 0 cs.
Definition nontrivial (cs : list case) : list N := idx_where case_nontrivial cs.
