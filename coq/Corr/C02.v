(* Correspondence checker for C02.  A sequential case is (initial clock, ttl, operations, outputs
   observed on the real ttlcode.CodeStore - or, for the end-to-end cases, on a real relay where
   "exchange succeeded" is "the websocket was let onto the topic").  A race case is n goroutines
   released together on one code after a prefix history; the observation is the number of winners,
   which the model gives for any schedule (Props/C02.v: it does not depend on the schedule).
   GetCodeCount is compared as a refinement: the background sweeper may or may not have removed
   expired entries already, so the observed count must lie between live and all entries. *)
From Relay Require Import Base.Prelude Base.AList Model.CodeStore.

Definition out_ok (m o : out) : bool :=
  match m, o with
  | OCode a, OCode b => N.eqb a b
  | OTok t b, OTok t' b' => N.eqb t t' && N.eqb b b'
  | ORefused, ORefused => true
  | OUnit, OUnit => true
  | OCount live all, OCount x _ => N.leb live x && N.leb x all
  | _, _ => false
  end.

(* End-to-end histories carry a flag per operation: presented on the path of ANOTHER topic; the
   admission-level view [run_view] is in Model/CodeStore.v. *)
Inductive case :=
| CSeq (t0 life : Z) (ops : list op) (obs : list out)
| CSeqW (t0 life : Z) (ops : list (bool * op)) (obs : list out)
| CRace (life : Z) (pre : list op) (c : N) (n : nat) (winners : N).

Definition case_ok (k : case) : bool :=
  match k with
  | CSeq t0 life ops obs => list_eqb out_ok (snd (run (init t0 life) ops)) obs
  | CSeqW t0 life ops obs => list_eqb out_ok (run_view (init t0 life) ops) obs
  | CRace life pre c n w =>
      N.eqb (N.of_nat (trace_wins c (snd (run_sched (final (init 0 life) pre) (repeat [Exchange c] n) (seq 0 n))))) w
  end.

Definition is_tok (x : out) : bool := match x with OTok _ _ => true | _ => false end.
Definition is_refused (x : out) : bool := match x with ORefused => true | _ => false end.

(* non-trivial: the model run hands over at least one token and refuses at least one exchange
   (sequential), or at least two goroutines race (race) *)
Definition case_nontrivial (k : case) : bool :=
  match k with
  | CSeq t0 life ops _ =>
      let outs := snd (run (init t0 life) ops) in existsb is_tok outs && existsb is_refused outs
  | CSeqW t0 life ops _ =>
      let outs := run_view (init t0 life) ops in existsb is_tok outs && existsb is_refused outs
  | CRace _ _ _ n _ => (2 <=? n)%nat
  end.

Definition mismatches (cs : list case) : list N := mismatch_idx case_ok 0 cs.
Definition nontrivial (cs : list case) : list N := idx_where case_nontrivial cs.
