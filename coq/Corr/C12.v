(* Correspondence for C12. The tie to the code is the translator (Gen/LockGen.v is regenerated and its
   obligations re-proved on every run); this file only cross-checks the translator's own diagnostic checker
   (the one that produces the messages and directs the violation search) against the Coq checkers:
   a case is (function name, verdicts well_locked / no_block / lock_order as computed in Go) and passes
   when Coq computes the same verdicts on the generated body of that function. *)
From Relay Require Import Base.Prelude Model.LockIR Gen.LockGen.

Definition case := (string * (bool * bool * bool))%type.

Fixpoint body_of (n : string) (p : program) : option sstmt :=
  match p with [] => None | (n', b) :: r => if String.eqb n n' then Some b else body_of n r end.

Definition case_ok (c : case) : bool :=
  let '(n, (wl, nb, lo)) := c in
  match body_of n LockGen.prog with
  | None => false
  | Some b => Bool.eqb (well_locked_fn b) wl && Bool.eqb (no_block_fn b) nb && Bool.eqb (lock_order_fn b) lo
  end.

Fixpoint nontriv (s : sstmt) : bool :=
  match s with
  | Skip | Return => false
  | Seq a b | Choice a b => nontriv a || nontriv b
  | Loop b => nontriv b
  | _ => true
  end.

(* non-trivial = the function's body contains at least one lock operation, guarded access or blocking operation *)
Definition case_nontrivial (c : case) : bool :=
  match body_of (fst c) LockGen.prog with Some b => nontriv b | None => false end.

Definition mismatches (cs : list case) : list N := mismatch_idx case_ok 0 cs.
Definition nontrivial (cs : list case) : list N := idx_where case_nontrivial cs.
