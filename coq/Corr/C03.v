(* Correspondence checker for C03 (and the script interpreter shared with C04 and C05).
   A script is what the harness did to the real relay, in hub order: connection attempts (with the
   path the server saw, the token's topic and scopes), leaves, sends, and - for C05 - explicit
   writer steps.  With [auto] every step is followed by quiescence: every writer drains its queue,
   one message per frame (the harness waits for that before its next step). *)
From Relay Require Import Base.Prelude Model.Hub.

Inductive op :=
| OJoin (rq : request)
| OLeave (n : N)
| OSend (n : N) (mt : N) (size : N) (d : list N)   (* size = bytes on the wire, d = payload symbols *)
| OEv (e : event)
| OSettle
| OSendRun (n : N) (mt : N) (size : N) (first : N) (count : nat).   (* count sends of one connection with payload symbols first, first+1, ..., every writer draining after each *)

Definition settle_events (s : state) : list event :=
  flat_map (fun c => concat (repeat (drain (name c) 0) (S (length (queue c))))) (conns s).
Definition settle (s : state) : state := run s (settle_events s).

(* quiescence computed per connection instead of through the event list: every writer takes the head
   and closes the frame until its queue is empty (the same model functions [take] and [close_frame];
   used for large populations, where generating and mapping the event list is quadratic) *)
Definition drain_client (c : client) : client :=
  Nat.iter (S (length (queue c))) (fun c => close_frame (take c)) c.
Definition settle_fast (s : state) : state := mkstate (map drain_client (conns s)) (log s).
Definition exec_op (s : state) (o : op) : state :=
  match o with
  | OJoin rq => match ws_accept rq with Some c => step s (Register c) | None => s end
  | OLeave n => step s (Unregister n)
  | OSend n mt size d => step s (read_event n mt size d)
  | OEv e => step s e
  | OSettle => settle s
  | OSendRun n mt size first count =>
      fold_left (fun s k => settle_fast (step s (read_event n mt size [(first + N.of_nat k)%N]))) (seq 0 count) s
  end.

Definition run_script (auto : bool) (ops : list op) : state :=
  fold_left (fun s o => let s' := exec_op s o in if auto then settle s' else s') ops init.

Definition run_script_fast (ops : list op) : state :=
  fold_left (fun s o => settle_fast (exec_op s o)) ops init.

Definition conn_of (s : state) (n : N) : option client :=
  find (fun c => N.eqb (name c) n) (conns s).

(* payload symbols a connection has received, as a sorted list (multiset) *)
Definition received (c : client) : list N := sortN (concat (map m_data (concat (out c)))).

(* observed per connection attempt: name, whether the hub registered it, the topic /status
   reported for it right after joining ("" when refused), the multiset of payload ids it received *)
Definition seen := (N * bool * string * list N)%type.
(* mode 0: the observed multisets must be exactly the model's (run with quiescence after each step);
   mode 1: refinement for histories whose outcome depends on the hub's order (lagging readers that
           get dropped, bursts): the model is run with every reader keeping up - the most anybody can
           receive - and each observed multiset must be CONTAINED in the model's; who registered, and
           under which topic, must still be exact;
   mode 2: as 0, quiescence computed per connection (large populations); mode 1 computes it that way too *)
Definition case := (N * list op * list seen)%type.

Fixpoint sub_sorted (a b : list N) : bool :=   (* multiset inclusion of sorted lists *)
  match b with
  | [] => match a with [] => true | _ => false end
  | y :: b' =>
      (fix go (a : list N) : bool :=
         match a with
         | [] => true
         | x :: a' => if N.eqb x y then sub_sorted a' b' else if N.ltb x y then false else sub_sorted a b'
         end) a
  end.

Definition seen_ok (sub : bool) (s : state) (x : seen) : bool :=
  let '(n, joined, t, ids) := x in
  match conn_of s n with
  | Some c => joined && String.eqb (topic c) t &&
              (if sub then sub_sorted ids (received c) else list_eqb N.eqb (received c) ids)
  | None => negb joined && match ids with [] => true | _ => false end
  end.

Definition run_mode (mode : N) (ops : list op) : state :=
  if N.eqb mode 0 then run_script true ops else run_script_fast ops.

Definition case_ok (c : case) : bool :=
  let '(mode, ops, obs) := c in
  let s := run_mode mode ops in
  forallb (seen_ok (N.eqb mode 1) s) obs && Nat.eqb (length (conns s)) (length (filter (fun x => snd (fst (fst x))) obs)).

(* non-trivial: the hub took at least three messages and delivered at least two, on a run with
   at least two different topics among the registered connections *)
Definition distinct_topics (s : state) : nat :=
  length (nodup string_dec (map topic (conns s))).
Definition delivered (s : state) : nat := length (flat_map (fun c => concat (out c)) (conns s)).
Definition case_nontrivial (c : case) : bool :=
  let s := run_mode (fst (fst c)) (snd (fst c)) in
  (3 <=? length (log s))%nat && (2 <=? delivered s)%nat && (2 <=? distinct_topics s)%nat.

Definition mismatches (cs : list case) : list N := mismatch_idx case_ok 0 cs.
Definition nontrivial (cs : list case) : list N := idx_where case_nontrivial cs.
