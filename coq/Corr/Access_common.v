(* Shared correspondence checker for C01, C09 and C11 (one model, three properties).
   A case is (configuration, initial clock, operations, outputs observed on the real code).
   It passes when the model, run from the empty state, produces the same outputs after the projection:
     - HTTP answers: status; for 2xx also the body (code number, sorted id list, reports sorted by
       User-Agent); "no answer at all" (EOF, hang) is the observation [Panic];
       for requests whose framing the model does not interpret only "an error status" is compared;
     - websocket attempts: 404 before upgrade / refused after upgrade / joined with
       (topic, scopes, expiry, can-read, can-write, User-Agent) as listed by /status. *)
From Relay Require Import Base.Prelude Base.AList Model.DenyStore Model.Token Model.Access.

Definition str_list_eqb (a b : list string) : bool := list_eqb String.eqb a b.

Definition report_eqb (a b : report) : bool :=
  String.eqb (rp_topic a) (rp_topic b) && str_list_eqb (rp_scopes a) (rp_scopes b) && (rp_exp a =? rp_exp b)%Z
  && Bool.eqb (rp_read a) (rp_read b) && Bool.eqb (rp_write a) (rp_write b) && (rp_ua a =? rp_ua b)%N.

Fixpoint insert_report (x : report) (l : list report) : list report :=
  match l with
  | [] => [x]
  | y :: r => if (rp_ua x <=? rp_ua y)%N then x :: l else y :: insert_report x r
  end.
Definition sort_reports (l : list report) : list report := fold_right insert_report [] l.

Definition body_eqb (a b : body) : bool :=
  match a, b with
  | BUri x, BUri y => (x =? y)%N
  | BIds x, BIds y => list_eqb N.eqb x y
  | BReports x, BReports y => list_eqb report_eqb (sort_reports x) (sort_reports y)
  | BEmpty, BEmpty => true
  | BDoc, BDoc => true
  | (BError | BText), (BError | BText) => true
  | _, _ => false
  end.

Definition is_error (status : N) : bool := (400 <=? status)%N.

Definition resp_eqb (opaque : bool) (m o : response) : bool :=
  match m, o with
  | Panic, Panic => true
  | Resp a x, Resp b y =>
      if opaque then is_error a && is_error b
      else if is_error a && is_error b then (a =? b)%N
      else (a =? b)%N && body_eqb x y
  | _, _ => false
  end.

Definition member_eqb (a b : member) : bool :=
  String.eqb (m_topic a) (m_topic b) && str_list_eqb (m_scopes a) (m_scopes b) && (m_exp a =? m_exp b)%Z
  && Bool.eqb (m_read a) (m_read b) && Bool.eqb (m_write a) (m_write b) && (m_ua a =? m_ua b)%N.

Definition ws_eqb (m o : ws_out) : bool :=
  match m, o with
  | WNotFound, WNotFound => true
  | WRefused, WRefused => true
  | WJoined a, WJoined b => member_eqb a b
  | _, _ => false
  end.

Definition is_opaque (o : op) : bool :=
  match o with OReq r => match r_route r with ROpaque => true | _ => false end | _ => false end.

Definition out_eqb (o : op) (m obs : out) : bool :=
  match m, obs with
  | OutResp a, OutResp b => resp_eqb (is_opaque o) a b
  | OutWs a, OutWs b => ws_eqb a b
  | OutUnit, OutUnit => true
  | _, _ => false
  end.

Fixpoint outs_eqb (ops : list op) (ms obs : list out) : bool :=
  match ops, ms, obs with
  | [], [], [] => true
  | o :: ops', m :: ms', b :: obs' => out_eqb o m b && outs_eqb ops' ms' obs'
  | _, _, _ => false
  end.

Definition case := (config * Z * list op * list out)%type.

Definition case_ok (c : case) : bool :=
  let '(cfg, t, ops, obs) := c in outs_eqb ops (snd (run cfg (init t) ops)) obs.

(* how far the model run gets: number of requests that pass the authenticator (reach a handler),
   number of 2xx answers, number of websocket attempts that reach the code exchange, number of joins *)
Definition reaches_handler (cfg : config) (s : st) (o : op) : bool :=
  match o with
  | OReq r =>
      match r_route r with
      | RNotFound | RBadMethod | ROpaque | RDocSpec | RDocUI | ROptionsStar => false
      | _ => match validate_header (clock s) (cfg_host cfg) (cfg_secret cfg) (r_cred r) with Principal _ => true | _ => false end
      end
  | OWs path (Some k) _ =>
      String.eqb (prefix_of_path (slashify path)) "session"
      && match lookup N.eqb k (codes s) with Some _ => true | None => false end
  | _ => false
  end.

Fixpoint count_reaching (cfg : config) (s : st) (ops : list op) : N :=
  match ops with
  | [] => 0
  | o :: r => (if reaches_handler cfg s o then 1 else 0) + count_reaching cfg (fst (step cfg s o)) r
  end.

Definition mismatch_list (cs : list case) : list N := mismatch_idx case_ok 0 cs.
