(* Correspondence checker for C08.
   CChan: a chanmap operation sequence run directly on the real chanmap.Store (with recover): per
     operation the result class and the sizes of the two maps and of the set of closed channels, and
     at the end (when nothing panicked) the full contents of both maps and the closed set.
   CScen: a fault scenario run against a real relay in a child process, abstracted to the event list
     the relay's goroutines saw; the observation is how the relay fared: 0 = every canary passed and
     the process was alive at the end, 1 = the process died, 2 = a canary failed (frozen), 3 = a
     handler panicked (recovered by net/http).
   CScenPop: the same for the scenario that holds more than a thousand connections at once, plus the number
     of connections of that topic in the relay's own listing at the end (= the model's membership).
   CApi: a history of access-API calls and websocket connects over a few bookings, with after every
     call its answer and the set of live connections the relay reports, and the same class. *)
From Relay Require Import Base.Prelude Base.AList Model.ChanMap Model.HubFaults.

Definition cres_eqb (a b : cres) : bool :=
  match a, b with
  | ROk, ROk | RErr, RErr | RPanicNilMap, RPanicNilMap | RPanicClose, RPanicClose => true
  | _, _ => false
  end.

Definition pair_eqb (a b : N * N) : bool := N.eqb (fst a) (fst b) && N.eqb (snd a) (snd b).

Definition dumpc_eqb (a b : N * option (list (N * N))) : bool :=
  N.eqb (fst a) (fst b) && option_eqb (list_eqb pair_eqb) (snd a) (snd b).

(* per-operation observation: result, #parents, #ParentByChild entries, #closed channels *)
Definition cobs := (cres * N * N * N)%type.

Fixpoint crun_obs (s : cm) (ops : list cop) : cm * list cobs :=
  match ops with
  | [] => (s, [])
  | o :: r =>
      let '(s1, x) := cstep s o in
      let ob := (x, N.of_nat (length (children s1)), N.of_nat (length (pbc s1)), N.of_nat (length (closedl s1))) in
      if is_panic x then (s1, [(x, 0, 0, 0)%N]) else let '(s2, xs) := crun_obs s1 r in (s2, ob :: xs)
  end.

Definition cobs_eqb (a b : cobs) : bool :=
  let '(x, p, q, c) := a in let '(x', p', q', c') := b in
  cres_eqb x x' && (is_panic x || (N.eqb p p' && N.eqb q q' && N.eqb c c')).

Definition class_of (o : outcome) : N :=
  match o with HOk _ => 0 | HPanic SHandler => 3 | HPanic _ => 1 | HStuck => 2 end.

Definition aout_eqb (a b : aout) : bool :=
  match a, b with AOk, AOk | ARefused, ARefused | AUnit, AUnit => true | _, _ => false end.

Definition aobs_eqb (a b : aout * list N) : bool := aout_eqb (fst a) (fst b) && list_eqb N.eqb (snd a) (snd b).

(* the observed list may be a prefix when the relay died on the way *)
Fixpoint prefix_eqb {A} (e : A -> A -> bool) (model obs : list A) : bool :=
  match obs, model with
  | [], _ => true
  | y :: obs', x :: model' => e x y && prefix_eqb e model' obs'
  | _ :: _, [] => false
  end.

Inductive case :=
| CChan (ops : list cop) (obs : list cobs)
        (final : option (list (N * option (list (N * N))) * list (N * N) * list N))
| CScen (evs : list ev) (cls : N)
| CScenPop (evs : list ev) (cls : N) (topic : N) (listed : N)   (* + how many connections of the crowded topic the relay lists at the end *)
| CApi (allow_empty : bool) (aevs : list aev) (obs : list (aout * list N)) (cls : N).

Definition case_ok (k : case) : bool :=
  match k with
  | CChan ops obs final =>
      let '(s, m) := crun_obs cm_init ops in
      list_eqb cobs_eqb m obs &&
      match final with
      | None => true
      | Some (dc, dp, dcl) =>
          list_eqb dumpc_eqb (dump_children s) dc && list_eqb pair_eqb (dump_pbc s) dp && list_eqb N.eqb (dump_closed s) dcl
      end
  | CScen evs cls => N.eqb (class_of (run hub_init evs)) cls
  | CScenPop evs cls topic listed =>
      match run hub_init evs with
      | HOk h => N.eqb cls 0 && N.eqb (N.of_nat (length (members_of topic h))) listed
      | o => N.eqb (class_of o) cls
      end
  | CApi ae aevs obs cls =>
      prefix_eqb aobs_eqb (lower_obs ae lite_init aevs) obs &&
      N.eqb (class_of (run hub_init (lower_all ae lite_init aevs))) cls &&
      (negb (N.eqb cls 0) || Nat.eqb (length obs) (length aevs))
  end.

Definition some_closed (h : hub) : bool :=
  existsb (fun kv => negb (c_open (snd kv))) (clients h) || negb (Nat.eqb (length (closedl (dcs h))) 0).

(* non-trivial: the chanmap run closes a channel or ends in a panic after at least two effective Adds;
   a scenario / API history makes the model evict or unregister a connection or close a deny channel *)
Definition case_nontrivial (k : case) : bool :=
  match k with
  | CChan ops _ _ =>
      let '(s, m) := crun_obs cm_init ops in
      (2 <=? length (filter (fun o => match o with Add p c ch => effective p c ch | _ => false end) ops))%nat &&
      (negb (Nat.eqb (length (closedl s)) 0) || existsb (fun ob => is_panic (fst (fst (fst ob)))) m)
  | CScen evs _ | CScenPop evs _ _ _ => match run hub_init evs with HOk h => some_closed h | _ => true end
  | CApi ae aevs _ _ => match run hub_init (lower_all ae lite_init aevs) with HOk h => some_closed h | _ => true end
  end.

Definition mismatches (cs : list case) : list N := mismatch_idx case_ok 0 cs.
Definition nontrivial (cs : list case) : list N := idx_where case_nontrivial cs.
