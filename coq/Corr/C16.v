(* Correspondence checker for C16.  A case is (history, one observation per executed operation,
   destinations that are up: they accept connections and keep them).
   Observation after an operation (taken when the real hub is idle and the connections have settled,
   at most 2 s): the hub's rule table, its client table, the clients registered with the messages
   hub (by destination URL), the destination URLs that have an open
   websocket connection at the recording servers (one entry per connection), and - for a broadcast -
   the destination URLs the tagged message arrived at.
   Projection: the model fixes tables exactly; connections and deliveries are compared as refinement -
   nothing may be open / arrive outside what the model allows, and what the model offers to a
   destination that is up must be there. *)
From Relay Require Import Base.Prelude Base.AList Model.Rwc.

(* the three tables, when they were read: rules (id, stream, destination; sorted by id), clients
   (id, destination), 10 * destination + stream of every client registered with the messages hub *)
(* on the assembled host (vw.Stream()) only the rule listing can be read: the other two are optional *)
Definition tables := (list (N * N * N) * option (list (N * N) * list N))%type.

Record obs := mkobs {
  o_tables : option tables;
  o_open : list N;
  o_recv : list N }.

(* the default id names r1, r2, .. are emitted by number alone: none of them is the reserved word *)
Definition rid_plain (i : N) : N := i.

Definition memN (x : N) (l : list N) : bool := existsb (N.eqb x) l.
Definition subsetN (a b : list N) : bool := forallb (fun x => memN x b) a.
Fixpoint nodupb (l : list N) : bool :=
  match l with [] => true | x :: r => negb (memN x r) && nodupb r end.

Definition rules_ok (s : st) (l : list (N * N * N)) : bool :=
  Nat.eqb (length l) (length (rules s)) && nodupb (map (fun e => fst (fst e)) l) &&
  forallb (fun e => let '(id, str, d) := e in
             match rlk id (rules s) with
             | Some r => N.eqb (rid r) id && N.eqb (rstream r) str && N.eqb (rdest r) d
             | None => false
             end) l.

Definition clients_ok (s : st) (l : list (N * N)) : bool :=
  Nat.eqb (length l) (length (clients s)) && nodupb (map fst l) &&
  forallb (fun e => match clk (fst e) (clients s) with
                    | Some c => N.eqb (rdest (crule c)) (snd e)
                    | None => false
                    end) l.

(* registered with the messages hub: the same (destination, stream) pairs, with the same multiplicity *)
Fixpoint remove1 (x : N) (l : list N) : option (list N) :=
  match l with
  | [] => None
  | y :: r => if N.eqb x y then Some r else match remove1 x r with Some r' => Some (y :: r') | None => None end
  end.
Fixpoint perm_eqb (a b : list N) : bool :=
  match a with
  | [] => match b with [] => true | _ => false end
  | x :: r => match remove1 x b with Some b' => perm_eqb r b' | None => false end
  end.
Definition members_ok (s : st) (l : list N) : bool :=
  perm_eqb l (map (fun c => 10 * rdest (crule c) + rstream (crule c))%N (members s)).

Definition live_dests (s : st) : list N := map (fun e => rdest (crule (snd e))) (clients s).

(* a as a multiset is contained in b *)
Fixpoint sub_multiset (a b : list N) : bool :=
  match a with
  | [] => true
  | x :: r => match remove1 x b with Some b' => sub_multiset r b' | None => false end
  end.

(* one entry per open connection: never more connections to a destination than live clients that
   name it (two rule ids may name the same one), and one for each live client of a destination that
   is up *)
Definition open_ok (s : st) (reliable : list N) (l : list N) : bool :=
  sub_multiset l (live_dests s) &&
  sub_multiset (filter (fun d => memN d reliable) (live_dests s)) l.

Definition recv_ok (out reliable recv : list N) : bool :=
  subsetN recv out && subsetN (filter (fun d => memN d reliable) out) recv.

Definition case := (list op * list (option obs) * list N)%type.

Definition tables_ok (s : st) (t : option tables) : bool :=
  match t with
  | None => true
  | Some (rs, Some (cs, ms)) => rules_ok s rs && clients_ok s cs && members_ok s ms
  | Some (rs, None) => rules_ok s rs
  end.

(* one entry per executed operation; None = nothing was observed after it (a wide table being filled) *)
Fixpoint walk (s : st) (ops : list op) (bs : list (option obs)) (reliable : list N) : bool :=
  match ops, bs with
  | o :: r, ob :: br =>
      let '(s1, _, out) := step s o in
      match ob with
      | None => true
      | Some b => tables_ok s1 (o_tables b) && open_ok s1 reliable (o_open b) && recv_ok out reliable (o_recv b)
      end && walk s1 r br reliable
  | _, [] => true
  | [], _ :: _ => false
  end.

Definition case_ok (c : case) : bool :=
  let '(ops, bs, reliable) := c in walk init ops bs reliable.

(* non-trivial: some client was cancelled (a rule replaced or deleted) and some broadcast was offered
   to a live client *)
Definition is_cancel (e : ev) : bool := match e with ECancel _ => true | _ => false end.
Definition is_enq (e : ev) : bool := match e with EEnq _ => true | _ => false end.
Definition case_nontrivial (c : case) : bool :=
  let '(ops, _, _) := c in
  existsb is_cancel (trace ops) && existsb is_enq (trace ops).

Definition mismatches (l : list case) : list N := mismatch_idx case_ok 0 l.
Definition nontrivial (l : list case) : list N := idx_where case_nontrivial l.
