(* Correspondence checker for C15: a case is (history, per-operation observations on the real
   agg.Hub, the hub's rule table after every operation that is not a broadcast, whether the hub
   goroutine died).  Observation of a broadcast = the sorted
   list of subscriber numbers whose channel the tagged message arrived on, once per copy; [] for other operations.
   It passes when the model of the repaired hub (fx = true) produces the same. *)
From Relay Require Import Base.Prelude Base.AList Model.Agg.

(* a client as the harness emits it: number, the bytes of its topic name, the number of that name in
   the harness's table of streams or of feeds; whether it is a stream is the model's decision *)
Definition cl (i : N) (name : list N) (n : N) : client := (i, topic_of_name (str name) n).

(* the default rule keys stream/s1, stream/s2, .. are emitted by number alone: none is the reserved word *)
Definition sid_plain (n : N) : N := n.

Fixpoint dedup (l : list N) : list N :=
  match l with
  | [] => []
  | x :: r => if existsb (N.eqb x) r then dedup r else x :: dedup r
  end.

(* one entry per copy delivered: a rule that names a feed twice delivers twice *)
Definition proj (out : list client) : list N := sortN (map fst out).

(* the rule table read after an operation (sorted by stream by the harness): same size as the
   model's table and every observed entry is in it (the model's keys are duplicate-free) *)
Definition listing_ok (s : st) (l : list (N * list N)) : bool :=
  Nat.eqb (length l) (length (rules s)) &&
  forallb (fun e => option_eqb (list_eqb N.eqb) (rlk (fst e) (rules s)) (Some (snd e))) l.

Definition is_bcast (o : op) : bool := match o with Bcast _ => true | _ => false end.

(* walk the history with the model; ls has one entry per executed operation: the table when it was read *)
Fixpoint listings_ok (s : st) (ops : list op) (ls : list (option (list (N * list N)))) : bool :=
  match ops, ls with
  | o :: r, l :: lr =>
      match step true s o with
      | Ok s1 _ => match l with Some l => listing_ok s1 l | None => true end && listings_ok s1 r lr
      | Panic => false
      end
  | _, [] => true
  | [], _ :: _ => false
  end.

Definition case := (list op * list (list N) * list (option (list (N * list N))) * bool)%type.

Definition case_ok (c : case) : bool :=
  let '(ops, obs, ls, died) := c in
  let '(outs, p) := run true init ops in
  Bool.eqb p died && list_eqb (list_eqb N.eqb) (map proj outs) obs && listings_ok init ops ls.

(* non-trivial: some broadcast reached a stream subscriber through a sub-subscription, and at least
   one sub-subscription was torn down during the history *)
Definition is_stream_client (c : client) : bool :=
  match snd c with TStream _ => true | TFeed _ => false end.

Definition case_nontrivial (c : case) : bool :=
  let '(ops, _, _, _) := c in
  existsb (existsb is_stream_client) (fst (run true init ops)) &&
  match final true ops with Some s => negb (N.eqb (N.of_nat (length (closed s))) 0) | None => false end.

Definition mismatches (l : list case) : list N := mismatch_idx case_ok 0 l.
Definition nontrivial (l : list case) : list N := idx_where case_nontrivial l.
