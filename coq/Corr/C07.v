(* Correspondence checker for C07: a case is (thread kinds, executed schedule, observation at
   quiescence on the real relay under the verifhook scheduler); it passes when the model, run
   on the same schedule, is quiescent and predicts the same observation. *)
From Relay Require Import Base.Prelude Model.RelaySys.

Inductive kind := KSession | KDeny | KAllow | KWs | KCrossbar | KLeave | KPre.

Definition kind_eqb (a b : kind) : bool :=
  match a, b with
  | KSession, KSession | KDeny, KDeny | KAllow, KAllow | KWs, KWs | KCrossbar, KCrossbar | KLeave, KLeave | KPre, KPre => true
  | _, _ => false
  end.

Record obs := mkobs {
  o_sess : N; o_deny : N; o_allow : N; o_denied : bool; o_allowed : bool;
  o_codeleft : bool; o_wslive : bool; o_newsess : N; o_rejoin : bool; o_prelive : bool }.

Definition case := (list kind * list kind * obs)%type.

Definition the_bid : N := 1.
Definition pre_code : N := 100.
Definition first_minted : N := 200.

(* kj = index of the connection that joined before the race (only when the leave actor takes part) *)
Definition thread_of (kj : nat) (k : kind) : thread :=
  match k with
  | KSession => TSession the_bid 0 0
  | KDeny => TDeny the_bid 600 0
  | KAllow => TAllow the_bid 0
  | KLeave => TLeave kj 0
  | KPre => TLeave kj 1          (* passive: the pre-joined connection just stays; a finished placeholder thread *)
  | _ => TWs pre_code 0 None
  end.

Fixpoint index_of (k : kind) (l : list kind) (i : nat) : option nat :=
  match l with [] => None | x :: r => if kind_eqb k x then Some i else index_of k r (S i) end.

Definition has_kind (k : kind) (l : list kind) : bool := existsb (kind_eqb k) l.

Definition init_of (ks : list kind) : sys :=
  let kj := length ks in
  let pre := has_kind KLeave ks || has_kind KPre ks in
  let s0 := init (map (thread_of kj) ks ++ (if pre then [TWs 101 3 (Some the_bid)] else []))
                 (if has_kind KWs ks then [(pre_code, the_bid)] else []) first_minted in
  if pre
  then mksys (deny s0) (allow s0) (codes s0) (nextc s0) [(kj, the_bid)] [] [(kj, the_bid)] [] [] (threads s0) (dexp s0)
  else s0.

(* strict run: every scheduled step must be enabled *)
Fixpoint run_strict (ks : list kind) (sched : list kind) (s : sys) : option sys :=
  match sched with
  | [] => Some s
  | k :: r =>
      let w := match k with KCrossbar => Some L | _ => option_map T (index_of k ks 0) end in
      match w with
      | None => None
      | Some w => match step s w with Some s' => run_strict ks r s' | None => None end
      end
  end.

Definition sess_status (s : sys) : N :=
  fold_right (fun t acc => match t with TSession _ _ st => st | _ => acc end) 0%N (threads s).

Definition predict (ks : list kind) (s : sys) : obs :=
  let denied := memN the_bid (deny s) in
  mkobs (if has_kind KSession ks then sess_status s else 0)
        (if has_kind KDeny ks then 204 else 0)
        (if has_kind KAllow ks then 204 else 0)
        denied
        (memN the_bid (allow s))
        (existsb (fun cb => N.leb first_minted (fst cb) && N.eqb (snd cb) the_bid) (codes s) && negb denied)
        (match index_of KWs ks 0 with Some k => live s k the_bid | None => false end)
        (if denied then 400 else 200)
        true
        ((has_kind KLeave ks || has_kind KPre ks) && live s (length ks) the_bid).

Definition obs_eqb (a b : obs) : bool :=
  N.eqb (o_sess a) (o_sess b) && N.eqb (o_deny a) (o_deny b) && N.eqb (o_allow a) (o_allow b) &&
  Bool.eqb (o_denied a) (o_denied b) && Bool.eqb (o_allowed a) (o_allowed b) &&
  Bool.eqb (o_codeleft a) (o_codeleft b) && Bool.eqb (o_wslive a) (o_wslive b) && N.eqb (o_newsess a) (o_newsess b) &&
  Bool.eqb (o_rejoin a) (o_rejoin b) && Bool.eqb (o_prelive a) (o_prelive b).

Definition case_ok (c : case) : bool :=
  let '(ks, sched, o) := c in
  match run_strict ks sched (init_of ks) with
  | None => false
  | Some s => quiescent s && obs_eqb (predict ks s) o
  end.

(* non-trivial: the schedule switches between actors at least twice *)
Fixpoint switches (l : list kind) : N :=
  match l with
  | a :: ((b :: _) as r) => (if kind_eqb a b then 0 else 1) + switches r
  | _ => 0
  end.
Definition case_nontrivial (c : case) : bool := let '(_, sched, _) := c in (2 <=? switches sched)%N.

Definition mismatches (cs : list case) : list N := mismatch_idx case_ok 0 cs.
Definition nontrivial (cs : list case) : list N := idx_where case_nontrivial cs.
