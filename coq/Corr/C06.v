(* Correspondence checker for C06: one case = one websocket accepted (or refused) on the real relay
   at a known instant, with what the harness then saw.  The admission instant is only known as a
   bracket [t_lo, t_hi] (before the dial / when the first relayed byte proved membership); a case
   whose bracket straddles a second boundary is ambiguous and passes (the harness counts and
   discards those).  Close times are compared one-sidedly early (-50 ms) and generously late
   (+500 ms on top of the model's firing instant, which itself lies in [E, E+1 s)). *)
From Relay Require Import Base.Prelude Model.Lifetime.
Open Scope Z_scope.

Record case := mkcase {
  t_lo : Z; t_hi : Z;            (* ns *)
  c_nbf : Z; c_exp : Z;          (* s *)
  c_others : bool;               (* audience / topic / deny / scope checks are satisfiable *)
  c_pongs : bool;                (* the client answers pings *)
  c_data : list Z;               (* ns: when messages were delivered TO this client (data writes) *)
  c_upongs : list Z;             (* ns: unsolicited pongs the client sent (one-way heartbeat) *)
  c_cpings : list Z;             (* ns: pings the client sent *)
  c_pongs_back : Z;              (* pongs the relay sent in answer to the client's pings *)
  c_cclose : option Z;           (* ns: the client sent a close frame (and kept the TCP connection open) *)
  c_evict : option Z;            (* ns: the hub evicted this client as a slow reader *)
  c_partner_closed : bool;       (* the partner (1 h token, possibly of the same booking) lost its connection during the watch *)
  watch_until : Z;               (* ns: the socket was watched until then *)
  c_last_from : Z;               (* ns: the partner last received a message FROM this client at (0 = never) *)
  c_last_to : Z;                 (* ns: this client last received a message at (0 = never) *)
  obs_accepted : bool;           (* membership observed (traffic relayed / listed in the status report) *)
  obs_closed : option Z }.       (* ns: server-side close observed at *)

Definition early_tol : Z := 50000000.
Definition late_tol : Z := 500000000.

(* the model's timeline for a client that answers every ping at once / never answers *)
Definition rounds_until (t h : Z) : nat := S (Z.to_nat ((h - t) / ping_period)).

(* data writes are merged into the ping/pong rounds by time *)
Fixpoint insert_ev (x : ev * Z) (l : list (ev * Z)) : list (ev * Z) :=
  match l with
  | [] => [x]
  | y :: r => if snd x <? snd y then x :: l else y :: insert_ev x r
  end.

Definition merge_in (e : ev) (times : list Z) (l : list (ev * Z)) : list (ev * Z) :=
  fold_right (fun d acc => insert_ev (e, d) acc) l times.

(* everything the harness saw this client do and receive, as one event list in time order *)
Definition timeline (t : Z) (c : case) (h : Z) : list (ev * Z) :=
  let n := rounds_until t h in
  let rounds := if c_pongs c then idle_rounds (t + ping_period) (repeat 0 n)
                else pings_only (t + ping_period) n in
  merge_in EDataOut (c_data c)
    (merge_in EPongUnsolicited (c_upongs c)
       (merge_in EClientPing (c_cpings c)
          (match c_evict c with Some x => insert_ev (EEvict, x) | None => fun l => l end
             (match c_cclose c with Some x => insert_ev (EClientClose, x) rounds | None => rounds end)))).

Definition predicted_close (t f : Z) (c : case) (h : Z) : option Z :=
  closed_at (run (start t f) (timeline t c h) h).

(* the behaviours the harness exercises on a client that answers pings (data both ways, unsolicited
   pongs, pings of its own, empty messages, stalls) must satisfy the hypothesis of
   C06_no_early_close, so that the theorem speaks about exactly these runs *)
Definition timely_ok (c : case) : bool :=
  let h := watch_until c + late_tol in
  match c_pongs c, c_cclose c, c_evict c with
  | true, None, None => timely (t_hi c + ping_period) None (timeline (t_hi c) c h ++ [(EDataIn, h)])
  | _, _, _ => true
  end.

(* every ping the client sent while the model has the connection open is answered with a pong
   (two may still be on their way when the observation ends) *)
Definition pong_ok (c : case) (f_lo : Z) : bool :=
  let h := watch_until c + late_tol in
  pongs_owed (start (t_lo c) f_lo) (timeline (t_lo c) c h) <=? c_pongs_back c + 2.

(* nothing is relayed to or from the connection after the model has it closed *)
Definition relay_ok (c : case) (f_hi : Z) : bool :=
  let h := watch_until c + late_tol in
  match predicted_close (t_hi c) f_hi c h with
  | Some b =>
      (* an evicted reader is out of the fan-out at once, but its own reader goes on relaying what it
         sends until the socket is closed: by the expiry, or when its blocked write gives up *)
      let from_bound := match c_evict c with Some x => Z.min f_hi (x + write_wait) | None => b end in
      (c_last_from c <=? from_bound + late_tol) && (c_last_to c <=? b + late_tol)
  | None => true
  end.

Definition close_ok (c : case) (f_lo f_hi : Z) : bool :=
  let h := watch_until c + late_tol in
  let p_lo := predicted_close (t_lo c) f_lo c h in
  let p_hi := predicted_close (t_hi c) f_hi c h in
  match obs_closed c, p_lo, p_hi with
  | Some o, Some a, Some b => (a - early_tol <=? o) && (o <=? b + late_tol)
  | Some o, _, _ => false                          (* closed although the model keeps it open *)
  | None, _, Some b => watch_until c <=? b + late_tol   (* still open: only fine if it was not due yet *)
  | None, _, None => true
  end.

Definition case_ok (c : case) : bool :=
  let tok := mktoken (c_nbf c) (c_exp c) in
  if negb (floor_s (t_lo c) =? floor_s (t_hi c)) then true
  else match ws_accept (t_lo c) tok (c_others c), ws_accept (t_hi c) tok (c_others c) with
       | Refused _, Refused _ => negb (obs_accepted c) && (c_last_from c =? 0) && (c_last_to c =? 0)
       | Accepted f_lo, Accepted f_hi => obs_accepted c && close_ok c f_lo f_hi && relay_ok c f_hi && timely_ok c && pong_ok c f_lo && negb (c_partner_closed c)
       | _, _ => false
       end.

(* non-trivial: unambiguous and past the time guards (the model accepts the connection) *)
Definition case_nontrivial (c : case) : bool :=
  (floor_s (t_lo c) =? floor_s (t_hi c)) &&
  match ws_accept (t_lo c) (mktoken (c_nbf c) (c_exp c)) (c_others c) with Accepted _ => true | _ => false end.

Definition mismatches (cs : list case) : list N := mismatch_idx case_ok 0 cs.
Definition nontrivial (cs : list case) : list N := idx_where case_nontrivial cs.
