(* Correspondence checker for C13: a case is a history of connects / refusals / ends as the harness
   drove it on the real relay, with the residue it measured afterwards (after the settling bound):
   goroutines by entry function, the topics in the status report, chanmap entries, server-side
   sockets - all as differences to the idle baseline taken before the history.  The model runs the
   same history, lets every connection's goroutines take their next steps, and must predict the
   same residue.  Sockets are compared as a range: at least the live connections, at most live +
   refused-after-upgrade (the garbage collector may already have finalised some of the latter). *)
From Relay Require Import Base.Prelude Base.AList Model.Resources.

Record obs := mkobs {
  o_readers : N; o_writers : N; o_watchers : N;
  o_timers : N;           (* live expiry timers: the watchers where only goroutines are looked at, the heap profile's
                             count of live timers armed by connection code in the heap scenario *)
  o_topics : list N;      (* topic of every member the status report lists (beyond the baseline) *)
  o_chan : N;
  o_parents : N;          (* booking ids the chanmap store keeps a child map for (every booking id of a history is
                             used by one connection, so no more than the entries) *)
  o_socks : N }.

Definition case := (list event * obs)%type.

Definition case_ok (c : case) : bool :=
  let '(h, o) := c in
  let s := settle_all (run h) in
  (count_res Reader s =? o_readers o)%N && (count_res Writer s =? o_writers o)%N &&
  (count_res Watcher s =? o_watchers o)%N && (count_res Timer s =? o_timers o)%N &&
  list_eqb N.eqb (report_topics s) (sortN (o_topics o)) &&
  (count_res ChanEntry s =? o_chan o)%N && (o_parents o <=? count_res ChanEntry s)%N &&
  (o_socks o <=? count_res Sock s)%N && (live (run h) <=? o_socks o)%N.

(* non-trivial: at least one accepted connection has ended in the history *)
Definition case_nontrivial (c : case) : bool :=
  (1 <=? count_true (fun kv => joined (snd kv) && ended (snd kv)) (run (fst c)))%N.

Definition mismatches (cs : list case) : list N := mismatch_idx case_ok 0 cs.
Definition nontrivial (cs : list case) : list N := idx_where case_nontrivial cs.
