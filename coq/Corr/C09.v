(* Correspondence for C09.  A case is a history plus the positions of its test requests:
     lists:      admin deny A; admin allow B; list denied; list allowed; X; list denied; list allowed
     bystander:  good session; websocket join; status; X = deny by a principal without the scope; status;
                 genuine admin deny; status          (whole relay, wall clock)
     histories:  steps on the admin / status endpoints drawn from a small pool of bearers (admin, stats, both,
                 look-alike; long-lived, expiring, not yet valid - the same strings presented again after clock
                 moves) and of booking ids / expiries, with list probes after each step
   every output must be the model's (projection in Access_common.v).
   Non-trivial: at least one test request gets past the router and the authenticator, so that it is judged by
   a handler's scope check and not earlier. *)
From Relay Require Import Base.Prelude Model.DenyStore Model.Token Model.Access Corr.Access_common.

Definition case := (Access_common.case * list N)%type.
Definition case_ok (c : case) : bool := Access_common.case_ok (fst c).

Fixpoint reach_flags (cfg : config) (s : st) (ops : list op) : list bool :=
  match ops with
  | [] => []
  | o :: r => reaches_handler cfg s o :: reach_flags cfg (fst (step cfg s o)) r
  end.

Definition case_nontrivial (c : case) : bool :=
  let '((cfg, t, ops, _), idx) := c in
  existsb (fun i => nth (N.to_nat i) (reach_flags cfg (init t) ops) false) idx.

Definition mismatches (cs : list case) : list N := mismatch_idx case_ok 0 cs.
Definition nontrivial (cs : list case) : list N := idx_where case_nontrivial cs.
