(* Correspondence for C09.  Two shapes of case (see harness/cmd/c09):
     lists:      admin deny A; admin allow B; list denied; list allowed; X; list denied; list allowed
     bystander:  good session; websocket join; status; X = deny by a principal without the scope; status;
                 genuine admin deny; status
   every output must be the model's (projection in Access_common.v).
   Non-trivial: every request of the case gets past router and authenticator and every websocket attempt
   reaches the code exchange - in particular X is judged by a handler's scope check, not earlier. *)
From Relay Require Import Base.Prelude Model.DenyStore Model.Token Model.Access Corr.Access_common.

Definition case := Access_common.case.
Definition case_ok : case -> bool := Access_common.case_ok.

Definition nacts (ops : list op) : N :=
  count_true (fun o => match o with OReq _ | OWs _ _ _ => true | _ => false end) ops.

Definition case_nontrivial (c : case) : bool :=
  let '(cfg, t, ops, _) := c in (count_reaching cfg (init t) ops =? nacts ops)%N.

Definition mismatches (cs : list case) : list N := mismatch_idx case_ok 0 cs.
Definition nontrivial (cs : list case) : list N := idx_where case_nontrivial cs.
