(* Shared imports and small helpers used by every model. Stdlib only. *)
From Coq Require Export String Ascii.
From Coq Require Export List Bool Arith ZArith NArith Lia.
From Coq Require Export ZifyBool ZifyNat ZifyN.
Export ListNotations.

(* Strings arrive from the harness as byte lists, so that any byte is representable. *)
Definition str (l : list N) : string :=
  fold_right (fun b s => String (ascii_of_N b) s) EmptyString l.

Fixpoint bytes_of (s : string) : list N :=
  match s with EmptyString => [] | String a r => N_of_ascii a :: bytes_of r end.

Lemma str_bytes_of s : str (bytes_of s) = s.
Proof.
  induction s as [|a s IH]; cbn; [reflexivity|].
  rewrite ascii_N_embedding. fold (str (bytes_of s)). rewrite IH. reflexivity.
Qed.

(* index of mismatching cases, used by every correspondence file *)
Fixpoint mismatch_idx {A} (ok : A -> bool) (i : N) (l : list A) : list N :=
  match l with
  | [] => []
  | x :: r => if ok x then mismatch_idx ok (N.succ i) r else i :: mismatch_idx ok (N.succ i) r
  end.

Definition count_true {A} (p : A -> bool) (l : list A) : N :=
  N.of_nat (length (filter p l)).

(* indices of the cases satisfying p (used to report which cases are non-trivial) *)
Definition idx_where {A} (p : A -> bool) (l : list A) : list N :=
  mismatch_idx (fun x => negb (p x)) 0%N l.

(* insertion sort on N and on strings-as-byte-lists for canonical comparison of unordered outputs *)
Fixpoint insert_sorted (x : N) (l : list N) : list N :=
  match l with
  | [] => [x]
  | y :: r => if N.leb x y then x :: l else y :: insert_sorted x r
  end.
Definition sortN (l : list N) : list N := fold_right insert_sorted [] l.

Fixpoint list_eqb {A} (e : A -> A -> bool) (a b : list A) : bool :=
  match a, b with
  | [], [] => true
  | x :: a', y :: b' => e x y && list_eqb e a' b'
  | _, _ => false
  end.

Lemma list_eqb_eq {A} (e : A -> A -> bool) (He : forall x y, e x y = true <-> x = y) a b :
  list_eqb e a b = true <-> a = b.
Proof.
  revert b; induction a as [|x a IH]; intros [|y b]; cbn; try (split; congruence).
  rewrite andb_true_iff, He, IH. split; [intros [-> ->]; reflexivity| intros H; inversion H; auto].
Qed.

Definition option_eqb {A} (e : A -> A -> bool) (a b : option A) : bool :=
  match a, b with
  | None, None => true
  | Some x, Some y => e x y
  | _, _ => false
  end.
