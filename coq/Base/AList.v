(* Association-list maps with a boolean key equality: the model of a Go map.
   Extensional reading: two maps are the same when [lookup] agrees on every key;
   Go's unordered iteration is modelled by comparing key lists as sets / sorted lists. *)
From Relay Require Import Base.Prelude.

Section AList.
  Context {K V : Type}.
  Variable eqb : K -> K -> bool.
  Hypothesis eqb_spec : forall a b, eqb a b = true <-> a = b.

  Definition alist := list (K * V).

  Fixpoint lookup (k : K) (m : alist) : option V :=
    match m with
    | [] => None
    | (k', v) :: r => if eqb k k' then Some v else lookup k r
    end.

  Fixpoint remove (k : K) (m : alist) : alist :=
    match m with
    | [] => []
    | (k', v) :: r => if eqb k k' then remove k r else (k', v) :: remove k r
    end.

  Definition insert (k : K) (v : V) (m : alist) : alist := (k, v) :: remove k m.

  Definition keys (m : alist) : list K := map fst m.

  Definition mem (k : K) (m : alist) : bool :=
    match lookup k m with Some _ => true | None => false end.

  Definition filterv (p : K -> V -> bool) (m : alist) : alist :=
    filter (fun kv => p (fst kv) (snd kv)) m.

  Lemma eqb_refl k : eqb k k = true.
  Proof. apply eqb_spec; reflexivity. Qed.

  Lemma eqb_neq a b : a <> b -> eqb a b = false.
  Proof. intros H; destruct (eqb a b) eqn:E; [apply eqb_spec in E; contradiction|reflexivity]. Qed.

  Lemma eqb_false a b : eqb a b = false -> a <> b.
  Proof. intros E H; subst. rewrite eqb_refl in E; discriminate. Qed.

  Lemma lookup_remove_eq k m : lookup k (remove k m) = None.
  Proof.
    induction m as [|[k' v] r IH]; cbn; [reflexivity|].
    destruct (eqb k k') eqn:E; [exact IH|cbn; rewrite E; exact IH].
  Qed.

  Lemma lookup_remove_neq k k' m : k <> k' -> lookup k (remove k' m) = lookup k m.
  Proof.
    intros Hn; induction m as [|[k2 v] r IH]; cbn; [reflexivity|].
    destruct (eqb k' k2) eqn:E.
    - apply eqb_spec in E; subst k2. rewrite (eqb_neq _ _ Hn). exact IH.
    - cbn. destruct (eqb k k2); [reflexivity|exact IH].
  Qed.

  Lemma lookup_insert_eq k v m : lookup k (insert k v m) = Some v.
  Proof. unfold insert; cbn. rewrite eqb_refl; reflexivity. Qed.

  Lemma lookup_insert_neq k k' v m : k <> k' -> lookup k (insert k' v m) = lookup k m.
  Proof. intros Hn; unfold insert; cbn. rewrite (eqb_neq _ _ Hn). apply lookup_remove_neq; exact Hn. Qed.

  Lemma in_keys_lookup k m : In k (keys m) <-> lookup k m <> None.
  Proof.
    induction m as [|[k' v] r IH]; cbn.
    - split; [intros []|intros H; apply H; reflexivity].
    - destruct (eqb k k') eqn:E.
      + apply eqb_spec in E; subst. split; [intros _; discriminate|intros _; left; reflexivity].
      + apply eqb_false in E. rewrite <- IH. split; [intros [H|H]; [congruence|exact H]|intros H; right; exact H].
  Qed.

  Lemma mem_true_iff k m : mem k m = true <-> In k (keys m).
  Proof.
    rewrite in_keys_lookup. unfold mem. destruct (lookup k m); split; intros H; try reflexivity; try congruence; try discriminate.
  Qed.

  Lemma keys_remove_subset k k' m : In k (keys (remove k' m)) -> In k (keys m).
  Proof.
    induction m as [|[k2 v] r IH]; cbn; [intros []|].
    destruct (eqb k' k2); cbn; intros H; [right; apply IH; exact H|].
    destruct H as [H|H]; [left; exact H|right; apply IH; exact H].
  Qed.

  Lemma not_in_keys_remove k m : ~ In k (keys (remove k m)).
  Proof. rewrite in_keys_lookup, lookup_remove_eq. intros H; apply H; reflexivity. Qed.

  Lemma nodup_remove k m : NoDup (keys m) -> NoDup (keys (remove k m)).
  Proof.
    induction m as [|[k2 v] r IH]; cbn; intros H; [constructor|].
    inversion H as [|? ? Hn Hr]; subst.
    destruct (eqb k k2); [apply IH; exact Hr|].
    cbn; constructor; [intros Hin; apply Hn; eapply keys_remove_subset; exact Hin|apply IH; exact Hr].
  Qed.

  Lemma nodup_insert k v m : NoDup (keys m) -> NoDup (keys (insert k v m)).
  Proof.
    intros H; unfold insert; cbn. constructor; [apply not_in_keys_remove|apply nodup_remove; exact H].
  Qed.

  Lemma lookup_filterv p k m :
    NoDup (keys m) ->
    lookup k (filterv p m) = match lookup k m with Some v => if p k v then Some v else None | None => None end.
  Proof.
    unfold filterv.
    induction m as [|[k2 v] r IH]; cbn [filter lookup keys map fst snd]; intros Hnd; [reflexivity|].
    inversion Hnd as [|? ? Hn Hr]; subst.
    specialize (IH Hr).
    destruct (eqb k k2) eqn:E.
    - apply eqb_spec in E; subst k2.
      destruct (p k v) eqn:P; cbn [lookup]; [rewrite eqb_refl; reflexivity|].
      rewrite IH.
      destruct (lookup k r) eqn:L; [|reflexivity].
      exfalso; apply Hn. apply in_keys_lookup. congruence.
    - destruct (p k2 v); cbn [lookup]; [rewrite E|]; exact IH.
  Qed.

  Lemma keys_filterv_subset p k m : In k (keys (filterv p m)) -> In k (keys m).
  Proof.
    unfold filterv, keys. rewrite !in_map_iff. intros [x [Hx Hin]]. apply filter_In in Hin.
    exists x; split; [exact Hx|apply Hin].
  Qed.

  Lemma nodup_filterv p m : NoDup (keys m) -> NoDup (keys (filterv p m)).
  Proof.
    induction m as [|[k2 v] r IH]; intros H; [constructor|].
    inversion H as [|? ? Hn Hr]; subst.
    unfold filterv; cbn [filter fst snd]. fold (filterv p r).
    destruct (p k2 v); [|apply IH; exact Hr].
    cbn [keys map fst]. fold (keys (filterv p r)).
    constructor; [|apply IH; exact Hr].
    intros Hin; apply Hn. eapply keys_filterv_subset; exact Hin.
  Qed.

End AList.

Arguments alist : clear implicits.
