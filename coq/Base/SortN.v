(* sortN is canonical: two duplicate-free lists with the same members sort to the same list. *)
From Relay Require Import Base.Prelude.
From Coq Require Import Permutation Sorted.

Lemma insert_sorted_perm x l : Permutation (insert_sorted x l) (x :: l).
Proof.
  induction l as [|y r IH]; cbn; [apply Permutation_refl|].
  destruct (N.leb x y); [apply Permutation_refl|].
  eapply Permutation_trans; [apply perm_skip; exact IH|apply perm_swap].
Qed.

Lemma sortN_perm l : Permutation (sortN l) l.
Proof.
  induction l as [|x r IH]; cbn; [constructor|].
  eapply Permutation_trans; [apply insert_sorted_perm|apply perm_skip; exact IH].
Qed.

Lemma insert_sorted_sorted x l : StronglySorted N.le l -> StronglySorted N.le (insert_sorted x l).
Proof.
  induction l as [|y r IH]; cbn; intros H.
  - constructor; constructor.
  - inversion H as [|? ? Hr Hall]; subst.
    destruct (N.leb_spec x y) as [Hle|Hgt].
    + constructor; [exact H|]. constructor; [exact Hle|].
      eapply Forall_impl; [|exact Hall]. intros a Ha; lia.
    + constructor; [apply IH; exact Hr|].
      eapply Permutation_Forall; [apply Permutation_sym; apply insert_sorted_perm|].
      constructor; [lia|exact Hall].
Qed.

Lemma sortN_sorted l : StronglySorted N.le (sortN l).
Proof.
  induction l as [|x r IH]; cbn; [constructor|apply insert_sorted_sorted; exact IH].
Qed.

Lemma sorted_perm_eq l : forall l', StronglySorted N.le l -> StronglySorted N.le l' -> Permutation l l' -> l = l'.
Proof.
  induction l as [|x r IH]; intros l' Hs Hs' Hp.
  - apply Permutation_nil in Hp; subst; reflexivity.
  - destruct l' as [|y r']; [apply Permutation_sym, Permutation_nil in Hp; discriminate|].
    inversion Hs as [|? ? Hr Hall]; subst. inversion Hs' as [|? ? Hr' Hall']; subst.
    assert (Hxy : x = y).
    { assert (Hx : In x (y :: r')) by (eapply Permutation_in; [exact Hp|left; reflexivity]).
      assert (Hy : In y (x :: r)) by (eapply Permutation_in; [apply Permutation_sym; exact Hp|left; reflexivity]).
      destruct Hx as [Hx|Hx]; [auto|]. destruct Hy as [Hy|Hy]; [auto|].
      rewrite Forall_forall in Hall, Hall'. specialize (Hall _ Hy). specialize (Hall' _ Hx). lia. }
    subst y. f_equal. apply IH; [exact Hr|exact Hr'|]. eapply Permutation_cons_inv; exact Hp.
Qed.

Lemma sortN_set_eq l l' :
  NoDup l -> NoDup l' -> (forall x, In x l <-> In x l') -> sortN l = sortN l'.
Proof.
  intros Hn Hn' Hiff. apply sorted_perm_eq; try apply sortN_sorted.
  eapply Permutation_trans; [apply sortN_perm|].
  eapply Permutation_trans; [|apply Permutation_sym; apply sortN_perm].
  apply NoDup_Permutation; assumption.
Qed.

Lemma in_sortN x l : In x (sortN l) <-> In x l.
Proof.
  split; intros H; [eapply Permutation_in; [apply sortN_perm|exact H]|eapply Permutation_in; [apply Permutation_sym; apply sortN_perm|exact H]].
Qed.

Lemma nodup_sortN l : NoDup l -> NoDup (sortN l).
Proof. intros H. eapply Permutation_NoDup; [apply Permutation_sym; apply sortN_perm|exact H]. Qed.
