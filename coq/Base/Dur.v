(* time.Duration.String and time.ParseDuration (go1.23), written out over byte lists with integer
   arithmetic, plus strings.ToLower / strings.TrimSpace as pkg/status applies them before parsing.
   Durations are Z nanoseconds; uint64 intermediates are non-negative Z, the one place where Go's
   uint64 addition can wrap (d += v) is written with [mod 2^64].
   Where ParseDuration uses float64 (fraction * unit / scale) this file uses the exact integer
   quotient: the two agree whenever 10^(number of fraction digits) divides the unit or the unit is
   at most 10^9 and the fraction has at most as many digits as the unit has zeros -- which covers
   every string Duration.String can produce (see Proofs/Dur_proofs.v) and every string the
   harness feeds to both.  Definitions only. *)
From Relay Require Import Base.Prelude Base.Json.
Local Open Scope Z_scope.

Definition digit (x : Z) : N := Z.to_N (48 + x).

(* ---------------------------------------------------------------- Duration.String *)

Fixpoint fmt_int_aux (fuel : nat) (v : Z) (acc : bytes) : bytes :=
  match fuel with
  | O => acc
  | S k => if v =? 0 then acc else fmt_int_aux k (v / 10) (digit (v mod 10) :: acc)
  end.

(* fmtInt *)
Definition fmt_int (v : Z) : bytes := if v =? 0 then [48%N] else fmt_int_aux 20 v [].

(* fmtFrac's loop: digits of v mod 10^prec without trailing zeros, and v / 10^prec *)
Fixpoint fmt_frac_aux (prec : nat) (v : Z) (pr : bool) (acc : bytes) : bytes * Z * bool :=
  match prec with
  | O => (acc, v, pr)
  | S k =>
    let dg := v mod 10 in
    let pr' := pr || negb (dg =? 0) in
    fmt_frac_aux k (v / 10) pr' (if pr' then digit dg :: acc else acc)
  end.

Definition fmt_frac (v : Z) (prec : nat) : bytes * Z :=
  let '(acc, v', pr) := fmt_frac_aux prec v false [] in
  ((if pr then 46%N :: acc else acc), v').

Definition unit_ns : bytes := [110; 115]%N.
Definition unit_us : bytes := [117; 115]%N.
Definition unit_micro : bytes := [194; 181; 115]%N.      (* U+00B5 s *)
Definition unit_mu : bytes := [206; 188; 115]%N.         (* U+03BC s *)
Definition unit_ms : bytes := [109; 115]%N.
Definition unit_s : bytes := [115]%N.
Definition unit_m : bytes := [109]%N.
Definition unit_h : bytes := [104]%N.

(* Duration.format for the magnitude u *)
Definition dur_body (u : Z) : bytes :=
  if u <? 1000000000 then
    if u =? 0 then [48; 115]%N
    else if u <? 1000 then let '(fr, w) := fmt_frac u 0 in fmt_int w ++ fr ++ unit_ns
    else if u <? 1000000 then let '(fr, w) := fmt_frac u 3 in fmt_int w ++ fr ++ unit_micro
    else let '(fr, w) := fmt_frac u 6 in fmt_int w ++ fr ++ unit_ms
  else
    let '(fr, s) := fmt_frac u 9 in
    let secs := fmt_int (s mod 60) ++ fr ++ unit_s in
    let m := s / 60 in
    if 0 <? m then
      let mins := fmt_int (m mod 60) ++ unit_m in
      let h := m / 60 in
      (if 0 <? h then fmt_int h ++ unit_h else []) ++ mins ++ secs
    else secs.

Definition duration_bytes (d : Z) : bytes :=
  if d <? 0 then 45%N :: dur_body (- d) else dur_body d.

Definition duration_string (d : Z) : string := str (duration_bytes d).

(* ---------------------------------------------------------------- ParseDuration *)

Definition two63 : Z := 9223372036854775808.
Definition two64 : Z := 18446744073709551616.

Fixpoint leading_int (s : bytes) (x : Z) : option (Z * bytes) :=
  match s with
  | c :: r =>
    if is_digit c then
      if two63 / 10 <? x then None
      else let x' := x * 10 + (Z.of_N c - 48) in
           if two63 <? x' then None else leading_int r x'
    else Some (x, s)
  | [] => Some (x, [])
  end.

Fixpoint leading_frac (s : bytes) (x scale : Z) (ovf : bool) : Z * Z * bytes :=
  match s with
  | c :: r =>
    if is_digit c then
      if ovf then leading_frac r x scale true
      else if (two63 - 1) / 10 <? x then leading_frac r x scale true
      else let y := x * 10 + (Z.of_N c - 48) in
           if two63 <? y then leading_frac r x scale true
           else leading_frac r y (scale * 10) false
    else (x, scale, s)
  | [] => (x, scale, [])
  end.

Fixpoint unit_span (s : bytes) : bytes * bytes :=
  match s with
  | c :: r => if (c =? 46)%N || is_digit c then ([], s) else let '(u, r') := unit_span r in (c :: u, r')
  | [] => ([], [])
  end.

Definition unit_of (u : bytes) : option Z :=
  if bytes_eqb u unit_ns then Some 1
  else if bytes_eqb u unit_us then Some 1000
  else if bytes_eqb u unit_micro then Some 1000
  else if bytes_eqb u unit_mu then Some 1000
  else if bytes_eqb u unit_ms then Some 1000000
  else if bytes_eqb u unit_s then Some 1000000000
  else if bytes_eqb u unit_m then Some 60000000000
  else if bytes_eqb u unit_h then Some 3600000000000
  else None.

Fixpoint parse_loop (fuel : nat) (s : bytes) (d : Z) : option Z :=
  match s with
  | [] => Some d
  | c :: _ =>
    match fuel with
    | O => None
    | S k =>
      if negb ((c =? 46)%N || is_digit c) then None
      else match leading_int s 0 with
      | None => None
      | Some (v, s1) =>
        let pre := negb (Nat.eqb (length s1) (length s)) in
        let '(f, scale, s2, post) :=
            match s1 with
            | 46%N :: r => let '(f, sc, s2) := leading_frac r 0 1 false in
                           (f, sc, s2, negb (Nat.eqb (length s2) (length r)))
            | _ => (0, 1, s1, false)
            end in
        if negb pre && negb post then None
        else let '(u, s3) := unit_span s2 in
        match u with
        | [] => None
        | _ =>
          match unit_of u with
          | None => None
          | Some unit =>
            if two63 / unit <? v then None
            else let v1 := v * unit in
                 let v2 := if 0 <? f then v1 + (f * unit) / scale else v1 in
                 if (0 <? f) && (two63 <? v2) then None
                 else let d' := (d + v2) mod two64 in
                      if two63 <? d' then None else parse_loop k s3 d'
          end
        end
      end
    end
  end.

Definition parse_duration_bytes (s : bytes) : option Z :=
  let '(neg, s1) := match s with
                    | 45%N :: r => (true, r)
                    | 43%N :: r => (false, r)
                    | _ => (false, s)
                    end in
  match s1 with
  | [] => None
  | [48%N] => Some 0
  | _ =>
    match parse_loop (length s1) s1 0 with
    | None => None
    | Some d => if neg then Some (- d) else if two63 - 1 <? d then None else Some d
    end
  end.

Definition parse_duration (s : string) : option Z := parse_duration_bytes (bytes_of s).

(* ---------------------------------------------------------------- ToLower, TrimSpace *)

(* strings.ToLower: ASCII letters directly; other runes through unicode.ToLower, which is an
   oracle [lr] recorded from the real library by the harness (an invalid byte ranges as U+FFFD
   and is written back as the three bytes of U+FFFD, as strings.Map does) *)
Definition lower_rune (lr : N -> N) (r : N) : N :=
  if (r <? 128)%N then (if in_range 65 90 r then r + 32 else r)%N else lr r.

Definition to_lower (lr : N -> N) (s : bytes) : bytes :=
  flat_map (fun u => enc_rune (lower_rune lr (fst u))) (runes s).

(* unicode.IsSpace *)
Definition is_space (r : N) : bool :=
  (in_range 9 13 r || (r =? 32) || (r =? 133) || (r =? 160) || (r =? 5760) || in_range 8192 8202 r
   || (r =? 8232) || (r =? 8233) || (r =? 8239) || (r =? 8287) || (r =? 12288))%N.

Fixpoint drop_space (us : list (N * bool)) : list (N * bool) :=
  match us with
  | (r, ok) :: t => if ok && is_space r then drop_space t else us
  | [] => []
  end.

(* strings.TrimSpace on a valid UTF-8 string (what the JSON decoder delivers); an invalid byte is
   not a space and is kept as it is only in the sense of its replacement rune - callers apply
   this after [to_lower], whose output is always valid UTF-8 *)
Definition trim_space (s : bytes) : bytes :=
  flat_map (fun u => utf8_enc (fst u)) (rev (drop_space (rev (drop_space (runes s))))).

(* what pkg/status does with the "last" string: lower, trim, "never"/"" become 999h *)
Definition lit_never : bytes := [110; 101; 118; 101; 114]%N.
Definition dur_999h : Z := 999 * 3600000000000.

Definition read_last (lr : N -> N) (s : bytes) : option (Z * bool) :=
  let t := trim_space (to_lower lr s) in
  if bytes_eqb t lit_never || bytes_eqb t [] then Some (dur_999h, true)
  else match parse_duration_bytes t with
       | Some d => Some (d, false)
       | None => None
       end.
