(* JSON over byte lists, following Go's encoding/json (go1.23): UTF-8 decoding as utf8.DecodeRune,
   string quoting as appendString, a compact printer, and a parser that accepts exactly what
   json.Valid accepts (incl. the 10000 nesting limit) and unquotes strings as unquoteBytes does.
   Bytes are [N] (the harness emits any byte); a "byte" above 255 is simply an invalid UTF-8 byte.
   Definitions only; the lemmas are in Proofs/Json_proofs.v. *)
From Relay Require Import Base.Prelude.
Local Open Scope N_scope.

Definition bytes := list N.

Fixpoint bytes_eqb (a b : bytes) : bool :=
  match a, b with
  | [], [] => true
  | x :: a', y :: b' => (x =? y) && bytes_eqb a' b'
  | _, _ => false
  end.

(* ---------------------------------------------------------------- UTF-8 *)

Definition in_range (lo hi b : N) : bool := (lo <=? b) && (b <=? hi).
Definition cont (b : N) : bool := in_range 128 191 b.

(* utf8.DecodeRune: (rune, valid, rest); an invalid or truncated sequence yields U+FFFD and
   consumes ONE byte *)
Definition utf8_dec (s : bytes) : option (N * bool * bytes) :=
  match s with
  | [] => None
  | b0 :: r0 =>
    let bad := Some (65533, false, r0) in
    if b0 <? 128 then Some (b0, true, r0)
    else if in_range 194 223 b0 then
      match r0 with
      | b1 :: r1 => if cont b1 then Some ((b0 - 192) * 64 + (b1 - 128), true, r1) else bad
      | _ => bad
      end
    else if in_range 224 239 b0 then
      match r0 with
      | b1 :: b2 :: r2 =>
        if in_range (if b0 =? 224 then 160 else 128) (if b0 =? 237 then 159 else 191) b1 && cont b2
        then Some (((b0 - 224) * 64 + (b1 - 128)) * 64 + (b2 - 128), true, r2) else bad
      | _ => bad
      end
    else if in_range 240 244 b0 then
      match r0 with
      | b1 :: b2 :: b3 :: r3 =>
        if in_range (if b0 =? 240 then 144 else 128) (if b0 =? 244 then 143 else 191) b1 && cont b2 && cont b3
        then Some ((((b0 - 240) * 64 + (b1 - 128)) * 64 + (b2 - 128)) * 64 + (b3 - 128), true, r3) else bad
      | _ => bad
      end
    else bad
  end.

(* the string as Go ranges over it: (rune, valid) units *)
Fixpoint runes_f (fuel : nat) (s : bytes) : list (N * bool) :=
  match fuel with
  | O => []
  | S k => match utf8_dec s with
           | None => []
           | Some (r, ok, rest) => (r, ok) :: runes_f k rest
           end
  end.
Definition runes (s : bytes) : list (N * bool) := runes_f (length s) s.

Definition is_scalar (r : N) : bool := (r <? 55296) || (in_range 57344 1114111 r).

Definition utf8_enc (r : N) : bytes :=
  if r <? 128 then [r]
  else if r <? 2048 then [192 + r / 64; 128 + r mod 64]
  else if r <? 65536 then [224 + r / 4096; 128 + (r / 64) mod 64; 128 + r mod 64]
  else [240 + r / 262144; 128 + (r / 4096) mod 64; 128 + (r / 64) mod 64; 128 + r mod 64].

(* utf8.EncodeRune: surrogates and out-of-range runes are written as U+FFFD *)
Definition enc_rune (r : N) : bytes := if is_scalar r then utf8_enc r else utf8_enc 65533.

Definition valid_utf8 (s : bytes) : bool := forallb snd (runes s).

(* what a Go string becomes when every invalid byte is replaced by U+FFFD *)
Definition sanitize (s : bytes) : bytes := flat_map (fun u => utf8_enc (fst u)) (runes s).

(* ---------------------------------------------------------------- values *)

Inductive json :=
| JNull
| JBool (b : bool)
| JNum (lex : bytes)                 (* the number's lexeme *)
| JStr (raw s : bytes)               (* raw: the literal between the quotes; s: its unquoted value *)
| JArr (l : list json)
| JObj (l : list (bytes * json)).    (* members in order, duplicates kept; keys unquoted *)

(* ---------------------------------------------------------------- printing (json.Marshal) *)

Definition hexd (n : N) : N := if n <? 10 then 48 + n else 87 + n.

Definition quote_unit (html : bool) (u : N * bool) : bytes :=
  let '(r, ok) := u in
  if negb ok then [92; 117; 102; 102; 102; 100]
  else if r <? 128 then
    if r =? 34 then [92; 34]
    else if r =? 92 then [92; 92]
    else if r =? 8 then [92; 98]
    else if r =? 12 then [92; 102]
    else if r =? 10 then [92; 110]
    else if r =? 13 then [92; 114]
    else if r =? 9 then [92; 116]
    else if (r <? 32) || (html && ((r =? 60) || (r =? 62) || (r =? 38)))
         then [92; 117; 48; 48; hexd (r / 16); hexd (r mod 16)]
    else [r]
  else if r =? 8232 then [92; 117; 50; 48; 50; 56]
  else if r =? 8233 then [92; 117; 50; 48; 50; 57]
  else utf8_enc r.

Definition quote_body (html : bool) (s : bytes) : bytes := flat_map (quote_unit html) (runes s).
Definition quote (html : bool) (s : bytes) : bytes := 34 :: quote_body html s ++ [34].

Definition lit_null : bytes := [110; 117; 108; 108].
Definition lit_true : bytes := [116; 114; 117; 101].
Definition lit_false : bytes := [102; 97; 108; 115; 101].

Fixpoint print (html : bool) (j : json) : bytes :=
  match j with
  | JNull => lit_null
  | JBool true => lit_true
  | JBool false => lit_false
  | JNum lex => lex
  | JStr _ s => quote html s
  | JArr l =>
    91 :: (fix elems (l : list json) : bytes :=
             match l with
             | [] => [93]
             | x :: r => print html x ++ match r with [] => [93] | _ => 44 :: elems r end
             end) l
  | JObj l =>
    123 :: (fix members (l : list (bytes * json)) : bytes :=
              match l with
              | [] => [125]
              | (k, x) :: r => quote html k ++ 58 :: print html x ++ match r with [] => [125] | _ => 44 :: members r end
              end) l
  end.

(* ---------------------------------------------------------------- parsing (json.Valid + unquote) *)

Definition is_ws (c : N) : bool := (c =? 32) || (c =? 9) || (c =? 10) || (c =? 13).
Definition is_digit (c : N) : bool := in_range 48 57 c.

Fixpoint skip_ws (s : bytes) : bytes :=
  match s with
  | c :: r => if is_ws c then skip_ws r else s
  | [] => []
  end.

Fixpoint span_digits (s : bytes) : bytes * bytes :=
  match s with
  | c :: r => if is_digit c then let '(d, r') := span_digits r in (c :: d, r') else ([], s)
  | [] => ([], [])
  end.

(* the JSON number grammar: optional minus, 0 or a non-zero digit and digits, optional fraction with
   at least one digit, optional exponent with at least one digit; returns (lexeme, rest) *)
Definition parse_number (s : bytes) : option (bytes * bytes) :=
  let '(sg, s1) := match s with 45 :: r => ([45], r) | _ => ([], s) end in
  match s1 with
  | [] => None
  | c :: r =>
    let ip := if c =? 48 then Some ([48], r)
              else if in_range 49 57 c then let '(d, r') := span_digits r in Some (c :: d, r')
              else None in
    match ip with
    | None => None
    | Some (i, s2) =>
      let fp := match s2 with
                | 46 :: r2 => let '(d, r') := span_digits r2 in
                              match d with [] => None | _ => Some (46 :: d, r') end
                | _ => Some ([], s2)
                end in
      match fp with
      | None => None
      | Some (f, s3) =>
        let ep := match s3 with
                  | e :: r3 =>
                    if (e =? 101) || (e =? 69) then
                      let '(es, r4) := match r3 with
                                       | 43 :: r' => ([43], r')
                                       | 45 :: r' => ([45], r')
                                       | _ => ([], r3)
                                       end in
                      let '(d, r') := span_digits r4 in
                      match d with [] => None | _ => Some (e :: es ++ d, r') end
                    else Some ([], s3)
                  | [] => Some ([], s3)
                  end in
        match ep with
        | None => None
        | Some (x, s4) => Some (sg ++ i ++ f ++ x, s4)
        end
      end
    end
  end.

Definition hexval (c : N) : option N :=
  if in_range 48 57 c then Some (c - 48)
  else if in_range 97 102 c then Some (c - 87)
  else if in_range 65 70 c then Some (c - 55)
  else None.

(* getu4 on the four characters after backslash-u *)
Definition hex4 (s : bytes) : option (N * bytes) :=
  match s with
  | a :: b :: c :: d :: r =>
    match hexval a, hexval b, hexval c, hexval d with
    | Some x, Some y, Some z, Some w => Some (((x * 16 + y) * 16 + z) * 16 + w, r)
    | _, _, _, _ => None
    end
  | _ => None
  end.

Definition is_surrogate (r : N) : bool := in_range 55296 57343 r.

(* the body of a string literal after the opening quote: (unquoted value, literal length, rest after the closing quote) *)
Fixpoint str_body (fuel : nat) (s : bytes) (acc : bytes) (n : nat) : option (bytes * nat * bytes) :=
  match fuel with
  | O => None
  | S k =>
    match s with
    | [] => None
    | c :: r =>
      if c =? 34 then Some (rev acc, n, r)
      else if c <? 32 then None
      else if c =? 92 then
        match r with
        | [] => None
        | e :: r1 =>
          let simple (x : N) := str_body k r1 (x :: acc) (n + 2)%nat in
          if e =? 34 then simple 34
          else if e =? 92 then simple 92
          else if e =? 47 then simple 47
          else if e =? 98 then simple 8
          else if e =? 102 then simple 12
          else if e =? 110 then simple 10
          else if e =? 114 then simple 13
          else if e =? 116 then simple 9
          else if e =? 117 then
            match hex4 r1 with
            | None => None
            | Some (rr, r2) =>
              if is_surrogate rr then
                let pair := match r2 with
                            | 92 :: 117 :: r3 =>
                              match hex4 r3 with
                              | Some (rr1, r4) =>
                                if in_range 55296 56319 rr && in_range 56320 57343 rr1
                                then Some ((rr - 55296) * 1024 + (rr1 - 56320) + 65536, r4) else None
                              | None => None
                              end
                            | _ => None
                            end in
                match pair with
                | Some (d, r4) => str_body k r4 (rev (utf8_enc d) ++ acc) (n + 12)%nat
                | None => str_body k r2 (rev (utf8_enc 65533) ++ acc) (n + 6)%nat
                end
              else str_body k r2 (rev (utf8_enc rr) ++ acc) (n + 6)%nat
            end
          else None
        end
      else if c <? 128 then str_body k r (c :: acc) (n + 1)%nat
      else
        match utf8_dec s with
        | Some (rr, _, rest) => str_body k rest (rev (utf8_enc rr) ++ acc) (n + (length s - length rest))%nat
        | None => None
        end
    end
  end.

(* s starts just after the opening quote: (raw literal, value, rest) *)
Definition parse_string (s : bytes) : option (bytes * bytes * bytes) :=
  match str_body (length s) s [] 0 with
  | Some (v, n, rest) => Some (firstn n s, v, rest)
  | None => None
  end.

Fixpoint strip_prefix (p s : bytes) : option bytes :=
  match p, s with
  | [], _ => Some s
  | x :: p', y :: s' => if x =? y then strip_prefix p' s' else None
  | _, [] => None
  end.

Definition max_depth : N := 10000.

Fixpoint parse_value (fuel : nat) (depth : N) (s : bytes) : option (json * bytes) :=
  match fuel with
  | O => None
  | S k =>
    match skip_ws s with
    | [] => None
    | c :: r =>
      if c =? 123 then
        if max_depth <? depth + 1 then None
        else match skip_ws r with
             | 125 :: r' => Some (JObj [], r')
             | _ => match parse_members k (depth + 1) r [] with
                    | Some (l, r') => Some (JObj l, r')
                    | None => None
                    end
             end
      else if c =? 91 then
        if max_depth <? depth + 1 then None
        else match skip_ws r with
             | 93 :: r' => Some (JArr [], r')
             | _ => match parse_elems k (depth + 1) r [] with
                    | Some (l, r') => Some (JArr l, r')
                    | None => None
                    end
             end
      else if c =? 34 then
        match parse_string r with
        | Some (raw, v, r') => Some (JStr raw v, r')
        | None => None
        end
      else if c =? 116 then match strip_prefix lit_true (c :: r) with Some r' => Some (JBool true, r') | None => None end
      else if c =? 102 then match strip_prefix lit_false (c :: r) with Some r' => Some (JBool false, r') | None => None end
      else if c =? 110 then match strip_prefix lit_null (c :: r) with Some r' => Some (JNull, r') | None => None end
      else match parse_number (c :: r) with
           | Some (lex, r') => Some (JNum lex, r')
           | None => None
           end
    end
  end
with parse_elems (fuel : nat) (depth : N) (s : bytes) (acc : list json) : option (list json * bytes) :=
  match fuel with
  | O => None
  | S k =>
    match parse_value k depth s with
    | None => None
    | Some (x, r) =>
      match skip_ws r with
      | 44 :: r' => parse_elems k depth r' (x :: acc)
      | 93 :: r' => Some (rev (x :: acc), r')
      | _ => None
      end
    end
  end
with parse_members (fuel : nat) (depth : N) (s : bytes) (acc : list (bytes * json)) : option (list (bytes * json) * bytes) :=
  match fuel with
  | O => None
  | S k =>
    match skip_ws s with
    | 34 :: r0 =>
      match parse_string r0 with
      | None => None
      | Some (_, key, r1) =>
        match skip_ws r1 with
        | 58 :: r2 =>
          match parse_value k depth r2 with
          | None => None
          | Some (x, r3) =>
            match skip_ws r3 with
            | 44 :: r' => parse_members k depth r' ((key, x) :: acc)
            | 125 :: r' => Some (rev ((key, x) :: acc), r')
            | _ => None
            end
          end
        | _ => None
        end
      end
    | _ => None
    end
  end.

(* a whole document: one value, then only white space *)
Definition parse (s : bytes) : option json :=
  match parse_value (S (length s)) 0 s with
  | Some (j, r) => match skip_ws r with [] => Some j | _ => None end
  | None => None
  end.

Definition json_wf (s : bytes) : bool := match parse s with Some _ => true | None => false end.
Definition json_wf_str (s : string) : bool := json_wf (bytes_of s).

(* ---------------------------------------------------------------- what printing preserves *)

(* a lexeme the printer may emit for a number: exactly one JSON number *)
Definition num_ok (lex : bytes) : bool :=
  match parse_number lex with
  | Some (l, []) => bytes_eqb l lex
  | _ => false
  end.

Fixpoint printable (j : json) : bool :=
  match j with
  | JNum lex => num_ok lex
  | JArr l => forallb printable l
  | JObj l => forallb (fun kv => printable (snd kv)) l
  | _ => true
  end.

(* nesting depth as Go's scanner counts it *)
Fixpoint jdepth (j : json) : N :=
  match j with
  | JArr l => 1 + fold_right (fun x a => N.max (jdepth x) a) 0 l
  | JObj l => 1 + fold_right (fun kv a => N.max (jdepth (snd kv)) a) 0 l
  | _ => 0
  end.

(* what reading back the printed value yields: invalid UTF-8 replaced by U+FFFD, raw = the literal *)
Fixpoint canon (html : bool) (j : json) : json :=
  match j with
  | JStr _ s => JStr (quote_body html s) (sanitize s)
  | JArr l => JArr (map (canon html) l)
  | JObj l => JObj (map (fun kv => (sanitize (fst kv), canon html (snd kv))) l)
  | _ => j
  end.
