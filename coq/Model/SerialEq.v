(* Value-level model for C12's "equivalent to some serial use": objects protected by one lock each, threads that
   perform a list of operations, every operation being ONE critical section on ONE lock
        Acq m ; <the body: a deterministic update of m's object, returning a result> ; Rel m
   - exactly what the generated obligation [single_section] + the guard table certify for the exported methods of
   CodeStore, deny.Store and chanmap.Store. Any schedule; Acq m is enabled iff nobody holds m; the body is applied
   at some later step of the same thread, the release at a still later one.  Definitions only.

   The state carries two ghost logs that no step ever reads: [acqs], the calls in the order of their Acq steps, and
   [hist], the calls with the result they returned, in the order the bodies were applied. *)
From Relay Require Import Base.Prelude.

Section SerialEq.
  Context {Lk Op St Res : Type}.
  Variable lk_eqb : Lk -> Lk -> bool.
  (* the sequential semantics of one operation on the object of lock m: new state and result *)
  Variable upd : Lk -> Op -> St -> St * Res.

  Inductive phase := Idle | Acquired | Applied.

  (* an operation occurrence: thread, position in that thread's program, lock, operation *)
  Record call := mkcall { c_tid : nat; c_idx : nat; c_lock : Lk; c_op : Op }.

  Definition thread := (phase * nat * list (Lk * Op))%type.

  Record state := mkstate {
    st : Lk -> St;                     (* the object of every lock *)
    thr : list thread;
    acqs : list call;                  (* ghost: order of the Acq steps *)
    hist : list (call * Res)           (* ghost: order of the bodies, with the results returned *)
  }.

  Definition set (s : Lk -> St) (m : Lk) (v : St) : Lk -> St := fun m' => if lk_eqb m' m then v else s m'.

  Definition holdsb (m : Lk) (t : thread) : bool :=
    match t with
    | (Idle, _, _) => false
    | (_, _, (m', _) :: _) => lk_eqb m' m
    | (_, _, []) => false
    end.

  Definition free (m : Lk) (ts : list thread) : bool := forallb (fun t => negb (holdsb m t)) ts.

  Fixpoint replace {A} (l : list A) (i : nat) (x : A) : list A :=
    match l, i with
    | [], _ => []
    | _ :: r, O => x :: r
    | y :: r, S i' => y :: replace r i' x
    end.

  (* one step of thread i (None = thread i cannot move now) *)
  Definition stepf (s : state) (i : nat) : option state :=
    match nth_error (thr s) i with
    | None => None
    | Some (ph, k, todo) =>
        match todo with
        | [] => None
        | (m, o) :: r =>
            match ph with
            | Idle =>
                if free m (thr s)
                then Some (mkstate (st s) (replace (thr s) i (Acquired, k, todo)) (acqs s ++ [mkcall i k m o]) (hist s))
                else None
            | Acquired =>
                Some (mkstate (set (st s) m (fst (upd m o (st s m)))) (replace (thr s) i (Applied, k, todo)) (acqs s)
                              (hist s ++ [(mkcall i k m o, snd (upd m o (st s m)))]))
            | Applied =>
                Some (mkstate (st s) (replace (thr s) i (Idle, S k, r)) (acqs s) (hist s))
            end
        end
    end.

  (* a schedule is any list of thread indices; it is an execution when every pick can move *)
  Fixpoint run (sched : list nat) (s : state) : option state :=
    match sched with
    | [] => Some s
    | i :: r => match stepf s i with Some s' => run r s' | None => None end
    end.

  Definition init (progs : list (list (Lk * Op))) (s0 : Lk -> St) : state :=
    mkstate s0 (map (fun p => (Idle, 0, p)) progs) [] [].

  Definition finished (s : state) : bool :=
    forallb (fun t => match t with (Idle, _, []) => true | _ => false end) (thr s).

  (* the sequential execution of a list of calls, one at a time *)
  Definition serial_step (acc : (Lk -> St) * list (call * Res)) (c : call) : (Lk -> St) * list (call * Res) :=
    (set (fst acc) (c_lock c) (fst (upd (c_lock c) (c_op c) (fst acc (c_lock c)))),
     snd acc ++ [(c, snd (upd (c_lock c) (c_op c) (fst acc (c_lock c))))]).

  Definition serial (l : list call) (s0 : Lk -> St) : (Lk -> St) * list (call * Res) :=
    fold_left serial_step l (s0, []).

  Definition on_lock (m : Lk) (l : list call) : list call := filter (fun c => lk_eqb (c_lock c) m) l.
  Definition ret_on (m : Lk) (l : list (call * Res)) : list (call * Res) :=
    filter (fun x => lk_eqb (c_lock (fst x)) m) l.
  Definition by_thread (i : nat) (l : list call) : list call := filter (fun c => Nat.eqb (c_tid c) i) l.

  (* the calls of thread i's program, numbered from k *)
  Fixpoint mkcalls (i k : nat) (p : list (Lk * Op)) : list call :=
    match p with [] => [] | (m, o) :: r => mkcall i k m o :: mkcalls i (S k) r end.

  (* the calls that have acquired their lock but whose body has not been applied yet *)
  Fixpoint pendcalls (m : Lk) (i0 : nat) (ts : list thread) : list call :=
    match ts with
    | [] => []
    | t :: r =>
        (match t with
         | (Acquired, k, (m', o) :: _) => if lk_eqb m' m then [mkcall i0 k m' o] else []
         | _ => []
         end) ++ pendcalls m (S i0) r
    end.
End SerialEq.
