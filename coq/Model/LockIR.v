(* Lock IR for C12: what translator/lock regenerates from the Go source on every run, the static
   lock-discipline checkers that are evaluated on it by vm_compute, and the interleaving semantics the
   generic theorems (Proofs/LockIR_proofs.v) are about.  Definitions only, no proofs.

   A function body is a tree over
     Skip | Seq | Choice | Loop | Acq m mode | Rel m | Rd f | Wr f | Block ch | Return
   (if/switch/select -> Choice, for/range -> Loop, Lock/RLock -> Acq, Unlock/RUnlock -> Rel, a use of a
   guarded field -> Rd/Wr, a channel send/receive that can block -> Block, defer and "caller holds the lock"
   helpers already desugared / inlined by the translator).

   Everything is generic in the type of locks [L] and of fields [F]:
   * the generated program uses SYNTACTIC names: a lock is (receiver/prefix expression, mutex) e.g.
     ("client.stats.tx", "Frames.mu"), a field is (prefix, field) e.g. ("client.stats.tx", "Frames.last");
   * a running thread uses RUNTIME objects: (object id, mutex) / (object id, field), obtained from the
     syntactic body by an injective instantiation of the prefixes ([inst]).  *)
From Relay Require Import Base.Prelude.

Inductive mode := Sh | Ex.

Definition mode_eqb (a b : mode) : bool :=
  match a, b with Sh, Sh | Ex, Ex => true | _, _ => false end.

Inductive stmt (L F : Type) : Type :=
| Skip
| Seq (a b : stmt L F)
| Choice (a b : stmt L F)
| Loop (body : stmt L F)
| Acq (m : L) (md : mode)
| Rel (m : L)
| Rd (f : F)
| Wr (f : F)
| Block (ch : string)
| Return.
Arguments Skip {L F}.
Arguments Seq {L F} a b.
Arguments Choice {L F} a b.
Arguments Loop {L F} body.
Arguments Acq {L F} m md.
Arguments Rel {L F} m.
Arguments Rd {L F} f.
Arguments Wr {L F} f.
Arguments Block {L F} ch.
Arguments Return {L F}.

(* renaming of locks and fields (used to instantiate syntactic prefixes with runtime objects) *)
Fixpoint smap {L F L' F'} (fl : L -> L') (ff : F -> F') (s : stmt L F) : stmt L' F' :=
  match s with
  | Skip => Skip
  | Seq a b => Seq (smap fl ff a) (smap fl ff b)
  | Choice a b => Choice (smap fl ff a) (smap fl ff b)
  | Loop b => Loop (smap fl ff b)
  | Acq m md => Acq (fl m) md
  | Rel m => Rel (fl m)
  | Rd f => Rd (ff f)
  | Wr f => Wr (ff f)
  | Block c => Block c
  | Return => Return
  end.

(* ------------------------------------------------------------------------------------------ *)
Section Static.
  Context {L F : Type}.
  Variable leqb : L -> L -> bool.
  Variable guard : F -> L.          (* which lock protects a field *)
  Variable rank : L -> nat.         (* lock order: a nested acquisition must go strictly up *)
  (* which extra disciplines the checker enforces on top of lock-protected access:
     nb = no blocking channel operation while a lock is held;  ord = nested acquisitions follow [rank] *)
  Variable nb ord : bool.

  Definition lockset := list (L * mode).

  Fixpoint held (m : L) (ls : lockset) : option mode :=
    match ls with [] => None | (m', md) :: r => if leqb m m' then Some md else held m r end.

  Fixpoint drop (m : L) (ls : lockset) : lockset :=
    match ls with [] => [] | (m', md) :: r => if leqb m m' then drop m r else (m', md) :: drop m r end.

  Fixpoint lockset_eqb (a b : lockset) : bool :=
    match a, b with
    | [], [] => true
    | (m, md) :: a', (m', md') :: b' => leqb m m' && mode_eqb md md' && lockset_eqb a' b'
    | _, _ => false
    end.

  (* every lock already held ranks strictly below m *)
  Definition above (m : L) (ls : lockset) : bool :=
    forallb (fun e => Nat.ltb (rank (fst e)) (rank m)) ls.

  Definition is_nil {A} (l : list A) : bool := match l with [] => true | _ => false end.

  (* Lockset dataflow. None = rejected; Some None = every path returns;
     Some (Some ls') = may fall through holding ls'. *)
  Fixpoint check (ls : lockset) (s : stmt L F) : option (option lockset) :=
    match s with
    | Skip => Some (Some ls)
    | Seq a b => match check ls a with
                 | None => None
                 | Some None => Some None
                 | Some (Some ls') => check ls' b
                 end
    | Choice a b => match check ls a, check ls b with
                    | Some None, r => r
                    | r, Some None => r
                    | Some (Some l1), Some (Some l2) => if lockset_eqb l1 l2 then Some (Some l1) else None
                    | _, _ => None
                    end
    | Loop body => match check ls body with
                   | Some None => Some (Some ls)
                   | Some (Some l1) => if lockset_eqb l1 ls then Some (Some ls) else None
                   | None => None
                   end
    | Acq m md => match held m ls with
                  | None => if negb ord || above m ls then Some (Some ((m, md) :: ls)) else None
                  | Some _ => None
                  end
    | Rel m => match held m ls with Some _ => Some (Some (drop m ls)) | None => None end
    | Rd f => match held (guard f) ls with Some _ => Some (Some ls) | None => None end
    | Wr f => match held (guard f) ls with Some Ex => Some (Some ls) | _ => None end
    | Block _ => if negb nb || is_nil ls then Some (Some ls) else None
    | Return => match ls with [] => Some None | _ => None end
    end.

  Definition check_fn (s : stmt L F) : bool :=
    match check [] s with Some None => true | Some (Some []) => true | _ => false end.

  (* checking a continuation (the dynamic state of a thread is a lockset and a list of statements) *)
  Fixpoint check_cont (ls : lockset) (k : list (stmt L F)) : bool :=
    match k with
    | [] => is_nil ls
    | s :: k' => match check ls s with
                 | None => false
                 | Some None => true
                 | Some (Some ls') => check_cont ls' k'
                 end
    end.

  (* ---- single critical section: phase 0 = before, 1 = inside (holding exactly [cur]), 2 = after.
     Accesses only in phase 1 and only to fields of the section's lock; one Acq, one Rel. *)
  Inductive phase := Before | Inside (m : L) | After.
  Definition phase_eqb (a b : phase) : bool :=
    match a, b with
    | Before, Before | After, After => true
    | Inside m, Inside m' => leqb m m'
    | _, _ => false
    end.

  Fixpoint sec (ph : phase) (s : stmt L F) : option (option phase) :=
    match s with
    | Skip => Some (Some ph)
    | Seq a b => match sec ph a with
                 | None => None
                 | Some None => Some None
                 | Some (Some ph') => sec ph' b
                 end
    | Choice a b => match sec ph a, sec ph b with
                    | Some None, r => r
                    | r, Some None => r
                    | Some (Some p1), Some (Some p2) => if phase_eqb p1 p2 then Some (Some p1) else None
                    | _, _ => None
                    end
    | Loop body => match sec ph body with
                   | Some None => Some (Some ph)
                   | Some (Some p1) => if phase_eqb p1 ph then Some (Some ph) else None
                   | None => None
                   end
    | Acq m _ => match ph with Before => Some (Some (Inside m)) | _ => None end
    | Rel m => match ph with Inside m' => if leqb m m' then Some (Some After) else None | _ => None end
    | Rd f | Wr f => match ph with Inside m => if leqb (guard f) m then Some (Some ph) else None | _ => None end
    | Block _ => Some (Some ph)
    | Return => match ph with Inside _ => None | _ => Some None end
    end.

  Definition single_section (s : stmt L F) : bool :=
    match sec Before s with
    | Some None | Some (Some Before) | Some (Some After) => true
    | _ => false
    end.

  Fixpoint sec_cont (ph : phase) (k : list (stmt L F)) : bool :=
    match k with
    | [] => match ph with Inside _ => false | _ => true end
    | s :: k' => match sec ph s with
                 | None => false
                 | Some None => true
                 | Some (Some ph') => sec_cont ph' k'
                 end
    end.
End Static.

(* ------------------------------------------------------------------------------------------ *)
(* Interleaving semantics: a pool of threads, one thread steps at a time. *)
Section Dynamic.
  Context {L F : Type}.
  Variable leqb : L -> L -> bool.
  (* A thread may at any moment switch to other code, provided that code is acceptable from the locks it
     holds ([jump_ok], instantiated with the static checker by the theorems). This covers what the tree-shaped
     IR does not say by itself: a loop variable that denotes another object in the next iteration
     (re-instantiation of the prefixes not currently locked), a call, the next request served by the same
     goroutine. *)
  Variable jump_ok : list (L * mode) -> list (stmt L F) -> Prop.

  Definition thread := (@lockset L * list (stmt L F))%type.
  Definition pool := list thread.

  Fixpoint upd (p : pool) (i : nat) (t : thread) : pool :=
    match p, i with
    | [], _ => []
    | _ :: r, O => t :: r
    | x :: r, S i' => x :: upd r i' t
    end.

  Definition free (m : L) (p : pool) : Prop :=
    forall j t, nth_error p j = Some t -> held leqb m (fst t) = None.
  Definition no_ex (m : L) (p : pool) : Prop :=
    forall j t, nth_error p j = Some t -> held leqb m (fst t) <> Some Ex.

  (* what a step does, for the trace-level statements *)
  Inductive event :=
  | ETau | EJump | EAcq (m : L) (md : mode) | ERel (m : L) | ERd (f : F) | EWr (f : F) | EBlock (ch : string) | ERet.

  Inductive tstep (p : pool) : thread -> event -> thread -> Prop :=
  | TSkip ls k : tstep p (ls, Skip :: k) ETau (ls, k)
  | TSeq ls a b k : tstep p (ls, Seq a b :: k) ETau (ls, a :: b :: k)
  | TChoiceL ls a b k : tstep p (ls, Choice a b :: k) ETau (ls, a :: k)
  | TChoiceR ls a b k : tstep p (ls, Choice a b :: k) ETau (ls, b :: k)
  | TLoopExit ls b k : tstep p (ls, Loop b :: k) ETau (ls, k)
  | TLoopIter ls b k : tstep p (ls, Loop b :: k) ETau (ls, b :: Loop b :: k)
  | TAcqEx ls m k : free m p -> tstep p (ls, Acq m Ex :: k) (EAcq m Ex) ((m, Ex) :: ls, k)
  | TAcqSh ls m k : no_ex m p -> held leqb m ls = None ->
                    tstep p (ls, Acq m Sh :: k) (EAcq m Sh) ((m, Sh) :: ls, k)
  | TRel ls m k : tstep p (ls, Rel m :: k) (ERel m) (drop leqb m ls, k)
  | TRd ls f k : tstep p (ls, Rd f :: k) (ERd f) (ls, k)
  | TWr ls f k : tstep p (ls, Wr f :: k) (EWr f) (ls, k)
  | TBlock ls c k : tstep p (ls, Block c :: k) (EBlock c) (ls, k)
  | TRet ls k : tstep p (ls, Return :: k) ERet (ls, [])
  | TJump ls k k' : jump_ok ls k' -> tstep p (ls, k) EJump (ls, k').

  Inductive step : pool -> nat -> event -> pool -> Prop :=
  | Step p i t e t' : nth_error p i = Some t -> tstep p t e t' -> step p i e (upd p i t').

  (* executions with their trace of (thread, event) *)
  Inductive exec : pool -> list (nat * event) -> pool -> Prop :=
  | exec_nil p : exec p [] p
  | exec_cons p i e q tr r : step p i e q -> exec q tr r -> exec p ((i, e) :: tr) r.

  Definition steps (p q : pool) : Prop := exists tr, exec p tr q.

  (* thread t is about to read (w=false) / write (w=true) field f *)
  Definition at_access (t : thread) (f : F) (w : bool) : Prop :=
    match snd t with
    | Rd f' :: _ => f' = f /\ w = false
    | Wr f' :: _ => f' = f /\ w = true
    | _ => False
    end.

  Definition at_block (t : thread) : Prop :=
    match snd t with Block _ :: _ => True | _ => False end.

  Definition at_acq (t : thread) (m : L) : Prop :=
    match snd t with Acq m' _ :: _ => m' = m | _ => False end.

  (* a data race: two distinct threads at conflicting accesses of the same field *)
  Definition race (p : pool) : Prop :=
    exists i j t u f wt wu, i <> j /\ nth_error p i = Some t /\ nth_error p j = Some u /\
      at_access t f wt /\ at_access u f wu /\ (wt = true \/ wu = true).

  (* thread i waits for a lock that thread j holds *)
  Definition waits_for (p : pool) (i j : nat) : Prop :=
    exists t u m, nth_error p i = Some t /\ nth_error p j = Some u /\
      at_acq t m /\ held leqb m (fst u) <> None.
End Dynamic.

(* ------------------------------------------------------------------------------------------ *)
(* The concrete instance used for the relay. *)

Definition sname := (string * string)%type.        (* (prefix expression, mutex or field name) *)
Definition oname := (N * string)%type.             (* (runtime object, mutex or field name) *)
Definition sstmt := stmt sname sname.
Definition ostmt := stmt oname oname.

Definition sname_eqb (a b : sname) : bool := String.eqb (fst a) (fst b) && String.eqb (snd a) (snd b).
Definition oname_eqb (a b : oname) : bool := N.eqb (fst a) (fst b) && String.eqb (snd a) (snd b).

Fixpoint slookup {A} (k : string) (t : list (string * A)) (d : A) : A :=
  match t with [] => d | (k', v) :: r => if String.eqb k k' then v else slookup k r d end.

Local Open Scope string_scope.

(* THE SPECIFICATION of C12: which mutex guards which field (DESIGN.md section 4, C12). A field that is
   not listed maps to the mutex "?" which nothing ever acquires, so an access to it is rejected. The translator
   uses exactly that for the publish-once rule: an assignment to a field of a crossbar.Client that other goroutines
   can already reach is emitted as [Wr (prefix, "Client.<field> (after publication)")]. *)
Definition guard_table : list (string * string) :=
  [ ("CodeStore.store", "CodeStore.Mutex");
    ("deny.Store.AllowList", "deny.Store.Mutex");
    ("deny.Store.DenyList", "deny.Store.Mutex");
    ("chanmap.Store.ChildrenByParent", "chanmap.Store.Mutex");
    ("chanmap.Store.ParentByChild", "chanmap.Store.Mutex");
    ("Hub.clients", "Hub.mu");
    ("Frames.last", "Frames.mu");
    ("Frames.size", "Frames.mu");
    ("Frames.ns", "Frames.mu") ].

(* lock order: Hub.mu < Frames.mu; locks of equal rank are never nested *)
Definition rank_table : list (string * nat) :=
  [ ("CodeStore.Mutex", 1); ("deny.Store.Mutex", 1); ("chanmap.Store.Mutex", 1); ("Hub.mu", 1); ("Frames.mu", 2) ].

Definition guard_of {A} (f : A * string) : A * string := (fst f, slookup (snd f) guard_table "?").
Definition rank_of {A} (m : A * string) : nat := slookup (snd m) rank_table 0.

(* instantiation of the syntactic prefixes of one body with runtime objects *)
Definition inst (rho : string -> N) : sstmt -> ostmt :=
  smap (fun m => (rho (fst m), snd m)) (fun f => (rho (fst f), snd f)).

Definition program := list (string * sstmt).

(* the three per-run obligations on the generated program *)
Definition well_locked_fn (s : sstmt) : bool := check_fn sname_eqb guard_of rank_of false false s.
Definition no_block_fn (s : sstmt) : bool := check_fn sname_eqb guard_of rank_of true false s.
Definition lock_order_fn (s : sstmt) : bool := check_fn sname_eqb guard_of rank_of false true s.
Definition strict_fn (s : sstmt) : bool := check_fn sname_eqb guard_of rank_of true true s.
Definition single_section_fn (s : sstmt) : bool := single_section sname_eqb guard_of s.

Definition all_fns (c : sstmt -> bool) (p : program) : bool := forallb (fun e => c (snd e)) p.
Definition failing (c : sstmt -> bool) (p : program) : list string :=
  map fst (filter (fun e => negb (c (snd e))) p).

Definition well_locked_prog : program -> bool := all_fns well_locked_fn.
Definition no_block_while_locked : program -> bool := all_fns no_block_fn.
Definition lock_order_ok : program -> bool := all_fns lock_order_fn.
Definition strict_prog : program -> bool := all_fns strict_fn.
(* the exported store methods, by name, are each one critical section *)
Definition single_section_prog (names : list string) (p : program) : bool :=
  forallb (fun e => if existsb (String.eqb (fst e)) names then single_section_fn (snd e) else true) p
  && forallb (fun n => existsb (fun e => String.eqb n (fst e)) p) names.

(* ---- channels that connect goroutines: the capacity each is created with (regenerated from every make(chan ...) of
   the translated packages) against what the design relies on. A RENDEZVOUS channel (capacity 0) is a
   happens-before edge: "the hub has recorded the client before serveWs starts its readPump" holds only because
   hub.register is unbuffered; a QUEUE must have room (capacity >= 1, a constant or an expression). Channels that
   are not listed are not constrained. THE SPECIFICATION, like guard_table. *)
Inductive chan_cap := CapConst (n : nat) | CapExpr (e : string).
Inductive chan_req := Rendezvous | Queue | AnyCap.

Definition channel_table : list (string * chan_req) :=
  [ ("crossbar.Hub.register", Rendezvous);
    ("crossbar.Hub.unregister", Rendezvous);
    ("crossbar.Hub.broadcast", Rendezvous);
    ("crossbar.Client.send", Queue);
    ("relay.Relay.denied", Queue) ].

Definition cap_ok (r : chan_req) (c : chan_cap) : bool :=
  match r, c with
  | Rendezvous, CapConst 0 => true
  | Rendezvous, _ => false
  | Queue, CapConst 0 => false
  | Queue, _ => true
  | AnyCap, _ => true
  end.

(* every created channel meets its requirement, and every channel the table constrains is created somewhere *)
Definition channel_capacities_ok (gen : list (string * chan_cap)) : bool :=
  forallb (fun e => cap_ok (slookup (fst e) channel_table AnyCap) (snd e)) gen
  && forallb (fun r => existsb (fun e => String.eqb (fst e) (fst r)) gen) channel_table.
