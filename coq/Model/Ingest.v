(* Model of the host's ingest paths, with aliasing made explicit:
     internal/vw/handleTs.go          (POST /ts/<feed>: accumulate, flush after 1 ms of silence)
     internal/tcpconnect/tcpconnect.go (HandleConn: the same loop, MaxFrameBytes configurable)
     internal/vw/handleWs.go          (websocket ingest: one fresh slice per message)
     internal/rwc/rwc.go RelayIn      (destination -> local feed clients: fresh slice per message)
     internal/hub/hub.go              (fan-out of the SAME slice to every subscriber, non-blocking send).
   A message handed on is either [Ref off len] - a window into the one flush buffer (rawFrame) that every
   later flush overwrites - or [Val bytes], a slice of its own.  [byref = true] is the code as it was on the
   pinned tree, [byref = false] the code after repair F10 (the frame is copied before the hand-off).
   Which write ends a frame is decided by the 1 ms idle timer, i.e. by timing: the model takes the
   position of the flushes as part of the schedule (event list) and is total over every schedule.
   Fields marked "ghost" record history for the theorems; nothing else reads them.  No proofs here. *)
From Relay Require Import Base.Prelude.

Definition bytes := list N.

Inductive msg :=
| Ref (off len : nat)     (* rawFrame[off : off+len], shared *)
| Val (bs : bytes).       (* a slice nobody else writes to *)

(* a queued message together with (ghost) the bytes it showed when it was handed on *)
Definition held := (msg * bytes)%type.

Record consumer := mkcons {
  cap : nat;              (* capacity of its Send channel (rwc destination clients: 2) *)
  busy : bool;            (* not ready for the next hand-off (unbuffered channel, receiver elsewhere) *)
  chanq : list held;      (* in the channel, oldest first *)
  hand : list held;       (* received from the channel but not looked at yet *)
  got : list bytes;       (* what it read, in order *)
  want : list bytes       (* ghost: what those messages showed at hand-off *)
}.

Record st := mkst {
  acc : bytes;            (* frameBuffer: written, not yet flushed *)
  fbuf : bytes;           (* the part of rawFrame written so far *)
  cons : list consumer;
  handed : list bytes;    (* ghost: every message handed on, as it was at that moment *)
  dropped : list bytes    (* ghost: per flush, the bytes Reset() threw away (more than maxf were pending) *)
}.

Inductive ev :=
| Write (chunk : bytes)   (* the reader goroutine appends what it read to frameBuffer *)
| Flush                   (* the idle timer fired: Read into rawFrame, Reset, Broadcast *)
| WsMsg (m : bytes)       (* a whole websocket message arrives (ingest or from a destination) *)
| Busy (c : nat)          (* consumer c will not be ready at the next hand-off *)
| Take (c : nat)          (* consumer c receives its oldest queued message, does not look yet *)
| Consume (c : nat).      (* consumer c reads the oldest message it holds *)

Definition init (caps : list nat) : st :=
  mkst [] [] (map (fun k => mkcons k false [] [] [] []) caps) [] [].

(* what a holder of [m] sees when it looks now *)
Definition deref (fb : bytes) (m : msg) : bytes :=
  match m with
  | Ref off len => firstn len (skipn off fb)
  | Val bs => bs
  end.

(* hub: `select { case client.Send <- message: default: }` *)
Definition offer (h : held) (c : consumer) : consumer :=
  if busy c then mkcons (cap c) false (chanq c) (hand c) (got c) (want c)
  else if length (chanq c) <? cap c then mkcons (cap c) false (chanq c ++ [h]) (hand c) (got c) (want c)
  else c.

Definition broadcast (s : st) (m : msg) (shown : bytes) (fb : bytes) (thrown : list bytes) : st :=
  mkst [] fb (map (offer (m, shown)) (cons s)) (handed s ++ [shown]) (dropped s ++ thrown).

Fixpoint upd {A} (i : nat) (f : A -> A) (l : list A) : list A :=
  match l, i with
  | [], _ => []
  | x :: r, O => f x :: r
  | x :: r, S j => x :: upd j f r
  end.

Definition take1 (c : consumer) : consumer :=
  match chanq c with
  | h :: q => mkcons (cap c) (busy c) q (hand c ++ [h]) (got c) (want c)
  | [] => c
  end.

Definition consume1 (fb : bytes) (c : consumer) : consumer :=
  match hand c with
  | (m, shown) :: r => mkcons (cap c) (busy c) (chanq c) r (got c ++ [deref fb m]) (want c ++ [shown])
  | [] =>
      match chanq c with
      | (m, shown) :: q => mkcons (cap c) (busy c) q [] (got c ++ [deref fb m]) (want c ++ [shown])
      | [] => c
      end
  end.

Section Run.
  Variable byref : bool.
  Variable maxf : nat.       (* len(rawFrame): 1 024 000 in handleTs, MaxFrameBytes in tcpconnect *)

  Definition step (s : st) (e : ev) : st :=
    match e with
    | Write chunk => mkst (acc s ++ chunk) (fbuf s) (cons s) (handed s) (dropped s)
    | Flush =>
        let frame := firstn maxf (acc s) in
        match frame with
        | [] => mkst [] (fbuf s) (cons s) (handed s) (dropped s)     (* n = 0 or io.EOF: nothing is sent *)
        | _ :: _ =>
            let n := length frame in
            let fb := frame ++ skipn n (fbuf s) in                   (* Read copies n bytes over rawFrame[:n] *)
            broadcast s (if byref then Ref 0 n else Val frame) frame fb [skipn maxf (acc s)]
        end
    | WsMsg m => mkst (acc s) (fbuf s) (map (offer (Val m, m)) (cons s)) (handed s ++ [m]) (dropped s)
    | Busy c => mkst (acc s) (fbuf s)
                     (upd c (fun k => mkcons (cap k) true (chanq k) (hand k) (got k) (want k)) (cons s))
                     (handed s) (dropped s)
    | Take c => mkst (acc s) (fbuf s) (upd c take1 (cons s)) (handed s) (dropped s)
    | Consume c => mkst (acc s) (fbuf s) (upd c (consume1 (fbuf s)) (cons s)) (handed s) (dropped s)
    end.

  Definition run (s : st) (evs : list ev) : st := fold_left step evs s.
End Run.

(* the bytes written into the feed, in order *)
Fixpoint input_of (evs : list ev) : bytes :=
  match evs with
  | [] => []
  | Write c :: r => c ++ input_of r
  | _ :: r => input_of r
  end.

(* the websocket messages sent, in order *)
Fixpoint wsmsgs_of (evs : list ev) : list bytes :=
  match evs with
  | [] => []
  | WsMsg m :: r => m :: wsmsgs_of r
  | _ :: r => wsmsgs_of r
  end.

(* frame_1 ++ thrown_1 ++ frame_2 ++ thrown_2 ++ ... *)
Fixpoint weave (fs ds : list bytes) : bytes :=
  match fs, ds with
  | f :: fr, d :: dr => f ++ d ++ weave fr dr
  | _, _ => []
  end.

(* [sub a b]: a is b with some elements left out (same order, nothing repeated) *)
Inductive sub {A} : list A -> list A -> Prop :=
| sub_nil : sub [] []
| sub_keep x a b : sub a b -> sub (x :: a) (x :: b)
| sub_skip x a b : sub a b -> sub a (x :: b).

(* ------------------------------------------------------------------------------------------------
   The websocket-out direction: hub -> local feed client through handleWs' writePump
   (internal/vw/handleWs.go).  The hub offers every message of the topic to the client's Send channel
   without waiting (`select { case client.Send <- message: default: }`), writePump receives one message,
   starts a websocket message with it, then appends the [len(c.Messages.Send)] messages queued at that
   moment "without delimiter" and closes the websocket message.  What the client receives is therefore a
   FRAME = a run of hub messages; whether it is a contiguous piece of the stream depends on whether the
   hub dropped a message between two of its parts.
   [wcap] is the capacity of Send.  The code as it is uses an UNBUFFERED channel ([wcap = 0]): a hand-off
   succeeds only while writePump is waiting, and the queue it appends from is always empty.
   [msg_at k] is the k-th message the hub handles on the topic (all of them slices of their own).
   Which offers find the writer ready is timing: [WMiss] (not ready / dropped) is part of the schedule. *)

Definition part := (nat * bytes)%type.        (* index of the hub message, its bytes *)

Record wst := mkw {
  wnext : nat;                      (* index of the next hub message *)
  wq : list part;                   (* queued in Send, oldest first *)
  wcur : option (list part);        (* the websocket message writePump is composing *)
  wframes : list (list part)        (* websocket messages written so far *)
}.

Inductive wev :=
| WOffer            (* the hub offers the next message to Send *)
| WMiss (n : nat)   (* the next n messages are offered while the client cannot take them: dropped *)
| WFirst            (* writePump receives the oldest queued message and starts a websocket message *)
| WRest.            (* writePump appends everything queued at this moment and closes the websocket message *)

Definition winit : wst := mkw 0 [] None [].

Section WsOut.
  Variable msg_at : nat -> bytes.
  Variable wcap : nat.

  Definition wstep (s : wst) (e : wev) : wst :=
    match e with
    | WOffer =>
        let p := (wnext s, msg_at (wnext s)) in
        match wcap with
        | O =>   (* unbuffered: goes straight to a waiting writePump, else dropped *)
            match wcur s with
            | None => mkw (S (wnext s)) (wq s) (Some [p]) (wframes s)
            | Some _ => mkw (S (wnext s)) (wq s) (wcur s) (wframes s)
            end
        | S _ =>
            if length (wq s) <? wcap then mkw (S (wnext s)) (wq s ++ [p]) (wcur s) (wframes s)
            else mkw (S (wnext s)) (wq s) (wcur s) (wframes s)
        end
    | WMiss n => mkw (wnext s + n) (wq s) (wcur s) (wframes s)
    | WFirst =>
        match wcur s, wq s with
        | None, p :: r => mkw (wnext s) r (Some [p]) (wframes s)
        | _, _ => s
        end
    | WRest =>
        match wcur s with
        | Some f => mkw (wnext s) [] None (wframes s ++ [f ++ wq s])
        | None => s
        end
    end.

  Definition wrun (evs : list wev) : wst := fold_left wstep evs winit.
End WsOut.

Definition frame_bytes (f : list part) : bytes := concat (map snd f).

(* every part of the state in stream order: written frames, the one being composed, the queue *)
Definition wflat (s : wst) : list part :=
  concat (wframes s) ++ match wcur s with Some f => f | None => [] end ++ wq s.

(* [chain lo l hi]: lo <= l_1 < l_2 < ... < hi *)
Fixpoint chain (lo : nat) (l : list nat) (hi : nat) : Prop :=
  match l with
  | [] => lo <= hi
  | x :: r => lo <= x /\ chain (S x) r hi
  end.

(* ------------------------------------------------------------------------------------------------
   The destination direction with a reconnecting destination: feed -> agg/hub -> rwc client (Send of
   capacity [dcap] = 2) -> RelayOut -> reconws.Out -> websocket connection to the destination, which may end
   the session at any time; reconws dials again and goes on with whatever RelayOut hands it next
   (internal/rwc/rwc.go RelayOut, internal/reconws/reconws.go Dial).  A message whose write fails at the cut
   is not sent again by the code as it is: it is lost.  [dout] is everything the destination received, over
   all its connections, in the order it received it. *)

Record dst := mkdst {
  dnext : nat;             (* index of the next hub message on the stream *)
  dq : list part;          (* queued in the rwc client's Send channel *)
  dout : list part         (* received by the destination, all connections, in order *)
}.

Inductive dev :=
| DOffer            (* the hub offers the next message to the rwc client *)
| DMiss (n : nat)   (* n messages offered while Send is full: dropped *)
| DSend             (* the oldest queued message travels RelayOut -> reconws -> destination *)
| DLose.            (* the oldest queued message is taken by RelayOut/reconws but its write fails at a cut *)

Definition dinit : dst := mkdst 0 [] [].

Section DestOut.
  Variable msg_at : nat -> bytes.
  Variable dcap : nat.

  Definition dstep (s : dst) (e : dev) : dst :=
    match e with
    | DOffer =>
        if length (dq s) <? dcap then mkdst (S (dnext s)) (dq s ++ [(dnext s, msg_at (dnext s))]) (dout s)
        else mkdst (S (dnext s)) (dq s) (dout s)
    | DMiss n => mkdst (dnext s + n) (dq s) (dout s)
    | DSend => match dq s with p :: r => mkdst (dnext s) r (dout s ++ [p]) | [] => s end
    | DLose => match dq s with _ :: r => mkdst (dnext s) r (dout s) | [] => s end
    end.

  Definition drun (evs : list dev) : dst := fold_left dstep evs dinit.
End DestOut.
