(* Model of how a request line reaches (or does not reach) one of the six operations of the access API:
   net/http's acceptance of method and request-target (net/http/request.go readRequest, net/url ParseRequestURI,
   URL.setPath / EscapedPath), go-openapi's documentation middlewares in front of the router
   (runtime/middleware/spec.go, redoc.go: exact comparison of the DECODED path with /swagger.json and /docs, any
   method), and the router itself (runtime/middleware/router.go defaultRouter.Lookup / OtherMethods over
   denco tries built from the swagger spec of internal/access/restapi/embedded_spec.go, base path "/"):
     - the method is upper-cased (strings.ToUpper) and selects a table: GET {/bids/allow, /bids/deny, /status},
       POST {/bids/allow, /bids/deny, /session/:session_id};
     - the key is path.Clean of the ESCAPED path (so // , /./ , /x/../ and a trailing slash vanish, %2e and %2F
       do not act as dot or slash, letters are compared byte by byte);
     - /session/:session_id takes exactly one non-empty segment; the parameter is the percent-decoded segment,
       except that the one-character segment ":" walks the trie's own parameter edge and yields NO parameter
       (the handler then sees the empty id);
     - no match in the method's table: 405 if the other table matches, else 404.
   The query string plays no role in routing.  Models only, no proofs. *)
From Relay Require Import Base.Prelude Model.DenyStore Model.Token Model.Access.
Local Open Scope string_scope.

Definition byte (a : ascii) : N := N_of_ascii a.
Definition in_range (lo hi : N) (a : ascii) : bool := ((lo <=? byte a) && (byte a <=? hi))%N.
Local Open Scope N_scope.
Definition is_alpha (a : ascii) : bool := in_range 65 90 a || in_range 97 122 a.
Definition is_num (a : ascii) : bool := in_range 48 57 a.
Definition is_one_of (l : list N) (a : ascii) : bool := existsb (N.eqb (byte a)) l.

Definition is_hexd (a : ascii) : bool := is_num a || in_range 65 70 a || in_range 97 102 a.
Definition hex_val (a : ascii) : N :=
  if is_num a then byte a - 48 else if in_range 65 70 a then byte a - 55 else byte a - 87.
Definition hex_digit (n : N) : ascii := ascii_of_N (if (n <? 10)%N then 48 + n else 55 + n).

(* url.unescape in path mode: %XX -> byte, anything else unchanged; a stray or malformed % is an error *)
Fixpoint unescape (s : string) : option string :=
  match s with
  | EmptyString => Some EmptyString
  | String c r =>
      if (byte c =? 37)%N then
        match r with
        | String a (String b r') =>
            if is_hexd a && is_hexd b
            then option_map (String (ascii_of_N (16 * hex_val a + hex_val b))) (unescape r')
            else None
        | _ => None
        end
      else option_map (String c) (unescape r)
  end.

(* url.shouldEscape(c, encodePath) *)
Definition should_escape (a : ascii) : bool :=
  if is_alpha a || is_num a || is_one_of [45; 95; 46; 126]%N a then false              (* - _ . ~ *)
  else if is_one_of [36; 38; 43; 44; 47; 58; 59; 61; 64]%N a then false                 (* $ & + , / : ; = @ *)
  else true.

(* url.validEncoded(s, encodePath) *)
Definition valid_encoded_char (a : ascii) : bool :=
  is_one_of [33; 36; 38; 39; 40; 41; 42; 43; 44; 59; 61; 58; 64; 91; 93; 37]%N a        (* ! $ & ' ( ) * + , ; = : @ [ ] % *)
  || negb (should_escape a).
Fixpoint all_ascii (p : ascii -> bool) (s : string) : bool :=
  match s with EmptyString => true | String a r => p a && all_ascii p r end.
Definition valid_encoded (s : string) : bool := all_ascii valid_encoded_char s.

(* url.escape(s, encodePath) *)
Fixpoint escape (s : string) : string :=
  match s with
  | EmptyString => EmptyString
  | String a r =>
      if should_escape a
      then String "%" (String (hex_digit (byte a / 16)) (String (hex_digit (byte a mod 16)) (escape r)))
      else String a (escape r)
  end.

(* URL.EscapedPath for a URL parsed from the raw path [raw] (decoded form [dec]) *)
Definition escaped_path (raw dec : string) : string :=
  if valid_encoded raw then raw else if String.eqb dec "*" then "*" else escape dec.

(* ------------------------------------------------------------------ path.Clean *)
Fixpoint split_on (sep : N) (s : string) (cur : string) : list string :=   (* [cur] is the current piece, reversed *)
  match s with
  | EmptyString => [cur]
  | String a r => if (byte a =? sep)%N then cur :: split_on sep r EmptyString else split_on sep r (String a cur)
  end.
Fixpoint rev_str (s acc : string) : string :=
  match s with EmptyString => acc | String a r => rev_str r (String a acc) end.
Definition pieces (sep : N) (s : string) : list string := map (fun p => rev_str p EmptyString) (split_on sep s EmptyString).

(* segments are pushed on a stack (last first); rooted: ".." at the root is dropped *)
Definition clean_step (stack : list string) (seg : string) : list string :=
  if String.eqb seg "" || String.eqb seg "." then stack
  else if String.eqb seg ".." then tl stack
  else seg :: stack.
Fixpoint join_slash (l : list string) : string :=
  match l with [] => EmptyString | x :: r => String "/" (x ++ join_slash r) end.
(* path.Clean for a path that starts with a slash: the list of its cleaned segments *)
Definition clean_segments (p : string) : list string := rev (fold_left clean_step (pieces 47 p) []).
Definition clean (p : string) : string :=
  match clean_segments p with [] => "/" | l => join_slash l end.

(* ------------------------------------------------------------------ the request line *)
(* tchar of RFC 7230, what net/http's validMethod accepts *)
Definition is_tchar (a : ascii) : bool :=
  is_alpha a || is_num a || is_one_of [33; 35; 36; 37; 38; 39; 42; 43; 45; 46; 94; 95; 96; 124; 126]%N a.
Definition valid_method (m : string) : bool := negb (String.eqb m "") && all_ascii is_tchar m.

Definition upper_char (a : ascii) : ascii := if in_range 97 122 a then ascii_of_N (byte a - 32) else a.
Fixpoint upper (s : string) : string :=
  match s with EmptyString => EmptyString | String a r => String (upper_char a) (upper r) end.

Definition is_ctl (a : ascii) : bool := (byte a <? 32)%N || (byte a =? 127)%N || (byte a =? 32)%N.

Fixpoint take_until (p : ascii -> bool) (s : string) : string * string :=   (* (before, from the first p-char on) *)
  match s with
  | EmptyString => (EmptyString, EmptyString)
  | String a r => if p a then (EmptyString, s) else let '(x, y) := take_until p r in (String a x, y)
  end.

Fixpoint starts_with (pre s : string) : option string :=
  match pre, s with
  | EmptyString, _ => Some s
  | String a p, String b r => if Ascii.eqb a b then starts_with p r else None
  | _, EmptyString => None
  end.

(* the authority forms this model reads: letters, digits, dot, minus, optionally a colon and digits *)
Definition safe_authority (h : string) : bool :=
  negb (String.eqb h "") && all_ascii (fun a => is_alpha a || is_num a || is_one_of [45; 46; 58]%N a) h.
Definition scheme_ok (sc : string) : bool :=
  match sc with
  | String a r => is_alpha a && all_ascii (fun c => is_alpha c || is_num c || is_one_of [43; 45; 46]%N c) r
  | EmptyString => false
  end.

(* the raw path of the request-target, or None when net/http answers 400 itself (or the form is outside what
   this model reads): origin-form, asterisk-form, absolute-form with a plain authority, CONNECT's authority-form *)
Definition raw_path_of_target (m t : string) : option string :=
  if String.eqb t "" || negb (all_ascii (fun a => negb (is_ctl a)) t) then None
  else
    let '(before_q, _) := take_until (fun a => (byte a =? 63)%N) t in                (* the query is cut off at the first ? *)
    if String.eqb t "*" then Some "*"
    else match before_q with
         | String a _ =>
             if (byte a =? 47)%N then Some before_q
             else if String.eqb m "CONNECT" then (if safe_authority before_q then Some EmptyString else None)
             else
               let '(sc, rest) := take_until (fun c => (byte c =? 58)%N) before_q in  (* scheme : // authority path *)
               match starts_with "://" rest with
               | Some after =>
                   let '(auth, pth) := take_until (fun c => (byte c =? 47)%N) after in
                   if scheme_ok sc && safe_authority auth then Some pth else None
               | None => None
               end
         | EmptyString => None                                                         (* "?..." *)
         end.

(* ------------------------------------------------------------------ the tables built from the swagger spec *)
Definition get_table (p : string) : option route :=
  if String.eqb p "/bids/allow" then Some RListAllow
  else if String.eqb p "/bids/deny" then Some RListDeny
  else if String.eqb p "/status" then Some RStatus
  else None.

Definition post_table (segs : list string) (p : string) : option route :=
  if String.eqb p "/bids/allow" then Some RAllow
  else if String.eqb p "/bids/deny" then Some RDeny
  else match segs with
       | [s1; s2] =>
           if String.eqb s1 "session" then
             if String.eqb s2 ":" then Some (RSession EmptyString)                    (* the trie's own parameter edge *)
             else match unescape s2 with Some id => Some (RSession id) | None => Some (RSession s2) end
           else None
       | _ => None
       end.

Definition route_of (m t : string) : route :=
  if negb (valid_method m) then ROpaque
  else match raw_path_of_target m t with
       | None => ROpaque
       | Some raw =>
           match unescape raw with
           | None => ROpaque                                                           (* malformed percent escape: 400 *)
           | Some dec =>
               if String.eqb m "OPTIONS" && String.eqb t "*" then ROptionsStar         (* net/http's own answer *)
               else if String.eqb dec "/swagger.json" then RDocSpec
               else if String.eqb dec "/docs" then RDocUI
               else
                 let esc := escaped_path raw dec in
                 match esc with
                 | String a _ =>
                     if (byte a =? 47)%N then
                       let segs := clean_segments esc in
                       let p := clean esc in
                       let g := get_table p in
                       let po := post_table segs p in
                       let um := upper m in
                       if String.eqb um "GET" then
                         match g with Some r => r | None => match po with Some _ => RBadMethod | None => RNotFound end end
                       else if String.eqb um "POST" then
                         match po with Some r => r | None => match g with Some _ => RBadMethod | None => RNotFound end end
                       else match g, po with None, None => RNotFound | _, _ => RBadMethod end
                     else RNotFound                                                    (* "*" with another method *)
                 | EmptyString => RNotFound                                            (* no path at all *)
                 end
           end
       end.

(* a request as it is on the wire (the binder's view of the query stays with the harness: routing ignores it) *)
Record line := mkline {
  l_method : string;
  l_target : string;
  l_cred : credential;
  l_bid : option N;
  l_exp : option string
}.

Definition req_of (l : line) : request :=
  mkreq (route_of (l_method l) (l_target l)) (l_cred l) (l_bid l) (l_exp l).
