(* Model of `json.Unmarshal(msg, &cmd)` for `cmd vw.Command` (internal/vw/internalAPI.go):

     type Command struct { Verb, What, Which string; Rule *json.RawMessage }

   following encoding/json (go1.23, decode.go):
   - the message must be ONE well-formed JSON value (Base/Json.v [json_wf] = json.Valid: syntax, nesting limit
     10000, nothing but white space after it), else a SyntaxError;
   - `null` at the top leaves the struct as it is (zero) without error; an object is decoded member by member;
     any other value is an UnmarshalTypeError;
   - a key (unquoted: escapes resolved, invalid UTF-8 replaced) selects the field whose name it equals, else the
     field whose name it equals case-insensitively (foldName; the four field names contain no letter with a
     non-ASCII fold, so that is ASCII case-insensitivity); other keys are skipped;
   - members are stored in order, so of several members for one field the LAST one decides;
   - a string field takes the unquoted string; `null` leaves it as it is; any other value is an
     UnmarshalTypeError - decoding goes on, the error is returned at the end (the handler then refuses the
     message and never looks at the partly filled struct);
   - Rule: `null` sets the pointer to nil, any other value is kept verbatim (json.RawMessage: the bytes of the
     value without surrounding white space).
   Small total functions; lemmas in Proofs/AdminDecode_proofs.v. *)
From Relay Require Import Base.Prelude Base.AList Model.AdminJson Model.AdminApi.
From Relay Require Base.Json.
Local Open Scope N_scope.

Definition lower (b : N) : N := if (65 <=? b) && (b <=? 90) then b + 32 else b.
Definition fold_eqb (key name : bytes) : bool := beqb (map lower key) name.   (* [name] is in lower case *)

Inductive fld := FVerb | FWhat | FWhich | FRule.

Definition field_of (key : bytes) : option fld :=
  if fold_eqb key (bytes_of "verb") then Some FVerb
  else if fold_eqb key (bytes_of "what") then Some FWhat
  else if fold_eqb key (bytes_of "which") then Some FWhich
  else if fold_eqb key (bytes_of "rule") then Some FRule
  else None.

(* what a member's value is, as far as this struct cares (the value is well-formed JSON, no white space around) *)
Inductive rawv := RNull | RStr (s : bytes) | ROther.

Definition classify (raw : bytes) : rawv :=
  match raw with
  | b :: r =>
      if b =? 34 then match Json.parse_string r with Some (_, v, _) => RStr v | None => ROther end
      else if b =? 110 then RNull
      else ROther
  | [] => ROther
  end.

Record dstate := mkds { d_cmd : command; d_err : bool }.

Definition zero_cmd : command := mkc [] [] [] None.

Definition store (d : dstate) (key raw : bytes) : dstate :=
  let c := d_cmd d in
  match field_of key with
  | None => d
  | Some FRule =>
      match classify raw with
      | RNull => mkds (mkc (verb c) (what c) (which c) None) (d_err d)
      | _ => mkds (mkc (verb c) (what c) (which c) (Some raw)) (d_err d)
      end
  | Some f =>
      match classify raw with
      | RNull => d
      | RStr s =>
          match f with
          | FVerb => mkds (mkc s (what c) (which c) (rule c)) (d_err d)
          | FWhat => mkds (mkc (verb c) s (which c) (rule c)) (d_err d)
          | _ => mkds (mkc (verb c) (what c) s (rule c)) (d_err d)
          end
      | ROther => mkds c true
      end
  end.

Definition decode_members (ms : list (bytes * bytes)) : option command :=
  let d := fold_left (fun d m => store d (fst m) (snd m)) ms (mkds zero_cmd false) in
  if d_err d then None else Some (d_cmd d).

(* the members of the top-level object, in order: (key unquoted, value verbatim); [l] starts after the brace *)
Fixpoint scan_members (fuel : nat) (l : bytes) (acc : list (bytes * bytes)) : option (list (bytes * bytes)) :=
  match fuel with
  | O => None
  | S f =>
      match skip_ws l with
      | q :: r =>
          if q =? 34 then
            match Json.parse_string r with
            | Some (_, key, r1) =>
                match skip_ws r1 with
                | c :: r2 =>
                    if c =? 58 then
                      let v := skip_ws r2 in
                      match value (2 * length v + 2) v with
                      | Some r3 =>
                          let raw := firstn (length v - length r3) v in
                          match skip_ws r3 with
                          | d :: r4 =>
                              if d =? 44 then scan_members f r4 ((key, raw) :: acc)
                              else if d =? 125 then Some (rev ((key, raw) :: acc))
                              else None
                          | [] => None
                          end
                      | None => None
                      end
                    else None
                | [] => None
                end
            | None => None
            end
          else None
      | [] => None
      end
  end.

Definition top_members (msg : bytes) : option (list (bytes * bytes)) :=
  match skip_ws msg with
  | b :: r =>
      if b =? 110 then Some []                         (* null: nothing is stored *)
      else if b =? 123 then
        match skip_ws r with
        | c :: _ => if c =? 125 then Some [] else scan_members (S (length r)) r []
        | [] => None
        end
      else None                                        (* a string, number, bool or array: UnmarshalTypeError *)
  | [] => None
  end.

Definition decode (msg : bytes) : option command :=
  if Json.json_wf msg then
    match top_members msg with
    | Some ms => decode_members ms
    | None => None
    end
  else None.

(* the handler on the bytes of a message: decode, then dispatch ([step]); the inner decoding of the rule stays
   with the oracles [dd], [ds] *)
Definition handle (dd : bytes -> drule + bytes) (ds : bytes -> srule + bytes) (api : bytes) (fx : fixes)
           (s : st) (msg : bytes) : st * answer :=
  step dd ds api fx s (decode msg).

(* ------------------------------------------------------------------------------------------------
   The inner decoding of the rule (json.Unmarshal of the raw rule bytes into the rule struct) for

     rwc.Rule { ID `json:"id"`; Stream `json:"stream"`; Destination `json:"destination"`;
                Token `json:"token"`; File `json:"file"` }             (all string)
     agg.Rule { Stream `json:"stream"` string; Feeds `json:"feeds"` []string }

   on the value tree of Base/Json.v ([Json.parse]).  Keys select a field by its tag: exact, else by foldName
   (ASCII letters upper-cased, U+017F LONG S as S, U+212A KELVIN SIGN as K - these names do contain s and k).
   The result is the rule or the text of the FIRST UnmarshalTypeError, as err.Error() prints it. *)

Definition in_rng' (lo hi b : N) : bool := (lo <=? b) && (b <=? hi).

Fixpoint fold_name (k : bytes) : bytes :=
  match k with
  | [] => []
  | b :: r =>
      let plain := (if in_rng' 97 122 b then b - 32 else b) :: fold_name r in
      match r with
      | c :: r1 =>
          if (b =? 197) && (c =? 191) then 83 :: fold_name r1
          else match r1 with
               | d :: r2 => if (b =? 226) && (c =? 132) && (d =? 170) then 75 :: fold_name r2 else plain
               | [] => plain
               end
      | [] => plain
      end
  end.

Definition tag_eqb (key tag : bytes) : bool := beqb key tag || beqb (fold_name key) (fold_name tag).

Definition kind_of (j : Json.json) : bytes :=
  match j with
  | Json.JNull => bytes_of "null"
  | Json.JBool _ => bytes_of "bool"
  | Json.JNum _ => bytes_of "number"
  | Json.JStr _ _ => bytes_of "string"
  | Json.JArr _ => bytes_of "array"
  | Json.JObj _ => bytes_of "object"
  end.

Definition type_error_top (j : Json.json) (ty : bytes) : bytes :=
  bytes_of "json: cannot unmarshal " ++ kind_of j ++ bytes_of " into Go value of type " ++ ty.
Definition type_error_field (j : Json.json) (field ty : bytes) : bytes :=
  bytes_of "json: cannot unmarshal " ++ kind_of j ++ bytes_of " into Go struct field Rule." ++ field ++
  bytes_of " of type " ++ ty.

Definition first_err (e : option bytes) (t : bytes) : option bytes := match e with Some _ => e | None => Some t end.

(* a string field: the new value and the error state *)
Definition store_string (old : bytes) (e : option bytes) (tag : bytes) (v : Json.json) : bytes * option bytes :=
  match v with
  | Json.JStr _ s => (s, e)
  | Json.JNull => (old, e)
  | _ => (old, first_err e (type_error_field v tag (bytes_of "string")))
  end.

Definition dest_member (acc : drule * option bytes) (m : bytes * Json.json) : drule * option bytes :=
  let '(r, e) := acc in
  let '(k, v) := m in
  if tag_eqb k (bytes_of "id") then let '(x, e') := store_string (d_id r) e (bytes_of "id") v in (mkd x (d_stream r) (d_dest r) (d_token r) (d_file r), e')
  else if tag_eqb k (bytes_of "stream") then let '(x, e') := store_string (d_stream r) e (bytes_of "stream") v in (mkd (d_id r) x (d_dest r) (d_token r) (d_file r), e')
  else if tag_eqb k (bytes_of "destination") then let '(x, e') := store_string (d_dest r) e (bytes_of "destination") v in (mkd (d_id r) (d_stream r) x (d_token r) (d_file r), e')
  else if tag_eqb k (bytes_of "token") then let '(x, e') := store_string (d_token r) e (bytes_of "token") v in (mkd (d_id r) (d_stream r) (d_dest r) x (d_file r), e')
  else if tag_eqb k (bytes_of "file") then let '(x, e') := store_string (d_file r) e (bytes_of "file") v in (mkd (d_id r) (d_stream r) (d_dest r) (d_token r) x, e')
  else acc.

Definition dest_of_tree (j : Json.json) : drule + bytes :=
  match j with
  | Json.JNull => inl zero_drule
  | Json.JObj ms =>
      let '(r, e) := fold_left dest_member ms (zero_drule, None) in
      match e with Some t => inr t | None => inl r end
  | _ => inr (type_error_top j (bytes_of "rwc.Rule"))
  end.

(* (Not modelled: Go re-extends a slice within its capacity, so after THREE feeds members - long, short, long
   with nulls - a null element could show a value from the first one that the second had cut off.) *)
(* an array decoded into the slice that is already there: element i takes the string, keeps what was at i for
   null (or the empty string), and for anything else keeps it too and records the error *)
Fixpoint feeds_elems (old : list bytes) (l : list Json.json) (e : option bytes) : list bytes * option bytes :=
  match l with
  | [] => ([], e)
  | v :: r =>
      let was := match old with x :: _ => x | [] => [] end in
      let '(x, e1) := store_string was e (bytes_of "feeds") v in
      let '(xs, e2) := feeds_elems (match old with _ :: o => o | [] => [] end) r e1 in
      (x :: xs, e2)
  end.

Definition stream_member (acc : srule * option bytes) (m : bytes * Json.json) : srule * option bytes :=
  let '(r, e) := acc in
  let '(k, v) := m in
  if tag_eqb k (bytes_of "stream") then let '(x, e') := store_string (s_stream r) e (bytes_of "stream") v in (mks x (s_feeds r), e')
  else if tag_eqb k (bytes_of "feeds") then
    match v with
    | Json.JNull => (mks (s_stream r) None, e)
    | Json.JArr l =>
        let '(xs, e') := feeds_elems (match s_feeds r with Some o => o | None => [] end) l e in
        (mks (s_stream r) (Some xs), e')
    | _ => (r, first_err e (type_error_field v (bytes_of "feeds") (bytes_of "[]string")))
    end
  else acc.

Definition stream_of_tree (j : Json.json) : srule + bytes :=
  match j with
  | Json.JNull => inl (mks [] None)
  | Json.JObj ms =>
      let '(r, e) := fold_left stream_member ms (mks [] None, None) in
      match e with Some t => inr t | None => inl r end
  | _ => inr (type_error_top j (bytes_of "agg.Rule"))
  end.

(* on the verbatim bytes of the rule (they are well-formed JSON: they come out of a decoded command) *)
Definition dec_dest_model (raw : bytes) : drule + bytes :=
  match Json.parse raw with Some j => dest_of_tree j | None => inr (bytes_of "unexpected end of JSON input") end.
Definition dec_stream_model (raw : bytes) : srule + bytes :=
  match Json.parse raw with Some j => stream_of_tree j | None => inr (bytes_of "unexpected end of JSON input") end.

(* the whole handler on bytes, no oracle left *)
Definition handle_bytes (api : bytes) (fx : fixes) (s : st) (msg : bytes) : st * answer :=
  handle dec_dest_model dec_stream_model api fx s msg.
