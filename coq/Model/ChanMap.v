(* Model of internal/chanmap/chanmap.go (Store) as repaired by fix F06 (deleting a parent also
   deletes the ParentByChild entries of its children) and fix F22 (deleting a parent's last child
   deletes the parent key instead of keeping an empty map for ever).
   Parents (booking ids), children (client names) and channels are interned to N; 0 stands for the
   empty string / the nil channel.  A Go map value that is a nil map is representable:
   [children] maps a parent to [Some m] (a real map) or [None] (key present, value nil), so that
   "assignment to entry in nil map" is an outcome of the model and not excluded by its types.
   Closing a channel that is already closed is the other Panic.  Models only, no proofs. *)
From Relay Require Import Base.Prelude Base.AList.

Definition childmap := alist N N.                  (* child -> channel *)
Notation mlk := (@lookup N N N.eqb).
Notation mrm := (@remove N N N.eqb).
Notation mins := (@insert N N N.eqb).
Notation plk := (@lookup N (option childmap) N.eqb).
Notation prm := (@remove N (option childmap) N.eqb).
Notation pins := (@insert N (option childmap) N.eqb).

Record cm := mkcm {
  children : alist N (option childmap);            (* ChildrenByParent *)
  pbc : alist N N;                                 (* ParentByChild *)
  closedl : list N                                 (* channels closed so far, latest first *)
}.

Definition cm_init : cm := mkcm [] [] [].

Inductive cop :=
| Add (p c ch : N)
| DelChild (c : N)
| DelCloseChild (c : N)
| DelParent (p : N)
| DelCloseParent (p : N).

Inductive cres :=
| ROk
| RErr                 (* "no parent" / "no child" / "no channel" *)
| RPanicNilMap         (* assignment to entry in nil map *)
| RPanicClose.         (* close of closed channel *)

Definition is_panic (r : cres) : bool :=
  match r with RPanicNilMap | RPanicClose => true | _ => false end.

Definition memN (x : N) (l : list N) : bool := existsb (N.eqb x) l.

(* close(ch): None = panic *)
Definition close_chan (ch : N) (cl : list N) : option (list N) :=
  if memN ch cl then None else Some (ch :: cl).

Definition do_add (s : cm) (p c ch : N) : cm * cres :=
  if (p =? 0)%N then (s, RErr) else
  if (c =? 0)%N then (s, RErr) else
  if (ch =? 0)%N then (s, RErr) else
  let ch1 := match plk p (children s) with None => pins p (Some []) (children s) | Some _ => children s end in
  match plk p ch1 with
  | Some (Some m) => (mkcm (pins p (Some (mins c ch m)) ch1) (mins c p (pbc s)) (closedl s), ROk)
  | _ => (mkcm ch1 (pbc s) (closedl s), RPanicNilMap)
  end.

(* what deleteAndOptionalCloseChild leaves under the parent key (fix F22): nothing when the last child
   has gone (`if len(children) == 0 { delete(s.ChildrenByParent, parent) }`, which also covers a nil or
   missing map), otherwise the map *)
Definition store_back (p : N) (m : childmap) (chs : alist N (option childmap)) : alist N (option childmap) :=
  match m with [] => prm p chs | _ :: _ => pins p (Some m) chs end.

(* deleteAndOptionalCloseChild *)
Definition do_del_child (s : cm) (c : N) (close : bool) : cm * cres :=
  if (c =? 0)%N then (s, RErr) else
  match mlk c (pbc s) with
  | None => (s, ROk)
  | Some p =>
      (* children := s.ChildrenByParent[parent]   (nil when the key is missing or holds nil) *)
      let mo := match plk p (children s) with Some (Some m) => Some m | _ => None end in
      match mo with
      | Some m =>
          match mlk c m with
          | Some ch =>
              if close then
                match close_chan ch (closedl s) with
                | None => (s, RPanicClose)
                | Some cl => (mkcm (store_back p (mrm c m) (children s)) (mrm c (pbc s)) cl, ROk)
                end
              else (mkcm (store_back p (mrm c m) (children s)) (mrm c (pbc s)) (closedl s), ROk)
          | None => (mkcm (store_back p m (children s)) (mrm c (pbc s)) (closedl s), ROk)
          end
      | None => (mkcm (prm p (children s)) (mrm c (pbc s)) (closedl s), ROk)
      end
  end.

(* the loop of deleteAndOptionalCloseParent over the parent's children (Go visits them in an
   unspecified order; the outcome does not depend on it: every entry is visited unless a close panics) *)
Fixpoint del_loop (close : bool) (l : list (N * N)) (pb : alist N N) (cl : list N) : option (alist N N * list N) :=
  match l with
  | [] => Some (pb, cl)
  | (c, ch) :: r =>
      if close then
        match close_chan ch cl with
        | None => None
        | Some cl' => del_loop close r (mrm c pb) cl'
        end
      else del_loop close r (mrm c pb) cl
  end.

Definition do_del_parent (s : cm) (p : N) (close : bool) : cm * cres :=
  if (p =? 0)%N then (s, RErr) else
  match plk p (children s) with
  | None => (s, ROk)
  | Some mo =>
      match del_loop close (match mo with Some m => m | None => [] end) (pbc s) (closedl s) with
      | None => (s, RPanicClose)
      | Some (pb, cl) => (mkcm (prm p (children s)) pb cl, ROk)
      end
  end.

Definition cstep (s : cm) (o : cop) : cm * cres :=
  match o with
  | Add p c ch => do_add s p c ch
  | DelChild c => do_del_child s c false
  | DelCloseChild c => do_del_child s c true
  | DelParent p => do_del_parent s p false
  | DelCloseParent p => do_del_parent s p true
  end.

(* a panic ends the run (in the relay it ends the process) *)
Fixpoint crun (s : cm) (ops : list cop) : cm * list cres :=
  match ops with
  | [] => (s, [])
  | o :: r =>
      let '(s1, x) := cstep s o in
      if is_panic x then (s1, [x]) else let '(s2, xs) := crun s1 r in (s2, x :: xs)
  end.

(* The behaviour before fix F06, kept only so that Props/C08.v can show the theorem tells the two
   apart: deleting a parent left its children in ParentByChild. *)
Definition do_del_parent_old (s : cm) (p : N) (close : bool) : cm * cres :=
  if (p =? 0)%N then (s, RErr) else
  match plk p (children s) with
  | None => (s, ROk)
  | Some mo =>
      match del_loop close (match mo with Some m => m | None => [] end) (pbc s) (closedl s) with
      | None => (s, RPanicClose)
      | Some (_, cl) => (mkcm (prm p (children s)) (pbc s) cl, ROk)
      end
  end.

(* ... and the child delete before fix F22: whatever map it found (also nil) was stored back under the
   parent key, so an empty map stayed for every past booking *)
Definition do_del_child_old (s : cm) (c : N) (close : bool) : cm * cres :=
  if (c =? 0)%N then (s, RErr) else
  match mlk c (pbc s) with
  | None => (s, ROk)
  | Some p =>
      match plk p (children s) with
      | Some (Some m) =>
          match mlk c m with
          | Some ch =>
              if close then
                match close_chan ch (closedl s) with
                | None => (s, RPanicClose)
                | Some cl => (mkcm (pins p (Some (mrm c m)) (children s)) (mrm c (pbc s)) cl, ROk)
                end
              else (mkcm (pins p (Some (mrm c m)) (children s)) (mrm c (pbc s)) (closedl s), ROk)
          | None => (mkcm (pins p (Some m) (children s)) (mrm c (pbc s)) (closedl s), ROk)
          end
      | _ => (mkcm (pins p None (children s)) (mrm c (pbc s)) (closedl s), ROk)
      end
  end.

Definition cstep_old (s : cm) (o : cop) : cm * cres :=
  match o with
  | DelParent p => do_del_parent_old s p false
  | DelCloseParent p => do_del_parent_old s p true
  | DelChild c => do_del_child_old s c false
  | DelCloseChild c => do_del_child_old s c true
  | _ => cstep s o
  end.

Fixpoint crun_old (s : cm) (ops : list cop) : cm * list cres :=
  match ops with
  | [] => (s, [])
  | o :: r =>
      let '(s1, x) := cstep_old s o in
      if is_panic x then (s1, [x]) else let '(s2, xs) := crun_old s1 r in (s2, x :: xs)
  end.

(* the two maps agree: a child points at a parent exactly when that parent's map holds the child *)
Definition consistent (s : cm) : Prop :=
  forall c p, mlk c (pbc s) = Some p <-> exists m ch, plk p (children s) = Some (Some m) /\ mlk c m = Some ch.

(* each Add that gets past the argument checks uses a child name and a channel no earlier Add used
   (the relay passes a fresh uuid name and a freshly made channel per connection) *)
Definition effective (p c ch : N) : bool := negb (p =? 0)%N && negb (c =? 0)%N && negb (ch =? 0)%N.

Fixpoint fresh_from (uc uch : list N) (ops : list cop) : Prop :=
  match ops with
  | [] => True
  | Add p c ch :: r =>
      if effective p c ch then ~ In c uc /\ ~ In ch uch /\ fresh_from (c :: uc) (ch :: uch) r
      else fresh_from uc uch r
  | _ :: r => fresh_from uc uch r
  end.

Definition fresh_adds (ops : list cop) : Prop := fresh_from [] [] ops.

(* ---- canonical dumps for the correspondence run ---- *)
Fixpoint ins_key {V} (k : N) (v : V) (l : list (N * V)) : list (N * V) :=
  match l with
  | [] => [(k, v)]
  | (k', v') :: r => if N.leb k k' then (k, v) :: l else (k', v') :: ins_key k v r
  end.
Definition sort_keys {V} (l : list (N * V)) : list (N * V) := fold_right (fun kv acc => ins_key (fst kv) (snd kv) acc) [] l.

Definition dump_children (s : cm) : list (N * option (list (N * N))) :=
  sort_keys (map (fun pm => (fst pm, match snd pm with Some m => Some (sort_keys m) | None => None end)) (children s)).
Definition dump_pbc (s : cm) : list (N * N) := sort_keys (pbc s).
Definition dump_closed (s : cm) : list N := sortN (closedl s).
