(* Model of internal/ttlcode/ttlcode.go (CodeStore) as repaired by fixes F01 (ExchangeCode refuses an
   entry whose expiry has passed, and still deletes it) and F02 (DeleteByBookingID holds the store
   mutex, so that - like every other method - it is one atomic step).
   Codes, tokens and booking ids are interned by the harness to N.  Time is Unix seconds in Z.
   The value of a new code is the environment's choice (google/uuid in the real code): [Submit c ..]
   carries it, and the theorems assume the codes of a history are fresh where they need it.
   Models only, no proofs. *)
From Relay Require Import Base.Prelude Base.AList.

Record entry := mkentry { tok : N; bk : N; exp : Z }.

Definition cstore := alist N entry.
Notation clk := (@lookup N entry N.eqb).
Notation crm := (@remove N entry N.eqb).
Notation cins := (@insert N entry N.eqb).

Record st := mkst { store : cstore; now : Z; ttl : Z }.

Definition init (t life : Z) : st := mkst [] t life.

Inductive op :=
| Submit (c : N) (t : N) (b : N)   (* SubmitToken(token t of booking b) returned code c *)
| Exchange (c : N)                 (* ExchangeCode(c) *)
| Sweep                            (* CleanExpired() *)
| Purge (b : N)                    (* DeleteByBookingID(b) *)
| Tick (dt : Z)                    (* the clock advances by dt seconds *)
| Count.                           (* GetCodeCount() *)

Inductive out :=
| OCode (c : N)
| OTok (t : N) (b : N)             (* the token handed over, and the booking it names *)
| ORefused                         (* "invalid code" / "expired code" *)
| OUnit
| OCount (live all : N).           (* entries not yet expired, and all entries *)

(* ExpToken.Expired: GetTime() > Exp *)
Definition expired (t : Z) (e : entry) : bool := (exp e <? t)%Z.

Definition do_submit (s : st) c t b := mkst (cins c (mkentry t b (now s + ttl s)) (store s)) (now s) (ttl s).
Definition do_remove (s : st) c := mkst (crm c (store s)) (now s) (ttl s).
Definition do_sweep (s : st) := mkst (filterv (fun _ e => negb (expired (now s) e)) (store s)) (now s) (ttl s).
Definition do_purge (s : st) b := mkst (filterv (fun _ e => negb (bk e =? b)%N) (store s)) (now s) (ttl s).

Definition count_live (s : st) : N := count_true (fun kv => negb (expired (now s) (snd kv))) (store s).
Definition count_all (s : st) : N := N.of_nat (length (store s)).

Definition step (s : st) (o : op) : st * out :=
  match o with
  | Submit c t b => (do_submit s c t b, OCode c)
  | Exchange c =>
      match clk c (store s) with
      | None => (s, ORefused)
      | Some e => (do_remove s c, if expired (now s) e then ORefused else OTok (tok e) (bk e))
      end
  | Sweep => (do_sweep s, OUnit)
  | Purge b => (do_purge s b, OUnit)
  | Tick dt => (mkst (store s) (now s + dt) (ttl s), OUnit)
  | Count => (s, OCount (count_live s) (count_all s))
  end.

Fixpoint run (s : st) (ops : list op) : st * list out :=
  match ops with
  | [] => (s, [])
  | o :: r => let '(s1, x) := step s o in let '(s2, xs) := run s1 r in (s2, x :: xs)
  end.

Definition final (s : st) (ops : list op) : st := fold_left (fun s o => fst (step s o)) ops s.

(* ---- what the theorems count ---- *)
Definition is_win (c : N) (o : op) (x : out) : bool :=
  match o, x with Exchange c', OTok _ _ => (c' =? c)%N | _, _ => false end.

(* number of successful exchanges of code c along a history *)
Fixpoint wins (c : N) (s : st) (ops : list op) : nat :=
  match ops with
  | [] => 0
  | o :: r => (if is_win c o (snd (step s o)) then 1 else 0) + wins c (fst (step s o)) r
  end.

Definition is_submit (c : N) (o : op) : bool :=
  match o with Submit c' _ _ => (c' =? c)%N | _ => false end.

Definition submits (c : N) (ops : list op) : nat := length (filter (is_submit c) ops).

(* codes handed out along a history are pairwise distinct (discharged by uuid v4; trusted base) *)
Definition submitted (ops : list op) : list N :=
  flat_map (fun o => match o with Submit c _ _ => [c] | _ => [] end) ops.
Definition fresh (ops : list op) : Prop := NoDup (submitted ops).

(* ---- concurrent presentation: threads with programs, one store method = one atomic step ---- *)
(* [sched] names the thread that moves next; a thread with nothing left to do is skipped. *)
Fixpoint nth_prog (progs : list (list op)) (i : nat) : option (op * list (list op)) :=
  match progs, i with
  | [], _ => None
  | p :: r, O => match p with [] => None | o :: p' => Some (o, p' :: r) end
  | p :: r, S j => match nth_prog r j with Some (o, r') => Some (o, p :: r') | None => None end
  end.

Fixpoint run_sched (s : st) (progs : list (list op)) (sched : list nat) : st * list (nat * op * out) :=
  match sched with
  | [] => (s, [])
  | i :: rest =>
      match nth_prog progs i with
      | None => run_sched s progs rest
      | Some (o, progs') =>
          let '(s1, x) := step s o in
          let '(s2, tr) := run_sched s1 progs' rest in (s2, (i, o, x) :: tr)
      end
  end.

Definition trace_wins (c : N) (tr : list (nat * op * out)) : nat :=
  length (filter (fun e => is_win c (snd (fst e)) (snd e)) tr).

(* ---- the admission-level view (serveWs) ----
   serveWs exchanges the code first and looks at the token afterwards: a presentation on the path of
   another topic (flag true) is, for the store, an Exchange like any other, but the websocket is never
   let in whatever the store handed over. *)
Definition view_out (wrong : bool) (x : out) : out :=
  if wrong then match x with OTok _ _ => ORefused | y => y end else x.

Fixpoint run_view (s : st) (ops : list (bool * op)) : list out :=
  match ops with
  | [] => []
  | (wrong, o) :: r => let '(s1, x) := step s o in view_out wrong x :: run_view s1 r
  end.

(* number of websocket connections let in with code c along a history of presentations *)
Fixpoint admissions (c : N) (s : st) (ops : list (bool * op)) : nat :=
  match ops with
  | [] => 0
  | (wrong, o) :: r =>
      (if is_win c o (view_out wrong (snd (step s o))) then 1 else 0) + admissions c (fst (step s o)) r
  end.

(* what an operation leaves alone: entry e of code c survives it (no clock advance, not the code itself,
   not its booking) *)
Definition spares (c : N) (e : entry) (o : op) : bool :=
  match o with
  | Submit c' _ _ => negb (c' =? c)%N
  | Exchange c' => negb (c' =? c)%N
  | Purge b => negb (b =? bk e)%N
  | Tick _ => false
  | Sweep | Count => true
  end.
