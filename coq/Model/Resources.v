(* What a relayed connection holds and how it is given back (internal/crossbar/crossbar.go:
   serveWs, the watcher goroutine, readPump, writePump, Hub.run/drop; internal/chanmap).
   Models only, no proofs.

   Per connection the relay may hold
     Sock       the upgraded socket (server side)
     Reader     the readPump goroutine        Writer   the writePump goroutine
     Watcher    the expiry/deny watcher       Timer    its expiry timer
     Member     membership of the topic in the hub (fan-out and status report)
     ChanEntry  the deny channel recorded in the chanmap store (only for a non-empty booking id)

   The code as it is today (after the repairs F08b: the watcher also ends on `done`, stops its timer;
   F12c: the watcher closes the socket; F4: the chanmap entry is made by serveWs before the deny
   re-check and removed again on that refusal).  One fault is kept because it is still in the code
   (F08a, a known finding): a refusal after the upgrade returns without closing the socket. *)
From Relay Require Import Base.Prelude Base.AList.

Inductive res := Sock | Reader | Writer | Watcher | Member | ChanEntry | Timer.

Inductive refusal :=
| NotFound        (* unsupported path: answered 404 before the upgrade, no websocket exists *)
| NoCode | BadCode | MissingClaims | TooEarly | Invalid (* audience / topic / expired *)
| DeniedBooking | NoScopes.

Inductive reason := ClientClose | NetLoss | Expiry | Cancel | Evict | Shutdown | Refused (r : refusal).

Inductive outcome := Join | Refuse (r : refusal).

Definition after_upgrade (r : refusal) : bool := match r with NotFound => false | _ => true end.

Record conn := mkconn {
  joined : bool;        (* accepted: the pumps were started *)
  ended : bool;         (* an end reason has occurred *)
  topic : N;
  (* what is held *)
  h_sock : bool; h_reader : bool; h_writer : bool; h_watcher : bool;
  h_member : bool; h_chan : bool; h_timer : bool;
  (* what the goroutines can see *)
  sock_dead : bool;     (* reads on the socket fail: the peer is gone or the socket was closed *)
  send_closed : bool;   (* the hub closed the connection's queue *)
  cancelled : bool;     (* the watcher closed `cancelled` *)
  done_ : bool;         (* readPump has returned (`done` closed) *)
  timer_fired : bool;
  denied_ : bool;       (* the deny channel was closed *)
  shutdown_ : bool }.   (* the relay's `closed` channel was closed (shutdown request) *)

Definition holds (c : conn) (k : res) : bool :=
  match k with
  | Sock => h_sock c | Reader => h_reader c | Writer => h_writer c | Watcher => h_watcher c
  | Member => h_member c | ChanEntry => h_chan c | Timer => h_timer c
  end.

Definition all_res : list res := [Sock; Reader; Writer; Watcher; Member; ChanEntry; Timer].
Definition held (c : conn) : list res := filter (holds c) all_res.

(* ---- admission (the decision itself is C01's subject; here only what it leaves behind) ---- *)
Definition connect (o : outcome) (tp : N) (has_bid : bool) : conn :=
  match o with
  | Join =>
      mkconn true false tp true true true true true has_bid true false false false false false false false
  | Refuse r =>
      (* the chanmap entry of a DeniedBooking refusal is added and deleted again inside serveWs;
         every other refusal happens before it is made.  The socket is NOT closed (F08a). *)
      mkconn false true tp (after_upgrade r) false false false false false false false false false false false false false
  end.

(* ---- something ends the connection ---- *)
Definition set_sock_dead (c : conn) : conn :=
  mkconn (joined c) true (topic c) (h_sock c) (h_reader c) (h_writer c) (h_watcher c) (h_member c) (h_chan c) (h_timer c)
         true (send_closed c) (cancelled c) (done_ c) (timer_fired c) (denied_ c) (shutdown_ c).
Definition set_timer_fired (c : conn) : conn :=
  mkconn (joined c) true (topic c) (h_sock c) (h_reader c) (h_writer c) (h_watcher c) (h_member c) (h_chan c) (h_timer c)
         (sock_dead c) (send_closed c) (cancelled c) (done_ c) true (denied_ c) (shutdown_ c).
(* DeleteAndCloseParent: the booking's entries leave the store, their channels are closed *)
Definition set_denied (c : conn) : conn :=
  mkconn (joined c) true (topic c) (h_sock c) (h_reader c) (h_writer c) (h_watcher c) (h_member c) false (h_timer c)
         (sock_dead c) (send_closed c) (cancelled c) (done_ c) (timer_fired c) true (shutdown_ c).
(* Hub.drop: out of the topic, queue closed, chanmap child deleted *)
Definition hub_drop (c : conn) : conn :=
  mkconn (joined c) true (topic c) (h_sock c) (h_reader c) (h_writer c) (h_watcher c) false false (h_timer c)
         (sock_dead c) true (cancelled c) (done_ c) (timer_fired c) (denied_ c) (shutdown_ c).

(* close(closed): every writePump's select has `case <-closed: return` *)
Definition set_shutdown (c : conn) : conn :=
  mkconn (joined c) true (topic c) (h_sock c) (h_reader c) (h_writer c) (h_watcher c) (h_member c) (h_chan c) (h_timer c)
         (sock_dead c) (send_closed c) (cancelled c) (done_ c) (timer_fired c) (denied_ c) true.

Definition end_with (r : reason) (c : conn) : conn :=
  if negb (joined c) then c else
  match r with
  | ClientClose | NetLoss => set_sock_dead c
  | Expiry => set_timer_fired c
  | Cancel => set_denied c
  | Evict => hub_drop c
  | Shutdown => set_shutdown c
  | Refused _ => c
  end.

(* ---- the next step of each goroutine ---- *)
(* readPump: its read fails -> deferred: unregister (Hub.drop), conn.Close(); then `done` is closed *)
Definition step_reader (c : conn) : conn :=
  if h_reader c && sock_dead c
  then mkconn (joined c) (ended c) (topic c) false false (h_writer c) (h_watcher c) false false (h_timer c)
              true true (cancelled c) true (timer_fired c) (denied_ c) (shutdown_ c)
  else c.

(* writePump: queue closed, cancelled, or shutdown -> return; deferred conn.Close() *)
Definition step_writer (c : conn) : conn :=
  if h_writer c && (send_closed c || cancelled c || shutdown_ c)
  then mkconn (joined c) (ended c) (topic c) false (h_reader c) false (h_watcher c) (h_member c) (h_chan c) (h_timer c)
              true (send_closed c) (cancelled c) (done_ c) (timer_fired c) (denied_ c) (shutdown_ c)
  else c.

(* watcher: timer, deny or done -> timer.Stop(), close(cancelled), conn.Close() *)
Definition step_watcher (c : conn) : conn :=
  if h_watcher c && (timer_fired c || denied_ c || done_ c)
  then mkconn (joined c) (ended c) (topic c) false (h_reader c) (h_writer c) false (h_member c) (h_chan c) false
              true (send_closed c) true (done_ c) (timer_fired c) (denied_ c) (shutdown_ c)
  else c.

(* "once its pumps have taken their next step": each goroutine gets the chance to run, twice
   (the reader's exit is what wakes the watcher after an ordinary close, the watcher's what wakes
   the writer after an expiry) *)
Definition round (c : conn) : conn := step_reader (step_watcher (step_writer c)).
Definition settle (c : conn) : conn := round (round c).

(* ---- histories over many connections ---- *)
Inductive event :=
| EConnect (id : N) (o : outcome) (tp : N) (has_bid : bool)
| EEnd (id : N) (r : reason)
| EReader (id : N) | EWriter (id : N) | EWatcher (id : N).   (* scheduling of the goroutines *)

Definition sys := alist N conn.
Notation clk := (@lookup N conn N.eqb).
Notation cins := (@insert N conn N.eqb).

Definition upd (s : sys) (id : N) (f : conn -> conn) : sys :=
  match clk id s with Some c => cins id (f c) s | None => s end.

Definition step (s : sys) (e : event) : sys :=
  match e with
  | EConnect id o tp b => match clk id s with Some _ => s | None => cins id (connect o tp b) s end
  | EEnd id r => upd s id (end_with r)
  | EReader id => upd s id step_reader
  | EWriter id => upd s id step_writer
  | EWatcher id => upd s id step_watcher
  end.

Definition run (h : list event) : sys := fold_left step h [].

Definition settle_all (s : sys) : sys := map (fun kv => (fst kv, settle (snd kv))) s.

(* ---- what can be observed ---- *)
Definition count_res (k : res) (s : sys) : N := count_true (fun kv => holds (snd kv) k) s.
Definition live (s : sys) : N := count_true (fun kv => joined (snd kv) && negb (ended (snd kv))) s.
Definition refused_open (s : sys) : N := count_true (fun kv => negb (joined (snd kv)) && h_sock (snd kv)) s.

(* the status report lists, and fan-out on a topic reaches, exactly the members *)
Definition status_report (s : sys) : list N := map fst (filter (fun kv => h_member (snd kv)) s).
Definition fanout (s : sys) (tp sender : N) : list N :=
  map fst (filter (fun kv => h_member (snd kv) && (topic (snd kv) =? tp)%N && negb (fst kv =? sender)%N) s).
Definition report_topics (s : sys) : list N := sortN (map (fun kv => topic (snd kv)) (filter (fun kv => h_member (snd kv)) s)).
