(* Shapes of the relay's service loops  `for { ... select { case ... } ... }`  and what one
   iteration does with each case.  The IR is regenerated from the Go source on every run by
   translator/loops into Gen/LoopGen.v.  Models only, no proofs.

   A case is described by the text of its channel expression and by how control leaves the case
   body on its main path:
     Return       the goroutine function returns
     BreakLabel   `break L` where L labels the service loop itself or a statement around it
     BreakSelect  an unlabelled `break`: it leaves the SELECT only, the `for` goes round again
     Continue     `continue`: next iteration
     Fall         the body runs off its end: the statements after the select run, next iteration *)
From Relay Require Import Base.Prelude.

Inductive term := Return | BreakLabel | BreakSelect | Continue | Fall.

Record scase := mkcase { chan : string; tm : term }.

Record loop := mkloop {
  lname : string;         (* file:function:line of the `for` *)
  sees_closed : bool;     (* a shutdown channel named `closed` is in scope of the loop
                             (parameter of the enclosing function, or a field the function uses) *)
  has_default : bool;     (* the select has a `default:` arm (it would never block) *)
  cases : list scase }.

(* ---- which channel expressions are shutdown channels: `closed`, `x.closed`, `ctx.Done()` ---- *)
Fixpoint ends_with_rev (suf s : list ascii) : bool :=  (* both reversed: is suf a prefix of s *)
  match suf, s with
  | [], _ => true
  | a :: suf', b :: s' => Ascii.eqb a b && ends_with_rev suf' s'
  | _ :: _, [] => false
  end.

Definition ends_with (suf s : string) : bool :=
  ends_with_rev (rev (list_ascii_of_string suf)) (rev (list_ascii_of_string s)).

Definition shutdown_chan (s : string) : bool :=
  String.eqb s "closed" || ends_with ".closed" s || ends_with ".Done()" s.

Definition is_shutdown (c : scase) : bool := shutdown_chan (chan c).

(* ---- one iteration ---- *)
Inductive lstate := Running | Exited.

Definition leaves (t : term) : bool :=
  match t with Return | BreakLabel => true | _ => false end.

(* the select has chosen case i (it must be ready); an index outside the select means the
   default arm / nothing, which stays in the loop *)
Definition iter (l : loop) (i : nat) : lstate :=
  match nth_error (cases l) i with
  | Some c => if leaves (tm c) then Exited else Running
  | None => Running
  end.

(* a run is the list of cases the select picked, iteration after iteration; it ends at the
   first iteration that leaves the loop *)
Fixpoint run (l : loop) (sched : list nat) : lstate :=
  match sched with
  | [] => Running
  | i :: r => match iter l i with Exited => Exited | Running => run l r end
  end.

(* which cases can be picked once `closed` has been closed, when the other channels listed in
   [busy] (by index) are also ready: a receive from a closed channel never blocks *)
Fixpoint ready_from (k : nat) (cs : list scase) (busy : list nat) : list nat :=
  match cs with
  | [] => []
  | c :: r => if is_shutdown c || existsb (Nat.eqb k) busy
              then k :: ready_from (S k) r busy else ready_from (S k) r busy
  end.
Definition ready_after_close (l : loop) (busy : list nat) : list nat := ready_from 0 (cases l) busy.

(* the select blocks (the goroutine sleeps) exactly when nothing is ready and there is no default *)
Definition blocks (l : loop) (ready : list nat) : bool :=
  match ready with [] => negb (has_default l) | _ => false end.

(* ---- the checker evaluated on the generated IR ---- *)
Definition listens (l : loop) : bool := existsb is_shutdown (cases l).

(* a case on the channel of a timer that is made once (time.NewTimer) and never re-armed inside the
   loop can be taken once only: a periodic service built on it runs a single period. The translator
   marks such a channel with the prefix "oneshot:" *)
Fixpoint starts_with (p s : list ascii) : bool :=
  match p, s with
  | [], _ => true
  | a :: p', b :: s' => Ascii.eqb a b && starts_with p' s'
  | _ :: _, [] => false
  end.
Definition is_oneshot (c : scase) : bool :=
  starts_with (list_ascii_of_string "oneshot:") (list_ascii_of_string (chan c)).

Definition case_ok (c : scase) : bool :=
  negb (is_oneshot c) && (if is_shutdown c then leaves (tm c) else true).

Definition loop_ok (l : loop) : bool :=
  negb (has_default l) &&
  forallb case_ok (cases l) &&
  (if sees_closed l then listens l else true).

Definition stops_on_close (ls : list loop) : bool := forallb loop_ok ls.

(* loops that have no shutdown case at all (reported in the evidence; they block, they do not spin) *)
Definition deaf (ls : list loop) : list string := map lname (filter (fun l => negb (listens l)) ls).

(* the first loop/case that makes the checker fail, for the violation report *)
Definition offenders (ls : list loop) : list string := map lname (filter (fun l => negb (loop_ok l)) ls).
