(* Model of internal/rwc/rwc.go (Hub.Run): one reconnecting websocket client per destination rule id.

   Rule ids, stream names and destination URLs are interned by the harness to N; id 0 is the reserved
   word "deleteAll".  Token and File of a rule are not modelled.  Every client the hub creates gets a
   fresh generation number (it stands for the Client object: its context, its hub.Client registered
   with the messages hub, its reconnecting websocket).  [members] is the set of clients currently
   registered with the messages hub (agg.Hub): a broadcast on a stream is offered to the Send channel
   of exactly those whose rule names the stream.  [ended] lists the generations whose context has been
   cancelled.  Each step also returns the events it performs, in program order.
   Models only, no proofs. *)
From Relay Require Import Base.Prelude Base.AList.

Record rule := mkrule { rid : N; rstream : N; rdest : N }.
Record client := mkcl { cgen : N; crule : rule }.

Inductive ev :=
| EUnreg (g : N)        (* h.Messages.Unregister <- client.Messages *)
| ECancel (g : N)       (* client.Cancel() : stops RelayIn / RelayOut / Reconnect *)
| EInstall (id g : N)   (* h.Clients[id] = client *)
| EReg (g : N)          (* h.Messages.Register <- client.Messages *)
| EEnq (g : N).         (* the messages hub offers a broadcast to client g *)

Record st := mkst {
  clients : alist N client;      (* Hub.Clients *)
  rules : alist N rule;          (* Hub.Rules *)
  members : list client;         (* registered with Hub.Messages *)
  ended : list N;                (* cancelled generations *)
  nextgen : N }.

Definition init : st := mkst [] [] [] [] 0.
Definition reserved : N := 0.

Notation clk := (@lookup N client N.eqb).
Notation cins := (@insert N client N.eqb).
Notation crm := (@remove N client N.eqb).
Notation rlk := (@lookup N rule N.eqb).
Notation rins := (@insert N rule N.eqb).
Notation rrm := (@remove N rule N.eqb).

Inductive op := Add (r : rule) | Delete (id : N) | DeleteAll | Bcast (stream : N).

Definition drop_member (g : N) (l : list client) : list client :=
  filter (fun c => negb (N.eqb (cgen c) g)) l.

(* h.Messages.Unregister <- client.Messages ; client.Cancel() *)
Definition stop (c : client) (s : st) : st * list ev :=
  (mkst (clients s) (rules s) (drop_member (cgen c) (members s)) (cgen c :: ended s) (nextgen s),
   [EUnreg (cgen c); ECancel (cgen c)]).

Fixpoint stop_all (cs : list client) (s : st) : st * list ev :=
  match cs with
  | [] => (s, [])
  | c :: r => let '(s1, e1) := stop c s in let '(s2, e2) := stop_all r s1 in (s2, e1 ++ e2)
  end.

Definition set_maps (cm : alist N client) (rm : alist N rule) (s : st) : st :=
  mkst cm rm (members s) (ended s) (nextgen s).

(* "if client, ok := h.Clients[id]; ok { unregister; cancel; delete(h.Clients, id) }" *)
Definition stop_id (id : N) (s : st) : st * list ev :=
  match clk id (clients s) with
  | Some c => let '(s1, e) := stop c s in (set_maps (crm id (clients s1)) (rules s1) s1, e)
  | None => (s, [])
  end.

Definition delete_all (s : st) : st * list ev :=
  let '(s1, e) := stop_all (map snd (clients s)) s in (set_maps [] [] s1, e).

Definition stream_eqb (str : N) (c : client) : bool := N.eqb (rstream (crule c)) str.

(* new state, events in program order, destinations a broadcast is offered to *)
Definition step (s : st) (o : op) : st * list ev * list N :=
  match o with
  | Add r =>
      if N.eqb (rid r) reserved then (s, [], [])
      else
        let '(s1, e1) := stop_id (rid r) s in
        let c := mkcl (nextgen s1) r in
        (mkst (cins (rid r) c (clients s1)) (rins (rid r) r (rrm (rid r) (rules s1)))
              (members s1 ++ [c]) (ended s1) (N.succ (nextgen s1)),
         e1 ++ [EInstall (rid r) (cgen c); EReg (cgen c)], [])
  | Delete id =>
      if N.eqb id reserved then let '(s1, e) := delete_all s in (s1, e, [])
      else let '(s1, e) := stop_id id s in (set_maps (clients s1) (rrm id (rules s1)) s1, e, [])
  | DeleteAll => let '(s1, e) := delete_all s in (s1, e, [])
  | Bcast str =>
      let l := filter (stream_eqb str) (members s) in
      (s, map (fun c => EEnq (cgen c)) l, map (fun c => rdest (crule c)) l)
  end.

Definition next (s : st) (o : op) : st := fst (fst (step s o)).
Definition events (s : st) (o : op) : list ev := snd (fst (step s o)).
Definition final (ops : list op) : st := fold_left next ops init.

(* all events of a history, in order *)
Fixpoint trace_from (s : st) (ops : list op) : list ev :=
  match ops with
  | [] => []
  | o :: r => events s o ++ trace_from (next s o) r
  end.
Definition trace (ops : list op) : list ev := trace_from init ops.

(* per operation: the state after it and what a broadcast was offered to *)
Fixpoint run (s : st) (ops : list op) : list (st * list N) :=
  match ops with
  | [] => []
  | o :: r => let s1 := next s o in (s1, snd (step s o)) :: run s1 r
  end.

(* ---- what the property says, read off the history alone ---- *)
Definition latest_step (id : N) (a : option rule) (o : op) : option rule :=
  match o with
  | Add r => if N.eqb (rid r) reserved then a else if N.eqb id (rid r) then Some r else a
  | Delete id' => if N.eqb id' reserved then None else if N.eqb id id' then None else a
  | DeleteAll => None
  | Bcast _ => a
  end.
(* the rule most recently added under id and not since deleted *)
Definition latest (ops : list op) (id : N) : option rule := fold_left (latest_step id) ops None.

(* generation g is installed for id and not (yet) cancelled, as far as the events in tr go *)
Definition live_in (tr : list ev) (id g : N) : Prop := In (EInstall id g) tr /\ ~ In (ECancel g) tr.

(* the operation does not name rule id *)
Definition untouched (o : op) (id : N) : Prop :=
  match o with
  | Add r => rid r <> id
  | Delete id' => id' <> id /\ id' <> reserved
  | DeleteAll => False
  | Bcast _ => True
  end.

(* rule.ID == "deleteAll" : the reserved word is that exact string, every other string is an ordinary
   id.  The harness sends an id's name and its number; whether it is reserved is decided here. *)
Definition id_of_name (name : string) (n : N) : N :=
  if String.eqb name "deleteAll" then reserved else n.
