(* The programs the threads of the interleaving model (Model/RelaySys.v) follow, written as the sequences of store
   operations of the Go handlers they stand for, one GROUP of operations per model step (= the code between two
   consecutive scheduling points). translator/handlers regenerates the same sequences from the Go source on every
   run (Gen/HandlerGen.v) and [handlers_ok] compares; [group_sem] gives each group its meaning as a state
   transformer of the model and Proofs/HandlerIR_proofs.v shows that tstep / denyloop apply exactly that. *)
From Relay Require Import Base.Prelude Model.RelaySys.
Open Scope string_scope.

Inductive hitem :=
| HHook (name : string)      (* verifhook.Point(name, ..) *)
| HOp (name : string)        (* a call on a shared store: "DenyStore.Deny", "CodeStore.SubmitToken", "dcs.Add", ... *)
| HSend (name : string).     (* a send on a channel that connects handlers: "DenyChannel", "hub.register" *)

Definition hitem_eqb (a b : hitem) : bool :=
  match a, b with
  | HHook x, HHook y | HOp x, HOp y | HSend x, HSend y => String.eqb x y
  | _, _ => false
  end.

Fixpoint list_eqb {A} (eqb : A -> A -> bool) (l1 l2 : list A) : bool :=
  match l1, l2 with
  | [], [] => true
  | x :: r1, y :: r2 => eqb x y && list_eqb eqb r1 r2
  | _, _ => false
  end.

Definition is_hook (x : hitem) : bool := match x with HHook _ => true | _ => false end.

(* cut a sequence at the scheduling points; empty groups (two points in a row) are dropped *)
Fixpoint groups_aux (l : list hitem) (cur : list hitem) : list (list hitem) :=
  match l with
  | [] => match cur with [] => [] | _ => [rev cur] end
  | x :: r => if is_hook x then (match cur with [] => groups_aux r [] | _ => rev cur :: groups_aux r [] end)
              else groups_aux r (x :: cur)
  end.
Definition groups (l : list hitem) : list (list hitem) := groups_aux l [].

Definition starts_with_hook (l : list hitem) : bool := match l with x :: _ => is_hook x | [] => false end.
Definition ends_with_hook (l : list hitem) : bool := starts_with_hook (rev l).

(* ---- the programs of the model's threads: one group per value of the program counter ---- *)
Definition program_session : list (list hitem) := [[HOp "DenyStore.AllowIfNotDenied"]; [HOp "CodeStore.SubmitToken"]].
Definition program_deny : list (list hitem) := [[HOp "DenyStore.Deny"]; [HOp "CodeStore.DeleteByBookingID"]; [HSend "DenyChannel"]].
Definition program_allow : list (list hitem) := [[HOp "DenyStore.Allow"]].
Definition program_ws : list (list hitem) :=
  [[HOp "CodeStore.ExchangeCode"; HOp "dcs.Add"]; [HOp "DenyStore.IsDenied"; HOp "dcs.DeleteChild"]; [HSend "hub.register"]].
Definition program_drop : list (list hitem) := [[HOp "dcs.DeleteChild"]].   (* + the hub's own membership map, inside Hub.drop *)
Definition program_denyloop : list (list hitem) := [[HOp "dcs.DeleteAndCloseParent"]].

(* (handler, its program, must the whole sequence be enclosed by scheduling points at both ends?) *)
Definition programs : list (string * list (list hitem) * bool) :=
  [("session", program_session, true); ("deny", program_deny, true); ("allow", program_allow, true);
   ("ws", program_ws, true); ("drop", program_drop, false); ("denyloop", program_denyloop, true)].

Fixpoint lookup_h (k : string) (l : list (string * list hitem)) : option (list hitem) :=
  match l with [] => None | (k', v) :: r => if String.eqb k k' then Some v else lookup_h k r end.

Definition handler_ok (gen : list (string * list hitem)) (p : string * list (list hitem) * bool) : bool :=
  let '(name, prog, enclosed) := p in
  match lookup_h name gen with
  | None => false
  | Some l => list_eqb (list_eqb hitem_eqb) (groups l) prog && ends_with_hook l && (negb enclosed || starts_with_hook l)
  end.

Definition handlers_ok (gen : list (string * list hitem)) : bool := forallb (handler_ok gen) programs.

(* ---- what a group does to the model's state (k: the index of the thread = the connection's name; b: the booking
   the thread acts on; e: the expiry a deny request states; c: the code a websocket presents) ---- *)
Definition group_sem (g : list hitem) (k : nat) (b : N) (e : Z) (c : N) (s : sys) : option sys :=
  if list_eqb hitem_eqb g [HOp "DenyStore.AllowIfNotDenied"] then Some (if memN b (deny s) then s else op_track s b)
  else if list_eqb hitem_eqb g [HOp "CodeStore.SubmitToken"] then Some (op_submit s b)
  else if list_eqb hitem_eqb g [HOp "DenyStore.Deny"] then Some (op_deny_until s b e)
  else if list_eqb hitem_eqb g [HOp "CodeStore.DeleteByBookingID"] then Some (op_purge s b)
  else if list_eqb hitem_eqb g [HSend "DenyChannel"] then Some (op_notify s b)
  else if list_eqb hitem_eqb g [HOp "DenyStore.Allow"] then Some (op_allow s b)
  else if list_eqb hitem_eqb g [HOp "CodeStore.ExchangeCode"; HOp "dcs.Add"] then
    Some (match lookupc c (codes s) with None => s | Some b' => op_exchange_record s c k b' end)
  else if list_eqb hitem_eqb g [HOp "DenyStore.IsDenied"; HOp "dcs.DeleteChild"] then
    Some (if memN b (deny s) then op_delchild s k else s)
  else if list_eqb hitem_eqb g [HSend "hub.register"] then Some (op_register s k b)
  else if list_eqb hitem_eqb g [HOp "dcs.DeleteChild"] then Some (op_drop s k)
  else None.
