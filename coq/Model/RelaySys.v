(* Small-step interleaving model of the relay's handlers over the shared stores (C07).
   A thread is a handler instance with a program counter; ONE step of a thread is exactly the code
   between two consecutive verifhook scheduling points (one store operation). The crossbar's deny
   loop is the extra actor L. Sources: internal/access/access.go (sessionHandler, denyHandler,
   allowHandler), internal/crossbar/crossbar.go (serveWs, Hub.drop, the deny loop in
   handleConnections), internal/deny, internal/ttlcode, internal/chanmap.
   Booking ids and codes are N; a connection is named by the index of its websocket thread.
   Expiry/pruning of deny entries is C10's subject and is not modelled here. Models only. *)
From Relay Require Import Base.Prelude.

Definition memN (x : N) (l : list N) : bool := existsb (N.eqb x) l.
Definition rmN (x : N) (l : list N) : list N := filter (fun y => negb (N.eqb y x)) l.
Definition memn (x : nat) (l : list nat) : bool := existsb (Nat.eqb x) l.

Inductive thread :=
| TSession (b : N) (pc : nat) (st : N)
    (* pc 0: DenyStore.AllowIfNotDenied (400 if denied); 1: CodeStore.SubmitToken; 2: finished. st = HTTP status *)
| TDeny (b : N) (e : Z) (pc : nat)
    (* a deny request for booking b until expiry e.
       0: DenyStore.Deny; 1: CodeStore.DeleteByBookingID; 2: DenyChannel <- bid; 3: finished (204) *)
| TAllow (b : N) (pc : nat)
    (* 0: DenyStore.Allow; 1: finished (204) *)
| TWs (c : N) (pc : nat) (tok : option N)
    (* 0: ExchangeCode, then dcs.Add(bid, name, denied); 1: IsDenied re-check (refusal drops the channel entry);
       2: hub.register; 3: joined; 9: refused *)
| TLeave (k : nat) (pc : nat)
    (* the client of connection k goes away: 0: Hub.drop (membership + dcs.DeleteChild); 1: finished *)
| TPrune (t : Z) (pc : nat).
    (* one tick of relay.go's prune loop with the clock reading t: 0: DenyStore.Prune (drops entries whose
       own expiry is < t); 1: finished *)

Record sys := mksys {
  deny : list N;                 (* DenyStore.DenyList (keys) *)
  allow : list N;                (* DenyStore.AllowList (keys) *)
  codes : list (N * N);          (* CodeStore: code -> booking id *)
  nextc : N;                     (* next code SubmitToken will mint (uuid: fresh) *)
  chm : list (nat * N);          (* chanmap: connection name -> booking id (its deny channel is recorded) *)
  closed : list nat;             (* connections whose deny channel has been closed *)
  members : list (nat * N);      (* hub membership: connection -> booking id *)
  ended : list nat;              (* connections that were dropped (client gone) *)
  q : list N;                    (* DenyChannel *)
  threads : list thread;
  dexp : list (N * Z)            (* DenyStore.DenyList values: the expiry each deny request stated (latest wins) *)
}.

Fixpoint lookupc (c : N) (l : list (N * N)) : option N :=
  match l with [] => None | (c', b) :: r => if N.eqb c c' then Some b else lookupc c r end.

Fixpoint upd {A} (l : list A) (i : nat) (x : A) : list A :=
  match l, i with [], _ => [] | _ :: r, O => x :: r | y :: r, S j => y :: upd r j x end.

Definition with_threads (s : sys) (ts : list thread) : sys :=
  mksys (deny s) (allow s) (codes s) (nextc s) (chm s) (closed s) (members s) (ended s) (q s) ts (dexp s).

(* the store operations *)
Definition rmE (b : N) (l : list (N * Z)) : list (N * Z) := filter (fun be => negb (N.eqb (fst be) b)) l.
Definition op_deny_until (s : sys) (b : N) (e : Z) : sys :=
  mksys (b :: rmN b (deny s)) (rmN b (allow s)) (codes s) (nextc s) (chm s) (closed s) (members s) (ended s) (q s) (threads s)
        ((b, e) :: rmE b (dexp s)).
Definition op_deny (s : sys) (b : N) : sys := op_deny_until s b 0.
(* DenyStore.Prune at clock t: an entry leaves the deny list when its own stated expiry is < t *)
Definition expired_at (s : sys) (t : Z) (b : N) : bool :=
  existsb (fun be => N.eqb (fst be) b && (snd be <? t)%Z) (dexp s).
Definition op_prune (s : sys) (t : Z) : sys :=
  mksys (filter (fun b => negb (expired_at s t b)) (deny s)) (allow s) (codes s) (nextc s) (chm s) (closed s) (members s) (ended s)
        (q s) (threads s) (filter (fun be => negb (snd be <? t)%Z) (dexp s)).
Definition op_allow (s : sys) (b : N) : sys :=
  mksys (rmN b (deny s)) (b :: rmN b (allow s)) (codes s) (nextc s) (chm s) (closed s) (members s) (ended s) (q s) (threads s) (dexp s).
Definition op_track (s : sys) (b : N) : sys :=   (* AllowIfNotDenied when not denied *)
  mksys (deny s) (b :: rmN b (allow s)) (codes s) (nextc s) (chm s) (closed s) (members s) (ended s) (q s) (threads s) (dexp s).
Definition op_submit (s : sys) (b : N) : sys :=
  mksys (deny s) (allow s) ((nextc s, b) :: codes s) (N.succ (nextc s)) (chm s) (closed s) (members s) (ended s) (q s) (threads s) (dexp s).
Definition op_purge (s : sys) (b : N) : sys :=
  mksys (deny s) (allow s) (filter (fun cb => negb (N.eqb (snd cb) b)) (codes s)) (nextc s) (chm s) (closed s) (members s) (ended s) (q s) (threads s) (dexp s).
Definition op_notify (s : sys) (b : N) : sys :=
  mksys (deny s) (allow s) (codes s) (nextc s) (chm s) (closed s) (members s) (ended s) (q s ++ [b]) (threads s) (dexp s).
Definition op_exchange_record (s : sys) (c : N) (k : nat) (b : N) : sys :=
  mksys (deny s) (allow s) (filter (fun cb => negb (N.eqb (fst cb) c)) (codes s)) (nextc s)
        ((k, b) :: chm s) (closed s) (members s) (ended s) (q s) (threads s) (dexp s).
Definition op_delchild (s : sys) (k : nat) : sys :=
  mksys (deny s) (allow s) (codes s) (nextc s) (filter (fun kb => negb (Nat.eqb (fst kb) k)) (chm s))
        (closed s) (members s) (ended s) (q s) (threads s) (dexp s).
Definition op_register (s : sys) (k : nat) (b : N) : sys :=
  mksys (deny s) (allow s) (codes s) (nextc s) (chm s) (closed s) ((k, b) :: members s) (ended s) (q s) (threads s) (dexp s).
Definition op_drop (s : sys) (k : nat) : sys :=
  mksys (deny s) (allow s) (codes s) (nextc s) (filter (fun kb => negb (Nat.eqb (fst kb) k)) (chm s))
        (closed s) (filter (fun kb => negb (Nat.eqb (fst kb) k)) (members s)) (k :: ended s) (q s) (threads s) (dexp s).

(* one atomic step of thread i (None: finished, or no such thread) -- the CURRENT code *)
Definition tstep (s : sys) (i : nat) : option sys :=
  match nth_error (threads s) i with
  | None => None
  | Some t =>
    let put t' s' := Some (with_threads s' (upd (threads s) i t')) in
    match t with
    | TSession b 0 _ => if memN b (deny s) then put (TSession b 2 400) s else put (TSession b 1 0) (op_track s b)
    | TSession b 1 _ => put (TSession b 2 200) (op_submit s b)
    | TDeny b e 0 => put (TDeny b e 1) (op_deny_until s b e)
    | TDeny b e 1 => put (TDeny b e 2) (op_purge s b)
    | TDeny b e 2 => put (TDeny b e 3) (op_notify s b)
    | TAllow b 0 => put (TAllow b 1) (op_allow s b)
    | TWs c 0 _ => match lookupc c (codes s) with
                   | None => put (TWs c 9 None) s
                   | Some b => put (TWs c 1 (Some b)) (op_exchange_record s c i b)
                   end
    | TWs c 1 (Some b) => if memN b (deny s) then put (TWs c 9 (Some b)) (op_delchild s i) else put (TWs c 2 (Some b)) s
    | TWs c 2 (Some b) => put (TWs c 3 (Some b)) (op_register s i b)
    | TLeave k 0 => put (TLeave k 1) (op_drop s k)
    | TPrune t 0 => put (TPrune t 1) (op_prune s t)
    | _ => None
    end
  end.

(* the crossbar's deny loop: take one notification, close and forget every channel of that booking *)
Definition denyloop (s : sys) : option sys :=
  match q s with
  | [] => None
  | b :: r => Some (mksys (deny s) (allow s) (codes s) (nextc s)
                      (filter (fun kb => negb (N.eqb (snd kb) b)) (chm s))
                      (map fst (filter (fun kb => N.eqb (snd kb) b) (chm s)) ++ closed s)
                      (members s) (ended s) r (threads s) (dexp s))
  end.

Inductive who := T (i : nat) | L.

Definition step (s : sys) (w : who) : option sys :=
  match w with T i => tstep s i | L => denyloop s end.

(* a schedule may name a thread that cannot move; such entries are skipped *)
Fixpoint run (sched : list who) (s : sys) : sys :=
  match sched with
  | [] => s
  | w :: r => match step s w with Some s' => run r s' | None => run r s end
  end.

Definition finished (t : thread) : bool :=
  match t with
  | TSession _ pc _ => (2 <=? pc)
  | TDeny _ _ pc => (3 <=? pc)
  | TAllow _ pc => (1 <=? pc)
  | TWs _ pc _ => (3 <=? pc)
  | TLeave _ pc => (1 <=? pc)
  | TPrune _ pc => (1 <=? pc)
  end.

Definition quiescent (s : sys) : bool :=
  forallb finished (threads s) && match q s with [] => true | _ => false end.

(* a connection is live when the hub lists it, its deny channel has not been closed and its client has not gone *)
Definition live (s : sys) (k : nat) (b : N) : bool :=
  existsb (fun kb => Nat.eqb (fst kb) k && N.eqb (snd kb) b) (members s) && negb (memn k (closed s)) && negb (memn k (ended s)).

Definition live_conns (s : sys) (b : N) : list nat :=
  map fst (filter (fun kb => N.eqb (snd kb) b && negb (memn (fst kb) (closed s)) && negb (memn (fst kb) (ended s))) (members s)).

Definition init (ts : list thread) (cs : list (N * N)) (n : N) : sys := mksys [] [] cs n [] [] [] [] [] ts [].

(* ---- the code as it was before the two repairs (kept to show that the theorems tell them apart) ---- *)
Inductive othread :=
| OSession (b : N) (pc : nat) (st : N)     (* 0 IsDenied; 1 Allow (erases the deny entry); 2 Submit; 3 finished *)
| ODenyT (b : N) (pc : nat)
| OWs (c : N) (pc : nat) (tok : option N). (* 0 Exchange; 1 IsDenied; 2 register + hub records the channel; 3 joined; 9 refused *)

Record osys := mkosys { osy : sys; othreads : list othread }.

Definition otstep (o : osys) (i : nat) : option osys :=
  let s := osy o in
  match nth_error (othreads o) i with
  | None => None
  | Some t =>
    let put t' s' := Some (mkosys s' (upd (othreads o) i t')) in
    match t with
    | OSession b 0 _ => if memN b (deny s) then put (OSession b 3 400) s else put (OSession b 1 0) s
    | OSession b 1 _ => put (OSession b 2 0) (op_allow s b)
    | OSession b 2 _ => put (OSession b 3 200) (op_submit s b)
    | ODenyT b 0 => put (ODenyT b 1) (op_deny s b)
    | ODenyT b 1 => put (ODenyT b 2) (op_purge s b)
    | ODenyT b 2 => put (ODenyT b 3) (op_notify s b)
    | OWs c 0 _ => match lookupc c (codes s) with
                   | None => put (OWs c 9 None) s
                   | Some b => put (OWs c 1 (Some b))
                                 (mksys (deny s) (allow s) (filter (fun cb => negb (N.eqb (fst cb) c)) (codes s)) (nextc s)
                                        (chm s) (closed s) (members s) (ended s) (q s) (threads s) (dexp s))
                   end
    | OWs c 1 (Some b) => if memN b (deny s) then put (OWs c 9 (Some b)) s else put (OWs c 2 (Some b)) s
    | OWs c 2 (Some b) => put (OWs c 3 (Some b))
                            (mksys (deny s) (allow s) (codes s) (nextc s) ((i, b) :: chm s) (closed s) ((i, b) :: members s) (ended s) (q s) (threads s) (dexp s))
    | _ => None
    end
  end.

Definition ostep (o : osys) (w : who) : option osys :=
  match w with
  | T i => otstep o i
  | L => match denyloop (osy o) with Some s' => Some (mkosys s' (othreads o)) | None => None end
  end.

Fixpoint orun (sched : list who) (o : osys) : osys :=
  match sched with [] => o | w :: r => match ostep o w with Some o' => orun r o' | None => orun r o end end.

Definition ofinished (t : othread) : bool :=
  match t with OSession _ pc _ => (3 <=? pc) | ODenyT _ pc => (3 <=? pc) | OWs _ pc _ => (3 <=? pc) end.
Definition oquiescent (o : osys) : bool :=
  forallb ofinished (othreads o) && match q (osy o) with [] => true | _ => false end.
