(* Model of internal/reconws/reconws.go (Reconnect, ReconnectAuth, Dial) and of
   github.com/jpillora/backoff v1.0.0 (Duration / ForAttempt / Reset, jitter off), as the code is
   after fix F19a (the backoff wait of ReconnectAuth also ends on ctx.Done()).
   Durations are nanoseconds in Z.  Models only, no proofs. *)
From Relay Require Import Base.Prelude.
Local Open Scope Z_scope.

(* ------------------------------------------------------------------ backoff.ForAttempt *)

(* float64(x) for a positive int64 x: round to nearest, ties to even, 53-bit significand *)
Definition f64_of_Z (x : Z) : Z :=
  let bits := Z.log2 x + 1 in
  if bits <=? 53 then x
  else
    let e := bits - 53 in
    let q := Z.shiftr x e in
    let r := x - q * 2 ^ e in
    let half := 2 ^ (e - 1) in
    let q' := if (half <? r) || ((r =? half) && Z.odd q) then q + 1 else q in
    q' * 2 ^ e.

Definition max_int64_f : Z := 2 ^ 63 - 1024.        (* float64(math.MaxInt64 - 512) *)
Definition default_min : Z := 100000000.            (* 100 ms *)
Definition default_max : Z := 10000000000.          (* 10 s *)

(* ForAttempt(n) with Jitter = false.  minf * factor^n is exact in float64 for factor = 2 (a
   power-of-two scaling) until it overflows to +Inf, which lands in the same "> maxInt64" branch
   as the exact value does; other factors are outside what this model claims. *)
(* the tail of ForAttempt: overflow guard, then "keep within bounds" *)
Definition backoff_clamp (mn' mx' durf : Z) : Z :=
  if max_int64_f <? durf then mx'
  else if durf <? mn' then mn'
  else if mx' <? durf then mx'
  else durf.

Definition eff_min (mn : Z) : Z := if mn <=? 0 then default_min else mn.
Definition eff_max (mx : Z) : Z := if mx <=? 0 then default_max else mx.

Definition backoff_dur (mn mx factor : Z) (n : nat) : Z :=
  let mn' := eff_min mn in
  let mx' := eff_max mx in
  if mx' <=? mn' then mx'
  else
    let f := if factor <=? 0 then 2 else factor in
    backoff_clamp mn' mx' (f64_of_Z mn' * f ^ (Z.of_nat n)).

(* Jitter = true: durf is replaced by rand*(durf-minf)+minf before the same tail.  The model does not
   say which value the random product takes: [d] is ANY value. *)
Definition backoff_dur_jitter (mn mx : Z) (d : Z) : Z :=
  let mn' := eff_min mn in
  let mx' := eff_max mx in
  if mx' <=? mn' then mx' else backoff_clamp mn' mx' d.

Record cfg := mkcfg { cmin : Z; cmax : Z; cfactor : Z }.
Definition dur (c : cfg) (n : nat) : Z := backoff_dur (cmin c) (cmax c) (cfactor c) n.

(* the Backoff object: Duration() returns ForAttempt(attempt) and then increments; Reset() zeroes *)
Inductive bop := BDuration | BReset.
Fixpoint boff_run (c : cfg) (a : nat) (ops : list bop) : list Z :=
  match ops with
  | [] => []
  | BDuration :: r => dur c a :: boff_run c (S a) r
  | BReset :: r => boff_run c 0%nat r
  end.

(* ------------------------------------------------------------------ server behaviours *)

(* what the websocket endpoint does with one dial *)
Inductive beh :=
| Down                      (* nothing listening: connection refused *)
| Refuse                    (* TCP accepted, closed without a reply *)
| Http4xx | Http5xx         (* HTTP reply that is not an upgrade *)
| Garbage                   (* bytes that are not HTTP *)
| EmptyUri                  (* 200 with a JSON body instead of an upgrade *)
| AcceptThenDrop (k : nat)  (* upgrade, k messages each way, then the server drops *)
| AcceptThenDropW (k : nat) (* as AcceptThenDrop, but the loss is noticed by the WRITE loop first: the read
                               goroutine is parked on r.In (nobody consumes it) while the client keeps
                               sending, so a WriteMessage fails before any ReadMessage does *)
| AcceptThenHang (k : nat)  (* upgrade, k messages each way, then the server goes silent: it keeps the
                               TCP connection but neither sends nor answers (not even a close frame) *)
| AcceptThenStay (k : nat)  (* upgrade and stay healthy for as long as the client wants (answers everything,
                               never drops); k messages pass before the client is told to stop *)
| Hang.                     (* request read, never answered: the handshake times out *)

(* what the access endpoint does with one POST (ReconnectAuth only) *)
Inductive abeh :=
| AOk                       (* 200 {"uri":"ws://..."} *)
| ADown | ARefuse | AHang   (* client.Do returns an error (refused / EOF / 10 s client timeout) *)
| AHttp4xx                  (* 401 with the relay's JSON error body: parses, URI empty *)
| AHttp5xx                  (* 5xx with a text body: json.Unmarshal fails *)
| AGarbage                  (* 200 with a body that is not JSON *)
| AEmptyUri.                (* 200 {} : parses, URI empty -> Dial("") refuses before any network use *)

Inductive outcome :=
| OAccessFail               (* no usable reply to the POST *)
| OParseFail                (* reply body is not JSON *)
| OUriFail                  (* JSON without a uri: Dial fails its own checks, no websocket contact *)
| OAbandoned                (* access granted but the context is already cancelled: DialContext
                               fails without contacting the websocket server *)
| OWsFail                   (* websocket dial returned an error *)
| OConnected (k : nat).     (* established; k messages passed, then it ended: Dial returns nil *)

(* How an established connection ends inside Dial, and what Dial then returns.  readClosed: "err = nil";
   a failed WriteMessage is assigned to a variable [err] declared with := INSIDE the case, which shadows
   the function's err (still the nil left by DialContext); ctx.Done() likewise.  So Dial returns nil in
   all three cases - which is the only sign of "it had been established" that the two loops look at. *)
Inductive ender := EReader | EWriter | ECancel.
Definition write_err_is_shadowed : bool := true.
Definition dial_returns_error (e : ender) : bool :=
  match e with EWriter => negb write_err_is_shadowed | _ => false end.

(* Dial: Some k = established and later ended (returns nil), None = error *)
Definition ws_result (b : beh) : option nat :=
  match b with
  | AcceptThenDrop k | AcceptThenHang k | AcceptThenStay k => Some k
  | AcceptThenDropW k => if dial_returns_error EWriter then None else Some k
  | _ => None
  end.

(* the same drop, noticed by the writer instead of the reader *)
Definition to_writer (b : beh) : beh :=
  match b with AcceptThenDrop k => AcceptThenDropW k | _ => b end.

(* the server never ends the connection by itself: Dial sits in its writer loop until ctx.Done() *)
Definition holds (b : beh) : bool :=
  match b with AcceptThenHang _ | AcceptThenStay _ => true | _ => false end.

(* does the peer answer a close frame (gorilla's default close handler echoes it)? *)
Definition peer_answers (b : beh) : bool :=
  match b with AcceptThenHang _ => false | _ => true end.

(* Dial's ctx.Done() branch while connected: write a close frame, then c.Close().  [DAwaitPeer]
   (wait for the reader goroutine to see the peer's answer) is NOT in the code; it is in the
   vocabulary so that the theorem "the connection is closed whatever the peer does" has content. *)
Inductive dact := DSendClose | DAwaitPeer | DCloseConn.
Definition dial_on_cancel : list dact := [DSendClose; DCloseConn].
Fixpoint reaches_close (answers : bool) (acts : list dact) : bool :=
  match acts with
  | [] => false
  | DCloseConn :: _ => true
  | DSendClose :: r => reaches_close answers r
  | DAwaitPeer :: r => answers && reaches_close answers r
  end.

(* the steps of ReconnectAuth before Dial: None = a uri was obtained *)
Definition access_result (a : abeh) : option outcome :=
  match a with
  | AOk => None
  | ADown | ARefuse | AHang => Some OAccessFail
  | AHttp5xx | AGarbage => Some OParseFail
  | AHttp4xx | AEmptyUri => Some OUriFail
  end.

Definition is_success (o : outcome) : bool :=
  match o with OConnected _ => true | _ => false end.

(* ------------------------------------------------------------------ the two loops *)

Inductive loopk := LPlain (* Reconnect *) | LAuth (* ReconnectAuth *).

(* one scheduled attempt: behaviour of the access step (ignored by LPlain) and of the websocket *)
Definition sbeh := (abeh * beh)%type.

(* where, within iteration i, the cancellation of the context arrives *)
Inductive phase :=
| CHead                     (* before the ctx.Done() test at the top of the loop *)
| CWait                     (* during the backoff wait that precedes the attempt *)
| CAccess                   (* while the POST is in flight *)
| CWs                       (* while the websocket dial is in flight *)
| CConn (j : nat).          (* while connected, after j messages *)
Definition cancelpt := option (nat * phase).

Record st := mkst { attempt : nat; wait : bool; cancelled : bool }.
Definition init : st := mkst 0 false false.

Record event := mkev { ev_wait : Z; ev_out : outcome }.

(* result of the body of one loop iteration: the attempt's event (if a network attempt was made),
   the state afterwards, and for LPlain the sleep already served at the end of the iteration *)
Definition stop (s : st) : st := mkst (attempt s) (wait s) true.

(* Dial under a cancellation arriving in phase ph (None: no cancellation in this iteration) *)
Definition dial_outcome (b : beh) (ph : option phase) : outcome :=
  match ws_result b, ph with
  | Some k, Some CWs => OConnected 0
  | Some k, Some (CConn j) => OConnected (Nat.min j k)
  | Some k, _ => OConnected k
  | None, _ => OWsFail
  end.

(* Reconnect:  for { if ctx.Done return;  err := Dial;  if err == nil { boff.Reset() } else
   { time.Sleep(boff.Duration()) } }.   [carry] is the sleep served at the end of the previous
   iteration, i.e. the wait in front of this attempt. *)
Definition iter_plain (c : cfg) (s : st) (carry : Z) (b : beh) (ph : option phase)
  : list event * st * Z :=
  let o := dial_outcome b ph in
  let s1 := if is_success o then mkst 0 false (cancelled s) else mkst (S (attempt s)) false (cancelled s) in
  let carry1 := if is_success o then 0 else dur c (attempt s) in
  let s2 := match ph with Some _ => stop s1 | None => s1 end in
  ([mkev carry o], s2, carry1).

(* ReconnectAuth:  for { if ctx.Done return;  if waitBeforeDial { wait boff.Duration() or return on
   ctx.Done };  waitBeforeDial = true;  POST -> body -> json (continue on any failure);
   err := Dial(uri);  if err == nil { boff.Reset(); waitBeforeDial = false } } *)
Definition iter_auth (c : cfg) (s : st) (ab : sbeh) (ph : option phase) : list event * st * Z :=
  let '(a, b) := ab in
  let w := if wait s then dur c (attempt s) else 0 in
  let att := if wait s then S (attempt s) else attempt s in
  let failed := mkst att true (cancelled s) in
  match ph with
  | Some CWait => ([], stop s, 0)   (* the wait (or, with no wait due, the loop head) sees ctx.Done *)
  | Some CAccess =>
      let o := match access_result a with Some f => f | None => OAbandoned end in
      ([mkev w o], stop failed, 0)
  | _ =>
      match access_result a with
      | Some f => ([mkev w f], match ph with Some _ => stop failed | None => failed end, 0)
      | None =>
          let o := dial_outcome b ph in
          let s1 := if is_success o then mkst 0 false (cancelled s) else failed in
          ([mkev w o], match ph with Some _ => stop s1 | None => s1 end, 0)
      end
  end.

Definition phase_here (cp : cancelpt) (i : nat) : option phase :=
  match cp with
  | Some (ci, p) => if Nat.eqb ci i then Some p else None
  | None => None
  end.

(* cancellations that are seen by the test at the top of iteration i: CHead always; for Reconnect
   also CWait, because its sleep is the tail of the previous iteration *)
Definition seen_at_head (l : loopk) (ph : option phase) : bool :=
  match ph, l with
  | Some CHead, _ => true
  | Some CWait, LPlain => true
  | _, _ => false
  end.

(* this scheduled attempt, once established, is kept open by the server *)
Definition keeps (l : loopk) (ab : sbeh) : bool :=
  match l with
  | LPlain => holds (snd ab)
  | LAuth => match access_result (fst ab) with None => holds (snd ab) | Some _ => false end
  end.

(* the loop does not get past this iteration: Dial neither fails nor ends while the context is live *)
Definition blocked (l : loopk) (ab : sbeh) (ph : option phase) : bool :=
  match ph with None => keeps l ab | Some _ => false end.

Fixpoint run (l : loopk) (c : cfg) (i : nat) (s : st) (carry : Z) (sch : list sbeh) (cp : cancelpt)
  : list event :=
  match sch with
  | [] => []
  | ab :: rest =>
      let ph := phase_here cp i in
      let s0 := if seen_at_head l ph then stop s else s in
      if cancelled s0 then []
      else
        let '(evs, s1, carry1) :=
          match l with
          | LPlain => iter_plain c s0 carry (snd ab) ph
          | LAuth => iter_auth c s0 ab ph
          end in
        evs ++ (if blocked l ab ph then [] else run l c (S i) s1 carry1 rest cp)
  end.

Definition client (l : loopk) (c : cfg) (sch : list sbeh) (cp : cancelpt) : list event :=
  run l c 0 init 0 sch cp.

(* Which loop the users of the client start.  internal/rwc (the host's destinations): "if token == \"\"
   { go ws.Reconnect(ctx, url) } else { go ws.ReconnectAuth(ctx, url, token) }";  internal/file (the
   file tool), pkg/client and through it pkg/status: always ReconnectAuth. *)
Definition wrapper_choice (token_is_empty : bool) : loopk := if token_is_empty then LPlain else LAuth.
Definition file_choice : loopk := LAuth.
Definition client_pkg_choice : loopk := LAuth.

(* what one scheduled attempt yields when no cancellation interferes *)
Definition outcome_of (l : loopk) (ab : sbeh) : outcome :=
  match l with
  | LPlain => dial_outcome (snd ab) None
  | LAuth => match access_result (fst ab) with Some f => f | None => dial_outcome (snd ab) None end
  end.

Definition fails (l : loopk) (ab : sbeh) : bool := negb (is_success (outcome_of l ab)).

(* number of consecutive failing attempts at the end of a schedule prefix *)
Definition trailing_failures (l : loopk) (pre : list sbeh) : nat :=
  fold_left (fun t ab => if fails l ab then S t else 0%nat) pre 0%nat.

(* the wait in front of an attempt that follows t consecutive failures *)
Definition wait_after (c : cfg) (t : nat) : Z :=
  match t with O => 0 | S j => dur c j end.

(* what a server can see of an attempt *)
Definition contacts_access (l : loopk) : bool :=
  match l with LPlain => false | LAuth => true end.
Definition contacts_ws (o : outcome) : bool :=
  match o with OWsFail | OConnected _ => true | _ => false end.

(* ------------------------------------------------------------------ the pumps of Dial *)

(* While connected: the reader goroutine moves the next frame from the connection to r.In; the
   writer loop moves the next message from r.Out to the connection.  Any interleaving. *)
Inductive pstep := PRead | PWrite.

Record pumps := mkpumps {
  conn_in : list N;      (* frames the server has sent, not yet read *)
  to_in : list N;        (* delivered on r.In, oldest first *)
  from_out : list N;     (* messages offered on r.Out, not yet taken *)
  conn_out : list N      (* frames written to the connection, oldest first *)
}.

Definition pump_step (p : pumps) (x : pstep) : pumps :=
  match x with
  | PRead => match conn_in p with
             | [] => p
             | m :: r => mkpumps r (to_in p ++ [m]) (from_out p) (conn_out p)
             end
  | PWrite => match from_out p with
              | [] => p
              | m :: r => mkpumps (conn_in p) (to_in p) r (conn_out p ++ [m])
              end
  end.

Definition pump_run (p : pumps) (xs : list pstep) : pumps := fold_left pump_step xs p.

(* The write loop across connections, with failures.  Each step the loop takes the next message offered
   on r.Out and calls WriteMessage: WOk - it is on the wire; WFail - the write failed (connection reset
   noticed by the writer, or a message that cannot be written at all, e.g. Type 0): the message is
   DROPPED (not put back) and Dial returns nil, so the next message is written on the next connection. *)
Inductive wres := WOk | WFail.
Fixpoint writer_run (offered : list N) (rs : list wres) : list N * list N :=   (* (written, still offered) *)
  match rs, offered with
  | [], _ | _, [] => ([], offered)
  | WOk :: rs', m :: r => let '(w, rest) := writer_run r rs' in (m :: w, rest)
  | WFail :: rs', m :: r => writer_run r rs'
  end.

(* order-preserving sub-list *)
Fixpoint is_subseq (a b : list N) : bool :=
  match a, b with
  | [], _ => true
  | _ :: _, [] => false
  | x :: a', y :: b' => if N.eqb x y then is_subseq a' b' else is_subseq a b'
  end.

(* The wrappers put further single-goroutine forwarders in front of / behind the two pumps:
   pkg/client: Send -> r.Out -> connection and connection -> r.In -> Receive;  pkg/status adds
   Receive -> Status;  rwc: hub -> RelayOut -> r.Out and r.In -> RelayIn -> hub;  file: r.In ->
   WsMessageToLine -> Tee.  A pipeline is a list of queues, queue 0 the source; step i lets the
   forwarder between queue i and queue i+1 move one message (nothing happens if queue i is empty or
   there is no such forwarder).  Any interleaving of the forwarders is a list of such steps. *)
Fixpoint pipe_step (qs : list (list N)) (i : nat) : list (list N) :=
  match qs, i with
  | (m :: q0) :: q1 :: r, O => q0 :: (q1 ++ [m]) :: r
  | q0 :: r, S i' => q0 :: pipe_step r i'
  | _, _ => qs
  end.
Definition pipe_run (qs : list (list N)) (xs : list nat) : list (list N) := fold_left pipe_step xs qs.
(* everything in the pipeline, oldest first: the sink, then what is in flight, then the source *)
Definition pipe_contents (qs : list (list N)) : list N := concat (rev qs).
Definition pipe_init (stages : nat) (input : list N) : list (list N) := input :: repeat [] stages.

(* pkg/status: its goroutine takes the next message from Receive, json-decodes it and forwards the
   reports on Status - or logs and drops a message that does not decode ([ok] is the decoder's verdict,
   an oracle).  One step = one message taken. *)
Definition filt_step (ok : N -> bool) (st : list N * list N) : list N * list N :=
  match fst st with
  | [] => st
  | m :: r => (r, if ok m then snd st ++ [m] else snd st)
  end.
Fixpoint filt_run (ok : N -> bool) (n : nat) (st : list N * list N) : list N * list N :=
  match n with O => st | S n' => filt_run ok n' (filt_step ok st) end.
Definition pumps_init (sent offered : list N) : pumps := mkpumps sent [] offered [].
