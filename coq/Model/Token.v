(* Model of bearer-token validation as the access API performs it:
   internal/access/access.go validateHeader (167-214) on top of golang-jwt/jwt v4.3.0
   (parser.go ParseWithClaims / ParseUnverified, claims.go RegisteredClaims.Valid, verifyAud)
   and go-openapi's apiKey authenticator (security/authenticator.go APIKeyAuth, middleware/context.go
   Authorize).  Base64 / JSON decoding and the HMAC computation are the library's: the harness
   records how it built each bearer as the [shape] / [alg] enumerations and the key it signed with
   ([b_signed]); whether that verifies is decided here, against the configured secret.
   Booking ids are interned to N (0 = the empty string); time is Unix seconds in Z.
   Models only, no proofs. *)
From Relay Require Import Base.Prelude.

(* how far jwt.ParseUnverified gets with the raw header value *)
Inductive shape :=
| SWell            (* three segments, both decode as base64url JSON, claims fit permission.Token *)
| SBadSegments     (* not exactly three dot-separated parts *)
| SBadHeader       (* first segment is not base64url or not a JSON object *)
| SBadClaims.      (* second segment is not base64url / not JSON / a claim has the wrong JSON type *)

(* the "alg" member of the decoded header, classified the way jwt.GetSigningMethod + the key function see it *)
Inductive alg :=
| HS256 | HS384 | HS512      (* *jwt.SigningMethodHMAC *)
| AlgNone                    (* registered, not HMAC *)
| AlgOtherKnown              (* RS*, ES*, PS*, EdDSA: registered, not HMAC *)
| AlgUnknown                 (* a string no method is registered for *)
| AlgAbsent.                 (* missing or not a JSON string *)

Definition is_hmac (a : alg) : bool :=
  match a with HS256 | HS384 | HS512 => true | _ => false end.

Definition alg_registered (a : alg) : bool :=
  match a with AlgUnknown | AlgAbsent => false | _ => true end.

(* permission.Token after json decoding: absent string claims are "", absent lists are [],
   absent numeric dates are nil pointers *)
Record claims := mkclaims {
  c_topic : string;
  c_prefix : string;
  c_booking : N;
  c_scopes : list string;
  c_aud : list string;
  c_exp : option Z;
  c_nbf : option Z;
  c_iat : option Z
}.

Record bearer := mkbearer {
  b_shape : shape;
  b_alg : alg;
  b_header : list string;  (* names of the further JOSE header members (kid, jku, x5c, jwk, crit, ...): read by nobody *)
  b_signed : option N;     (* Some k: the signature is the HMAC (of the alg named) of the signing input under key k
                              (keys interned by the harness; only equality matters); None: it is no such HMAC under
                              any key (truncated, garbage, computed with another hash than the alg named) *)
  b_claims : claims
}.

(* jwt's Method.Verify under the relay secret: HMAC is modelled as "verifies exactly under the key it was made with" *)
Definition sig_ok (secret : N) (b : bearer) : bool :=
  match b_signed b with Some k => (k =? secret)%N | None => false end.

(* the Authorization header: absent or empty -> the authenticator does not apply *)
Inductive credential :=
| NoHeader
| Bearer (b : bearer).

(* jwt.RegisteredClaims.Valid with TimeFunc = now: every date is optional *)
Definition exp_ok (now : Z) (e : option Z) : bool :=
  match e with None => true | Some x => (now <? x)%Z end.
Definition notbefore_ok (now : Z) (e : option Z) : bool :=
  match e with None => true | Some x => (x <=? now)%Z end.

Definition claims_time_ok (now : Z) (c : claims) : bool :=
  exp_ok now (c_exp c) && notbefore_ok now (c_iat c) && notbefore_ok now (c_nbf c).

(* jwt verifyAud(aud, cmp, required=true) *)
Fixpoint str_mem (x : string) (l : list string) : bool :=
  match l with [] => false | y :: r => String.eqb y x || str_mem x r end.

Definition all_empty (l : list string) : bool := forallb (fun s => String.eqb s EmptyString) l.

Definition verify_aud (aud : list string) (cmp : string) : bool :=
  match aud with
  | [] => false
  | _ => if all_empty aud then false else str_mem cmp aud
  end.

Inductive auth_result :=
| AuthNone                 (* no credential presented: 401 "unauthenticated" from the framework *)
| AuthError                (* the authenticator returned an error: JSON 500 *)
| Principal (c : claims).  (* handler runs with these claims *)

(* the order is the library's: ParseUnverified (segments, header, claims, alg lookup), key function
   (HMAC only), then claims.Valid and Method.Verify (both evaluated, either fails the parse),
   then access.go's audience test *)
Definition validate_bearer (now : Z) (host : string) (secret : N) (b : bearer) : auth_result :=
  match b_shape b with
  | SWell =>
      if negb (alg_registered (b_alg b)) then AuthError
      else if negb (is_hmac (b_alg b)) then AuthError
      else if negb (claims_time_ok now (b_claims b) && sig_ok secret b) then AuthError
      else if negb (verify_aud (c_aud (b_claims b)) host) then AuthError
      else Principal (b_claims b)
  | _ => AuthError
  end.

Definition validate_header (now : Z) (host : string) (secret : N) (cr : credential) : auth_result :=
  match cr with
  | NoHeader => AuthNone
  | Bearer b => validate_bearer now host secret b
  end.

(* time.Time.IsZero() of time.Unix(x, 0): true only for year 1 *)
Definition unix_is_zero (x : Z) : bool := (x =? -62135596800)%Z.
