(* Model of the access API handlers (internal/access/access.go), the generated parameter binding
   (restapi/operations/{deny,allow}_parameters.go), permission.HasRequiredClaims
   (internal/permission/models.go), the code store (internal/ttlcode/ttlcode.go) and websocket
   admission (internal/crossbar/crossbar.go serveWs, slashify, getConnectionTypeFromPath,
   getTopicFromPath) as ONE sequential state machine:

     state  = code store + deny/allow register (Model/DenyStore.v, which also holds the clock)
              + hub membership + the two allocation counters (codes, connection names)
     inputs = HTTP requests to the access API, websocket attempts, disconnections, clock changes,
              the two background sweeps (code store CleanExpired, deny store Prune)

   The handlers are written with an explicit [Panic] outcome at every place where the Go code
   dereferences a *NumericDate.  [guard] says whether the nil checks of fix F07 are present
   (true = the repaired tree, which is what /repo contains once fixes/F07-nil-claims.patch is applied;
   false = the tree before it, kept so that the old fault stays documented and checkable).

   Codes (uuid strings) and connection names are allocation counters: the k-th code issued is k.
   Booking ids and User-Agent strings are interned to N by the harness (0 = empty booking id).
   Models only, no proofs. *)
From Relay Require Import Base.Prelude Base.AList Model.DenyStore Model.Token.
Local Open Scope string_scope.

(* ------------------------------------------------------------------ configuration *)
Record config := mkconfig {
  cfg_allow_empty : bool;   (* access.Config.AllowNoBookingID *)
  cfg_host : string;        (* access.Config.Host: audience bearers must name *)
  cfg_target : string;      (* access.Config.Target: audience written into stored tokens, and uri base *)
  cfg_audience : string;    (* crossbar.Config.Audience (relay.go sets it to Target) *)
  cfg_ttl : Z;              (* code lifetime, 30 in NewDefaultCodeStore *)
  cfg_secret : N            (* access.Config.Secret, as ONE string (interned by the harness: only equality matters) *)
}.

(* ------------------------------------------------------------------ state *)
(* what SubmitToken stores: the permission.Token built by the session handler + store expiry *)
Record entry := mkentry {
  e_topic : string;
  e_prefix : string;
  e_scopes : list string;
  e_booking : N;
  e_aud : string;
  e_iat : Z;
  e_nbf : Z;
  e_exp : Z;
  e_store_exp : Z
}.

(* a registered crossbar.Client *)
Record member := mkmember {
  m_conn : N;              (* client.name (uuid): allocation counter *)
  m_topic : string;
  m_scopes : list string;
  m_booking : N;
  m_exp : Z;
  m_read : bool;
  m_write : bool;
  m_ua : N                 (* User-Agent of the upgrade request, interned *)
}.

Definition codemap := alist N entry.
Notation clk := (@lookup N entry N.eqb).
Notation crm := (@remove N entry N.eqb).
Notation cins := (@insert N entry N.eqb).

Record st := mkstate {
  codes : codemap;
  reg : DenyStore.st;      (* allow list, deny list, clock *)
  hub : list member;
  next_code : N;
  next_conn : N
}.

Definition clock (s : st) : Z := DenyStore.now (reg s).
Definition init (t : Z) : st := mkstate [] (DenyStore.init t) [] 0 0.
Definition denied (s : st) (bid : N) : bool := has bid (denyl (reg s)).

Definition set_codes (s : st) c := mkstate c (reg s) (hub s) (next_code s) (next_conn s).
Definition set_reg (s : st) r := mkstate (codes s) r (hub s) (next_code s) (next_conn s).
Definition set_hub (s : st) h := mkstate (codes s) (reg s) h (next_code s) (next_conn s).

(* ------------------------------------------------------------------ requests and responses *)
Inductive route :=
| RSession (id : string)   (* POST /session/{session_id}: id as bound by the router (url-decoded) *)
| RDeny                    (* POST /bids/deny *)
| RAllow                   (* POST /bids/allow *)
| RListDeny                (* GET  /bids/deny *)
| RListAllow               (* GET  /bids/allow *)
| RStatus                  (* GET  /status *)
| RNotFound                (* no route for the path *)
| RBadMethod               (* path known, method not *)
| RDocSpec                 (* /swagger.json: go-openapi's Spec middleware serves the API description, any method, no token *)
| RDocUI                   (* /docs: go-openapi's Redoc middleware serves an HTML page, any method, no token *)
| ROptionsStar             (* OPTIONS * : answered by net/http itself (200, empty) *)
| ROpaque.                 (* framing the model does not interpret (garbage request line, unsupported
                              protocol version, a body with an unexpected media type, an Accept header that
                              excludes JSON): refused by net/http or the framework before any handler *)

Record request := mkreq {
  r_route : route;
  r_cred : credential;
  r_bid : option N;        (* query bid: None = absent, Some 0 = present and empty *)
  r_exp : option string    (* query exp, raw *)
}.

Record report := mkreport {
  rp_topic : string; rp_scopes : list string; rp_exp : Z; rp_read : bool; rp_write : bool; rp_ua : N
}.

Inductive body :=
| BError                   (* JSON object {code, message} *)
| BText                    (* JSON string (session 401 payloads) *)
| BUri (code : N)          (* {"uri": target/prefix/topic?code=...} *)
| BIds (l : list N)        (* {"booking_ids": [...]}, compared sorted *)
| BReports (l : list report)
| BDoc                     (* the swagger document / the documentation page *)
| BEmpty.                  (* 204 *)

Inductive response :=
| Resp (status : N) (b : body)
| Panic.                   (* nil dereference in the handler: net/http drops the connection *)

(* ------------------------------------------------------------------ parameter binding *)
Definition is_digit (a : ascii) : bool :=
  let n := N_of_ascii a in ((48 <=? n) && (n <=? 57))%N.

Fixpoint digits_val (s : string) (acc : Z) : option Z :=
  match s with
  | EmptyString => Some acc
  | String a r => if is_digit a then digits_val r (acc * 10 + (Z.of_N (N_of_ascii a) - 48))%Z else None
  end.

(* strconv.ParseInt(s, 10, 64), which is what swag.ConvertInt64 calls *)
Definition parse_int64 (s : string) : option Z :=
  let '(neg, digits) :=
    match s with
    | String a r => if Ascii.eqb a "-" then (true, r) else if Ascii.eqb a "+" then (false, r) else (false, s)
    | EmptyString => (false, s)
    end in
  match digits with
  | EmptyString => None
  | _ => match digits_val digits 0 with
         | None => None
         | Some v => let v' := if neg then (- v)%Z else v in
                     if ((-9223372036854775808 <=? v') && (v' <=? 9223372036854775807))%Z then Some v' else None
         end
  end.

(* bindBid: required, non-empty *)
Definition bind_bid (p : option N) : option N :=
  match p with
  | None => None
  | Some n => if (n =? 0)%N then None else Some n
  end.

(* bindExp: required, non-empty, int64 *)
Definition bind_exp (p : option string) : option Z :=
  match p with
  | None => None
  | Some s => parse_int64 s
  end.

Definition bind_params (r : request) : option (N * Z) :=
  match bind_bid (r_bid r), bind_exp (r_exp r) with
  | Some b, Some e => Some (b, e)
  | _, _ => None
  end.

(* ------------------------------------------------------------------ claim checks *)
Inductive checked := Fault | Ok (b : bool).

Definition nonempty {A} (l : list A) : bool := match l with [] => false | _ => true end.

Section Guarded.
  Variable guard : bool.

  (* the dereference of claims.ExpiresAt followed by IsZero(), with the nil test of F07 in front of it when [guard] *)
  Definition exp_set (e : option Z) : checked :=
    match e with
    | Some x => Ok (negb (unix_is_zero x))
    | None => if guard then Ok false else Fault
    end.

  (* permission.HasRequiredClaims: Go's || is left to right, the dereference is reached only when every
     earlier disjunct is false *)
  Definition has_required_claims (c : claims) : checked :=
    if String.eqb (c_topic c) "" then Ok false
    else if negb (nonempty (c_scopes c)) then Ok false
    else if String.eqb (c_prefix c) "" then Ok false
    else if negb (nonempty (c_aud c)) then Ok false
    else exp_set (c_exp c).

  (* access.go claimsCheck *)
  Definition claims_check (c : claims) : checked :=
    if negb (nonempty (c_scopes c)) then Ok false
    else if negb (nonempty (c_aud c)) then Ok false
    else exp_set (c_exp c).

  Definition has_scope (x : string) (c : claims) : checked :=
    match claims_check c with
    | Fault => Fault
    | Ok false => Ok false
    | Ok true => Ok (str_mem x (c_scopes c))
    end.

  (* ---------------------------------------------------------------- handlers *)
  Definition mint (cfg : config) (s : st) (id : string) (c : claims) (e i n : Z) : st * response :=
    let k := next_code s in
    let en := mkentry id (c_prefix c) (c_scopes c) (c_booking c) (cfg_target cfg) i n e (clock s + cfg_ttl cfg) in
    (mkstate (cins k en (codes s)) (do_allow (reg s) (c_booking c) e) (hub s) (N.succ k) (next_conn s),
     Resp 200 (BUri k)).

  Definition session_step (cfg : config) (s : st) (id : string) (c : claims) : st * response :=
    match has_required_claims c with
    | Fault => (s, Panic)
    | Ok false => (s, Resp 401 BText)
    | Ok true =>
        if guard && negb (match c_iat c, c_nbf c with Some _, Some _ => true | _, _ => false end)
        then (s, Resp 401 BText)
        else if String.eqb id "" then (s, Resp 401 BText)
        else if negb (String.eqb (c_topic c) id) then (s, Resp 401 BText)
        else if (c_booking c =? 0)%N && negb (cfg_allow_empty cfg) then (s, Resp 400 BError)
        else if denied s (c_booking c) then (s, Resp 400 BError)   (* AllowIfNotDenied = false *)
        else
          match c_exp c with
          | None => (s, Panic)                     (* unreachable: has_required_claims = Ok true *)
          | Some e =>
              match c_iat c, c_nbf c with
              | Some i, Some n => mint cfg s id c e i n
              | _, _ => (set_reg s (do_allow (reg s) (c_booking c) e), Panic)
                        (* claims.IssuedAt.Unix() on nil, after DenyStore.Allow has already run *)
              end
          end
    end.

  Definition drop_booking (bid : N) (h : list member) : list member :=
    filter (fun m => negb (m_booking m =? bid)%N) h.

  Definition purge_booking (bid : N) (c : codemap) : codemap :=
    filterv (fun _ e => negb (e_booking e =? bid)%N) c.

  Definition admin_gate (c : claims) (k : st * response) (s : st) : st * response :=
    match has_scope "relay:admin" c with
    | Fault => (s, Panic)
    | Ok false => (s, Resp 401 BError)
    | Ok true => k
    end.

  Definition deny_step (s : st) (c : claims) (bid : N) (e : Z) : st * response :=
    admin_gate c
      (if (bid =? 0)%N then (s, Resp 400 BError)
       else if (e <? clock s)%Z then (s, Resp 400 BError)
       else (mkstate (purge_booking bid (codes s)) (do_deny (reg s) bid e) (drop_booking bid (hub s))
                     (next_code s) (next_conn s),
             Resp 204 BEmpty)) s.

  Definition allow_step (s : st) (c : claims) (bid : N) (e : Z) : st * response :=
    admin_gate c
      (if (bid =? 0)%N then (s, Resp 400 BError)
       else if (e <? clock s)%Z then (s, Resp 400 BError)
       else (set_reg s (do_allow (reg s) bid e), Resp 204 BEmpty)) s.

  Definition list_denied_step (s : st) (c : claims) : st * response :=
    admin_gate c (s, Resp 200 (BIds (sortN (keys (denyl (reg s)))))) s.

  Definition list_allowed_step (s : st) (c : claims) : st * response :=
    admin_gate c (s, Resp 200 (BIds (sortN (keys (allowl (reg s)))))) s.

  Definition report_of (m : member) : report :=
    mkreport (m_topic m) (m_scopes m) (m_exp m) (m_read m) (m_write m) (m_ua m).

  Definition status_step (s : st) (c : claims) : st * response :=
    match has_scope "relay:stats" c with
    | Fault => (s, Panic)
    | Ok false => (s, Resp 401 BError)
    | Ok true => (s, Resp 200 (BReports (map report_of (hub s))))
    end.

  (* router, authenticator, binder, handler - in the order go-openapi runs them *)
  Definition handle (cfg : config) (s : st) (r : request) : st * response :=
    match r_route r with
    | RNotFound => (s, Resp 404 BError)
    | RBadMethod => (s, Resp 405 BError)
    | ROpaque => (s, Resp 400 BError)
    | RDocSpec | RDocUI => (s, Resp 200 BDoc)
    | ROptionsStar => (s, Resp 200 BEmpty)
    | rt =>
        match validate_header (clock s) (cfg_host cfg) (cfg_secret cfg) (r_cred r) with
        | AuthNone => (s, Resp 401 BError)
        | AuthError => (s, Resp 500 BError)
        | Principal c =>
            match rt with
            | RSession id => session_step cfg s id c
            | RDeny => match bind_params r with
                       | None => (s, Resp 422 BError)
                       | Some (b, e) => deny_step s c b e
                       end
            | RAllow => match bind_params r with
                        | None => (s, Resp 422 BError)
                        | Some (b, e) => allow_step s c b e
                        end
            | RListDeny => list_denied_step s c
            | RListAllow => list_allowed_step s c
            | RStatus => status_step s c
            | RNotFound => (s, Resp 404 BError)
            | RBadMethod => (s, Resp 405 BError)
            | ROpaque => (s, Resp 400 BError)
            | RDocSpec | RDocUI => (s, Resp 200 BDoc)
            | ROptionsStar => (s, Resp 200 BEmpty)
            end
        end
    end.
End Guarded.

(* ------------------------------------------------------------------ websocket paths *)
Definition byte_in (lo hi : N) (a : ascii) : bool :=
  let n := N_of_ascii a in ((lo <=? n) && (n <=? hi))%N.

(* the word class of RE2: ASCII letters, digits, underscore *)
Definition is_word (a : ascii) : bool :=
  byte_in 48 57 a || byte_in 65 90 a || byte_in 97 122 a || byte_in 95 95 a.

(* CLS1: word, percent (37), minus (45) *)
Definition cls_prefix (a : ascii) : bool := is_word a || byte_in 37 37 a || byte_in 45 45 a.

(* CLS2: word, and the byte range percent (37) .. slash (47) *)
Definition cls_topic (a : ascii) : bool := is_word a || byte_in 37 47 a.

Definition is_slash (a : ascii) : bool := byte_in 47 47 a.

Fixpoint take_while (p : ascii -> bool) (s : string) : string :=
  match s with
  | EmptyString => EmptyString
  | String a r => if p a then String a (take_while p r) else EmptyString
  end.

Fixpoint drop_while (p : ascii -> bool) (s : string) : string :=
  match s with
  | EmptyString => EmptyString
  | String a r => if p a then drop_while p r else s
  end.

(* strings.TrimSuffix(path, "/") *)
Fixpoint trim_suffix_slash (s : string) : string :=
  match s with
  | EmptyString => EmptyString
  | String a r =>
      match r with
      | EmptyString => if is_slash a then EmptyString else s
      | _ => String a (trim_suffix_slash r)
      end
  end.

(* strings.TrimPrefix(path, "/") *)
Definition trim_prefix_slash (s : string) : string :=
  match s with
  | String a r => if is_slash a then r else s
  | EmptyString => EmptyString
  end.

Definition slashify (path : string) : string :=
  String "/" (trim_prefix_slash (trim_suffix_slash path)).

(* getConnectionTypeFromPath: regexp  ^ SLASH ( CLS1 STAR )  with CLS1 = word, percent, minus;
   result = group 1, or the empty string when there is no match *)
Definition prefix_of_path (p : string) : string :=
  match p with
  | String a r => if is_slash a then take_while cls_prefix r else EmptyString
  | EmptyString => EmptyString
  end.

(* getTopicFromPath: regexp  ^ SLASH CLS1 STAR SLASH ( CLS2 STAR )  with CLS2 = word and bytes 37..47;
   result = group 1, or the empty string when there is no match.  The slash is not in CLS1, so the
   greedy scan of CLS1 is the only way to match and no backtracking can change the result *)
Definition topic_of_path (p : string) : string :=
  match p with
  | String a r =>
      if is_slash a then
        match drop_while cls_prefix r with
        | String b t => if is_slash b then take_while cls_topic t else EmptyString
        | EmptyString => EmptyString
        end
      else EmptyString
  | EmptyString => EmptyString
  end.

(* ------------------------------------------------------------------ websocket admission *)
Inductive ws_out :=
| WNotFound                (* 404 before the upgrade: prefix is not "session" *)
| WRefused                 (* upgraded, then returned without registering a client *)
| WJoined (m : member).    (* client registered with the hub *)

(* permission.HasRequiredClaims on the stored token (its dates are never nil, its audience has one element) *)
Definition entry_complete (e : entry) : bool :=
  negb (String.eqb (e_topic e) "") && nonempty (e_scopes e) && negb (String.eqb (e_prefix e) "")
  && negb (unix_is_zero (e_exp e)).

Definition ws_accept (cfg : config) (s : st) (path : string) (code : option N) (ua : N) : st * ws_out :=
  let p := slashify path in
  let topic := topic_of_path p in
  if negb (String.eqb (prefix_of_path p) "session") then (s, WNotFound)
  else
    match code with
    | None => (s, WRefused)                                        (* no code, or empty *)
    | Some k =>
        match clk k (codes s) with
        | None => (s, WRefused)                                    (* ExchangeCode: invalid code *)
        | Some e =>
            let s1 := set_codes s (crm k (codes s)) in             (* the code is spent whatever follows *)
            let now := clock s in
            if (e_store_exp e <? now)%Z then (s1, WRefused)        (* ExchangeCode: expired code (fix F01) *)
            else if negb (entry_complete e) then (s1, WRefused)
            else if (now <? e_nbf e)%Z then (s1, WRefused)         (* NotBefore.After(now) *)
            else if negb (String.eqb (e_aud e) (cfg_audience cfg)) then (s1, WRefused)
            else if negb (String.eqb topic (e_topic e)) then (s1, WRefused)
            else if (e_exp e - now <? 0)%Z then (s1, WRefused)
            else
              let r := str_mem "read" (e_scopes e) in
              let w := str_mem "write" (e_scopes e) in
              if negb (r || w) then (s1, WRefused)
              else if denied s (e_booking e) then (s1, WRefused)   (* re-check, after the cancel channel is recorded (fix F04) *)
              else
                let m := mkmember (next_conn s) topic (e_scopes e) (e_booking e) (e_exp e) r w ua in
                (mkstate (codes s1) (reg s) (m :: hub s) (next_code s) (N.succ (next_conn s)), WJoined m)
        end
    end.

(* ------------------------------------------------------------------ the machine *)
Inductive op :=
| OReq (r : request)
| OWs (path : string) (code : option N) (ua : N)
| OLeave (conn : N)        (* the connection ends: client closes, token expires, write error *)
| OSetNow (t : Z)          (* the clock shows t (any value: no monotonicity assumed) *)
| OSweep                   (* CodeStore.CleanExpired *)
| OPrune                   (* deny.Store.Prune *)
| OTimers                  (* every expiry timer that is due has fired: serveWs arms, at admission, a timer of
                              exp - now whole seconds from the connect instant, so the relay itself ends a
                              connection no later than one second after its token's exp *)
| OFaultedReq (r : request).
                           (* a request during which the random source fails once: uuid.New panics inside
                              CodeStore.SubmitToken (its lock is released by the deferred Unlock), i.e. AFTER
                              DenyStore.AllowIfNotDenied has written the allow list and before any code exists;
                              requests that mint no code never read the source *)

Inductive out :=
| OutResp (r : response)
| OutWs (w : ws_out)
| OutUnit.

Definition sweep (s : st) : st :=
  set_codes s (filterv (fun _ e => negb (e_store_exp e <? clock s)%Z) (codes s)).

Definition step_gen (guard : bool) (cfg : config) (s : st) (o : op) : st * out :=
  match o with
  | OReq r => let '(s', x) := handle guard cfg s r in (s', OutResp x)
  | OWs path code ua => let '(s', w) := ws_accept cfg s path code ua in (s', OutWs w)
  | OLeave c => (set_hub s (filter (fun m => negb (m_conn m =? c)%N) (hub s)), OutUnit)
  | OSetNow t => (set_reg s (mkst (allowl (reg s)) (denyl (reg s)) t), OutUnit)
  | OSweep => (sweep s, OutUnit)
  | OPrune => (set_reg s (do_prune (reg s)), OutUnit)
  | OTimers => (set_hub s (filter (fun m => negb (m_exp m + 1 <? clock s)%Z) (hub s)), OutUnit)
  | OFaultedReq r =>
      let '(s', x) := handle guard cfg s r in
      match x with
      | Resp _ (BUri _) => (set_reg s (reg s'), OutResp Panic)
      | _ => (s', OutResp x)
      end
  end.

(* the tree with F07 repaired *)
Definition step := step_gen true.

Fixpoint run_gen (g : bool) (cfg : config) (s : st) (ops : list op) : st * list out :=
  match ops with
  | [] => (s, [])
  | o :: r => let '(s1, x) := step_gen g cfg s o in let '(s2, xs) := run_gen g cfg s1 r in (s2, x :: xs)
  end.
Definition run := run_gen true.

Definition final (cfg : config) (s : st) (ops : list op) : st :=
  fold_left (fun s o => fst (step cfg s o)) ops s.
