(* Model of the lifetime arithmetic of a relayed connection (internal/crossbar/crossbar.go:
   serveWs from `now := config.CodeStore.GetTime()` to the watcher goroutine, readPump's read
   deadline / pong handler, writePump's ping ticker).  Time is nanoseconds in Z (Unix epoch);
   token times are whole seconds.  Models only, no proofs.

   The code (with the F12 repair: ttl is clamped to the largest whole number of seconds a
   time.Duration holds):
       now := time.Now().Unix()                                  floor of the admission instant
       if nbf > now            -> refused (too early)
       ttl := exp - now ; if ttl > maxTTL { ttl = maxTTL }
       if !audok || topicBad || ttl < 0 -> refused
       ... deny list, scopes ...
       timer: time.Duration(ttl) * time.Second                   int64 multiplication (wraps)
       watcher: <-timer.C | <-denied | <-done  -> close(cancelled) -> writePump closes the socket
       readPump: SetReadDeadline(now+pongWait), renewed only by the pong handler
       writePump: ping every pingPeriod                                                       *)
From Relay Require Import Base.Prelude.
Open Scope Z_scope.

Definition ns_per_s : Z := 1000000000.
Definition floor_s (t : Z) : Z := t / ns_per_s.

(* int64 arithmetic of time.Duration *)
Definition two63 : Z := 9223372036854775808.
Definition wrap64 (x : Z) : Z := (x + two63) mod (2 * two63) - two63.

Definition max_ttl : Z := 9223372036.          (* math.MaxInt64 / time.Second *)
Definition clamp_ttl (ttl : Z) : Z := Z.min ttl max_ttl.

(* time.Duration(ttl) * time.Second, as written before (raw) and after (dur) the repair *)
Definition dur_raw (ttl : Z) : Z := wrap64 (ttl * ns_per_s).
Definition dur (ttl : Z) : Z := wrap64 (clamp_ttl ttl * ns_per_s).

(* a Go timer armed at t with duration d fires at t + d, at once if d <= 0 *)
Definition timer_fire (t d : Z) : Z := t + Z.max 0 d.

Definition fire_at (t E : Z) : Z := timer_fire t (dur (E - floor_s t)).
Definition fire_at_raw (t E : Z) : Z := timer_fire t (dur_raw (E - floor_s t)).

(* ---- admission ---- *)
Record token := mktoken { nbf : Z; exp : Z }.      (* seconds *)

Inductive refusal := TooEarly | Expired | OtherCheck.
Inductive admission := Refused (r : refusal) | Accepted (fire : Z).

(* [others] stands for the checks that do not involve time (audience, topic, deny list, scopes) *)
Definition ws_accept (t : Z) (tok : token) (others : bool) : admission :=
  let now := floor_s t in
  if now <? nbf tok then Refused TooEarly
  else if exp tok - now <? 0 then Refused Expired
  else if negb others then Refused OtherCheck
  else Accepted (fire_at t (exp tok)).

(* ---- the per-connection timeline: expiry timer, read deadline, ping ticker ---- *)
Definition pong_wait : Z := 60 * ns_per_s.
Definition ping_period : Z := (pong_wait * 9) / 10.
Definition slack : Z := pong_wait - ping_period.          (* 6 s *)

Inductive reason := Expiry | ReadTimeout | WriteTimeout | PongRejected | ClientClose | NetLoss | Evicted | Denied.

Inductive cstatus := Open | Closed (why : reason) (at_ns : Z).

(* [wdeadline] is the write deadline the socket currently carries: none until the first write,
   then whatever the LAST write set (writePump sets now + writeWait before every data write, and -
   in the code as it is - before every ping too) *)
Record conn := mkconn { fire : Z; deadline : Z; next_ping : Z; wdeadline : option Z; status : cstatus }.

Inductive ev :=
| EPing          (* the ticker fires, writePump sends a ping *)
| EPong          (* a pong arrives in answer to the relay's ping (whatever its payload): the read deadline is renewed *)
| EPongUnsolicited (* a pong nobody asked for (RFC 6455 5.5.3 one-way heartbeat), any payload: the pong
                      handler renews the read deadline just the same *)
| EClientPing    (* the CLIENT pings: gorilla's default handler answers with a pong, nothing else changes *)
| EDataIn        (* a data message from the client (does NOT renew the deadline) *)
| EDataOut       (* a message fanned out to this client *)
| EStall         (* the client stops reading *)
| EIgnoreClose   (* the client ignores a close frame *)
| EClientClose | ENetLoss | EEvict | EDeny.

Definition start (t fire_ns : Z) : conn := mkconn fire_ns (t + pong_wait) (t + ping_period) None Open.

(* let time pass up to tau: the earlier of the two timers that is due closes the connection *)
Definition advance (c : conn) (tau : Z) : conn :=
  match status c with
  | Closed _ _ => c
  | Open =>
      if (fire c <=? tau) && (fire c <=? deadline c)
      then mkconn (fire c) (deadline c) (next_ping c) (wdeadline c) (Closed Expiry (fire c))
      else if deadline c <? tau
      then mkconn (fire c) (deadline c) (next_ping c) (wdeadline c) (Closed ReadTimeout (deadline c))
      else c
  end.

Definition close_with (c : conn) (r : reason) (tau : Z) : conn :=
  mkconn (fire c) (deadline c) (next_ping c) (wdeadline c) (Closed r tau).

Definition write_wait : Z := 10 * ns_per_s.

(* a write at tau under the deadline the socket carries fails when that deadline has passed *)
Definition write_fails (c : conn) (tau : Z) : bool :=
  match wdeadline c with Some d => d <? tau | None => false end.

(* [own] = the ping branch sets its own write deadline before writing (true in the code as it is).
   The variant own = false sends the ping under the deadline the last data write left behind.
   [strict] = the pong handler rejects a pong that does not echo the relay's ping (false in the code
   as it is: the handler accepts every pong). In the variant strict = true the handler's error ends
   ReadMessage, readPump returns and the relay closes the connection. *)
Definition apply_ev_v (own strict : bool) (c : conn) (e : ev) (tau : Z) : conn :=
  match status c with
  | Closed _ _ => c
  | Open =>
      match e with
      | EPing =>
          if own then mkconn (fire c) (deadline c) (next_ping c + ping_period) (Some (tau + write_wait)) Open
          else if write_fails c tau then close_with c WriteTimeout tau   (* writePump returns, socket closed *)
          else mkconn (fire c) (deadline c) (next_ping c + ping_period) (wdeadline c) Open
      | EPong => mkconn (fire c) (tau + pong_wait) (next_ping c) (wdeadline c) Open
      | EPongUnsolicited =>
          if strict then close_with c PongRejected tau
          else mkconn (fire c) (tau + pong_wait) (next_ping c) (wdeadline c) Open
      | EClientPing => c
      | EDataOut => mkconn (fire c) (deadline c) (next_ping c) (Some (tau + write_wait)) Open
      | EDataIn | EStall | EIgnoreClose => c
      | EClientClose => close_with c ClientClose tau
      | ENetLoss => close_with c NetLoss tau
      | EEvict => close_with c Evicted tau
      | EDeny => close_with c Denied tau
      end
  end.

Definition apply_ev (c : conn) (e : ev) (tau : Z) : conn := apply_ev_v true false c e tau.

Definition step_v (own strict : bool) (c : conn) (x : ev * Z) : conn :=
  apply_ev_v own strict (advance c (snd x)) (fst x) (snd x).
Definition run_v (own strict : bool) (c : conn) (evs : list (ev * Z)) (horizon : Z) : conn :=
  advance (fold_left (step_v own strict) evs c) horizon.

Definition step (c : conn) (x : ev * Z) : conn := apply_ev (advance c (snd x)) (fst x) (snd x).

(* the events, then time passes up to the horizon *)
Definition run (c : conn) (evs : list (ev * Z)) (horizon : Z) : conn :=
  advance (fold_left step evs c) horizon.

(* how many of the client's own pings the relay answers with a pong: every one that finds the
   connection open (gorilla's default ping handler replies from readPump, whatever the client's scopes) *)
Fixpoint pongs_owed (c : conn) (evs : list (ev * Z)) : Z :=
  match evs with
  | [] => 0
  | (e, tau) :: r =>
      (match e, status (advance c tau) with EClientPing, Open => 1 | _, _ => 0 end)
      + pongs_owed (step c (e, tau)) r
  end.

Definition benign (e : ev) : bool :=
  match e with EClientClose | ENetLoss | EEvict | EDeny => false | _ => true end.

(* "the client answers pings": the ticker fires on schedule, at most one ping is outstanding, its
   pong arrives less than [slack] after it, and nothing else in the list happens outside the
   window these two leave open.  [np] = when the next ping is due, [out] = the unanswered ping. *)
Fixpoint timely (np : Z) (out : option Z) (evs : list (ev * Z)) : bool :=
  match evs with
  | [] => true
  | (e, tau) :: r =>
      benign e &&
      match e, out with
      | EPing, None => (tau =? np) && timely (np + ping_period) (Some tau) r
      | EPing, Some _ => false
      | EPong, Some p => (p <=? tau) && (tau <? p + slack) && timely np None r
      | EPong, None => (np - ping_period <=? tau) && (tau <=? np) && timely np None r
          (* unsolicited pong, not earlier than the previous ping: renews too *)
      | EPongUnsolicited, None => (np - ping_period <=? tau) && (tau <=? np) && timely np None r
      | EPongUnsolicited, Some p => (p <=? tau) && (tau <? p + slack) && timely np out r
          (* a heartbeat pong does not count as the answer to the outstanding ping *)
      | _, None => (tau <=? np) && timely np None r
      | _, Some p => (tau <? p + slack) && timely np out r
      end
  end.

(* k rounds of an idle connection: ping k at t + k*pingPeriod, its pong d_k later *)
Fixpoint idle_rounds (np : Z) (ds : list Z) : list (ev * Z) :=
  match ds with
  | [] => []
  | d :: r => (EPing, np) :: (EPong, np + d) :: idle_rounds (np + ping_period) r
  end.

(* a client that never answers: pings only *)
Fixpoint pings_only (np : Z) (k : nat) : list (ev * Z) :=
  match k with O => [] | S k' => (EPing, np) :: pings_only (np + ping_period) k' end.

(* ---- when the cancellation takes effect on the socket ----
   Before the repair F12c the watcher only closed `cancelled`, which writePump looks at between
   writes: a writer blocked inside a write since [w] (a reader that stalled) saw it only when the
   write returned, at the latest at its write deadline w + writeWait.  Since the repair the
   watcher closes the socket itself. *)
Definition cancel_seen_unrepaired (fire_ns : Z) (blocked_since : option Z) : Z :=
  match blocked_since with Some w => Z.max fire_ns (w + write_wait) | None => fire_ns end.
Definition cancel_seen (fire_ns : Z) (blocked_since : option Z) : Z := fire_ns.

Definition closed_at (c : conn) : option Z :=
  match status c with Open => None | Closed _ a => Some a end.
