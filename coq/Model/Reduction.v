(* Reduction of the lock-IR interleaving semantics to atomic critical sections (C12).

   The lock IR of Model/LockIR.v is given VALUES here: every lock m protects one object (its guarded fields taken
   together) with a state in [Ob]; every thread has a local state in [Lo]; [Rd f] lets the thread look at the
   object of [guard f] (deterministic function of local and object state, object unchanged), [Wr f] lets it
   change that object as well; [Block] may put anything into the local state (a received value); the control
   statements and Acq/Rel are exactly those of LockIR ([vstep] erases to [LockIR.step], see the proofs).

   Two semantics over the same configurations:
   * [vstep]  - the fine-grained interleaving semantics: one IR step of one thread at a time, any schedule;
   * [astep]  - the ATOMIC-SECTION semantics: a thread either takes a step that touches no object, or runs a whole
                critical section  Acq m; ...; Rel m  alone, in one step ([solos]: the thread's own steps, nobody
                else moving). This is the operation-level model with upd := the sequential run of the body.
   Definitions only; the reduction theorem is in Proofs/Reduction_proofs.v. *)
From Relay Require Import Base.Prelude Model.LockIR.

Section Reduction.
  Context {L F Ob Lo : Type}.
  Variable leqb : L -> L -> bool.
  Variable guard : F -> L.
  Variable rd : F -> Lo -> Ob -> Lo.
  Variable wr : F -> Lo -> Ob -> Lo * Ob.

  Definition vthread := (@lockset L * Lo * list (stmt L F))%type.
  Record cfg := mkcfg { objs : L -> Ob; thrs : list vthread }.

  Definition oset (o : L -> Ob) (m : L) (v : Ob) : L -> Ob := fun m' => if leqb m' m then v else o m'.

  Definition erase_t (t : vthread) : @thread L F := (fst (fst t), snd t).
  Definition erase (ts : list vthread) : @pool L F := map erase_t ts.

  Fixpoint vupd (ts : list vthread) (i : nat) (t : vthread) : list vthread :=
    match ts, i with
    | [], _ => []
    | _ :: r, O => t :: r
    | x :: r, S i' => x :: vupd r i' t
    end.

  (* steps that touch no object: control, blocking receive/send (any value may arrive), return *)
  Inductive lstep : Lo * list (stmt L F) -> Lo * list (stmt L F) -> Prop :=
  | LSkip lo k : lstep (lo, Skip :: k) (lo, k)
  | LSeq lo a b k : lstep (lo, Seq a b :: k) (lo, a :: b :: k)
  | LChoiceL lo a b k : lstep (lo, Choice a b :: k) (lo, a :: k)
  | LChoiceR lo a b k : lstep (lo, Choice a b :: k) (lo, b :: k)
  | LLoopExit lo b k : lstep (lo, Loop b :: k) (lo, k)
  | LLoopIter lo b k : lstep (lo, Loop b :: k) (lo, b :: Loop b :: k)
  | LBlock lo lo' c k : lstep (lo, Block c :: k) (lo', k)
  | LRet lo k : lstep (lo, Return :: k) (lo, []).

  (* ---- fine-grained semantics *)
  Inductive vtstep (ts : list vthread) (o : L -> Ob) : vthread -> (L -> Ob) -> vthread -> Prop :=
  | VLocal ls lo k lo' k' : lstep (lo, k) (lo', k') -> vtstep ts o (ls, lo, k) o (ls, lo', k')
  | VAcqEx ls lo m k : free leqb m (erase ts) -> vtstep ts o (ls, lo, Acq m Ex :: k) o ((m, Ex) :: ls, lo, k)
  | VAcqSh ls lo m k : no_ex leqb m (erase ts) -> held leqb m ls = None ->
                       vtstep ts o (ls, lo, Acq m Sh :: k) o ((m, Sh) :: ls, lo, k)
  | VRel ls lo m k : vtstep ts o (ls, lo, Rel m :: k) o (drop leqb m ls, lo, k)
  | VRd ls lo f k : vtstep ts o (ls, lo, Rd f :: k) o (ls, rd f lo (o (guard f)), k)
  | VWr ls lo f k : vtstep ts o (ls, lo, Wr f :: k)
                      (oset o (guard f) (snd (wr f lo (o (guard f))))) (ls, fst (wr f lo (o (guard f))), k).

  Inductive vstep : cfg -> nat -> cfg -> Prop :=
  | VStep c i t o' t' : nth_error (thrs c) i = Some t -> vtstep (thrs c) (objs c) t o' t' ->
                        vstep c i (mkcfg o' (vupd (thrs c) i t')).

  Inductive vsteps : cfg -> cfg -> Prop :=
  | vsteps_refl c : vsteps c c
  | vsteps_cons c i c' c'' : vstep c i c' -> vsteps c' c'' -> vsteps c c''.

  (* ---- one thread running alone on the object of m *)
  Inductive solo (m : L) : Lo * list (stmt L F) * Ob -> Lo * list (stmt L F) * Ob -> Prop :=
  | SoLocal lo k lo' k' ob : lstep (lo, k) (lo', k') -> solo m (lo, k, ob) (lo', k', ob)
  | SoRd lo f k ob : guard f = m -> solo m (lo, Rd f :: k, ob) (rd f lo ob, k, ob)
  | SoWr lo f k ob : guard f = m -> solo m (lo, Wr f :: k, ob) (fst (wr f lo ob), k, snd (wr f lo ob)).

  Inductive solos (m : L) : Lo * list (stmt L F) * Ob -> Lo * list (stmt L F) * Ob -> Prop :=
  | solos_refl x : solos m x x
  | solos_snoc x y z : solos m x y -> solo m y z -> solos m x z.

  (* ---- atomic-section semantics: nobody ever holds a lock between two steps *)
  Inductive astep : cfg -> nat -> cfg -> Prop :=
  | ALocal c i lo k lo' k' :
      nth_error (thrs c) i = Some ([], lo, k) -> lstep (lo, k) (lo', k') ->
      astep c i (mkcfg (objs c) (vupd (thrs c) i ([], lo', k')))
  | ASection c i lo m md k lo' k' ob' :
      nth_error (thrs c) i = Some ([], lo, Acq m md :: k) ->
      solos m (lo, k, objs c m) (lo', Rel m :: k', ob') ->
      astep c i (mkcfg (oset (objs c) m ob') (vupd (thrs c) i ([], lo', k'))).

  Inductive asteps : cfg -> cfg -> Prop :=
  | asteps_refl c : asteps c c
  | asteps_snoc c c' i c'' : asteps c c' -> astep c' i c'' -> asteps c c''.

  (* ---- the same executions with their schedules (which thread moved at each step) *)
  Inductive vrun : cfg -> list nat -> cfg -> Prop :=
  | vrun_nil c : vrun c [] c
  | vrun_cons c i c' s c'' : vstep c i c' -> vrun c' s c'' -> vrun c (i :: s) c''.

  Inductive arun : cfg -> list nat -> cfg -> Prop :=
  | arun_nil c : arun c [] c
  | arun_snoc c s c' i c'' : arun c s c' -> astep c' i c'' -> arun c (s ++ [i]) c''.

  (* ---- the discipline: the code of a thread is a sequence of critical sections that are not nested, each touching
     only the fields of its own lock, writing only when the lock is held exclusively, with no access outside a
     section (what [single_section] + [well_locked] give for the exported store methods); [MOut] = holding nothing, [MIn m md] = inside the section on m (md = Ex: Lock, may read and write; md = Sh: RLock,
     may only read) *)
  Inductive mphase := MOut | MIn (m : L) (md : mode).
  Definition mphase_eqb (a b : mphase) : bool :=
    match a, b with MOut, MOut => true | MIn m md, MIn m' md' => leqb m m' && mode_eqb md md' | _, _ => false end.

  Fixpoint msec (ph : mphase) (s : stmt L F) : option (option mphase) :=
    match s with
    | Skip => Some (Some ph)
    | Seq a b => match msec ph a with
                 | None => None
                 | Some None => Some None
                 | Some (Some ph') => msec ph' b
                 end
    | Choice a b => match msec ph a, msec ph b with
                    | Some None, r => r
                    | r, Some None => r
                    | Some (Some p1), Some (Some p2) => if mphase_eqb p1 p2 then Some (Some p1) else None
                    | _, _ => None
                    end
    | Loop body => match msec ph body with
                   | Some None => Some (Some ph)
                   | Some (Some p1) => if mphase_eqb p1 ph then Some (Some ph) else None
                   | None => None
                   end
    | Acq m md => match ph with MOut => Some (Some (MIn m md)) | MIn _ _ => None end
    | Rel m => match ph with MIn m' _ => if leqb m m' then Some (Some MOut) else None | MOut => None end
    | Rd f => match ph with MIn m _ => if leqb (guard f) m then Some (Some ph) else None | MOut => None end
    | Wr f => match ph with MIn m Ex => if leqb (guard f) m then Some (Some ph) else None | _ => None end
    | Block _ => Some (Some ph)
    | Return => match ph with MOut => Some None | MIn _ _ => None end
    end.

  Fixpoint msec_cont (ph : mphase) (k : list (stmt L F)) : bool :=
    match k with
    | [] => match ph with MOut => true | MIn _ _ => false end
    | s :: k' => match msec ph s with
                 | None => false
                 | Some None => true
                 | Some (Some ph') => msec_cont ph' k'
                 end
    end.

  Definition msec_fn (s : stmt L F) : bool := msec_cont MOut [s].

  (* initial configurations: nobody holds a lock, every thread's code obeys the discipline *)
  Definition red_init (c : cfg) : Prop :=
    forall i t, nth_error (thrs c) i = Some t -> exists lo k, t = ([], lo, k) /\ msec_cont MOut k = true.

  (* quiescent: nobody holds a lock (in particular: every thread has finished) *)
  Definition quiescent (c : cfg) : Prop :=
    forall i t, nth_error (thrs c) i = Some t -> fst (fst t) = [].
End Reduction.

(* l1 is obtained from l2 by deleting elements (order kept) *)
Inductive sublist {A} : list A -> list A -> Prop :=
| sl_nil : sublist [] []
| sl_skip x l1 l2 : sublist l1 l2 -> sublist l1 (x :: l2)
| sl_keep x l1 l2 : sublist l1 l2 -> sublist (x :: l1) (x :: l2).

(* ---- the relay instance: which generated bodies must obey the discipline (evaluated by vm_compute on LockGen.prog) *)
Definition msec_sfn (s : sstmt) : bool := msec_fn sname_eqb guard_of s.
Definition msec_prog (names : list string) (p : program) : bool :=
  forallb (fun e => if existsb (String.eqb (fst e)) names then msec_sfn (snd e) else true) p.
