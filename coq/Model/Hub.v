(* Model of internal/crossbar/crossbar.go: the hub (Hub.run, Hub.drop), the per-connection
   queue and writer (writePump), the reader's permission test (readPump) and the part of
   websocket admission (serveWs) that fixes a connection's topic and capabilities.
   Models only, no proofs.

   A message is what readPump hands to the hub: a copy of the sender (only name and topic are
   ever read from it), the websocket message type and the payload.  Payload symbols are N: the
   harness uses real bytes or one symbol per whole message; nothing here looks inside.

   One list [conns] holds every connection ever registered, in registration order, each with a
   status: Joined (in h.clients, send channel open), Evicted (removed by Hub.drop because its
   queue was full: channel closed, but writePump still drains what is buffered and readPump still
   forwards until writePump reaches the closed channel), Closed (socket closed, pumps finished).
   [members] = the Joined ones = h.clients.

   Events = the three select cases of Hub.run + the steps of writePump:
     Register c      case client := <-h.register
     Unregister n    case client := <-h.unregister   (sent only by readPump's deferred exit, which
                                                       closes the socket right after)
     Recv n mt d     readPump of connection n got message (mt,d) from its socket; forwarded to
                     h.broadcast only if canWrite; the hub then offers it to every member
     Take n          writePump: message, ok := <-c.send   (head of the queue; opens a frame when
                     canRead, discards the message when not; on a closed and empty channel it
                     writes the close message and returns, which closes the socket)
     More n          writePump: followOnMessage := <-c.send, appended to the open frame
     Close n         writePump: w.Close(), the frame goes out
   writePump takes exactly len(c.send) follow-ons, evaluated once after the head was written;
   the model allows ANY number of More steps per frame (a superset of the code's behaviours, so
   every safety theorem proved here covers the code).  [drain n k] is the writer taking the head
   and k follow-ons into one frame. *)
From Relay Require Import Base.Prelude.

Record msg := mkmsg { m_name : N; m_topic : string; m_mt : N; m_data : list N }.

Inductive status := Joined | Evicted | Closed.

Record client := mkclient {
  name : N;                 (* uuid given at admission; the hub compares it with the sender's *)
  topic : string;
  can_read : bool;
  can_write : bool;
  cap : nat;                (* capacity of the send channel = Config.BufferSize *)
  queue : list msg;         (* the send channel *)
  cur : list msg;           (* frame being written by writePump, [] = none *)
  out : list (list msg);    (* frames completed on the socket, oldest first; a frame = the run of
                               messages written into it *)
  st : status;
  since : nat               (* ghost: length of the hub log when the connection was registered;
                               never read by a transition *)
}.

Record state := mkstate {
  conns : list client;
  log : list msg            (* every message the hub took from h.broadcast, oldest first *)
}.

Definition init : state := mkstate [] [].

Inductive event :=
| Register (c : client)
| Unregister (n : N)
| Recv (n : N) (mt : N) (d : list N)
| Take (n : N)
| More (n : N)
| Close (n : N).

Definition is_joined (c : client) : bool := match st c with Joined => true | _ => false end.
Definition is_closed (c : client) : bool := match st c with Closed => true | _ => false end.
Definition members (s : state) : list client := filter is_joined (conns s).

Definition set_st (x : status) (c : client) : client :=
  mkclient (name c) (topic c) (can_read c) (can_write c) (cap c) (queue c) (cur c) (out c) x (since c).
Definition set_queue (q : list msg) (c : client) : client :=
  mkclient (name c) (topic c) (can_read c) (can_write c) (cap c) q (cur c) (out c) (st c) (since c).
Definition set_cur (q f : list msg) (c : client) : client :=
  mkclient (name c) (topic c) (can_read c) (can_write c) (cap c) q f (out c) (st c) (since c).
Definition set_out (f : list msg) (o : list (list msg)) (c : client) : client :=
  mkclient (name c) (topic c) (can_read c) (can_write c) (cap c) (queue c) f o (st c) (since c).

(* what a new registration looks like whatever the record passed in carried *)
Definition fresh (c : client) (at_log : nat) : client :=
  mkclient (name c) (topic c) (can_read c) (can_write c) (cap c) [] [] [] Joined at_log.

(* Hub.run, broadcast case: `for client := range h.clients[topic]` + `client.name != message.sender.name` *)
Definition wants (c : client) (m : msg) : bool :=
  String.eqb (topic c) (m_topic m) && negb (N.eqb (name c) (m_name m)).

(* non-blocking send; on a full queue the client is collected and dropped after the loop *)
Definition offer (m : msg) (c : client) : client :=
  if is_joined c && wants c m then
    if Nat.ltb (length (queue c)) (cap c) then set_queue (queue c ++ [m]) c
    else set_st Evicted c
  else c.

Definition take (c : client) : client :=
  match is_closed c, cur c, queue c with
  | false, [], h :: q => if can_read c then set_cur q [h] c else set_queue q c
  | false, [], [] => match st c with Evicted => set_st Closed c | _ => c end
  | _, _, _ => c
  end.

Definition more (c : client) : client :=
  match is_closed c, cur c, queue c with
  | false, _ :: _, h :: q => set_cur q (cur c ++ [h]) c
  | _, _, _ => c
  end.

Definition close_frame (c : client) : client :=
  match is_closed c, cur c with
  | false, _ :: _ => set_out [] (out c ++ [cur c]) c
  | _, _ => c
  end.

(* the connection whose readPump delivers for name n: the first one not yet closed *)
Definition sender (s : state) (n : N) : option client :=
  find (fun c => N.eqb (name c) n && negb (is_closed c)) (conns s).

(* the message the hub receives for an event, if any (readPump forwards only if canWrite) *)
Definition event_msg (s : state) (e : event) : option msg :=
  match e with
  | Recv n mt d =>
      match sender s n with
      | Some sd => if can_write sd then Some (mkmsg n (topic sd) mt d) else None
      | None => None
      end
  | _ => None
  end.

Definition on (n : N) (f : client -> client) (c : client) : client :=
  if N.eqb (name c) n then f c else c.

Definition cstep (om : option msg) (e : event) (c : client) : client :=
  match e with
  | Register _ => c
  | Unregister n => on n (set_st Closed) c
  | Recv _ _ _ => match om with Some m => offer m c | None => c end
  | Take n => on n take c
  | More n => on n more c
  | Close n => on n close_frame c
  end.

Definition newcomers (s : state) (e : event) : list client :=
  match e with Register c => [fresh c (length (log s))] | _ => [] end.

Definition accepted (s : state) (e : event) : list msg :=
  match event_msg s e with Some m => [m] | None => [] end.

Definition step (s : state) (e : event) : state :=
  mkstate (map (cstep (event_msg s e) e) (conns s) ++ newcomers s e) (log s ++ accepted s e).

Definition run (s : state) (evs : list event) : state := fold_left step evs s.

(* the writer taking the head and k follow-ons into one frame *)
Definition drain (n : N) (k : nat) : list event := Take n :: repeat (More n) k ++ [Close n].

(* ---- what goes onto the socket for a frame: type of the head, payloads back to back ---- *)
Definition wire (f : list msg) : N * list N :=
  (match f with [] => 0%N | h :: _ => m_mt h end, concat (map m_data f)).

(* everything the connection has been given, in order: written, being written, queued *)
Definition content (c : client) : list msg := concat (out c) ++ cur c ++ queue c.

(* the messages of a stretch of the hub log that concern connection c *)
Definition relevant (c : client) (l : list msg) : list msg := filter (wants c) l.

Definition log_since (s : state) (c : client) : list msg := skipn (since c) (log s).

(* ---- websocket admission: only what fixes topic and capabilities (serveWs) ---- *)

Definition is_word (a : ascii) : bool :=
  let n := N_of_ascii a in
  ((48 <=? n) && (n <=? 57) || (65 <=? n) && (n <=? 90) || (97 <=? n) && (n <=? 122) || (n =? 95))%N.
(* [\w\%-] : word characters, '%' and '-' *)
Definition class1 (a : ascii) : bool :=
  let n := N_of_ascii a in (is_word a || (n =? 37) || (n =? 45))%N.
(* [\w\%-\/] : word characters and the byte RANGE '%' .. '/' (37..47) *)
Definition class2 (a : ascii) : bool :=
  let n := N_of_ascii a in (is_word a || (37 <=? n) && (n <=? 47))%N.

Fixpoint span (p : ascii -> bool) (s : string) : string * string :=
  match s with
  | EmptyString => (EmptyString, EmptyString)
  | String a r => if p a then let '(x, y) := span p r in (String a x, y) else (EmptyString, s)
  end.

Definition slash : ascii := ascii_of_N 47.

Fixpoint drop_last_slash (s : string) : string :=
  match s with
  | EmptyString => EmptyString
  | String a EmptyString => if Ascii.eqb a slash then EmptyString else s
  | String a r => String a (drop_last_slash r)
  end.

(* strings.TrimSuffix(path,"/"), strings.TrimPrefix(path,"/"), "/"+path *)
Definition slashify (p : string) : string :=
  let p1 := drop_last_slash p in
  let p2 := match p1 with String a r => if Ascii.eqb a slash then r else p1 | EmptyString => p1 end in
  String slash p2.

(* regexp: start, slash, group 1 = greedy run of class1 (getConnectionTypeFromPath) *)
Definition conn_type_of_path (p : string) : string :=
  match p with
  | String a r => if Ascii.eqb a slash then fst (span class1 r) else EmptyString
  | EmptyString => EmptyString
  end.

(* regexp: start, slash, greedy run of class1, slash, group 1 = greedy run of class2
   (getTopicFromPath); "" when there is no match.  class1 has no slash, so the greedy run can
   only be followed by the slash at its maximal length: no backtracking alternative exists. *)
Definition topic_of_path (p : string) : string :=
  match p with
  | String a r =>
      if Ascii.eqb a slash then
        match snd (span class1 r) with
        | String b r2 => if Ascii.eqb b slash then fst (span class2 r2) else EmptyString
        | EmptyString => EmptyString
        end
      else EmptyString
  | EmptyString => EmptyString
  end.

(* `for _, scope := range token.Scopes { if scope == "read" {canRead = true}; if scope == "write" {canWrite = true} }` *)
Definition caps (scopes : list string) : bool * bool :=
  fold_left (fun rw sc => (fst rw || String.eqb sc "read", snd rw || String.eqb sc "write")) scopes (false, false).

Record request := mkreq {
  r_name : N;               (* the uuid the connection would get *)
  r_path : string;          (* r.URL.Path as the server sees it (already percent-decoded) *)
  r_token_topic : string;   (* topic claim of the token the code was exchanged for *)
  r_scopes : list string;
  r_cap : nat               (* Config.BufferSize *)
}.

(* the checks of serveWs that decide topic and capabilities; code, audience, lifetime and deny
   checks belong to other properties and are taken as passed here *)
Definition ws_accept (rq : request) : option client :=
  let p := slashify (r_path rq) in
  if negb (String.eqb (conn_type_of_path p) "session") then None
  else if negb (String.eqb (topic_of_path p) (r_token_topic rq)) then None
  else let rw := caps (r_scopes rq) in
       if negb (fst rw || snd rw) then None
       else Some (mkclient (r_name rq) (topic_of_path p) (fst rw) (snd rw) (r_cap rq) [] [] [] Joined 0).

(* c.conn.SetReadLimit(maxMessageSize): a larger message ends readPump, which unregisters *)
Definition max_message_size : N := 10485760.
Definition read_event (n : N) (mt : N) (size : N) (d : list N) : event :=
  if (max_message_size <? size)%N then Unregister n else Recv n mt d.

(* relay.Relay (internal/relay/relay.go): the configured BufferSize is used as it is when it lies in
   1..512; any other value (an unset 0, a negative, a too large one) is overridden with 256. This is
   the capacity every connection of that relay gets. *)
Definition effective_cap (configured : Z) : nat :=
  if ((configured <? 1) || (512 <? configured))%Z then 256 else Z.to_nat configured.
