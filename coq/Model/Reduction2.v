(* Reduction for ARBITRARY nesting of critical sections (C12, second level).

   Same value-carrying lock IR as Model/Reduction.v ([vstep]). The atomic semantics here is the one Lipton's theory
   gives for arbitrary well-locked code: a thread's execution is cut at its RELEASES - every maximal run
        (control steps | Acq | Rd | Wr)*  Rel
   of a thread is ONE atomic step ([ABlock]: right-movers and both-movers followed by one left-mover). Locks are
   really held between two blocks of a thread (an outer section stays open while inner ones come and go), so a
   status report is a sequence of atomic blocks - one per client - under a membership that is frozen because the
   outer shared lock is held throughout, not a snapshot. For un-nested sections a block is the whole section
   Acq..Rel, as in Model/Reduction.v.  Definitions only. *)
From Relay Require Import Base.Prelude Model.LockIR Model.Reduction.

Section Reduction2.
  Context {L F Ob Lo : Type}.
  Variable leqb : L -> L -> bool.
  Variable guard : F -> L.
  Variable rd : F -> Lo -> Ob -> Lo.
  Variable wr : F -> Lo -> Ob -> Lo * Ob.

  Notation vthread := (@vthread L F Lo).
  Notation cfg := (@cfg L F Ob Lo).

  (* one thread running alone, on the whole object map: any step but a release. Acquisitions only record that the
     thread does not hold the lock already; whether the lock is available is asked once, for the whole block. *)
  Inductive pstep : vthread * (L -> Ob) -> vthread * (L -> Ob) -> Prop :=
  | PLocal ls lo k lo' k' o : lstep (lo, k) (lo', k') -> pstep ((ls, lo, k), o) ((ls, lo', k'), o)
  | PAcq ls lo m md k o : held leqb m ls = None -> pstep ((ls, lo, Acq m md :: k), o) (((m, md) :: ls, lo, k), o)
  | PRd ls lo f k o : held leqb (guard f) ls <> None ->
                      pstep ((ls, lo, Rd f :: k), o) ((ls, rd f lo (o (guard f)), k), o)
  | PWr ls lo f k o : held leqb (guard f) ls = Some Ex ->
                      pstep ((ls, lo, Wr f :: k), o)
                            ((ls, fst (wr f lo (o (guard f))), k), oset leqb o (guard f) (snd (wr f lo (o (guard f))))).

  Inductive prun : vthread * (L -> Ob) -> vthread * (L -> Ob) -> Prop :=
  | prun_refl x : prun x x
  | prun_snoc x y z : prun x y -> pstep y z -> prun x z.

  (* the locks held at the end of a block are compatible with what every other thread holds *)
  Definition compat (ls : @lockset L) (ts : list vthread) (i : nat) : Prop :=
    forall j lj loj kj m, j <> i -> nth_error ts j = Some (lj, loj, kj) ->
      (held leqb m ls = Some Ex -> held leqb m lj = None) /\
      (held leqb m ls <> None -> held leqb m lj <> Some Ex).

  Inductive astep2 : cfg -> nat -> cfg -> Prop :=
  | ALocal2 c i ls lo k lo' k' :
      nth_error (thrs c) i = Some (ls, lo, k) -> lstep (lo, k) (lo', k') ->
      astep2 c i (mkcfg (objs c) (vupd (thrs c) i (ls, lo', k')))
  | ABlock c i t ls1 lo1 m k1 o1 :
      nth_error (thrs c) i = Some t ->
      prun (t, objs c) ((ls1, lo1, Rel m :: k1), o1) ->
      compat ls1 (thrs c) i ->
      astep2 c i (mkcfg o1 (vupd (thrs c) i (drop leqb m ls1, lo1, k1))).

  Inductive arun2 : cfg -> list nat -> cfg -> Prop :=
  | arun2_nil c : arun2 c [] c
  | arun2_snoc c s c' i c'' : arun2 c s c' -> astep2 c' i c'' -> arun2 c (s ++ [i]) c''.
End Reduction2.
