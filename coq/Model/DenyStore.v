(* Model of internal/deny/deny.go (Store) and of the deny / allow / list / session handlers'
   use of it in internal/access/access.go.  Booking ids are interned by the harness to N,
   with 0 standing for the empty string.  Time is Unix seconds in Z. Models only, no proofs. *)
From Relay Require Import Base.Prelude Base.AList.

Definition idmap := alist N Z.
Notation lk := (@lookup N Z N.eqb).
Notation rm := (@remove N Z N.eqb).
Notation ins := (@insert N Z N.eqb).
Notation has := (@mem N Z N.eqb).

Record st := mkst { allowl : idmap; denyl : idmap; now : Z }.

Definition init (t : Z) : st := mkst [] [] t.

Inductive op :=
(* methods of deny.Store *)
| ODeny (id : N) (e : Z)
| OAllow (id : N) (e : Z)
| OIsDenied (id : N)
| OPrune
| OGetDeny
| OGetAllow
| OSetNow (t : Z)
(* handlers of the access API, reached with a principal that already passed the admin check
   (deny/allow/list) or the token checks (session) *)
| HDeny (id : N) (e : Z)
| HAllow (id : N) (e : Z)
| HListDeny
| HListAllow
| HSession (allow_empty : bool) (id : N) (e : Z).

Inductive out :=
| RUnit
| RBool (b : bool)
| RList (l : list N)          (* sorted: Go map order is unspecified *)
| RStatus (code : N).

Definition stale (t : Z) (_ : N) (v : Z) : bool := negb (v <? t)%Z.

Definition do_deny (s : st) id e := mkst (rm id (allowl s)) (ins id e (denyl s)) (now s).
Definition do_allow (s : st) id e := mkst (ins id e (allowl s)) (rm id (denyl s)) (now s).
Definition do_prune (s : st) :=
  mkst (filterv (stale (now s)) (allowl s)) (filterv (stale (now s)) (denyl s)) (now s).

Definition step (s : st) (o : op) : st * out :=
  match o with
  | ODeny id e => (do_deny s id e, RUnit)
  | OAllow id e => (do_allow s id e, RUnit)
  | OIsDenied id => (s, RBool (has id (denyl s)))
  | OPrune => (do_prune s, RUnit)
  | OGetDeny => (s, RList (sortN (keys (denyl s))))
  | OGetAllow => (s, RList (sortN (keys (allowl s))))
  | OSetNow t => (mkst (allowl s) (denyl s) t, RUnit)
  | HDeny id e =>
      if (id =? 0)%N then (s, RStatus 400)
      else if (e <? now s)%Z then (s, RStatus 400)
      else (do_deny s id e, RStatus 204)
  | HAllow id e =>
      if (id =? 0)%N then (s, RStatus 400)
      else if (e <? now s)%Z then (s, RStatus 400)
      else (do_allow s id e, RStatus 204)
  | HListDeny => (s, RList (sortN (keys (denyl s))))
  | HListAllow => (s, RList (sortN (keys (allowl s))))
  | HSession ae id e =>
      if ((id =? 0)%N && negb ae)%bool then (s, RStatus 400)
      else if has id (denyl s) then (s, RStatus 400)
      else (do_allow s id e, RStatus 200)
  end.

Fixpoint run (s : st) (ops : list op) : st * list out :=
  match ops with
  | [] => (s, [])
  | o :: r => let '(s1, x) := step s o in let '(s2, xs) := run s1 r in (s2, x :: xs)
  end.

Definition final (s : st) (ops : list op) : st := fold_left (fun s o => fst (step s o)) ops s.

(* ---- the abstract specification: ONE register id -> (status, expiry) ---- *)
Inductive status := Denied | Allowed.
Definition reg := alist N (status * Z).
Notation rlk := (@lookup N (status * Z) N.eqb).
Notation rins := (@insert N (status * Z) N.eqb).

Record spec := mkspec { entries : reg; snow : Z }.

Definition is_status (w : status) (_ : N) (v : status * Z) : bool :=
  match w, fst v with Denied, Denied => true | Allowed, Allowed => true | _, _ => false end.

Definition spec_list (w : status) (r : reg) : list N := sortN (keys (filterv (is_status w) r)).

Definition spec_denied (id : N) (r : reg) : bool :=
  match rlk id r with Some (Denied, _) => true | _ => false end.

Definition spec_step (s : spec) (o : op) : spec * out :=
  let set w id e := mkspec (rins id (w, e) (entries s)) (snow s) in
  match o with
  | ODeny id e => (set Denied id e, RUnit)
  | OAllow id e => (set Allowed id e, RUnit)
  | OIsDenied id => (s, RBool (spec_denied id (entries s)))
  | OPrune => (mkspec (filterv (fun _ v => negb (snd v <? snow s)%Z) (entries s)) (snow s), RUnit)
  | OGetDeny | HListDeny => (s, RList (spec_list Denied (entries s)))
  | OGetAllow | HListAllow => (s, RList (spec_list Allowed (entries s)))
  | OSetNow t => (mkspec (entries s) t, RUnit)
  | HDeny id e =>
      if (id =? 0)%N then (s, RStatus 400)
      else if (e <? snow s)%Z then (s, RStatus 400)
      else (set Denied id e, RStatus 204)
  | HAllow id e =>
      if (id =? 0)%N then (s, RStatus 400)
      else if (e <? snow s)%Z then (s, RStatus 400)
      else (set Allowed id e, RStatus 204)
  | HSession ae id e =>
      if ((id =? 0)%N && negb ae)%bool then (s, RStatus 400)
      else if spec_denied id (entries s) then (s, RStatus 400)
      else (set Allowed id e, RStatus 200)
  end.

(* abstraction: what the two Go maps mean as one register (deny wins if both were present;
   the invariant proved in Proofs/DenyStore_proofs.v says that never happens) *)
Definition abs_lookup (s : st) (id : N) : option (status * Z) :=
  match lk id (denyl s) with
  | Some e => Some (Denied, e)
  | None => match lk id (allowl s) with Some e => Some (Allowed, e) | None => None end
  end.
