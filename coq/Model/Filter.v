(* Model of the log filter of `relay file`: internal/file/filter.go (Filter, FilterLines) and
   internal/file/types.go (FilterAction, FilterVerb).  Models only, no proofs.

   Go: two maps  source-text -> compiled regexp  (AcceptPatterns, DenyPatterns), keyed by
   p.String().  Pass: all-pass when both maps are empty; else a matching deny pattern blocks;
   else a matching accept pattern passes; else blocked.
   The regexp library is an oracle:  matches p line  = regexp.MustCompile(p).MatchString(line). *)
From Relay Require Import Base.Prelude Base.AList.

(* what a filter line of a play file asks for (FilterAction): Verb + pattern source.
   Unknown is the zero verb of the Go type; FilterLines ignores it and the parser never emits it. *)
Inductive faction :=
| Accept (p : string)
| Deny (p : string)
| Reset
| Unknown
(* methods of Filter that no play-file line and no FilterAction reaches (DeleteAcceptPattern,
   DeleteDenyPattern); part of the filter's interface, so part of the histories *)
| DelAccept (p : string)
| DelDeny (p : string).

Definition pmap := alist string string.   (* key: p.String(); value: the compiled pattern, named by its source *)
Notation pins := (@insert string string String.eqb).
Notation prm := (@remove string string String.eqb).
Notation plk := (@lookup string string String.eqb).

Record filt := mkf { accepts : pmap; denies : pmap }.

Definition fnew : filt := mkf [] [].

Definition fapply (f : filt) (a : faction) : filt :=
  match a with
  | Accept p => mkf (pins p p (accepts f)) (denies f)
  | Deny p => mkf (accepts f) (pins p p (denies f))
  | Reset => fnew
  | Unknown => f
  | DelAccept p => mkf (prm p (accepts f)) (denies f)
  | DelDeny p => mkf (accepts f) (prm p (denies f))
  end.

Definition ffinal (acts : list faction) : filt := fold_left fapply acts fnew.

Definition is_nil {A} (l : list A) : bool := match l with [] => true | _ => false end.

Section Pass.
  Variable matches : string -> string -> bool.

  (* func match: some pattern of the map matches the line (map order is irrelevant for "some") *)
  Definition any_match (m : pmap) (line : string) : bool :=
    existsb (fun kv => matches (snd kv) line) m.

  Definition all_pass (f : filt) : bool := is_nil (accepts f) && is_nil (denies f).

  Definition pass (f : filt) (line : string) : bool :=
    if all_pass f then true
    else if any_match (denies f) line then false
    else any_match (accepts f) line.

  (* FilterLines: one goroutine, one select; every event is handled completely before the next *)
  Inductive fev :=
  | Act (a : faction)
  | Line (s : string).

  Fixpoint frun (f : filt) (evs : list fev) : list string :=
    match evs with
    | [] => []
    | Act a :: r => frun (fapply f a) r
    | Line s :: r => if pass f s then s :: frun f r else frun f r
    end.

  (* the filter reached after the actions among evs *)
  Fixpoint fstate (f : filt) (evs : list fev) : filt :=
    match evs with
    | [] => f
    | Act a :: r => fstate (fapply f a) r
    | Line _ :: r => fstate f r
    end.

  (* ---- FilterLines in front of a BOUNDED log channel whose consumer reads when it pleases
          (file.go: w has capacity 10; the writer may be slow or stalled).  The send  w <- line
          is a plain blocking send: with the channel full the goroutine waits - it takes no
          further event and drops nothing.  A schedule says who moves next; a move that is not
          possible (filter blocked on a full channel, consumer facing an empty one) is skipped. ---- *)
  Record pipe := mkp { pf : filt; pend : list fev; pbuf : list string; deliv : list string }.

  Inductive pact :=
  | StepFilter        (* FilterLines handles its next event; a permitted line goes into the channel *)
  | StepConsumer      (* the consumer takes the oldest line out of the channel *)
  | StepRendezvous.   (* capacity 0: FilterLines hands a permitted line straight to a ready consumer *)

  Definition pstep (cap : nat) (p : pipe) (a : pact) : option pipe :=
    match a with
    | StepConsumer =>
        match pbuf p with
        | [] => None
        | x :: r => Some (mkp (pf p) (pend p) r (deliv p ++ [x]))
        end
    | StepFilter =>
        match pend p with
        | [] => None
        | Act c :: r => Some (mkp (fapply (pf p) c) r (pbuf p) (deliv p))
        | Line s :: r =>
            if pass (pf p) s then
              if (length (pbuf p) <? cap)%nat then Some (mkp (pf p) r (pbuf p ++ [s]) (deliv p))
              else None
            else Some (mkp (pf p) r (pbuf p) (deliv p))
        end
    | StepRendezvous =>
        match pend p, pbuf p with
        | Line s :: r, [] =>
            if pass (pf p) s then Some (mkp (pf p) r [] (deliv p ++ [s])) else None
        | _, _ => None
        end
    end.

  Definition pmove (cap : nat) (p : pipe) (a : pact) : pipe :=
    match pstep cap p a with Some q => q | None => p end.

  Definition prun (cap : nat) (p : pipe) (sched : list pact) : pipe := fold_left (pmove cap) sched p.

  Definition pinit (evs : list fev) : pipe := mkp fnew evs [] [].

  Definition pdone (p : pipe) : bool := is_nil (pend p) && is_nil (pbuf p).

  (* twice the events still to handle plus the lines in the channel: every move lowers it *)
  Definition pmeasure (p : pipe) : nat := 2 * length (pend p) + length (pbuf p).
End Pass.
