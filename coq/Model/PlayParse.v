(* Model of the play-file line classifier of `relay file`: internal/file/parse.go (ParseLine,
   Check) with the regular expressions of internal/file/regex.go, as repaired by the fixes
   F14a (every non-empty delay operand goes through time.ParseDuration), F14b (a condition's
   argument list is closed by its own '>', one regexp over the whole line) and F14c (inside the
   quoted pattern a backslash escapes the next character).  Models only, no proofs.

   Each regexp is anchored at ^ and is a sequence of character-class runs and literals in which
   no run can give a character back to what follows it, so RE2's leftmost-first match is the
   greedy left-to-right scan written here (the scan_*_spec lemmas of the proofs file
   characterise every scanner by the decomposition of the line it finds).  Strings are byte
   strings; all classes are ASCII or complements of ASCII sets, so bytes and runes agree.

       mre  = ^\s*#+([+-]* )\s*(.* )
       dre  = ^\s*\[\s*([a-zA-Z0-9.]* )\s*]\s*(.* )
       cire = ^\s*<(.* )>\s*(.* )                 (only decides that the line is a condition)
       cfre = ^\s*<\s*'((?:[^'\\]|\\.)* )'\s*,\s*([0-9]* )\s*,\s*([0-9hmns.]* )\s*>\s*(.* )
       fre  = ^\s*\|\s*([-+a-zA-Z]+)\s*>\s*(.* )

   \s is [\t\n\f\r ] and . is any byte but \n (Go regexp defaults).
   Library calls are oracles: parse_dur = time.ParseDuration (nanoseconds), regex_ok =
   "regexp.Compile succeeds", atoi = strconv.Atoi. *)
From Relay Require Import Base.Prelude Model.Filter.
Local Open Scope string_scope.

(* ---- byte classes ---- *)
Definition code (c : ascii) : N := N_of_ascii c.
Definition between (lo hi : N) (c : ascii) : bool := (lo <=? code c)%N && (code c <=? hi)%N.

Definition is_ws (c : ascii) : bool :=
  (code c =? 9)%N || (code c =? 10)%N || (code c =? 12)%N || (code c =? 13)%N || (code c =? 32)%N.
Definition not_nl (c : ascii) : bool := negb (code c =? 10)%N.
Definition is_hash (c : ascii) : bool := (code c =? 35)%N.
Definition is_pm (c : ascii) : bool := (code c =? 43)%N || (code c =? 45)%N.
Definition is_digit (c : ascii) : bool := between 48 57 c.
Definition is_lower (c : ascii) : bool := between 97 122 c.
Definition is_upper (c : ascii) : bool := between 65 90 c.
Definition is_alnumdot (c : ascii) : bool := is_lower c || is_upper c || is_digit c || (code c =? 46)%N.
(* [0-9hmns.] *)
Definition is_durch (c : ascii) : bool :=
  is_digit c || (code c =? 104)%N || (code c =? 109)%N || (code c =? 110)%N || (code c =? 115)%N || (code c =? 46)%N.
(* [-+a-zA-Z] *)
Definition is_verbch (c : ascii) : bool := is_pm c || is_lower c || is_upper c.
Definition is_gt (c : ascii) : bool := (code c =? 62)%N.
Definition is_quote (c : ascii) : bool := (code c =? 39)%N.
Definition is_bslash (c : ascii) : bool := (code c =? 92)%N.

(* ---- scanning combinators ---- *)
Fixpoint allb (p : ascii -> bool) (s : string) : bool :=
  match s with EmptyString => true | String c r => p c && allb p r end.

Fixpoint anyb (p : ascii -> bool) (s : string) : bool :=
  match s with EmptyString => false | String c r => p c || anyb p r end.

(* the longest prefix whose bytes all satisfy p, and what follows it: a greedy  [class]*  *)
Fixpoint span (p : ascii -> bool) (s : string) : string * string :=
  match s with
  | EmptyString => (EmptyString, EmptyString)
  | String c r => if p c then let (a, b) := span p r in (String c a, b) else (EmptyString, s)
  end.

Definition ltrim (s : string) : string := snd (span is_ws s).        (* \s*   *)
Definition take_line (s : string) : string := fst (span not_nl s).   (* (.* ) *)

Definition expect (c : ascii) (s : string) : option string :=
  match s with
  | String c' r => if Ascii.eqb c c' then Some r else None
  | EmptyString => None
  end.

Definition bind {A B} (o : option A) (f : A -> option B) : option B :=
  match o with Some x => f x | None => None end.
Notation "x <- e ;; k" := (bind e (fun x => k)) (at level 61, e at next level, right associativity).

(* (?:[^'\\]|\\.)*  -- the body of the quoted pattern: a backslash takes the next byte with it
   (unless that byte is a newline, which '.' refuses) *)
Fixpoint qbody (s : string) : string * string :=
  match s with
  | EmptyString => (EmptyString, EmptyString)
  | String c r =>
      if is_quote c then (EmptyString, s)
      else if is_bslash c then
        match r with
        | String c2 r2 =>
            if not_nl c2 then let (a, b) := qbody r2 in (String c (String c2 a), b)
            else (EmptyString, s)
        | EmptyString => (EmptyString, s)
        end
      else let (a, b) := qbody r in (String c a, b)
  end.

(* ---- the five regexps ---- *)
(* mre: (flags, message) *)
Definition scan_comment (l : string) : option (string * string) :=
  let (h, r1) := span is_hash (ltrim l) in
  match h with
  | EmptyString => None
  | _ => let (f, r2) := span is_pm r1 in Some (f, take_line (ltrim r2))
  end.

(* dre: (operand, message) *)
Definition scan_delay (l : string) : option (string * string) :=
  r1 <- expect "[" (ltrim l) ;;
  let (d, r2) := span is_alnumdot (ltrim r1) in
  r3 <- expect "]" (ltrim r2) ;;
  Some (d, take_line (ltrim r3)).

(* cire, used only as a test: '<' first, and a '>' before the end of that text line *)
Definition cond_gate (l : string) : bool :=
  match expect "<" (ltrim l) with
  | Some r => anyb is_gt (take_line r)
  | None => false
  end.

(* cfre: (pattern, count, timeout, message) *)
Definition scan_cond (l : string) : option (string * string * string * string) :=
  r0 <- expect "<" (ltrim l) ;;
  r1 <- expect "'" (ltrim r0) ;;
  let (p, r2) := qbody r1 in
  r3 <- expect "'" r2 ;;
  r4 <- expect "," (ltrim r3) ;;
  let (n, r5) := span is_digit (ltrim r4) in
  r6 <- expect "," (ltrim r5) ;;
  let (t, r7) := span is_durch (ltrim r6) in
  r8 <- expect ">" (ltrim r7) ;;
  Some (p, n, t, take_line (ltrim r8)).

(* fre: (verb, argument) *)
Definition scan_filter (l : string) : option (string * string) :=
  r1 <- expect "|" (ltrim l) ;;
  let (v, r2) := span is_verbch (ltrim r1) in
  match v with
  | EmptyString => None
  | _ => r3 <- expect ">" (ltrim r2) ;; Some (v, take_line (ltrim r3))
  end.

(* strings.ToLower on a word of [-+a-zA-Z] *)
Definition lower_ascii (c : ascii) : ascii :=
  if is_upper c then ascii_of_N (code c + 32) else c.
Fixpoint lower (s : string) : string :=
  match s with EmptyString => EmptyString | String c r => String (lower_ascii c) (lower r) end.

Inductive verb := VDeny | VAccept | VReset | VUnknown.
Definition verb_of (v : string) : verb :=
  let w := lower v in
  if (w =? "-") || (w =? "d") || (w =? "deny") then VDeny
  else if (w =? "+") || (w =? "a") || (w =? "accept") then VAccept
  else if (w =? "r") || (w =? "reset") then VReset
  else VUnknown.

(* ---- what ParseLine returns, after the projection of the property: kind, message, delay,
        pattern source, count, timeout (never the text of an error) ---- *)
Inductive item :=
| IComment (echo : bool) (msg : string)
| IWait (delay : Z)
| ISend (msg : string) (delay : Z) (pat : string) (count : Z) (timeout : Z)   (* no condition: "" 0 0 *)
| IFilter (a : faction)
| IError.

Section Parse.
  Variable parse_dur : string -> option Z.
  Variable regex_ok : string -> bool.
  Variable atoi : string -> option Z.

  (* the text between [ ]: empty means no delay; anything else must be a duration (F14a) *)
  Definition dur_of (d : string) : option Z := if d =? "" then Some 0%Z else parse_dur d.

  Definition parse_line (l : string) : item :=
    match scan_comment l with
    | Some (f, msg) => IComment (f =? "+") msg
    | None =>
    match scan_delay l with
    | Some (d, msg) =>
        match dur_of d with
        | None => IError
        | Some t => if msg =? "" then IWait t else ISend msg t "" 0 0
        end
    | None =>
    if cond_gate l then
      match scan_cond l with
      | None => IError
      | Some (p, n, to, msg) =>
          if regex_ok p then
            match atoi n with
            | None => IError
            | Some k =>
                match parse_dur to with
                | None => IError
                | Some T => ISend msg 0 p k T
                end
            end
          else IError
      end
    else
    match scan_filter l with
    | Some (v, arg) =>
        match verb_of v with
        | VUnknown => IError
        | VReset => IFilter Reset
        | VAccept => if regex_ok arg then IFilter (Accept arg) else IError
        | VDeny => if regex_ok arg then IFilter (Deny arg) else IError
        end
    | None => ISend l 0 "" 0 0
    end
    end
    end.

  (* ParseByLine over the lines bufio.Scanner hands out, then Check: the number of Error items
     (Check returns a non-nil error exactly when that number is not zero) *)
  Definition parse_file (ls : list string) : list item := map parse_line ls.

  Definition is_error (i : item) : bool := match i with IError => true | _ => false end.
  Definition check_count (its : list item) : N := count_true is_error its.
  Definition check_fails (its : list item) : bool := existsb is_error its.
End Parse.

(* ---- the TEXT of a reported error, as ParseLine formats it (parse.go), and Check's output.
        Check walks the items and returns the text of every Error item, in order (it prints no
        line number; the report below pairs each text with the 1-based number of the line it came
        from).  The texts embed what the regexp / time library said: two more oracles,
        regex_err p = err.Error() of regexp.Compile(p), dur_err d = err.Error() of
        time.ParseDuration(d).  cire's captures appear in three of the texts, printed with %s as
        a Go slice: [whole-match between-<-and-the-LAST-> rest]. ---- *)
Fixpoint split_last (p : ascii -> bool) (s : string) : option (string * string) :=
  match s with
  | EmptyString => None
  | String c r =>
      match split_last p r with
      | Some (a, b) => Some (String c a, b)
      | None => if p c then Some (EmptyString, r) else None
      end
  end.

(* cire = ^\s*<(.* )>\s*(.* ) : fmt.Sprintf("%s", cire.FindStringSubmatch(line)) *)
Definition cire_slice (l : string) : string :=
  let (pre, r0) := span is_ws l in
  match expect "<" r0 with
  | None => ""
  | Some r =>
      let (seg, rest) := span not_nl r in
      match split_last is_gt seg with
      | None => ""
      | Some (g1, after) =>
          let (b, r2) := span is_ws (after ++ rest) in
          let g2 := take_line r2 in
          "[" ++ (pre ++ "<" ++ g1 ++ ">" ++ b ++ g2) ++ " " ++ g1 ++ " " ++ g2 ++ "]"
      end
  end.

Section ErrorText.
  Variable parse_dur : string -> option Z.
  Variable regex_ok : string -> bool.
  Variable atoi : string -> option Z.
  Variable regex_err : string -> string.
  Variable dur_err : string -> string.

  (* Some text exactly when ParseLine returns an Error; every text but one ends with the line *)
  Definition error_of (l : string) : option string :=
    match scan_comment l with
    | Some _ => None
    | None =>
    match scan_delay l with
    | Some (d, _) =>
        match dur_of parse_dur d with
        | None => Some ("unknown delay time format: " ++ l)
        | Some _ => None
        end
    | None =>
    if cond_gate l then
      match scan_cond l with
      | None => Some ("malformed condition command: " ++ l)
      | Some (p, n, to, _) =>
          if regex_ok p then
            match atoi n with
            | None =>
                Some (("malformed condition command " ++ cire_slice l ++ "; second argument " ++ n ++
                       " should be integer, count of messages to await. Line was: ") ++ l)
            | Some _ =>
                match parse_dur to with
                | None =>
                    Some (("malformed condition command " ++ cire_slice l ++ "; third argument " ++ to ++
                           " should be timeout duration in format like 10s or 1m. Yours could not be parsed because " ++
                           dur_err to ++ ". Line was was ") ++ l)
                | Some _ => None
                end
            end
          else
            Some (("malformed condition command " ++ cire_slice l ++ "; first argument " ++ p ++
                   " should be regexp pattern, but did not compile because " ++ regex_err p ++ ". Line was ") ++ l)
      end
    else
    match scan_filter l with
    | Some (v, arg) =>
        match verb_of v with
        | VUnknown =>
            Some ("malformed filter command; first argument not one of [+,-,a,d,r,accept,deny,reset], but was " ++ v)
        | VReset => None
        | VAccept | VDeny =>
            if regex_ok arg then None
            else Some (("malformed filter command; last argument " ++ arg ++
                        " should be regexp pattern, but did not compile because " ++ regex_err arg ++ ". Line was ") ++ l)
        end
    | None => None
    end
    end
    end.

  (* Check over the lines of a file: (1-based line number, text) of every malformed line *)
  Fixpoint check_report_from (n : N) (ls : list string) : list (N * string) :=
    match ls with
    | [] => []
    | l :: r =>
        match error_of l with
        | Some t => (n, t) :: check_report_from (N.succ n) r
        | None => check_report_from (N.succ n) r
        end
    end.
  Definition check_report (ls : list string) : list (N * string) := check_report_from 1 ls.
  (* what Check returns: the texts *)
  Definition check_texts (ls : list string) : list string := map snd (check_report ls).
End ErrorText.

(* ---- a whole play file: ParseByLine = bufio.Scanner with ScanLines over the bytes of the file.
        A line ends at \n; a text that does not end in \n has one more, unterminated, line (kept when
        it is not empty); one trailing \r is dropped from every line (dropCR).  Since the repair F14d
        the scanner's buffer grows as far as memory allows (scanner.Buffer(..., math.MaxInt)): a line
        of any length is handed to ParseLine.  (Memory exhaustion and read errors of the underlying
        file are outside the model.) ---- *)
Definition is_nl (c : ascii) : bool := (code c =? 10)%N.
Definition is_cr (c : ascii) : bool := (code c =? 13)%N.

Fixpoint raw_lines (s : string) : list string :=
  match s with
  | EmptyString => []
  | String c r =>
      if is_nl c then EmptyString :: raw_lines r
      else match raw_lines r with
           | [] => [String c EmptyString]
           | l :: ls => String c l :: ls
           end
  end.

Fixpoint drop_cr (l : string) : string :=
  match l with
  | EmptyString => EmptyString
  | String c r =>
      match r with
      | EmptyString => if is_cr c then EmptyString else l
      | _ => String c (drop_cr r)
      end
  end.

(* the lines the scanner hands out *)
Definition file_lines (text : string) : list string := map drop_cr (raw_lines text).

Fixpoint lenN (s : string) : N :=
  match s with EmptyString => 0%N | String _ r => N.succ (lenN r) end.

(* BEFORE F14d (kept as evidence only, Props: C20_old_scanner_limit_refuted): the scanner had its
   default buffer, a raw line of bufio.MaxScanTokenSize = 65536 bytes or more stopped it with
   ErrTooLong - the lines before it were delivered, LoadFile returned the error and `relay file`
   refused the play file *)
Definition max_token : N := 65536.

Fixpoint scan_ok (ls : list string) : list string * bool :=
  match ls with
  | [] => ([], false)
  | l :: r =>
      if (max_token <=? lenN l)%N then ([], true)
      else let (a, b) := scan_ok r in (drop_cr l :: a, b)
  end.

Section Load.
  Variable parse_dur : string -> option Z.
  Variable regex_ok : string -> bool.
  Variable atoi : string -> option Z.

  (* LoadFile: the items, in order *)
  Definition load_text (text : string) : list item :=
    parse_file parse_dur regex_ok atoi (file_lines text).

  (* LoadFile as it was with the 64 KiB limit: the items, and "ParseByLine returned an error" *)
  Definition load_text_limited (text : string) : list item * bool :=
    let (ls, too_long) := scan_ok (raw_lines text) in (parse_file parse_dur regex_ok atoi ls, too_long).
End Load.

(* ================================================================================================
   The DECLARATIVE grammar of a play-file line, written from cmd/relay/README.md (PLAYFILE FORMAT),
   for a text line (no newline inside).  Where the README is silent the behaviour of the code
   stands and is written down here: several '#', a '+'/'-' only directly after the '#'s, blanks
   allowed around every operand, a filter pattern runs to the end of the line, a line that starts
   with '[', '<' or '|' but does not have the shape of the command is an ordinary message.
   Nothing below mentions a scanner: a line is described by HOW IT SPLITS.
   ================================================================================================ *)
Definition nofirst (p : ascii -> bool) (s : string) : Prop :=
  match s with EmptyString => True | String c _ => p c = false end.
Definition blank (s : string) : Prop := allb is_ws s = true.
Definition no_nl (s : string) : Prop := allb not_nl s = true.

(* the body of a quoted pattern: no quote, except behind a backslash *)
Inductive qpat : string -> Prop :=
| qp_nil : qpat ""
| qp_chr c s : is_quote c = false -> is_bslash c = false -> qpat s -> qpat (String c s)
| qp_esc c c2 s : is_bslash c = true -> not_nl c2 = true -> qpat s -> qpat (String c (String c2 s)).

(* blanks #..# flags blanks MESSAGE        ("# text", "#- text", "#+ text") *)
Definition comment_form (l f m : string) : Prop :=
  exists pre h b,
    l = pre ++ h ++ f ++ b ++ m /\
    blank pre /\ allb is_hash h = true /\ h <> "" /\ allb is_pm f = true /\ blank b /\
    nofirst is_hash (f ++ b ++ m) /\ nofirst is_pm (b ++ m) /\ nofirst is_ws m.

(* blanks [ blanks OPERAND blanks ] blanks MESSAGE      ("[1.2s] msg", "[100ms]", "[] msg") *)
Definition delay_form (l d m : string) : Prop :=
  exists pre b1 b2 b3,
    l = pre ++ "[" ++ b1 ++ d ++ b2 ++ "]" ++ b3 ++ m /\
    blank pre /\ blank b1 /\ allb is_alnumdot d = true /\ blank b2 /\ blank b3 /\ nofirst is_ws m.

(* blanks < blanks 'PATTERN' blanks , blanks COUNT blanks , blanks TIMEOUT blanks > blanks MESSAGE *)
Definition cond_form (l p n t m : string) : Prop :=
  exists pre b0 b1 b2 b3 b4 b5 b6,
    l = pre ++ "<" ++ b0 ++ "'" ++ p ++ "'" ++ b1 ++ "," ++ b2 ++ n ++ b3 ++ "," ++ b4 ++ t ++ b5 ++ ">" ++ b6 ++ m /\
    blank pre /\ blank b0 /\ qpat p /\ blank b1 /\ blank b2 /\ allb is_digit n = true /\ blank b3 /\
    blank b4 /\ allb is_durch t = true /\ blank b5 /\ blank b6 /\ nofirst is_ws m.

(* the line announces a condition: '<' first and a '>' later on the line *)
Definition cond_gate_form (l : string) : Prop :=
  exists pre x y, l = pre ++ "<" ++ x ++ ">" ++ y /\ blank pre /\ no_nl x.

(* blanks | blanks VERB blanks > blanks ARGUMENT        ("|+> re", "|deny> re", "|r>") *)
Definition filter_form (l v a : string) : Prop :=
  exists pre b1 b2 b3,
    l = pre ++ "|" ++ b1 ++ v ++ b2 ++ ">" ++ b3 ++ a /\
    blank pre /\ blank b1 /\ allb is_verbch v = true /\ v <> "" /\ blank b2 /\ blank b3 /\ nofirst is_ws a.

Definition is_accept_word (v : string) : Prop := lower v = "+" \/ lower v = "a" \/ lower v = "accept".
Definition is_deny_word (v : string) : Prop := lower v = "-" \/ lower v = "d" \/ lower v = "deny".
Definition is_reset_word (v : string) : Prop := lower v = "r" \/ lower v = "reset".

Definition is_command (l : string) : Prop :=
  (exists f m, comment_form l f m) \/ (exists d m, delay_form l d m) \/ cond_gate_form l \/
  (exists v a, filter_form l v a).

Section Grammar.
  Variable parse_dur : string -> option Z.
  Variable regex_ok : string -> bool.
  Variable atoi : string -> option Z.

  (* "starts like a command but an operand is invalid" *)
  Definition malformed (l : string) : Prop :=
    (exists d m, delay_form l d m /\ dur_of parse_dur d = None) \/
    (cond_gate_form l /\
     ~ exists p n t m k T, cond_form l p n t m /\ regex_ok p = true /\ atoi n = Some k /\ parse_dur t = Some T) \/
    (exists v a, filter_form l v a /\ ~ is_reset_word v /\
                 ~ (is_accept_word v /\ regex_ok a = true) /\ ~ (is_deny_word v /\ regex_ok a = true)).

  Inductive LineSpec (l : string) : item -> Prop :=
  | LS_comment f m : comment_form l f m -> LineSpec l (IComment (f =? "+") m)
  | LS_wait d t : delay_form l d "" -> dur_of parse_dur d = Some t -> LineSpec l (IWait t)
  | LS_send_delay d m t :
      delay_form l d m -> m <> "" -> dur_of parse_dur d = Some t -> LineSpec l (ISend m t "" 0 0)
  | LS_send_cond p n t m k T :
      cond_form l p n t m -> regex_ok p = true -> atoi n = Some k -> parse_dur t = Some T ->
      LineSpec l (ISend m 0 p k T)
  | LS_accept v a : filter_form l v a -> is_accept_word v -> regex_ok a = true -> LineSpec l (IFilter (Accept a))
  | LS_deny v a : filter_form l v a -> is_deny_word v -> regex_ok a = true -> LineSpec l (IFilter (Deny a))
  | LS_reset v a : filter_form l v a -> is_reset_word v -> LineSpec l (IFilter Reset)
  | LS_error : malformed l -> LineSpec l IError
  | LS_send_now : ~ is_command l -> LineSpec l (ISend l 0 "" 0 0).
End Grammar.

(* ================================================================================================
   PLAYING the parsed items (parse.go: Play).  Play walks the items in order:
     Comment  - an echo comment is handed to the log channel, others do nothing;
     Error    - ignored;   Wait d - sleeps d;   FilterAction - handed to the filter channel;
     Send     - sleeps its Delay, then, if the condition is complete (pattern, count > 0, timeout
                not 0), hands the condition to the condition checker and waits until the checker
                says it is satisfied (by count or by timeout), then hands the message over.
   Every delay is "an additional delay on top of any overhead already incurred in sending the
   previous message" (README): it starts when the previous item is finished.

   Times are nanoseconds (Z).  What can be observed from outside are stamps taken by the
   consumers of Play's channels; the judgement is ONE-SIDED and needs no assumption about how
   fast anything is: from the stamps that are certainly not later than the true instants the
   checker derives, item by item, the earliest instant L at which the item can have finished, and
   requires every stamp that is certainly not earlier than a true instant to respect it:
     message hand-over :  ready = the consumer is about to receive (<= true hand-over),
                          after = the consumer has received        (>= true hand-over)
     condition         :  recv = the checker has received it       (>= Play reached the condition),
                          sat  = the checker is about to say "satisfied" (<= Play continues)
   ================================================================================================ *)
Record pobs := mkobs {
  o_sent : list (string * Z * Z);              (* message, ready, after *)
  o_cond : list (string * Z * Z * Z * Z);      (* pattern, count, timeout, recv, sat *)
  o_act : list faction;
  o_echo : list string
}.

Definition complete_cond (p : string) (k T : Z) : bool :=
  negb (p =? "") && (0 <? k)%Z && negb (T =? 0)%Z.

Definition faction_same (a b : faction) : bool :=
  match a, b with
  | Accept p, Accept q | Deny p, Deny q | DelAccept p, DelAccept q | DelDeny p, DelDeny q => p =? q
  | Reset, Reset | Unknown, Unknown => true
  | _, _ => false
  end.

(* hand-over of message m no earlier than L: the new earliest finish, or None if the stamps say
   the message went out too early / is not the stated one *)
Definition take_sent (tol L : Z) (m : string) (o : pobs) : option (Z * pobs) :=
  match o_sent o with
  | (m', ready, after) :: ss =>
      let L' := Z.max L ready in
      if (m' =? m) && (L' - tol <=? after)%Z
      then Some (L', mkobs ss (o_cond o) (o_act o) (o_echo o))
      else None
  | [] => None
  end.

Fixpoint play_check (tol L : Z) (its : list item) (o : pobs) : bool :=
  match its with
  | [] =>
      match o_sent o, o_cond o, o_act o, o_echo o with
      | [], [], [], [] => true
      | _, _, _, _ => false
      end
  | IComment false _ :: r | IError :: r => play_check tol L r o
  | IComment true m :: r =>
      match o_echo o with
      | x :: xs => (x =? m) && play_check tol L r (mkobs (o_sent o) (o_cond o) (o_act o) xs)
      | [] => false
      end
  | IWait d :: r => play_check tol (L + d) r o
  | IFilter a :: r =>
      match o_act o with
      | x :: xs => faction_same x a && play_check tol L r (mkobs (o_sent o) (o_cond o) xs (o_echo o))
      | [] => false
      end
  | ISend m d p k T :: r =>
      let L1 := (L + d)%Z in
      if complete_cond p k T then
        match o_cond o with
        | (p', k', T', recv, sat) :: cs =>
            if (p' =? p) && (k' =? k)%Z && (T' =? T)%Z && (L1 - tol <=? recv)%Z then
              match take_sent tol (Z.max L1 sat) m (mkobs (o_sent o) cs (o_act o) (o_echo o)) with
              | Some (L2, o2) => play_check tol L2 r o2
              | None => false
              end
            else false
        | [] => false
        end
      else
        match take_sent tol L1 m o with
        | Some (L2, o2) => play_check tol L2 r o2
        | None => false
        end
  end.
