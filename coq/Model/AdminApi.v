(* Model of the host's control interfaces:
     internal/vw/internalAPI.go   handleAdminMessage + the reply assembly in internalAPI
     internal/vw/handleDestination.go, handleStream.go   (the HTTP rule API)
     internal/rwc/rwc.go (Run: what Add / Delete do to Rules), internal/agg/agg.go (same for stream rules).
   The command is taken AFTER the outer json.Unmarshal (encoding/json is not modelled): [None] when that
   failed, otherwise Verb/What/Which and the raw rule ([None] when the member is absent or null).  The inner
   json.Unmarshal of the rule is an oracle ([dec_dest], [dec_stream]: the decoded rule or the error text).
   State = the two rule tables.  The record [fixes] selects the code before/after the repairs F11a-c:
   [pinned] is the tree the framework was designed on, [repaired] is what the checks run against.
   Definitions only; lemmas in Proofs/AdminApi_proofs.v. *)
From Relay Require Import Base.Prelude Base.AList Model.AdminJson.
Local Open Scope N_scope.

Record drule := mkd { d_id : bytes; d_stream : bytes; d_dest : bytes; d_token : bytes; d_file : bytes }.
Record srule := mks { s_stream : bytes; s_feeds : option (list bytes) }.   (* nil slice = None *)
Record command := mkc { verb : bytes; what : bytes; which : bytes; rule : option bytes }.

Definition dtab := alist bytes drule.
Definition stab := alist bytes (option (list bytes)).
Record st := mkst { dests : dtab; streams : stab }.

Notation dlk := (@lookup bytes drule beqb).
Notation drm := (@remove bytes drule beqb).
Notation dins := (@insert bytes drule beqb).
Notation slk := (@lookup bytes (option (list bytes)) beqb).
Notation srm := (@remove bytes (option (list bytes)) beqb).
Notation sins := (@insert bytes (option (list bytes)) beqb).

Record fixes := mkf { fx_nil : bool; fx_quote : bool; fx_delall : bool }.
Definition pinned := mkf false false false.
Definition repaired := mkf true true true.

Inductive answer :=
| Ok (b : bytes)        (* handleAdminMessage returned (b, nil) *)
| Err (text : bytes)    (* it returned an error with this text *)
| Panic.                (* nil dereference: the host process ends *)

(* ---- words *)
Definition k_add := bytes_of "add".
Definition k_delete := bytes_of "delete".
Definition k_list := bytes_of "list".
Definition k_healthcheck := bytes_of "healthcheck".
Definition k_destination := bytes_of "destination".
Definition k_stream := bytes_of "stream".
Definition k_all := bytes_of "all".
Definition k_deleteAll := bytes_of "deleteAll".
Definition k_apiRule := bytes_of "apiRule".
Definition k_api := bytes_of "api".
Definition e_bad := bytes_of "Unrecognised Command".
Definition e_noapi := bytes_of "Cannot delete apiRule".

(* strings.TrimPrefix(s, "/") *)
Definition trim_slash (s : bytes) : bytes :=
  match s with b :: r => if b =? 47 then r else s | [] => s end.

(* ---- rwc.Hub.Run and agg.Hub.Run, as far as the rule tables go *)
Definition rwc_add (t : dtab) (r : drule) : dtab :=
  if beqb (d_id r) k_deleteAll then t else dins (d_id r) r t.
Definition rwc_delete (t : dtab) (id : bytes) : dtab :=
  if beqb id k_deleteAll then [] else drm id t.
Definition agg_add (t : stab) (r : srule) : stab :=
  if beqb (s_stream r) k_deleteAll then t else sins (s_stream r) (s_feeds r) t.
Definition agg_delete (t : stab) (name : bytes) : stab :=
  if beqb name k_deleteAll then [] else srm name t.

(* ---- JSON of the things that are listed *)
Definition zero_drule := mkd [] [] [] [] [].
Definition j_drule (r : drule) : jv :=
  JObj [ (bytes_of "id", JStr (d_id r)); (bytes_of "stream", JStr (d_stream r));
         (bytes_of "destination", JStr (d_dest r)); (bytes_of "token", JStr (d_token r));
         (bytes_of "file", JStr (d_file r)) ].
Definition j_feeds (f : option (list bytes)) : jv :=
  match f with None => JNull | Some l => JArr (map JStr l) end.
Definition j_srule (r : srule) : jv :=
  JObj [ (bytes_of "stream", JStr (s_stream r)); (bytes_of "feeds", j_feeds (s_feeds r)) ].
Definition j_dtab (t : dtab) : jv := JObj (sort_keys (map (fun kr => (fst kr, j_drule (snd kr))) t)).
Definition j_stab (t : stab) : jv := JObj (sort_keys (map (fun kf => (fst kf, j_feeds (snd kf))) t)).
Definition j_one (k v : bytes) : jv := JObj [(k, JStr v)].

(* {"deleted":"<which>"}: json.Marshal after F11b, string concatenation before *)
Definition deleted_reply (fx : fixes) (w : bytes) : bytes :=
  if fx_quote fx then print (j_one (bytes_of "deleted") w)
  else bytes_of "{""deleted"":""" ++ w ++ bytes_of """}".

(* the bytes put on the control topic for an answer (internalAPI) *)
Definition render (fx : fixes) (a : answer) : option bytes :=
  match a with
  | Ok b => Some b
  | Err t => Some (if fx_quote fx then print (j_one (bytes_of "error") t)
                   else bytes_of "{""error"":""" ++ t ++ bytes_of """}")
  | Panic => None
  end.

Section Oracles.
  Variable dec_dest : bytes -> drule + bytes.     (* json.Unmarshal(raw, &rwc.Rule): rule or error text *)
  Variable dec_stream : bytes -> srule + bytes.   (* json.Unmarshal(raw, &agg.Rule) *)
  Variable api : bytes.                           (* Opts.API; empty = no control connection configured *)

  Definition api_rule := mkd k_apiRule k_api api [] [].

  Definition is_nil {A} (l : list A) : bool := match l with [] => true | _ => false end.

  Definition step (fx : fixes) (s : st) (c : option command) : st * answer :=
    match c with
    | None => (s, Err e_bad)
    | Some c =>
        if beqb (verb c) k_healthcheck then (s, Ok (print (j_one k_healthcheck (bytes_of "ok"))))
        else if beqb (what c) k_destination then
          if beqb (verb c) k_add then
            match rule c with
            | None => if fx_nil fx then (s, Err e_bad) else (s, Panic)
            | Some raw =>
                match dec_dest raw with
                | inr t => (s, Err t)
                | inl r =>
                    let r' := mkd (d_id r) (trim_slash (d_stream r)) (d_dest r) (d_token r) (d_file r) in
                    (mkst (rwc_add (dests s) r') (streams s), Ok (print (j_drule r')))
                end
            end
          else if beqb (verb c) k_delete then
            if is_nil (which c) then (s, Err e_bad)
            else if beqb (which c) k_all || (fx_delall fx && beqb (which c) k_deleteAll) then
              let d1 := rwc_delete (dests s) k_deleteAll in
              let d2 := if is_nil api then d1 else rwc_add d1 api_rule in
              (mkst d2 (streams s), Ok (bytes_of "{""deleted"":""deleteAll""}"))
            else if beqb (which c) k_apiRule then (s, Err e_noapi)
            else (mkst (rwc_delete (dests s) (which c)) (streams s), Ok (deleted_reply fx (which c)))
          else if beqb (verb c) k_list then
            if beqb (which c) k_all then (s, Ok (print (j_dtab (dests s))))
            else (s, Ok (print (j_drule (match dlk (which c) (dests s) with Some r => r | None => zero_drule end))))
          else (s, Err e_bad)
        else if beqb (what c) k_stream then
          if beqb (verb c) k_add then
            match rule c with
            | None => if fx_nil fx then (s, Err e_bad) else (s, Panic)
            | Some raw =>
                match dec_stream raw with
                | inr t => (s, Err t)
                | inl r =>
                    let r' := mks (trim_slash (s_stream r)) (s_feeds r) in
                    (mkst (dests s) (agg_add (streams s) r'), Ok (print (j_srule r')))
                end
            end
          else if beqb (verb c) k_delete then
            if beqb (which c) k_all then
              (mkst (dests s) (agg_delete (streams s) k_deleteAll), Ok (bytes_of "{""deleted"":""deleteAll""}"))
            else (mkst (dests s) (agg_delete (streams s) (which c)), Ok (deleted_reply fx (which c)))
          else if beqb (verb c) k_list then
            if is_nil (which c) then (s, Err e_bad)
            else if beqb (which c) k_all then (s, Ok (print (j_stab (streams s))))
            else (s, Ok (print (JObj [(bytes_of "feeds",
                                        j_feeds (match slk (which c) (streams s) with Some f => f | None => None end))])))
          else (s, Err e_bad)
        else (s, Err e_bad)
    end.

  Fixpoint run (fx : fixes) (s : st) (cs : list (option command)) : st * list answer :=
    match cs with
    | [] => (s, [])
    | c :: r => let '(s1, a) := step fx s c in let '(s2, l) := run fx s1 r in (s2, a :: l)
    end.

  Definition final (fx : fixes) (s : st) (cs : list (option command)) : st :=
    fold_left (fun s c => fst (step fx s c)) cs s.

  (* the command (re)writes the rule with the control connection's id: an "add destination" whose rule
     decodes to id apiRule.  That is a replacement asked for by the sender, not a removal. *)
  Definition sets_api_rule (c : option command) : bool :=
    match c with
    | Some c =>
        negb (beqb (verb c) k_healthcheck) && beqb (what c) k_destination && beqb (verb c) k_add &&
        match rule c with
        | Some raw => match dec_dest raw with inl r => beqb (d_id r) k_apiRule | inr _ => false end
        | None => false
        end
    | None => false
    end.

  (* ---- the control topic with its busy window (internalAPI + hub.go).  internalAPI handles one command at a
     time; its Send channel is unbuffered and the hub offers every message of the topic to it WITHOUT waiting
     (`select { case client.Send <- message: default: }`).  So a command that arrives on the topic while the
     handler is still busy with an earlier one - decoding it, or waiting for the hub to take its reply - is
     dropped: no error, no reply (known finding F17).  When the handler is waiting again is timing: [TReady] is
     part of the history. *)
  Inductive tev :=
  | TArrive (c : option command)   (* a command is broadcast on the api topic *)
  | TReady.                        (* the handler has put its reply on the topic and waits for the next command *)

  Record tst := mkt { t_st : st; t_busy : bool }.

  (* per arrival: [Some a] = taken by the handler, answered a; [None] = dropped by the hub, never answered *)
  Definition tstep (fx : fixes) (t : tst) (e : tev) : tst * option (option answer) :=
    match e with
    | TArrive c =>
        if t_busy t then (t, Some None)
        else let '(s', a) := step fx (t_st t) c in (mkt s' true, Some (Some a))
    | TReady => (mkt (t_st t) false, None)
    end.

  Fixpoint trun (fx : fixes) (t : tst) (evs : list tev) : tst * list (option answer) :=
    match evs with
    | [] => (t, [])
    | e :: r =>
        let '(t1, o) := tstep fx t e in
        let '(t2, l) := trun fx t1 r in
        (t2, match o with Some x => x :: l | None => l end)
    end.

  (* ---- the HTTP rule API (handleDestination*.go, handleStream*.go) on the same tables.  The request is
     taken after gorilla/mux has routed it: which handler, with which path variable / decoded body. *)
  Inductive hreq :=
  | HDestAdd (body : drule + bytes)      (* POST|PUT|UPDATE /api/destinations, body decoded by the oracle *)
  | HDestDelete (id : bytes)             (* DELETE /api/destinations/{id}; DELETE /api/destinations/all arrives as id = "deleteAll" *)
  | HDestShowAll                         (* GET /api/destinations/all *)
  | HDestShow (id : bytes)               (* GET /api/destinations/{id} *)
  | HStreamAdd (body : srule + bytes)
  | HStreamDelete (name : bytes)
  | HStreamShowAll
  | HStreamShow (name : bytes).

  (* status and body; bodies of non-200 answers are error texts and are not modelled *)
  Definition hstep (s : st) (q : hreq) : st * (N * bytes) :=
    match q with
    | HDestAdd (inr _) => (s, (500, []))
    | HDestAdd (inl r) =>
        let r' := mkd (d_id r) (trim_slash (d_stream r)) (d_dest r) (d_token r) (d_file r) in
        (mkst (rwc_add (dests s) r') (streams s), (200, print (j_drule r')))
    | HDestDelete id => (mkst (rwc_delete (dests s) id) (streams s), (200, quote id))
    | HDestShowAll => (s, (200, print (j_dtab (dests s))))
    | HDestShow id => (s, (200, print (j_drule (match dlk id (dests s) with Some r => r | None => zero_drule end))))
    | HStreamAdd (inr _) => (s, (500, []))
    | HStreamAdd (inl r) =>
        let r' := mks (trim_slash (s_stream r)) (s_feeds r) in
        (mkst (dests s) (agg_add (streams s) r'), (200, print (j_srule r')))
    | HStreamDelete name => (mkst (dests s) (agg_delete (streams s) name), (200, quote name))
    | HStreamShowAll => (s, (200, print (j_stab (streams s))))
    | HStreamShow name =>
        match slk name (streams s) with
        | Some f => (s, (200, print (j_feeds f)))
        | None => (s, (404, []))
        end
    end.
End Oracles.
