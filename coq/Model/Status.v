(* C14 - model of the status reports of internal/crossbar (GetStats / statsReporter), of their JSON
   encoding by encoding/json, and of the published decoder pkg/status (Report, RxTx and the custom
   Statistics.UnmarshalJSON).  Strings are byte lists.  Floating point numbers are NOT modelled:
   a float field is [Finite lexeme] (the text Go's encoder writes for it, supplied by the harness
   from the real formatter) or [NonFinite] (NaN, +Inf, -Inf).  Library functions that are not
   written out are section variables, instantiated per run from tables recorded from the real
   library: unicode.ToLower on non-ASCII runes [lr], time.Time.UnmarshalJSON [ptime] (on the raw
   literal), strconv.ParseFloat followed by the encoder's formatting [ncanon].
   Definitions only; lemmas are in Proofs/Status_proofs.v. *)
From Relay Require Import Base.Prelude Base.Json Base.Dur.
Local Open Scope N_scope.

(* ------------------------------------------------------------------ the producer's types *)

Inductive fnum := Finite (lex : bytes) | NonFinite.

(* crossbar.ReportStats *)
Record rstats := mk_rstats { rs_last : bytes; rs_size : fnum; rs_fps : fnum }.

(* crossbar.ClientReport; Scopes may be a nil slice *)
Record report := mk_report {
  r_canRead : bool; r_canWrite : bool;
  r_connected : bytes; r_expiresAt : bytes; r_remoteAddr : bytes;
  r_scopes : option (list bytes);
  r_tx : rstats; r_rx : rstats;
  r_topic : bytes; r_userAgent : bytes }.

Definition k_canRead := bytes_of "canRead".
Definition k_canWrite := bytes_of "canWrite".
Definition k_connected := bytes_of "connected".
Definition k_expiresAt := bytes_of "expiresAt".
Definition k_remoteAddr := bytes_of "remoteAddr".
Definition k_scopes := bytes_of "scopes".
Definition k_stats := bytes_of "stats".
Definition k_topic := bytes_of "topic".
Definition k_userAgent := bytes_of "userAgent".
Definition k_tx := bytes_of "tx".
Definition k_rx := bytes_of "rx".
Definition k_last := bytes_of "last".
Definition k_size := bytes_of "size".
Definition k_fps := bytes_of "fps".

(* ------------------------------------------------------------------ json.Marshal of []*ClientReport *)

(* floatEncoder: NaN and infinities are an UnsupportedValueError *)
Definition num_json (f : fnum) : option json :=
  match f with
  | Finite l => if num_ok l then Some (JNum l) else None
  | NonFinite => None
  end.

Definition jstr (s : bytes) : json := JStr [] s.

Definition stats_json (s : rstats) : option json :=
  match num_json (rs_size s), num_json (rs_fps s) with
  | Some a, Some b => Some (JObj [(k_last, jstr (rs_last s)); (k_size, a); (k_fps, b)])
  | _, _ => None
  end.

Definition scopes_json (o : option (list bytes)) : json :=
  match o with
  | None => JNull
  | Some l => JArr (map jstr l)
  end.

(* struct fields in declaration order *)
Definition report_json (r : report) : option json :=
  match stats_json (r_tx r), stats_json (r_rx r) with
  | Some t, Some x =>
    Some (JObj [(k_canRead, JBool (r_canRead r)); (k_canWrite, JBool (r_canWrite r));
                (k_connected, jstr (r_connected r)); (k_expiresAt, jstr (r_expiresAt r));
                (k_remoteAddr, jstr (r_remoteAddr r)); (k_scopes, scopes_json (r_scopes r));
                (k_stats, JObj [(k_tx, t); (k_rx, x)]);
                (k_topic, jstr (r_topic r)); (k_userAgent, jstr (r_userAgent r))])
  | _, _ => None
  end.

Fixpoint map_opt {A B} (f : A -> option B) (l : list A) : option (list B) :=
  match l with
  | [] => Some []
  | x :: r => match f x, map_opt f r with
              | Some y, Some ys => Some (y :: ys)
              | _, _ => None
              end
  end.

(* the slice is built by append on a nil slice: no member at all gives null *)
Definition reports_json (rs : list report) : option json :=
  match rs with
  | [] => Some JNull
  | _ => match map_opt report_json rs with
         | Some l => Some (JArr l)
         | None => None
         end
  end.

(* json.Marshal(reports): None = the error that ends statsReporter *)
Definition encode_reports (rs : list report) : option bytes :=
  match reports_json rs with
  | Some j => Some (print true j)
  | None => None
  end.

(* ------------------------------------------------------------------ the published decoder (pkg/status) *)

(* status.Statistics; numbers are kept as the text the encoder would write for the decoded float *)
Record dstats := mk_dstats { d_last : Z; d_size : bytes; d_fps : bytes; d_never : bool }.

(* status.Report; times as (unix seconds, nanoseconds) *)
Record dreport := mk_dreport {
  d_canRead : bool; d_canWrite : bool;
  d_connected : Z * Z; d_expiresAt : Z * Z; d_remoteAddr : bytes;
  d_scopes : option (list bytes);
  d_tx : dstats; d_rx : dstats;
  d_topic : bytes; d_userAgent : bytes }.

Definition lex_zero : bytes := [48].
Definition time_zero : Z * Z := ((-62135596800)%Z, 0%Z).       (* time.Time{} *)
Definition dstats_zero := mk_dstats 0 lex_zero lex_zero false.
Definition dreport_zero :=
  mk_dreport false false time_zero time_zero [] None dstats_zero dstats_zero [] [].

(* foldName on a key, compared with an ASCII field name: ASCII letters fold to upper case,
   U+017F folds to S and U+212A to K; any other non-ASCII rune folds to a non-ASCII rune and can
   never equal an ASCII name *)
Definition fold_unit (u : N * bool) : option N :=
  let r := fst u in
  if r <? 128 then Some (if in_range 97 122 r then r - 32 else r)
  else if r =? 383 then Some 83
  else if r =? 8490 then Some 75
  else None.

Definition fold_key (key : bytes) : option bytes := map_opt fold_unit (runes key).

Definition key_is (name key : bytes) : bool :=
  match fold_key key, fold_key name with
  | Some a, Some b => bytes_eqb a b
  | _, _ => false
  end.

Section Decoder.
  Variable lr : N -> N.                         (* unicode.ToLower on non-ASCII runes *)
  Variable ptime : bytes -> option (Z * Z).     (* Time.UnmarshalJSON on the raw literal *)
  Variable ncanon : bytes -> option bytes.      (* ParseFloat (None: out of range) then the encoder's text *)

  (* strconv.ParseInt(lex, 10, 64) on a JSON number lexeme: digits only, optional minus *)
  Fixpoint all_digits (s : bytes) : bool :=
    match s with [] => true | c :: r => is_digit c && all_digits r end.
  Fixpoint dec_value (s : bytes) (x : Z) : Z :=
    match s with [] => x | c :: r => dec_value r (x * 10 + (Z.of_N c - 48))%Z end.
  Definition parse_int64 (lex : bytes) : option Z :=
    let '(neg, ds) := match lex with 45 :: r => (true, r) | _ => (false, lex) end in
    match ds with
    | [] => None
    | _ => if all_digits ds then
             let v := if neg then (- dec_value ds 0)%Z else dec_value ds 0 in
             if ((- two63 <=? v) && (v <? two63))%Z then Some v else None
           else None
    end.

  (* the two temporary structs of Statistics.UnmarshalJSON, decoded member by member;
     None = json.Unmarshal returned an error *)
  Definition bind_float (cur : bytes) (v : json) : option bytes :=
    match v with
    | JNum lex => ncanon lex
    | JNull => Some cur
    | _ => None
    end.

  Fixpoint bind_tmp_string (l : list (bytes * json)) (cur : bytes * bytes * bytes) : option (bytes * bytes * bytes) :=
    match l with
    | [] => Some cur
    | (key, v) :: r =>
      let '(la, sz, fp) := cur in
      if key_is k_last key then
        match v with
        | JStr _ s => bind_tmp_string r (s, sz, fp)
        | JNull => bind_tmp_string r cur
        | _ => None
        end
      else if key_is k_size key then
        match bind_float sz v with Some x => bind_tmp_string r (la, x, fp) | None => None end
      else if key_is k_fps key then
        match bind_float fp v with Some x => bind_tmp_string r (la, sz, x) | None => None end
      else bind_tmp_string r cur
    end.

  Fixpoint bind_tmp_number (l : list (bytes * json)) (cur : Z * bytes * bytes) : option (Z * bytes * bytes) :=
    match l with
    | [] => Some cur
    | (key, v) :: r =>
      let '(la, sz, fp) := cur in
      if key_is k_last key then
        match v with
        | JNum lex => match parse_int64 lex with Some n => bind_tmp_number r (n, sz, fp) | None => None end
        | JNull => bind_tmp_number r cur
        | _ => None
        end
      else if key_is k_size key then
        match bind_float sz v with Some x => bind_tmp_number r (la, x, fp) | None => None end
      else if key_is k_fps key then
        match bind_float fp v with Some x => bind_tmp_number r (la, sz, x) | None => None end
      else bind_tmp_number r cur
    end.

  (* Statistics.UnmarshalJSON(data) where data is the JSON text of [v]; [cur] is the receiver *)
  Definition unmarshal_statistics (cur : dstats) (v : json) : option dstats :=
    let members := match v with
                   | JNull => Some []
                   | JObj l => Some l
                   | _ => None
                   end in
    match members with
    | None => None                       (* both attempts fail with a type error *)
    | Some l =>
      match bind_tmp_string l ([], lex_zero, lex_zero) with
      | Some (la, sz, fp) =>
        match read_last lr la with
        | Some (d, nv) => Some (mk_dstats d sz fp nv)
        | None => None                   (* ParseDuration error is returned *)
        end
      | None =>
        match bind_tmp_number l (0%Z, lex_zero, lex_zero) with
        | Some (n, sz, fp) => Some (mk_dstats n sz fp (d_never cur))
        | None => None
        end
      end
    end.

  (* status.RxTx *)
  Fixpoint bind_rxtx (l : list (bytes * json)) (cur : dstats * dstats) : option (dstats * dstats) :=
    match l with
    | [] => Some cur
    | (key, v) :: r =>
      if key_is k_tx key then
        match unmarshal_statistics (fst cur) v with Some x => bind_rxtx r (x, snd cur) | None => None end
      else if key_is k_rx key then
        match unmarshal_statistics (snd cur) v with Some x => bind_rxtx r (fst cur, x) | None => None end
      else bind_rxtx r cur
    end.

  Definition bind_bool (cur : bool) (v : json) : option bool :=
    match v with JBool b => Some b | JNull => Some cur | _ => None end.
  Definition bind_string (cur : bytes) (v : json) : option bytes :=
    match v with JStr _ s => Some s | JNull => Some cur | _ => None end.
  Definition bind_time (cur : Z * Z) (v : json) : option (Z * Z) :=
    match v with JStr raw _ => ptime raw | JNull => Some cur | _ => None end.

  (* []string: elements are decoded into the slots of the slice already there *)
  Fixpoint bind_elems (l : list json) (cur : list bytes) : option (list bytes) :=
    match l with
    | [] => Some []
    | v :: r =>
      match bind_string (hd [] cur) v, bind_elems r (tl cur) with
      | Some s, Some ss => Some (s :: ss)
      | _, _ => None
      end
    end.
  Definition bind_scopes (cur : option (list bytes)) (v : json) : option (option (list bytes)) :=
    match v with
    | JNull => Some None
    | JArr l => match bind_elems l (match cur with Some c => c | None => [] end) with
                | Some ss => Some (Some ss)
                | None => None
                end
    | _ => None
    end.

  Definition set_canRead (d : dreport) x := mk_dreport x (d_canWrite d) (d_connected d) (d_expiresAt d) (d_remoteAddr d) (d_scopes d) (d_tx d) (d_rx d) (d_topic d) (d_userAgent d).
  Definition set_canWrite (d : dreport) x := mk_dreport (d_canRead d) x (d_connected d) (d_expiresAt d) (d_remoteAddr d) (d_scopes d) (d_tx d) (d_rx d) (d_topic d) (d_userAgent d).
  Definition set_connected (d : dreport) x := mk_dreport (d_canRead d) (d_canWrite d) x (d_expiresAt d) (d_remoteAddr d) (d_scopes d) (d_tx d) (d_rx d) (d_topic d) (d_userAgent d).
  Definition set_expiresAt (d : dreport) x := mk_dreport (d_canRead d) (d_canWrite d) (d_connected d) x (d_remoteAddr d) (d_scopes d) (d_tx d) (d_rx d) (d_topic d) (d_userAgent d).
  Definition set_remoteAddr (d : dreport) x := mk_dreport (d_canRead d) (d_canWrite d) (d_connected d) (d_expiresAt d) x (d_scopes d) (d_tx d) (d_rx d) (d_topic d) (d_userAgent d).
  Definition set_scopes (d : dreport) x := mk_dreport (d_canRead d) (d_canWrite d) (d_connected d) (d_expiresAt d) (d_remoteAddr d) x (d_tx d) (d_rx d) (d_topic d) (d_userAgent d).
  Definition set_stats (d : dreport) (x : dstats * dstats) := mk_dreport (d_canRead d) (d_canWrite d) (d_connected d) (d_expiresAt d) (d_remoteAddr d) (d_scopes d) (fst x) (snd x) (d_topic d) (d_userAgent d).
  Definition set_topic (d : dreport) x := mk_dreport (d_canRead d) (d_canWrite d) (d_connected d) (d_expiresAt d) (d_remoteAddr d) (d_scopes d) (d_tx d) (d_rx d) x (d_userAgent d).
  Definition set_userAgent (d : dreport) x := mk_dreport (d_canRead d) (d_canWrite d) (d_connected d) (d_expiresAt d) (d_remoteAddr d) (d_scopes d) (d_tx d) (d_rx d) (d_topic d) x.

  (* status.Report, member by member (later members overwrite, unknown keys are skipped) *)
  Fixpoint bind_report (l : list (bytes * json)) (cur : dreport) : option dreport :=
    match l with
    | [] => Some cur
    | (key, v) :: r =>
      if key_is k_canRead key then
        match bind_bool (d_canRead cur) v with Some x => bind_report r (set_canRead cur x) | None => None end
      else if key_is k_canWrite key then
        match bind_bool (d_canWrite cur) v with Some x => bind_report r (set_canWrite cur x) | None => None end
      else if key_is k_connected key then
        match bind_time (d_connected cur) v with Some x => bind_report r (set_connected cur x) | None => None end
      else if key_is k_expiresAt key then
        match bind_time (d_expiresAt cur) v with Some x => bind_report r (set_expiresAt cur x) | None => None end
      else if key_is k_remoteAddr key then
        match bind_string (d_remoteAddr cur) v with Some x => bind_report r (set_remoteAddr cur x) | None => None end
      else if key_is k_scopes key then
        match bind_scopes (d_scopes cur) v with Some x => bind_report r (set_scopes cur x) | None => None end
      else if key_is k_stats key then
        match v with
        | JNull => bind_report r cur
        | JObj m => match bind_rxtx m (d_tx cur, d_rx cur) with
                    | Some x => bind_report r (set_stats cur x)
                    | None => None
                    end
        | _ => None
        end
      else if key_is k_topic key then
        match bind_string (d_topic cur) v with Some x => bind_report r (set_topic cur x) | None => None end
      else if key_is k_userAgent key then
        match bind_string (d_userAgent cur) v with Some x => bind_report r (set_userAgent cur x) | None => None end
      else bind_report r cur
    end.

  Definition report_of_json (v : json) : option dreport :=
    match v with
    | JNull => Some dreport_zero
    | JObj l => bind_report l dreport_zero
    | _ => None
    end.

  Definition reports_of_json (v : json) : option (list dreport) :=
    match v with
    | JNull => Some []
    | JArr l => map_opt report_of_json l
    | _ => None
    end.

  (* json.Unmarshal(content, &reports) with reports a fresh []status.Report; None = any error
     (pkg/status then drops the message) *)
  Definition decode_reports (s : bytes) : option (list dreport) :=
    match parse s with
    | Some j => reports_of_json j
    | None => None
    end.

  (* what the published client is expected to see for a report: the same values, durations and
     times read back; [san] says what happens to strings on the way (json.Marshal replaces invalid
     UTF-8 by U+FFFD: [sanitize], which is the identity on valid UTF-8) *)
  Definition view_stats_with (san : bytes -> bytes) (s : rstats) : option dstats :=
    match s with
    | mk_rstats la (Finite sz) (Finite fp) =>
      match read_last lr (san la), ncanon sz, ncanon fp with
      | Some (d, nv), Some a, Some b => Some (mk_dstats d a b nv)
      | _, _, _ => None
      end
    | _ => None
    end.

  Definition normalize_with (san : bytes -> bytes) (r : report) : option dreport :=
    match ptime (quote_body true (r_connected r)), ptime (quote_body true (r_expiresAt r)),
          view_stats_with san (r_tx r), view_stats_with san (r_rx r) with
    | Some c, Some e, Some t, Some x =>
      Some (mk_dreport (r_canRead r) (r_canWrite r) c e (san (r_remoteAddr r))
                       (option_map (map san) (r_scopes r)) t x
                       (san (r_topic r)) (san (r_userAgent r)))
    | _, _, _, _ => None
    end.

  Definition normalize := normalize_with sanitize.
  (* the reading with strings untouched *)
  Definition read_back := normalize_with (fun s => s).
End Decoder.

(* ------------------------------------------------------------------ the hub and its reports *)

(* Frames: the accumulators of one direction, as far as a report shows them.  The float values
   are what Go computed (oracle): fr_size = text of math.Round(size.Mean()), fr_rate = the value
   of 1/(ns.Mean()*1e-9), possibly not finite *)
Record frames := mk_frames { fr_count : N; fr_last : Z; fr_size : bytes; fr_rate : fnum }.

(* crossbar.Client as far as reports are concerned; m_id stands for the pointer identity *)
Record member := mk_member {
  m_id : N; m_topic : bytes; m_scopes : option (list bytes);
  m_canRead : bool; m_canWrite : bool;
  m_connected : bytes; m_expiresAt : bytes;       (* MarshalText of the two times fixed at admission *)
  m_userAgent : bytes; m_remoteAddr : bytes;
  m_internal : bool;                              (* the relay's own stats reporter (F15 repair) *)
  m_tx : frames; m_rx : frames }.

(* fpsFromNs after the F13 repair: a rate that is not finite is reported as 0 *)
Definition fps_from_ns (raw : fnum) : fnum :=
  match raw with
  | NonFinite => Finite lex_zero
  | Finite l => Finite l
  end.
(* fpsFromNs as it was: 1 / (ns * 1e-9), whatever that gives *)
Definition fps_from_ns_unguarded (raw : fnum) : fnum := raw.

Definition lit_Never : bytes := [78; 101; 118; 101; 114].

Definition stats_of_frames (fps : fnum -> fnum) (now : Z) (f : frames) : rstats :=
  if 0 <? fr_count f
  then mk_rstats (duration_bytes (now - fr_last f)) (Finite (fr_size f)) (fps (fr_rate f))
  else mk_rstats lit_Never (Finite lex_zero) (Finite lex_zero).

Definition report_of_member_with (fps : fnum -> fnum) (now : Z) (m : member) : report :=
  mk_report (m_canRead m) (m_canWrite m) (m_connected m) (m_expiresAt m) (m_remoteAddr m) (m_scopes m)
            (stats_of_frames fps now (m_tx m)) (stats_of_frames fps now (m_rx m))
            (m_topic m) (m_userAgent m).

Definition report_of_member := report_of_member_with fps_from_ns.

(* Hub.clients: topic -> set of clients; a topic entry is never deleted *)
Definition hub := list (bytes * list member).

Fixpoint bucket (t : bytes) (h : hub) : list member :=
  match h with
  | [] => []
  | (t', b) :: r => if bytes_eqb t t' then b else bucket t r
  end.

Fixpoint set_bucket (t : bytes) (b : list member) (h : hub) : hub :=
  match h with
  | [] => [(t, b)]
  | (t', b') :: r => if bytes_eqb t t' then (t, b) :: r else (t', b') :: set_bucket t b r
  end.

Definition without (id : N) (b : list member) : list member :=
  filter (fun m => negb (m_id m =? id)) b.

Inductive direction := Tx | Rx.

Inductive event :=
| Register (m : member)                            (* hub.register <- client *)
| Unregister (id : N) (topic : bytes)              (* hub.unregister <- client (the client knows its topic) *)
| Broadcast (topic : bytes) (slow : list N)        (* a message on topic; slow = the clients whose queue was full:
                                                      they are evicted, except the relay's own reporter *)
| Traffic (id : N) (dir : direction) (f : frames). (* readPump / writePump updated the accumulators of a client *)

Definition set_frames (dir : direction) (f : frames) (m : member) : member :=
  match dir with
  | Tx => mk_member (m_id m) (m_topic m) (m_scopes m) (m_canRead m) (m_canWrite m) (m_connected m) (m_expiresAt m)
                    (m_userAgent m) (m_remoteAddr m) (m_internal m) f (m_rx m)
  | Rx => mk_member (m_id m) (m_topic m) (m_scopes m) (m_canRead m) (m_canWrite m) (m_connected m) (m_expiresAt m)
                    (m_userAgent m) (m_remoteAddr m) (m_internal m) (m_tx m) f
  end.

Definition hub_step (h : hub) (e : event) : hub :=
  match e with
  | Register m => set_bucket (m_topic m) (m :: without (m_id m) (bucket (m_topic m) h)) h
  | Unregister id t => set_bucket t (without id (bucket t h)) h
  | Broadcast t slow =>
    set_bucket t (filter (fun m => negb (existsb (N.eqb (m_id m)) slow && negb (m_internal m))) (bucket t h)) h
  | Traffic id dir f =>
    map (fun tb => (fst tb, map (fun m => if m_id m =? id then set_frames dir f m else m) (snd tb))) h
  end.

Definition hub_run (evs : list event) : hub := fold_left hub_step evs [].

(* the clients GetStats / statsReporter range over *)
Definition listed (h : hub) : list member := flat_map snd h.

Definition get_stats (now : Z) (h : hub) : list report := map (report_of_member now) (listed h).

(* ---- the property's reading of a history, independent of the topic map ---- *)

(* the admission record of [id]: its most recent Register (history given newest event first) *)
Fixpoint joined_as_rev (rev_evs : list event) (id : N) : option member :=
  match rev_evs with
  | [] => None
  | Register m :: r => if m_id m =? id then Some m else joined_as_rev r id
  | _ :: r => joined_as_rev r id
  end.
Definition joined_as (evs : list event) (id : N) : option member := joined_as_rev (rev evs) id.

Definition internal_rev (rev_evs : list event) (id : N) : bool :=
  match joined_as_rev rev_evs id with Some m => m_internal m | None => false end.

(* is the connection [id] joined after the history (given newest event first)?  A full queue
   evicts a client unless it is the relay's own reporter *)
Fixpoint present_rev (rev_evs : list event) (id : N) : bool :=
  match rev_evs with
  | [] => false
  | Register m :: r => if m_id m =? id then true else present_rev r id
  | Unregister i _ :: r => if i =? id then false else present_rev r id
  | Broadcast _ slow :: r => if existsb (N.eqb id) slow && negb (internal_rev r id) then false else present_rev r id
  | Traffic _ _ _ :: r => present_rev r id
  end.
Definition present (evs : list event) (id : N) : bool := present_rev (rev evs) id.

(* what a report says about who the client is (everything but the traffic figures) *)
Definition identity (m : member) :=
  (m_topic m, m_scopes m, m_canRead m, m_canWrite m, m_connected m, m_expiresAt m, m_userAgent m, m_remoteAddr m,
   m_internal m).

(* histories the code can produce: a client pointer is registered once (serveWs makes a new
   Client per connection), and unregister / eviction name a client by its own topic *)
Fixpoint registered_topic (evs : list event) (id : N) : option bytes :=
  match evs with
  | [] => None
  | Register m :: r => if m_id m =? id then Some (m_topic m) else registered_topic r id
  | _ :: r => registered_topic r id
  end.

Definition topic_agrees (seen : list event) (id : N) (t : bytes) : Prop :=
  match registered_topic seen id with Some t' => t' = t | None => True end.

Fixpoint wf_history_from (seen : list event) (evs : list event) : Prop :=
  match evs with
  | [] => True
  | e :: r =>
    match e with
    | Register m => registered_topic seen (m_id m) = None
    | Unregister id t => topic_agrees seen id t
    | Broadcast t slow => forall id, In id slow -> topic_agrees seen id t
    | Traffic _ _ _ => True
    end /\ wf_history_from (seen ++ [e]) r
  end.
Definition wf_history (evs : list event) : Prop := wf_history_from [] evs.

(* ------------------------------------------------------------------ the rate limit and message boundaries *)

(* statsReporter starts every round with time.Sleep(1 s), then waits (for a command or StatsEvery)
   and only then builds and broadcasts a report: the times (ms) at which reports are queued for a
   viewer, given the waits of the successive rounds *)
Definition rate_limit_ms : Z := 1000.

Fixpoint emit_times (now : Z) (waits : list Z) : list Z :=
  match waits with
  | [] => []
  | w :: r => let t := (now + rate_limit_ms + Z.max 0 w)%Z in t :: emit_times t r
  end.

(* the viewer's writePump: it takes the head of the queue [lat] ms after it was queued and appends,
   WITHOUT a delimiter, everything else that is queued at that moment to the same websocket message.
   Result: the reports that travel in each websocket message *)
Fixpoint take_until (p : Z) (ts : list Z) : list Z * list Z :=
  match ts with
  | t :: r => if (t <=? p)%Z then let '(a, b) := take_until p r in (t :: a, b) else ([], ts)
  | [] => ([], [])
  end.

Fixpoint pump (fuel : nat) (ts : list Z) (lats : list Z) : list (list Z) :=
  match fuel with
  | O => []
  | S k =>
    match ts with
    | [] => []
    | t :: r =>
      let lat := hd 0%Z lats in
      let '(more, rest) := take_until (t + lat)%Z r in
      (t :: more) :: pump k rest (tl lats)
    end
  end.

Definition messages (ts lats : list Z) : list (list Z) := pump (length ts) ts lats.

Fixpoint gaps_geb (g : Z) (ts : list Z) : bool :=
  match ts with
  | a :: ((b :: _) as r) => (g <=? b - a)%Z && gaps_geb g r
  | _ => true
  end.

(* ------------------------------------------------------------------ how often the reporter reports (F18) *)

(* what ends the wait of one round of statsReporter: an update command after w ms, some other
   message after w ms, a first message that json.Unmarshal refuses (plain text, binary, empty) after
   w ms, or the StatsEvery timer.  A refused message leaves the command variable as the previous
   message set it, so such a round behaves like an update round when the last decoded command was
   "update" ([stale_update]) and like a round of other messages otherwise; in both cases the rest
   of the queue is drained and the "report is due" test follows *)
Inductive round := RUpdate (w : Z) | RNoise (w : Z) | RGarbled (w : Z) (stale_update : bool) | RTick.

Definition round_len (every : Z) (r : round) : Z :=
  (rate_limit_ms + match r with
                   | RUpdate w | RNoise w | RGarbled w _ => Z.max 0 (Z.min w every)
                   | RTick => Z.max 0 every
                   end)%Z.

(* the silence (ms since the last report, or since the start) at the end of each round.
   [due_check] = true is the repaired reporter: a round that saw only other messages still reports
   when StatsEvery has passed since the last report; false is the reporter as it was *)
Fixpoint silences (due_check : bool) (every now last : Z) (rs : list round) : list Z :=
  match rs with
  | [] => []
  | r :: rest =>
    let now' := (now + round_len every r)%Z in
    let reports := match r with
                   | RNoise _ | RGarbled _ false => due_check && (every <=? now' - last)%Z
                   | _ => true
                   end in
    let last' := if reports then now' else last in
    (now' - last')%Z :: silences due_check every now' last' rest
  end.

(* ------------------------------------------------------------------ what admission binds (serveWs) *)

Definition lit_read : bytes := [114; 101; 97; 100].
Definition lit_write : bytes := [119; 114; 105; 116; 101].

(* the Client serveWs builds for an accepted websocket: topic from the path, scopes and expiry from
   the token, capabilities from the scopes, user agent and forwarded address from the request *)
Definition member_at_join (id : N) (topic : bytes) (scopes : list bytes) (connected expires : bytes)
           (user_agent forwarded_for : bytes) : member :=
  let fr := mk_frames 0 0 lex_zero (Finite lex_zero) in
  mk_member id topic (Some scopes) (existsb (bytes_eqb lit_read) scopes) (existsb (bytes_eqb lit_write) scopes)
            connected expires user_agent forwarded_for false fr fr.

(* ------------------------------------------------------------------ GET /status: models.Report through the go-openapi JSON producer *)

(* access.getStatusHandler copies every ClientReport into a models.Report (float32 numbers: their
   text is an oracle like every float text here) and the runtime's JSON producer writes the list with
   json.NewEncoder: no HTML escaping, a newline at the end, snake_case names, omitempty on every
   member but scopes *)
Definition rk_can_read := bytes_of "can_read".
Definition rk_can_write := bytes_of "can_write".
Definition rk_connected := bytes_of "connected".
Definition rk_expires_at := bytes_of "expires_at".
Definition rk_remote_addr := bytes_of "remote_addr".
Definition rk_scopes := bytes_of "scopes".
Definition rk_stats := bytes_of "stats".
Definition rk_topic := bytes_of "topic".
Definition rk_user_agent := bytes_of "user_agent".

Definition omit_bool (k : bytes) (b : bool) : list (bytes * json) := if b then [(k, JBool true)] else [].
Definition omit_str (k : bytes) (s : bytes) : list (bytes * json) :=
  match s with [] => [] | _ => [(k, jstr s)] end.
(* omitempty on a float: 0 and -0 are left out *)
Definition zero_lex (l : bytes) : bool := bytes_eqb l [48] || bytes_eqb l [45; 48].
Definition omit_num (k : bytes) (f : fnum) : option (list (bytes * json)) :=
  match f with
  | NonFinite => None
  | Finite l => if zero_lex l then Some [] else if num_ok l then Some [(k, JNum l)] else None
  end.

(* models.Details: fps, last, size *)
Definition rest_details (s : rstats) : option json :=
  match omit_num k_fps (rs_fps s), omit_num k_size (rs_size s) with
  | Some f, Some z => Some (JObj (f ++ omit_str k_last (rs_last s) ++ z))
  | _, _ => None
  end.

(* models.Report, members in declaration order; models.Stats: rx before tx *)
Definition rest_report (r : report) : option json :=
  match rest_details (r_rx r), rest_details (r_tx r) with
  | Some x, Some t =>
    Some (JObj (omit_bool rk_can_read (r_canRead r) ++ omit_bool rk_can_write (r_canWrite r)
                ++ omit_str rk_connected (r_connected r) ++ omit_str rk_expires_at (r_expiresAt r)
                ++ omit_str rk_remote_addr (r_remoteAddr r)
                ++ [(rk_scopes, scopes_json (r_scopes r)); (rk_stats, JObj [(k_rx, x); (k_tx, t)])]
                ++ omit_str rk_topic (r_topic r) ++ omit_str rk_user_agent (r_userAgent r)))
  | _, _ => None
  end.

(* the handler starts from an empty, non-nil slice: no member at all gives [] *)
Definition encode_rest (rs : list report) : option bytes :=
  match map_opt rest_report rs with
  | Some l => Some (print false (JArr l) ++ [10])
  | None => None
  end.
