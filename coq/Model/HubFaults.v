(* Fault model of the relay's long-running goroutines (C08): the hub loop (Hub.run / Hub.drop in
   internal/crossbar/crossbar.go, with the F5 repair: a reader whose queue is full is collected and
   dropped in place, drop is membership-guarded), the deny loop of handleConnections
   (chanmap.DeleteAndCloseParent) and the part of serveWs that touches shared state
   (chanmap.Add before the deny check, chanmap.DeleteChild when the booking turns out denied).
   The chanmap is Model/ChanMap.v (with the F6 repair).

   Outcomes are explicit: [HPanic site] where Go would panic (send on / close of a closed channel,
   nil-map write, double close) - in the hub or deny goroutine that ends the process, in a serveWs
   handler net/http recovers it and that admission is lost; [HStuck] where the goroutine would
   block forever.

   Client faults are abstracted to what this code sees of them:
     oversize frame, reserved opcode, unmasked frame, reset, half-close  -> ReadMessage returns an
       error, readPump exits: [Unregister n]
     a reader that stops reading                                        -> no [Drain n _] events
     a flood                                                            -> many [Broadcast]s
   Client names double as the identity of the *Client object, of its send channel and of its deny
   channel (each is created fresh per connection).  Models only, no proofs. *)
From Relay Require Import Base.Prelude Base.AList Model.ChanMap.

Record client := mkclient {
  c_topic : N;
  c_cap : nat;              (* capacity of the send channel = Config.BufferSize *)
  c_queue : list N;         (* messages buffered in the send channel *)
  c_open : bool             (* send channel not closed *)
}.

Notation clk := (@lookup N client N.eqb).
Notation cins := (@insert N client N.eqb).
Notation tlk := (@lookup N (list N) N.eqb).
Notation tins := (@insert N (list N) N.eqb).

Record hub := mkhub {
  members : alist N (list N);   (* h.clients: topic -> set of clients *)
  clients : alist N client;     (* every *Client ever made, by name *)
  dcs : cm                      (* deny channel store *)
}.

Definition hub_init : hub := mkhub [] [] cm_init.

Inductive ev :=
| WsAdd (bid n : N)                    (* serveWs: dcs.Add(bookingID, name, denied) *)
| WsRefuse (n : N)                     (* serveWs: booking is denied: dcs.DeleteChild(name), return *)
| Register (n topic : N) (cap : nat)   (* hub: case client := <-h.register *)
| Unregister (n : N)                   (* hub: case client := <-h.unregister  (readPump exited) *)
| Broadcast (from msg : N)             (* hub: case message := <-h.broadcast *)
| Drain (n : N) (k : nat)              (* writePump of n takes k messages from its queue *)
| DenyBid (bid : N).                   (* deny loop: dcs.DeleteAndCloseParent(bid) *)

Inductive site := SHub | SHandler | SDeny.

Inductive outcome :=
| HOk (h : hub)
| HPanic (w : site)
| HStuck.

Definition members_of (t : N) (h : hub) : list N :=
  match tlk t (members h) with Some l => l | None => [] end.

Definition add_member (n : N) (l : list N) : list N := if memN n l then l else n :: l.
Definition del_member (n : N) (l : list N) : list N := filter (fun x => negb (N.eqb x n)) l.

Definition set_queue (q : list N) (c : client) : client := mkclient (c_topic c) (c_cap c) q (c_open c).
Definition set_closed (c : client) : client := mkclient (c_topic c) (c_cap c) (c_queue c) false.

(* chanmap call made from goroutine [w] *)
Definition dcs_call (h : hub) (o : cop) (w : site) : outcome :=
  let '(d, r) := cstep (dcs h) o in
  if is_panic r then HPanic w else HOk (mkhub (members h) (clients h) d).

(* Hub.drop: remove from the topic and close(client.send) only if it is a member; then
   dcs.DeleteChild(name) *)
Definition drop (h : hub) (n : N) : outcome :=
  match clk n (clients h) with
  | None => HOk h
  | Some c =>
      if memN n (members_of (c_topic c) h) then
        if c_open c then
          dcs_call (mkhub (tins (c_topic c) (del_member n (members_of (c_topic c) h)) (members h))
                          (cins n (set_closed c) (clients h)) (dcs h)) (DelChild n) SHub
        else HPanic SHub                               (* close of closed channel *)
      else dcs_call h (DelChild n) SHub
  end.

Fixpoint drop_all (h : hub) (l : list N) : outcome :=
  match l with
  | [] => HOk h
  | n :: r => match drop h n with HOk h1 => drop_all h1 r | x => x end
  end.

(* the broadcast loop: non-blocking send to every member of the topic but the sender; None = a send
   on a closed channel (panic); the second component collects the clients whose queue was full *)
Fixpoint offer (from msg : N) (cl : alist N client) (ms : list N) : option (alist N client * list N) :=
  match ms with
  | [] => Some (cl, [])
  | n :: r =>
      if N.eqb n from then offer from msg cl r else
      match clk n cl with
      | None => offer from msg cl r
      | Some c =>
          if negb (c_open c) then None else
          if Nat.ltb (length (c_queue c)) (c_cap c) then offer from msg (cins n (set_queue (c_queue c ++ [msg]) c) cl) r
          else match offer from msg cl r with
               | Some (cl', slow) => Some (cl', n :: slow)
               | None => None
               end
      end
  end.

(* [inplace] = true is the code as it is now (F5 repaired): slow clients are dropped after the loop.
   false is the earlier behaviour, kept only to show that the theorems tell the two apart: the hub
   sent the slow client to its own unbuffered unregister channel, of which it is the only receiver *)
Definition step_gen (inplace : bool) (h : hub) (e : ev) : outcome :=
  match e with
  | WsAdd bid n => dcs_call h (Add bid n n) SHandler
  | WsRefuse n => dcs_call h (DelChild n) SHandler
  | Register n t cap =>
      HOk (mkhub (tins t (add_member n (members_of t h)) (members h))
                 (cins n (mkclient t cap [] true) (clients h)) (dcs h))
  | Unregister n => drop h n
  | Broadcast from msg =>
      match clk from (clients h) with
      | None => HOk h
      | Some sc =>
          match offer from msg (clients h) (members_of (c_topic sc) h) with
          | None => HPanic SHub
          | Some (cl', slow) =>
              let h1 := mkhub (members h) cl' (dcs h) in
              if inplace then drop_all h1 slow
              else match slow with [] => HOk h1 | _ :: _ => HStuck end
          end
      end
  | Drain n k =>
      match clk n (clients h) with
      | None => HOk h
      | Some c => HOk (mkhub (members h) (cins n (set_queue (skipn k (c_queue c)) c) (clients h)) (dcs h))
      end
  | DenyBid bid => dcs_call h (DelCloseParent bid) SDeny
  end.

Definition step := step_gen true.

Fixpoint run_gen (inplace : bool) (h : hub) (evs : list ev) : outcome :=
  match evs with
  | [] => HOk h
  | e :: r => match step_gen inplace h e with HOk h1 => run_gen inplace h1 r | x => x end
  end.

Definition run := run_gen true.

(* names are fresh: each WsAdd names a connection no earlier WsAdd named, each Register one that no
   earlier Register named (uuid names, one *Client per connection) *)
Fixpoint evs_fresh (ua ur : list N) (evs : list ev) : Prop :=
  match evs with
  | [] => True
  | WsAdd _ n :: r => ~ In n ua /\ evs_fresh (n :: ua) ur r
  | Register n _ _ :: r => ~ In n ur /\ evs_fresh ua (n :: ur) r
  | _ :: r => evs_fresh ua ur r
  end.

Definition is_member (n : N) (h : hub) : bool :=
  match clk n (clients h) with Some c => memN n (members_of (c_topic c) h) | None => false end.

(* ---- the access API over a few bookings, lowered to the events above ---- *)
Inductive aev :=
| ASession (code bid topic : N)        (* POST /session/{topic} with a valid token for booking bid; the code it would return *)
| AConnect (code n : N) (cap : nat)    (* websocket dial presenting code; n = the name the connection would get *)
| ADisconnect (n : N)                  (* the client closes its socket *)
| ADeny (bid : N)
| AAllow (bid : N)
| ASend (n msg : N).

Record lite := mklite {
  denied : list N;
  codes : alist N (N * N);             (* code -> (booking, topic) *)
  conns : alist N N                    (* live connection -> booking *)
}.

Definition lite_init : lite := mklite [] [] [].

Inductive aout := AOk | ARefused | AUnit.

Definition lower (allow_empty : bool) (l : lite) (a : aev) : lite * list ev * aout :=
  match a with
  | ASession code bid topic =>
      if ((bid =? 0)%N && negb allow_empty) || memN bid (denied l) then (l, [], ARefused)
      else (mklite (denied l) (insert N.eqb code (bid, topic) (codes l)) (conns l), [], AOk)
  | AConnect code n cap =>
      match lookup N.eqb code (codes l) with
      | None => (l, [], ARefused)
      | Some (bid, topic) =>
          let l1 := mklite (denied l) (remove N.eqb code (codes l)) (conns l) in
          if memN bid (denied l) then (l1, [WsAdd bid n; WsRefuse n], ARefused)
          else (mklite (denied l) (remove N.eqb code (codes l)) (insert N.eqb n bid (conns l)),
                [WsAdd bid n; Register n topic cap], AOk)
      end
  | ADisconnect n =>
      match lookup N.eqb n (conns l) with
      | None => (l, [], AUnit)
      | Some _ => (mklite (denied l) (codes l) (remove N.eqb n (conns l)), [Unregister n], AUnit)
      end
  | ADeny bid =>
      if (bid =? 0)%N then (l, [], ARefused)
      else
        let hit := filter (fun kv => N.eqb (snd kv) bid) (conns l) in
        (mklite (if memN bid (denied l) then denied l else bid :: denied l)
                (filterv (fun _ v => negb (N.eqb (fst v) bid)) (codes l))
                (filter (fun kv => negb (N.eqb (snd kv) bid)) (conns l)),
         DenyBid bid :: map (fun kv => Unregister (fst kv)) hit, AOk)
  | AAllow bid =>
      if (bid =? 0)%N then (l, [], ARefused)
      else (mklite (filter (fun b => negb (N.eqb b bid)) (denied l)) (codes l) (conns l), [], AOk)
  | ASend n msg =>
      match lookup N.eqb n (conns l) with
      | None => (l, [], AUnit)
      | Some _ => (l, [Broadcast n msg], AUnit)
      end
  end.

Fixpoint lower_all (allow_empty : bool) (l : lite) (evs : list aev) : list ev :=
  match evs with
  | [] => []
  | a :: r => let '(l1, es, _) := lower allow_empty l a in es ++ lower_all allow_empty l1 r
  end.

(* outputs and the live connections after each step, for the correspondence run *)
Fixpoint lower_obs (allow_empty : bool) (l : lite) (evs : list aev) : list (aout * list N) :=
  match evs with
  | [] => []
  | a :: r => let '(l1, _, o) := lower allow_empty l a in (o, sortN (keys (conns l1))) :: lower_obs allow_empty l1 r
  end.

Fixpoint aconn_fresh (u : list N) (evs : list aev) : Prop :=
  match evs with
  | [] => True
  | AConnect _ n _ :: r => ~ In n u /\ aconn_fresh (n :: u) r
  | _ :: r => aconn_fresh u r
  end.

(* the access-side state after a history *)
Fixpoint lite_after (allow_empty : bool) (l : lite) (evs : list aev) : lite :=
  match evs with
  | [] => l
  | a :: r => lite_after allow_empty (fst (fst (lower allow_empty l a))) r
  end.
