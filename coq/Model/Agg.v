(* Model of internal/agg/agg.go (the aggregating hub of the host tool) together with the part of
   internal/hub/hub.go it drives (membership and the broadcast fan-out of the inner hub).

   Names are interned by the harness: streams ("stream/x" topics and the keys of Rules) and feeds
   (all other topics) are N; stream 0 is the reserved word "deleteAll".  A client is the pair
   (identity, topic) - Go compares *hub.Client pointers, the harness never reuses an identity with
   another topic.  Every sub-client the hub creates gets a fresh number [id]; it stands for the
   SubClient's hub.Client (its membership of the inner hub) and for its Stopped channel.
   [closed] is the set of Stopped channels that have been closed: closing one again is the Go
   run-time panic "close of closed channel", which ends the hub goroutine - outcome [Panic].

   The flag [fx] selects the code after (true) or before (false) fixes/F09: before it, rule delete
   and delete-all left the stopped entries in SubClients.  Models only, no proofs. *)
From Relay Require Import Base.Prelude Base.AList.

Inductive topic := TStream (s : N) | TFeed (f : N).
Definition client := (N * topic)%type.

Definition topic_eqb (a b : topic) : bool :=
  match a, b with
  | TStream x, TStream y => N.eqb x y
  | TFeed x, TFeed y => N.eqb x y
  | _, _ => false
  end.
Definition client_eqb (a b : client) : bool := N.eqb (fst a) (fst b) && topic_eqb (snd a) (snd b).

Definition subent := (N * N)%type.          (* (id, feed) : one entry of SubClients[client] *)

(* members of the inner hub: a directly registered client, or the hub.Client of a sub-client
   (registered on topic [f], its RelayTo goroutine forwards to [owner]) *)
Inductive member := MPlain (c : client) | MSub (id f : N) (owner : client).

Definition member_eqb (a b : member) : bool :=
  match a, b with
  | MPlain x, MPlain y => client_eqb x y
  | MSub i f o, MSub j g p => N.eqb i j && N.eqb f g && client_eqb o p
  | _, _ => false
  end.

Record st := mkst {
  rules : alist N (list N);               (* Hub.Rules : stream -> feeds *)
  streams : alist N (list client);        (* Hub.Streams : stream -> set of clients *)
  subs : alist client (list subent);      (* Hub.SubClients *)
  inner : list member;                    (* Hub.Hub.Clients, flattened *)
  closed : list N;                        (* Stopped channels already closed *)
  next : N }.

Definition init : st := mkst [] [] [] [] [] 0.
Definition reserved : N := 0.             (* "deleteAll" *)

Notation rlk := (@lookup N (list N) N.eqb).
Notation rins := (@insert N (list N) N.eqb).
Notation rrm := (@remove N (list N) N.eqb).
Notation tlk := (@lookup N (list client) N.eqb).
Notation tins := (@insert N (list client) N.eqb).
Notation slk := (@lookup client (list subent) client_eqb).
Notation sins := (@insert client (list subent) client_eqb).
Notation srm := (@remove client (list subent) client_eqb).

Inductive op :=
| Register (c : client)
| Unregister (c : client)
| AddRule (s : N) (fs : list N)
| Delete (s : N)
| DeleteAll                               (* = Delete "deleteAll" *)
| Bcast (f : N).

Inductive res := Ok (s : st) (out : list client) | Panic.

Definition clients_of (t : N) (s : st) : list client :=
  match tlk t (streams s) with Some l => l | None => [] end.
Definition entries (c : client) (s : st) : list subent :=
  match slk c (subs s) with Some l => l | None => [] end.
Definition rule_feeds (t : N) (s : st) : list N :=
  match rlk t (rules s) with Some fs => fs | None => [] end.

Definition is_sub (id : N) (m : member) : bool :=
  match m with MSub j _ _ => N.eqb id j | MPlain _ => false end.
Definition unreg_sub (id : N) (inn : list member) : list member :=
  filter (fun m => negb (is_sub id m)) inn.
Definition inner_add (m : member) (inn : list member) : list member :=
  if existsb (member_eqb m) inn then inn else inn ++ [m].
Definition inner_del (m : member) (inn : list member) : list member :=
  filter (fun x => negb (member_eqb m x)) inn.
Definition add_client (c : client) (l : list client) : list client :=
  if existsb (client_eqb c) l then l else c :: l.
Definition del_client (c : client) (l : list client) : list client :=
  filter (fun x => negb (client_eqb c x)) l.

(* for each entry:  h.Hub.Unregister <- sub.Client ; close(sub.Stopped) *)
Fixpoint teardown (l : list subent) (inn : list member) (cl : list N) : option (list member * list N) :=
  match l with
  | [] => Some (inn, cl)
  | e :: r =>
      if existsb (N.eqb (fst e)) cl then None
      else teardown r (unreg_sub (fst e) inn) (fst e :: cl)
  end.

Definition drop_keys (cs : list client) (m : alist client (list subent)) : alist client (list subent) :=
  fold_right (fun c m => srm c m) m cs.

(* "for client := range cs { for sub := range h.SubClients[client] { unregister; close } }",
   then (drop) forget the entries of those clients *)
Definition stop_clients (drop : bool) (cs : list client) (s : st) : option st :=
  match teardown (flat_map (fun c => entries c s) cs) (inner s) (closed s) with
  | None => None
  | Some (inn, cl) =>
      Some (mkst (rules s) (streams s) (if drop then drop_keys cs (subs s) else subs s) inn cl (next s))
  end.

Fixpoint mk_subs (fs : list N) (n : N) : list subent :=
  match fs with [] => [] | f :: r => (n, f) :: mk_subs r (N.succ n) end.

(* h.SubClients[c] = fresh map; one new sub-client per feed, registered with the inner hub *)
Definition attach (fs : list N) (s : st) (c : client) : st :=
  let l := mk_subs fs (next s) in
  mkst (rules s) (streams s) (sins c l (subs s))
       (inner s ++ map (fun e => MSub (fst e) (snd e) c) l)
       (closed s) (next s + N.of_nat (length fs)).

Definition set_inner (inn : list member) (s : st) : st :=
  mkst (rules s) (streams s) (subs s) inn (closed s) (next s).
Definition set_rules (r : alist N (list N)) (s : st) : st :=
  mkst r (streams s) (subs s) (inner s) (closed s) (next s).
Definition set_streams (t : alist N (list client)) (s : st) : st :=
  mkst (rules s) t (subs s) (inner s) (closed s) (next s).

(* inner hub fan-out for a message whose sender's topic is feed f (the sender is not a subscriber) *)
Definition recipient (f : N) (m : member) : list client :=
  match m with
  | MPlain c => if topic_eqb (snd c) (TFeed f) then [c] else []
  | MSub _ g o => if N.eqb g f then [o] else []
  end.
Definition recipients (f : N) (inn : list member) : list client := flat_map (recipient f) inn.

Definition delete_all (fx : bool) (s : st) : res :=
  match stop_clients false (keys (subs s)) s with
  | None => Panic
  | Some s1 => Ok (mkst [] (streams s1) (if fx then [] else subs s1) (inner s1) (closed s1) (next s1)) []
  end.

Definition delete_one (fx : bool) (t : N) (s : st) : res :=
  match (if mem N.eqb t (rules s) then stop_clients fx (clients_of t s) s else Some s) with
  | None => Panic
  | Some s1 => Ok (set_rules (rrm t (rules s1)) s1) []
  end.

Definition step (fx : bool) (s : st) (o : op) : res :=
  match o with
  | Register c =>
      match snd c with
      | TStream t =>
          let s1 := set_streams (tins t (add_client c (clients_of t s)) (streams s)) s in
          match rlk t (rules s) with
          | Some fs => Ok (attach fs s1 c) []
          | None => Ok s1 []
          end
      | TFeed _ => Ok (set_inner (inner_add (MPlain c) (inner s)) s) []
      end
  | Unregister c =>
      match snd c with
      | TStream t =>
          match stop_clients true [c] s with
          | None => Panic
          | Some s1 =>
              match tlk t (streams s1) with
              | Some l => Ok (set_streams (tins t (del_client c l) (streams s1)) s1) []
              | None => Ok s1 []
              end
          end
      | TFeed _ => Ok (set_inner (inner_del (MPlain c) (inner s)) s) []
      end
  | AddRule t fs =>
      if N.eqb t reserved then Ok s []
      else
        (* the entries of the stream's clients are overwritten by the second loop of the Go code;
           the model forgets them as soon as they are stopped *)
        match (if mem N.eqb t (rules s) then stop_clients true (clients_of t s) s else Some s) with
        | None => Panic
        | Some s1 => Ok (fold_left (attach fs) (clients_of t s1) (set_rules (rins t fs (rules s1)) s1)) []
        end
  | Delete t => if N.eqb t reserved then delete_all fx s else delete_one fx t s
  | DeleteAll => delete_all fx s
  | Bcast f => Ok s (recipients f (inner s))
  end.

(* outputs of the operations up to the first panic, and whether the hub panicked *)
Fixpoint run (fx : bool) (s : st) (ops : list op) : list (list client) * bool :=
  match ops with
  | [] => ([], false)
  | o :: r =>
      match step fx s o with
      | Panic => ([], true)
      | Ok s1 out => let '(outs, p) := run fx s1 r in (out :: outs, p)
      end
  end.

Definition bind_step (fx : bool) (a : option st) (o : op) : option st :=
  match a with
  | None => None
  | Some s => match step fx s o with Ok s1 _ => Some s1 | Panic => None end
  end.
(* the state after a history; None = the hub goroutine is dead *)
Definition final (fx : bool) (ops : list op) : option st := fold_left (bind_step fx) ops (Some init).

(* ---- what the property says, read off the history alone ---- *)
Definition reg_step (c : client) (b : bool) (o : op) : bool :=
  match o with
  | Register c' => if client_eqb c c' then true else b
  | Unregister c' => if client_eqb c c' then false else b
  | _ => b
  end.
(* is c a subscriber after ops: its last Register/Unregister was a Register *)
Definition reg_of (ops : list op) (c : client) : bool := fold_left (reg_step c) ops false.

Definition rule_step (t : N) (r : option (list N)) (o : op) : option (list N) :=
  match o with
  | AddRule t' fs => if N.eqb t' reserved then r else if N.eqb t t' then Some fs else r
  | Delete t' => if N.eqb t' reserved then None else if N.eqb t t' then None else r
  | DeleteAll => None
  | _ => r
  end.
(* the latest rule of stream t after ops *)
Definition rule_of (ops : list op) (t : N) : option (list N) := fold_left (rule_step t) ops None.

(* who must be offered a message broadcast on feed f after ops *)
Definition expected (ops : list op) (f : N) (c : client) : Prop :=
  reg_of ops c = true /\
  match snd c with
  | TFeed g => g = f
  | TStream t => exists fs, rule_of ops t = Some fs /\ In f fs
  end.

(* histories of the real front ends: a client object registers once (every websocket
   connection / destination rule makes a new hub.Client) *)
Definition wf (ops : list op) : Prop :=
  forall p c q, ops = p ++ Register c :: q -> reg_of p c = false.

(* strings.HasPrefix(client.Topic, "stream/") : what makes a topic a stream.  The harness sends the
   topic's name and its number; the class is decided here. *)
Definition topic_of_name (name : string) (n : N) : topic :=
  if prefix "stream/" name then TStream n else TFeed n.

(* rule.Stream == "deleteAll" / stream == "deleteAll" : the reserved word of the rule table is that exact
   string; every other string is an ordinary key.  Rule keys with names of their own arrive by name. *)
Definition stream_of_name (name : string) (n : N) : N :=
  if String.eqb name "deleteAll" then reserved else n.
