(* A small JSON layer for the host's admin interface (internal/vw/internalAPI.go):
   - [wf]     : byte-level well-formedness checker, the counterpart of Go's json.Valid
                (RFC 8259 grammar; like json.Valid it does not look inside strings for UTF-8 validity);
   - [jv]     : the JSON values the admin replies are made of, [print] = what json.Marshal emits for them
                (no white space, object members in the order given);
   - [quote]  : Go 1.23 encoding/json string quoting (appendString with escapeHTML = true), including the
                replacement of invalid UTF-8 by � and the escaping of U+2028 / U+2029.
   Bytes are [N]; texts are [list N].  Definitions only, the lemmas are in Proofs/AdminApi_proofs.v. *)
From Relay Require Import Base.Prelude.
Local Open Scope N_scope.

Definition bytes := list N.

Definition beqb (a b : bytes) : bool := list_eqb N.eqb a b.

(* lexicographic byte order: the order in which json.Marshal emits map keys *)
Fixpoint bltb (a b : bytes) : bool :=
  match a, b with
  | [], [] => false
  | [], _ :: _ => true
  | _ :: _, [] => false
  | x :: a', y :: b' => if x <? y then true else if y <? x then false else bltb a' b'
  end.

(* ------------------------------------------------------------------ the checker *)

Definition is_ws (b : N) : bool := (b =? 32) || (b =? 9) || (b =? 10) || (b =? 13).

Fixpoint skip_ws (l : bytes) : bytes :=
  match l with
  | b :: r => if is_ws b then skip_ws r else l
  | [] => []
  end.

Definition is_digit (b : N) : bool := (48 <=? b) && (b <=? 57).
Definition is_hex (b : N) : bool :=
  is_digit b || ((97 <=? b) && (b <=? 102)) || ((65 <=? b) && (b <=? 70)).
Definition is_simple_esc (e : N) : bool :=
  (e =? 34) || (e =? 92) || (e =? 47) || (e =? 98) || (e =? 102) || (e =? 110) || (e =? 114) || (e =? 116).

(* after the opening quote: consume up to and including the closing quote *)
Fixpoint string_body (l : bytes) : option bytes :=
  match l with
  | [] => None
  | b :: r =>
      if b =? 34 then Some r
      else if b =? 92 then
        match r with
        | e :: r1 =>
            if is_simple_esc e then string_body r1
            else if e =? 117 then
              match r1 with
              | h1 :: h2 :: h3 :: h4 :: r2 =>
                  if is_hex h1 && is_hex h2 && is_hex h3 && is_hex h4 then string_body r2 else None
              | _ => None
              end
            else None
        | [] => None
        end
      else if b <? 32 then None
      else string_body r
  end.

Fixpoint skip_digits (l : bytes) : bytes :=
  match l with
  | b :: r => if is_digit b then skip_digits r else l
  | [] => []
  end.

(* one or more digits *)
Definition digits1 (l : bytes) : option bytes :=
  match l with
  | b :: r => if is_digit b then Some (skip_digits r) else None
  | [] => None
  end.

Definition frac_exp (l : bytes) : option bytes :=
  let after_frac :=
    match l with
    | b :: r => if b =? 46 then digits1 r else Some l
    | [] => Some l
    end in
  match after_frac with
  | None => None
  | Some l1 =>
      match l1 with
      | e :: r =>
          if (e =? 101) || (e =? 69) then
            match r with
            | s :: r' => if (s =? 43) || (s =? 45) then digits1 r' else digits1 r
            | [] => None
            end
          else Some l1
      | [] => Some l1
      end
  end.

(* a number whose first byte (already known to be '-' or a digit) is [b] *)
Definition number (b : N) (r : bytes) : option bytes :=
  let int_part (d : N) (r : bytes) :=
    if d =? 48 then frac_exp r
    else if is_digit d then frac_exp (skip_digits r) else None in
  if b =? 45 then match r with d :: r' => int_part d r' | [] => None end
  else int_part b r.

Definition lit (w : bytes) (l : bytes) : option bytes :=
  if beqb (firstn (length w) l) w then Some (skipn (length w) l) else None.

Definition w_true : bytes := [116;114;117;101].
Definition w_false : bytes := [102;97;108;115;101].
Definition w_null : bytes := [110;117;108;108].

(* [value f l]: consume one JSON value (with leading white space) from [l]; [f] is fuel, every nested call
   works on a shorter input and at most two levels of calls share one input byte, so [2 * length l < f] is
   always enough *)
Fixpoint value (f : nat) (l : bytes) : option bytes :=
  match f with
  | O => None
  | S f' =>
      match skip_ws l with
      | [] => None
      | b :: r =>
          if b =? 34 then string_body r
          else if b =? 123 then
            match skip_ws r with
            | c :: r' => if c =? 125 then Some r' else members f' r
            | [] => None
            end
          else if b =? 91 then
            match skip_ws r with
            | c :: r' => if c =? 93 then Some r' else elements f' r
            | [] => None
            end
          else if b =? 116 then lit w_true (b :: r)
          else if b =? 102 then lit w_false (b :: r)
          else if b =? 110 then lit w_null (b :: r)
          else if (b =? 45) || is_digit b then number b r
          else None
      end
  end
with members (f : nat) (l : bytes) : option bytes :=
  match f with
  | O => None
  | S f' =>
      match skip_ws l with
      | q :: r =>
          if q =? 34 then
            match string_body r with
            | Some r1 =>
                match skip_ws r1 with
                | c :: r2 =>
                    if c =? 58 then
                      match value f' r2 with
                      | Some r3 =>
                          match skip_ws r3 with
                          | d :: r4 => if d =? 44 then members f' r4 else if d =? 125 then Some r4 else None
                          | [] => None
                          end
                      | None => None
                      end
                    else None
                | [] => None
                end
            | None => None
            end
          else None
      | [] => None
      end
  end
with elements (f : nat) (l : bytes) : option bytes :=
  match f with
  | O => None
  | S f' =>
      match value f' l with
      | Some r1 =>
          match skip_ws r1 with
          | d :: r2 => if d =? 44 then elements f' r2 else if d =? 93 then Some r2 else None
          | [] => None
          end
      | None => None
      end
  end.

Definition wf (l : bytes) : bool :=
  match value (2 * length l + 2) l with
  | Some r => match skip_ws r with [] => true | _ => false end
  | None => false
  end.

(* ------------------------------------------------------------------ quoting (json.Marshal of a string) *)

Definition hexd (n : N) : N := if n <? 10 then 48 + n else 87 + n.   (* lower case, as Go's hex table *)

Definition esc_u00 (b : N) : bytes := [92;117;48;48; hexd (b / 16); hexd (b mod 16)].

Definition is_cont (b : N) : bool := (128 <=? b) && (b <=? 191).
Definition in_rng (lo hi b : N) : bool := (lo <=? b) && (b <=? hi).

(* length in bytes of the UTF-8 sequence starting at a first byte [b >= 128], 0 when Go's
   utf8.DecodeRune reports (RuneError, 1) *)
Definition utf8_len (b : N) (r : bytes) : nat :=
  match r with
  | [] => 0
  | c1 :: r1 =>
      if in_rng 194 223 b then (if is_cont c1 then 2 else 0)%nat
      else if in_rng 224 239 b then
        let ok1 := if b =? 224 then in_rng 160 191 c1 else if b =? 237 then in_rng 128 159 c1 else is_cont c1 in
        match r1 with
        | c2 :: _ => if ok1 && is_cont c2 then 3%nat else 0%nat
        | [] => 0%nat
        end
      else if in_rng 240 244 b then
        let ok1 := if b =? 240 then in_rng 144 191 c1 else if b =? 244 then in_rng 128 143 c1 else is_cont c1 in
        match r1 with
        | c2 :: c3 :: _ => if ok1 && is_cont c2 && is_cont c3 then 4%nat else 0%nat
        | _ => 0%nat
        end
      else 0%nat
  end.

(* [quote_go keep drop l]: [keep] further bytes of a multi-byte character are copied, [drop] are left out
   (they belong to a U+2028/9 that was already written as an escape) *)
Fixpoint quote_go (keep drop : nat) (l : bytes) : bytes :=
  match l with
  | [] => [34]
  | b :: r =>
      match keep, drop with
      | S k, _ => b :: quote_go k drop r
      | O, S d => quote_go O d r
      | O, O =>
          if b <? 128 then
            if (b =? 34) || (b =? 92) then 92 :: b :: quote_go O O r
            else if b =? 8 then 92 :: 98 :: quote_go O O r
            else if b =? 12 then 92 :: 102 :: quote_go O O r
            else if b =? 10 then 92 :: 110 :: quote_go O O r
            else if b =? 13 then 92 :: 114 :: quote_go O O r
            else if b =? 9 then 92 :: 116 :: quote_go O O r
            else if (b <? 32) || (b =? 60) || (b =? 62) || (b =? 38) then esc_u00 b ++ quote_go O O r
            else b :: quote_go O O r
          else
            match utf8_len b r with
            | O => [92;117;102;102;102;100] ++ quote_go O O r
            | S n =>
                match r with
                | c1 :: c2 :: _ =>
                    if (b =? 226) && (c1 =? 128) && ((c2 =? 168) || (c2 =? 169))
                    then [92;117;50;48;50; hexd (c2 mod 16)] ++ quote_go O 2 r
                    else b :: quote_go n O r
                | _ => b :: quote_go n O r
                end
            end
      end
  end.

Definition quote (s : bytes) : bytes := 34 :: quote_go O O s.

(* ------------------------------------------------------------------ values and their printing *)

Inductive jv :=
| JNull
| JStr (s : bytes)
| JArr (l : list jv)
| JObj (m : list (bytes * jv)).

Fixpoint print (v : jv) : bytes :=
  match v with
  | JNull => w_null
  | JStr s => quote s
  | JArr l =>
      91 :: (fix elems (l : list jv) : bytes :=
               match l with
               | [] => [93]
               | x :: r => print x ++ match r with [] => [93] | _ :: _ => 44 :: elems r end
               end) l
  | JObj m =>
      123 :: (fix membs (m : list (bytes * jv)) : bytes :=
                match m with
                | [] => [125]
                | (k, x) :: r => quote k ++ 58 :: print x ++ match r with [] => [125] | _ :: _ => 44 :: membs r end
                end) m
  end.

(* insertion sort of object members by key (json.Marshal of a Go map) *)
Fixpoint ins_key {V} (k : bytes) (v : V) (m : list (bytes * V)) : list (bytes * V) :=
  match m with
  | [] => [(k, v)]
  | (k', v') :: r => if bltb k' k then (k', v') :: ins_key k v r else (k, v) :: m
  end.

Definition sort_keys {V} (m : list (bytes * V)) : list (bytes * V) :=
  fold_right (fun kv acc => ins_key (fst kv) (snd kv) acc) [] m.
