(* C01 - Only holders of a currently valid token for the topic get onto the relay.
   Model: Model/Token.v (bearer validation), Model/Access.v (session handler, code store, websocket admission
   with slashify / prefix_of_path / topic_of_path as scanners over the character classes of the two regexps).
   Histories are arbitrary lists of: HTTP requests to the access API, websocket attempts, disconnections, clock
   changes (any value), code-store sweeps and deny-store prunes, from the empty state, for every configuration
   (AllowNoBookingID on/off, any host / target / audience / code lifetime).
   Only statements, each closed by [exact] of a lemma of Proofs/Access_proofs.v / Access_history.v. *)
From Relay Require Import Base.Prelude Base.AList Model.DenyStore Model.Token Model.Access
  Proofs.Access_proofs Proofs.Access_history.
Local Open Scope string_scope.

(* a session request whose bearer is not good at that moment (not well-formed, not HMAC, bad signature, outside
   its window or lacking a date, not addressed to this host, incomplete), or names another topic than the path,
   or has an empty booking id where that is not allowed, or a denied one - and a request without any bearer -
   is answered with an error status, issues no code and changes nothing *)
Theorem C01_session_rejects_bad :
  forall cfg s id cr bid ex,
    (forall b, cr = Bearer b ->
       ~ good_bearer (clock s) (cfg_host cfg) (cfg_secret cfg) b \/ c_topic (b_claims b) <> id \/
       (c_booking (b_claims b) = 0%N /\ cfg_allow_empty cfg = false) \/ denied s (c_booking (b_claims b)) = true) ->
    refusal (snd (handle true cfg s (mkreq (RSession id) cr bid ex))) /\
    fst (handle true cfg s (mkreq (RSession id) cr bid ex)) = s.
Proof. exact session_rejects_bad. Qed.
Print Assumptions C01_session_rejects_bad.

(* every entry of the code store, in every reachable state, was minted by a session request earlier in the
   history whose bearer was good at that moment, named exactly the entry's topic (= the path id), and whose
   scopes, booking id and expiry the entry carries *)
Theorem C01_code_provenance :
  forall cfg t ops k e,
    lookup N.eqb k (codes (reach cfg t ops)) = Some e -> minted cfg t ops k e.
Proof. exact code_provenance. Qed.
Print Assumptions C01_code_provenance.

(* every hub member, in every reachable state, was created by a websocket attempt earlier in the history that
   presented a code live at that moment, on a "session" path whose topic is exactly the member's and the
   token's; the member carries the token's scopes, booking id and expiry; and that code had been minted for a
   good bearer (previous theorem) *)
Theorem C01_join_sound :
  forall cfg t ops m, In m (hub (reach cfg t ops)) -> joined cfg t ops m.
Proof. exact join_sound. Qed.
Print Assumptions C01_join_sound.

(* an attempt with no code, an unknown code, a code issued for another topic, or a non-session prefix is
   refused and leaves hub membership, the deny/allow register and what /status lists unchanged *)
Theorem C01_no_code_no_join :
  forall cfg s path code ua,
    code = None \/
    (exists k, code = Some k /\ lookup N.eqb k (codes s) = None) \/
    (exists k e, code = Some k /\ lookup N.eqb k (codes s) = Some e /\ e_topic e <> topic_of_path (slashify path)) \/
    prefix_of_path (slashify path) <> "session" ->
    let s' := fst (ws_accept cfg s path code ua) in
    let w := snd (ws_accept cfg s path code ua) in
    (w = WNotFound \/ w = WRefused) /\ hub s' = hub s /\ reg s' = reg s /\
    (forall c, snd (status_step true s' c) = snd (status_step true s c)).
Proof. exact no_code_no_join. Qed.
Print Assumptions C01_no_code_no_join.

(* a code that has been presented once on a session path never joins again, in any continuation of the history *)
Theorem C01_reused_code_never_joins :
  forall cfg t ops1 path k ua ops2 path' ua',
    (k < next_code (reach cfg t ops1))%N ->
    prefix_of_path (slashify path) = "session" ->
    let s := reach cfg t (ops1 ++ OWs path (Some k) ua :: ops2) in
    snd (ws_accept cfg s path' (Some k) ua') = WNotFound \/ snd (ws_accept cfg s path' (Some k) ua') = WRefused.
Proof. exact reused_code_never_joins. Qed.
Print Assumptions C01_reused_code_never_joins.

(* a joined connection is bound to exactly topic_of_path (slashify path), which equals the token's topic as
   strings, and to the token's scopes, booking id and expiry *)
Theorem C01_topic_of_path_exact :
  forall cfg s path code ua m,
    snd (ws_accept cfg s path code ua) = WJoined m ->
    exists k e, code = Some k /\ lookup N.eqb k (codes s) = Some e /\
                m_topic m = topic_of_path (slashify path) /\ m_topic m = e_topic e /\
                m_scopes m = e_scopes e /\ m_booking m = e_booking e /\ m_exp m = e_exp e /\
                prefix_of_path (slashify path) = "session".
Proof. exact topic_of_path_exact. Qed.
Print Assumptions C01_topic_of_path_exact.

(* the topic read from a path only ever consists of characters of the second regexp's class *)
Theorem C01_topic_chars :
  forall p, all_chars cls_topic (topic_of_path p) = true.
Proof. exact topic_chars. Qed.
Print Assumptions C01_topic_chars.

(* the path grammar loses nothing: for a topic made of characters of the second class and not ending in a
   slash, the canonical path /session/<topic> (and its spellings without the leading or with a trailing slash)
   has prefix "session" and exactly that topic *)
Theorem C01_plain_topic_roundtrip :
  forall t,
    t <> "" -> all_chars cls_topic t = true -> ends_with_slash t = false ->
    prefix_of_path (slashify ("/session/" ++ t)) = "session" /\
    topic_of_path (slashify ("/session/" ++ t)) = t /\
    prefix_of_path (slashify ("session/" ++ t)) = "session" /\
    topic_of_path (slashify ("session/" ++ t ++ "/")) = t.
Proof. exact plain_topic_roundtrip. Qed.
Print Assumptions C01_plain_topic_roundtrip.

(* "HMAC-signed with the relay's secret": the authenticator lets a bearer through only if the key its signature
   was made with IS the configured secret, as one string - whatever the configuration looks like (commas, spaces,
   4 KB, non-ASCII) and whatever the header says.  HMAC itself is modelled as "verifies exactly under the key it
   was made with"; keys are interned by the harness *)
Theorem C01_only_the_configured_secret :
  forall now host secret cr c,
    validate_header now host secret cr = Principal c -> exists b, cr = Bearer b /\ b_signed b = Some secret.
Proof. exact principal_signed_with_secret. Qed.
Print Assumptions C01_only_the_configured_secret.

(* ... so a bearer signed with any other key (the empty key, a part, a prefix, the trimmed secret, a longer key) or
   with no HMAC at all is refused on every route, and nothing changes *)
Theorem C01_wrong_key_refused :
  forall cfg s r b,
    ~ public_route (r_route r) ->   (* /swagger.json, /docs and OPTIONS * read no token at all *)
    r_cred r = Bearer b -> b_signed b <> Some (cfg_secret cfg) ->
    refusal (snd (handle true cfg s r)) /\ fst (handle true cfg s r) = s.
Proof. exact wrong_key_refused. Qed.
Print Assumptions C01_wrong_key_refused.

(* the further JOSE header members (kid, jku, x5u, x5c, jwk, cty, crit, unknown ones) change no answer and no state *)
Theorem C01_header_irrelevant :
  forall cfg s rt b h bid ex,
    handle true cfg s (mkreq rt (Bearer (set_header b h)) bid ex) = handle true cfg s (mkreq rt (Bearer b) bid ex).
Proof. exact header_irrelevant. Qed.
Print Assumptions C01_header_irrelevant.

(* "any other token is answered with an error status and NO CODE": a code appears in an answer only with status 200 *)
Theorem C01_code_only_on_success :
  forall cfg s r st k, snd (handle true cfg s r) = Resp st (BUri k) -> st = 200%N.
Proof. exact uri_only_on_success. Qed.
Print Assumptions C01_code_only_on_success.

(* what admission demands at that moment: the code is live, its store lifetime has not run out, the token is inside
   its window, addressed to the relay, its booking not denied, and it carries read or write; the member gets exactly
   the can-read / can-write the scopes say *)
Theorem C01_join_requires :
  forall cfg s path code ua m,
    snd (ws_accept cfg s path code ua) = WJoined m ->
    exists k e, code = Some k /\ joined_by cfg s path k ua e m.
Proof. exact join_requires. Qed.
Print Assumptions C01_join_requires.

(* ... and conversely an expired code, an expired or not-yet-valid token, a denied booking, a foreign audience or
   scopes with neither read nor write never join *)
Theorem C01_unfit_code_never_joins :
  forall cfg s path k ua e,
    lookup N.eqb k (codes s) = Some e ->
    (e_store_exp e < clock s)%Z \/ (e_exp e < clock s)%Z \/ (clock s < e_nbf e)%Z \/ denied s (e_booking e) = true \/
    e_aud e <> cfg_audience cfg \/ (str_mem "read" (e_scopes e) = false /\ str_mem "write" (e_scopes e) = false) ->
    (snd (ws_accept cfg s path (Some k) ua) = WNotFound \/ snd (ws_accept cfg s path (Some k) ua) = WRefused) /\
    hub (fst (ws_accept cfg s path (Some k) ua)) = hub s.
Proof. exact ws_unfit_refused. Qed.
Print Assumptions C01_unfit_code_never_joins.

(* "bound to that token's ... expiry": the expiry a member carries is, through every history, the exp of the good
   bearer its code was minted for; and once the relay's due expiry timers have fired (serveWs arms exp - now whole
   seconds from the connect instant) nobody whose token expired more than a second ago is still a member.  That the
   real timers do fire is observed by the harness (clause connection-outlived-token) and C06's subject *)
Theorem C01_member_expiry_is_the_tokens :
  forall cfg t ops m,
    In m (hub (reach cfg t ops)) ->
    exists ops1 r ops2 b, ops = (ops1 ++ OReq r :: ops2)%list /\ r_cred r = Bearer b /\ c_exp (b_claims b) = Some (m_exp m) /\
                          good_bearer (clock (reach cfg t ops1)) (cfg_host cfg) (cfg_secret cfg) b.
Proof. exact member_expiry_is_the_tokens. Qed.
Print Assumptions C01_member_expiry_is_the_tokens.

Theorem C01_expired_members_leave :
  forall cfg s m, In m (hub (fst (step cfg s OTimers))) -> In m (hub s) /\ (clock s <= m_exp m + 1)%Z.
Proof. exact timers_end_expired. Qed.
Print Assumptions C01_expired_members_leave.

(* an environment fault: if the random source fails while a session request is served, no code comes into
   existence (not the all-zero one either), nobody joins, and the answer carries no code - in every reachable state *)
Theorem C01_entropy_failure_mints_nothing :
  forall cfg t ops r,
    let s := reach cfg t ops in
    let s' := fst (step cfg s (OFaultedReq r)) in
    (forall k e, lookup N.eqb k (codes s') = Some e -> lookup N.eqb k (codes s) = Some e) /\
    (forall m, In m (hub s') -> In m (hub s)) /\
    (forall st k, snd (step cfg s (OFaultedReq r)) <> OutResp (Resp st (BUri k))).
Proof. exact faulted_mints_nothing. Qed.
Print Assumptions C01_entropy_failure_mints_nothing.

(* non-vacuity: good bearer -> code 0 -> join on /session/t (and via the alias path "session/t/"); the same code
   again, another topic's path, no code and a non-session prefix are refused; a token whose exp equals the
   clock is refused by the session endpoint *)
Definition c01_cfg : config := mkconfig false "h" "w" "w" 30 7.
Definition c01_tok (topic : string) (e : Z) : credential :=
  Bearer (mkbearer SWell HS256 [] (Some 7%N) (mkclaims topic "session" 1 ["read"; "write"] ["x"; "h"] (Some e) (Some 5%Z) (Some 5%Z))).
Definition c01_hist : list op :=
  [OReq (mkreq (RSession "t") (c01_tok "t" 50) None None);
   OReq (mkreq (RSession "u") (c01_tok "u" 50) None None);
   OWs "session/t/" (Some 0%N) 7;
   OWs "/session/t" (Some 0%N) 8;
   OWs "/session/t" (Some 1%N) 9;
   OWs "/session/u" None 10;
   OWs "/shell/t" (Some 1%N) 11;
   OSetNow 50;
   OReq (mkreq (RSession "t") (c01_tok "t" 50) None None)].

Example C01_witness :
  snd (run c01_cfg (init 10) c01_hist) =
    [OutResp (Resp 200 (BUri 0)); OutResp (Resp 200 (BUri 1));
     OutWs (WJoined (mkmember 0 "t" ["read"; "write"] 1 50 true true 7));
     OutWs WRefused; OutWs WRefused; OutWs WRefused; OutWs WNotFound; OutUnit; OutResp (Resp 500 BError)] /\
  length (hub (reach c01_cfg 10 c01_hist)) = 1%nat /\
  good_bearer 10 "h" 7 (mkbearer SWell HS256 [] (Some 7%N) (mkclaims "t" "session" 1 ["read"; "write"] ["x"; "h"] (Some 50%Z) (Some 5%Z) (Some 5%Z))).
Proof.
  split; [vm_compute; reflexivity|]. split; [vm_compute; reflexivity|].
  unfold good_bearer; cbn. do 3 (split; [reflexivity|]).
  split; [exists 50%Z, 5%Z, 5%Z; repeat split; try reflexivity; lia|].
  split; [right; left; reflexivity|]. repeat split; discriminate.
Qed.

(* non-vacuity of the key / header / admission theorems: the same good token signed with key 8 instead of the
   configured 7 is answered 500 whatever its header lists; with key 7 and a header full of key hints it is answered
   200; a token with scopes [host] gets a code that never joins; a code presented after its store lifetime never joins *)
Example C01_witness_keys :
  let tok k h sc := Bearer (mkbearer SWell HS256 h (Some k) (mkclaims "t" "session" 1 sc ["h"] (Some 500%Z) (Some 5%Z) (Some 5%Z))) in
  snd (handle true c01_cfg (init 10) (mkreq (RSession "t") (tok 8%N ["kid"] ["read"]) None None)) = Resp 500 BError /\
  snd (handle true c01_cfg (init 10) (mkreq (RSession "t") (tok 7%N ["kid"; "jku"; "jwk"] ["read"]) None None)) = Resp 200 (BUri 0) /\
  snd (run c01_cfg (init 10) [OReq (mkreq (RSession "t") (tok 7%N [] ["host"]) None None); OWs "/session/t" (Some 0%N) 1])
    = [OutResp (Resp 200 (BUri 0)); OutWs WRefused] /\
  snd (run c01_cfg (init 10) [OReq (mkreq (RSession "t") (tok 7%N [] ["read"]) None None); OSetNow 41; OWs "/session/t" (Some 0%N) 1])
    = [OutResp (Resp 200 (BUri 0)); OutUnit; OutWs WRefused] /\
  snd (run c01_cfg (init 10) [OReq (mkreq (RSession "t") (tok 7%N [] ["read"]) None None); OSetNow 40; OWs "/session/t" (Some 0%N) 1])
    = [OutResp (Resp 200 (BUri 0)); OutUnit; OutWs (WJoined (mkmember 0 "t" ["read"] 1 500 true false 1))].
Proof. vm_compute. repeat split; reflexivity. Qed.

(* non-vacuity: a member with exp 12 is still there when the timers fire at clock 13 and gone at clock 14 *)
Example C01_witness_expiry :
  let tok := Bearer (mkbearer SWell HS256 [] (Some 7%N) (mkclaims "t" "session" 1 ["read"] ["h"] (Some 12%Z) (Some 5%Z) (Some 5%Z))) in
  let h t := [OReq (mkreq (RSession "t") tok None None); OWs "/session/t" (Some 0%N) 1; OSetNow t; OTimers] in
  length (hub (reach c01_cfg 10 (h 13%Z))) = 1%nat /\ length (hub (reach c01_cfg 10 (h 14%Z))) = 0%nat.
Proof. vm_compute. split; reflexivity. Qed.

(* non-vacuity: a good session request during an entropy failure is not answered, leaves no code, and a websocket
   attempt with any code afterwards is refused; the same request without the fault gets code 0 *)
Example C01_witness_entropy :
  let tok := Bearer (mkbearer SWell HS256 [] (Some 7%N) (mkclaims "t" "session" 1 ["read"] ["h"] (Some 500%Z) (Some 5%Z) (Some 5%Z))) in
  let q := mkreq (RSession "t") tok None None in
  snd (run c01_cfg (init 10) [OFaultedReq q; OWs "/session/t" (Some 0%N) 1; OReq q; OWs "/session/t" (Some 0%N) 2])
    = [OutResp Panic; OutWs WRefused; OutResp (Resp 200 (BUri 0)); OutWs (WJoined (mkmember 0 "t" ["read"] 1 500 true false 2))].
Proof. vm_compute. reflexivity. Qed.
