(* C19 - The reconnecting client comes back, backs off after failures, stops when told.
   Only statements, each closed by [exact] of a lemma proved in Proofs/Reconws_proofs.v.
   [client l c sch cp] is the list of (wait in front of the attempt, outcome) produced by
   Reconnect (l = LPlain) / ReconnectAuth (l = LAuth) against the schedule [sch] of server
   behaviours with the context cancelled at [cp] (None = never).  The model follows the code
   after fix F19a (see /verif/fixes). *)
From Relay Require Import Base.Prelude Model.Reconws Proofs.Reconws_proofs.
Local Open Scope Z_scope.

(* while the context is live every scheduled behaviour is attempted, whatever failed before it:
   one attempt per schedule entry, with the outcome that entry dictates.  [no_keep]: no entry is a
   connection that the server keeps open for ever (AcceptThenHang) - there the client rightly stays
   connected, see C19_kept_connection_rests *)
Theorem C19_retries_forever :
  forall l c sch, no_keep l sch ->
    length (client l c sch None) = length sch /\
    map ev_out (client l c sch None) = map (outcome_of l) sch.
Proof. exact retries_forever. Qed.
Print Assumptions C19_retries_forever.

(* after ANY prefix of behaviours (any mix of failure kinds and successes) the next scheduled
   attempt is made, and the wait in front of it depends only on the number of consecutive
   failures that end the prefix *)
Theorem C19_next_attempt_follows_every_failure :
  forall l c pre ab rest, no_keep l pre ->
    exists e, nth_error (client l c (pre ++ ab :: rest) None) (length pre) = Some e /\
              ev_out e = outcome_of l ab /\
              ev_wait e = wait_after c (trailing_failures l pre).
Proof. exact attempt_after_any_prefix. Qed.
Print Assumptions C19_next_attempt_follows_every_failure.

(* j consecutive failures after the start or after an established connection: the next attempt
   waits 0 if j = 0 and min(Max, Min * 2^(j-1)) otherwise *)
Theorem C19_waits_grow_and_cap :
  forall l c pre fs ab rest,
    good_cfg c -> no_keep l pre -> fresh l pre -> Forall (fun x => fails l x = true) fs ->
    exists e, nth_error (client l c (pre ++ fs ++ ab :: rest) None) (length pre + length fs) = Some e /\
              ev_out e = outcome_of l ab /\
              ev_wait e = match length fs with
                          | O => 0
                          | S j => Z.min (cmax c) (cmin c * 2 ^ Z.of_nat j)
                          end.
Proof. exact waits_grow_and_cap. Qed.
Print Assumptions C19_waits_grow_and_cap.

(* the waits are non-decreasing in the number of consecutive failures, lie in [Min, Max], double
   while below Max, ARE Max as soon as Min*2^j >= Max and stay at Max for every longer run of
   failures (integers are unbounded here: there is no j at which the product wraps) *)
Theorem C19_waits_monotone_bounded :
  forall c, good_cfg c ->
    (forall j k, (j <= k)%nat -> wait_after c j <= wait_after c k) /\
    (forall j, cmin c <= wait_after c (S j) <= cmax c) /\
    wait_after c 1 = cmin c /\
    (forall j, cmin c * 2 ^ Z.of_nat j <= cmax c -> wait_after c (S j) = cmin c * 2 ^ Z.of_nat j) /\
    (forall j, (Z.to_nat (Z.log2_up (cmax c)) <= j)%nat -> wait_after c (S j) = cmax c) /\
    (forall j, cmax c <= cmin c * 2 ^ Z.of_nat j -> wait_after c (S j) = cmax c) /\
    (forall j k, (j <= k)%nat -> wait_after c (S j) = cmax c -> wait_after c (S k) = cmax c).
Proof. exact waits_monotone_bounded. Qed.
Print Assumptions C19_waits_monotone_bounded.

(* the jpillora Backoff object: k calls of Duration() after a Reset yield ForAttempt(0..k-1); and for
   EVERY configuration (zero values, huge Min, any factor) a duration stays inside the bounds *)
Theorem C19_backoff_object :
  (forall c a k, boff_run c a (repeat BDuration k) = map (fun j => dur c (a + j)) (seq 0 k)) /\
  (forall mn mx f n,
      Z.min (if mn <=? 0 then default_min else mn) (if mx <=? 0 then default_max else mx)
        <= backoff_dur mn mx f n <= (if mx <=? 0 then default_max else mx)).
Proof. exact backoff_object. Qed.
Print Assumptions C19_backoff_object.

(* RetryConfig.Jitter = true (never configured in the repository, but part of the type): the wait
   is random, yet for every value of the random product it stays within the same bounds *)
Theorem C19_jittered_wait_within_bounds :
  forall mn mx d,
    Z.min (eff_min mn) (eff_max mx) <= backoff_dur_jitter mn mx d <= eff_max mx.
Proof. exact jittered_wait_within_bounds. Qed.
Print Assumptions C19_jittered_wait_within_bounds.

Example C19_jitter_witness :
  backoff_dur_jitter 40000000 320000000 123456789 = 123456789 /\
  backoff_dur_jitter 40000000 320000000 (-7) = 40000000 /\
  backoff_dur_jitter 40000000 320000000 (2 ^ 70) = 320000000 /\
  backoff_dur_jitter 0 0 1 = default_min.
Proof. vm_compute. repeat split; reflexivity. Qed.

(* what exactly both loops do after an established connection has ended (Dial returned nil):
   Reconnect resets the backoff and redials at once; ReconnectAuth resets the backoff, clears
   waitBeforeDial and posts to the access endpoint at once.  So: the first retry waits 0, and if it
   fails the following one waits Min. *)
Theorem C19_reset_after_success :
  forall l c p ok f nxt rest,
    good_cfg c -> no_keep l p -> keeps l ok = false -> fails l ok = false -> fails l f = true ->
    (exists e, nth_error (client l c (p ++ ok :: f :: nxt :: rest) None) (S (length p)) = Some e /\
               ev_wait e = 0 /\ ev_out e = outcome_of l f) /\
    (exists e, nth_error (client l c (p ++ ok :: f :: nxt :: rest) None) (S (S (length p))) = Some e /\
               ev_wait e = cmin c /\ ev_out e = outcome_of l nxt).
Proof. exact reset_after_success. Qed.
Print Assumptions C19_reset_after_success.

(* ... and this does not depend on which pump of Dial noticed that the connection was lost: Dial
   returns nil however an established connection ends (reader saw it, a write failed, cancelled),
   and a run in which every drop is noticed by the WRITER is the same run, under every cancellation *)
Theorem C19_reset_whichever_pump_notices :
  (forall e, dial_returns_error e = false) /\
  (forall l c sch cp, client l c (sched_to_writer sch) cp = client l c sch cp).
Proof. exact reset_whichever_pump_notices. Qed.
Print Assumptions C19_reset_whichever_pump_notices.

Theorem C19_success_resets_state :
  forall l c s carry ab,
    cancelled s = false -> fails l ab = false ->
    let '(evs, s1, carry1) := match l with
                              | LPlain => iter_plain c s carry (snd ab) None
                              | LAuth => iter_auth c s ab None
                              end in
    attempt s1 = 0%nat /\ wait s1 = false /\ carry1 = 0 /\ cancelled s1 = false.
Proof. exact success_resets_state. Qed.
Print Assumptions C19_success_resets_state.

(* consequence, recorded because it is what the code does: a server that upgrades and then drops
   every connection is redialled without any wait (the property asks for growing waits between
   FAILED attempts; an upgrade counts as success) *)
Theorem C19_accept_then_drop_is_redialled_at_once :
  forall l c sch,
    Forall (fun ab => fails l ab = false) sch ->
    Forall (fun e => ev_wait e = 0) (client l c sch None).
Proof. exact accept_drop_never_waits. Qed.
Print Assumptions C19_accept_then_drop_is_redialled_at_once.

(* cancellation arriving in iteration ci at phase p: attempts 0..ci-1 are exactly those of the
   uncancelled run, at most the in-flight attempt ci is recorded and nothing after it; if the
   cancellation is seen at the loop head or during the backoff wait, attempt ci does not start *)
Theorem C19_quiescent_after_cancel :
  forall l c sch ci p,
    (length (client l c sch (Some (ci, p))) <= S ci)%nat /\
    (before_contact p = true -> (length (client l c sch (Some (ci, p))) <= ci)%nat) /\
    firstn ci (client l c sch (Some (ci, p))) = firstn ci (client l c sch None).
Proof. exact quiescent_after_cancel. Qed.
Print Assumptions C19_quiescent_after_cancel.

(* cancelled while connected: Dial writes a close frame and closes the TCP connection whether or
   not the peer answers, so a peer that has gone silent cannot keep the client from closing the
   connection and returning *)
Theorem C19_cancel_closes_connection :
  forall answers, reaches_close answers dial_on_cancel = true.
Proof. exact cancel_closes_connection. Qed.
Print Assumptions C19_cancel_closes_connection.

(* a connection the server keeps open is where the client rests (no redial while connected), and a
   cancellation during it ends the run with exactly that attempt *)
Theorem C19_kept_connection_rests :
  forall l c pre ab rest, no_keep l pre -> keeps l ab = true ->
    client l c (pre ++ ab :: rest) None = client l c (pre ++ [ab]) None /\
    length (client l c (pre ++ ab :: rest) None) = S (length pre).
Proof. exact kept_connection_rests. Qed.
Print Assumptions C19_kept_connection_rests.

Theorem C19_cancel_ends_kept_connection :
  forall l c pre ab rest j, no_keep l pre -> keeps l ab = true ->
    length (client l c (pre ++ ab :: rest) (Some (length pre, CConn j))) = S (length pre) /\
    exists e, nth_error (client l c (pre ++ ab :: rest) (Some (length pre, CConn j))) (length pre) = Some e /\
              is_success (ev_out e) = true.
Proof. exact cancel_ends_kept_connection. Qed.
Print Assumptions C19_cancel_ends_kept_connection.

(* a cancellation while the access request is in flight: that attempt never reaches the websocket
   server *)
Theorem C19_cancel_during_access_never_dials :
  forall c sch ci e,
    nth_error (client LAuth c sch (Some (ci, CAccess))) ci = Some e -> contacts_ws (ev_out e) = false.
Proof. exact cancel_during_access_no_ws. Qed.
Print Assumptions C19_cancel_during_access_never_dials.

(* while connected, for every interleaving of the reader goroutine and the writer loop: r.In has
   received a prefix of what the server sent and the connection a prefix of what was offered on
   r.Out; nothing is lost between the two ends of a pump *)
Theorem C19_in_order_while_connected :
  forall sent offered xs,
    let p := pump_run (pumps_init sent offered) xs in
    to_in p = firstn (length (to_in p)) sent /\
    conn_out p = firstn (length (conn_out p)) offered /\
    to_in p ++ conn_in p = sent /\ conn_out p ++ from_out p = offered.
Proof. exact in_order_while_connected. Qed.
Print Assumptions C19_in_order_while_connected.

(* ... and across connections, whatever fails on the writing side (a reset noticed by the writer, a
   message that cannot be written at all): a message whose write failed is dropped, never put back, so
   what reaches the wire over all connections is an order-preserving sub-list of what was offered -
   nothing twice, nothing overtaking - and with no failed write nothing is missing *)
Theorem C19_order_kept_across_write_failures :
  forall rs offered,
    is_subseq (fst (writer_run offered rs)) offered = true /\
    is_subseq (snd (writer_run offered rs)) offered = true /\
    (Forall (fun r => r = WOk) rs -> fst (writer_run offered rs) ++ snd (writer_run offered rs) = offered).
Proof. exact writer_keeps_order. Qed.
Print Assumptions C19_order_kept_across_write_failures.

Example C19_writer_witness :
  writer_run [1; 2; 3; 4; 5]%N [WOk; WFail; WOk; WOk] = ([1; 3; 4]%N, [5]%N) /\
  is_subseq [1; 3; 4]%N [1; 2; 3; 4; 5]%N = true /\ is_subseq [2; 1; 3]%N [1; 2; 3]%N = false.
Proof. vm_compute. repeat split; reflexivity. Qed.

(* "used by the host, the file tool and the public client/status packages": each wrapper puts further
   single-goroutine forwarders in front of / behind the two pumps (pkg/client: Send -> r.Out ->
   connection and connection -> r.In -> Receive; pkg/status: one more; rwc: RelayOut / RelayIn; file:
   WsMessageToLine).  For any number of forwarders in a row and any interleaving of them nothing is
   lost, duplicated or reordered, and what has reached the far end is a prefix of what was put in.
   (pkg/status drops reports that do not parse: its last stage is a filter, not covered here.) *)
Theorem C19_wrappers_preserve_order :
  forall stages input xs,
    pipe_contents (pipe_run (pipe_init stages input) xs) = input /\
    let sink := last (pipe_run (pipe_init stages input) xs) [] in
    sink = firstn (length sink) input.
Proof. exact pipeline_fifo. Qed.
Print Assumptions C19_wrappers_preserve_order.

(* the host's destinations (internal/rwc: a rule without a token starts Reconnect, one with a token
   ReconnectAuth): whichever is chosen, every clause about the loop holds - all schedules, all
   cancellation points.  [reconnects_properly l] is the conjunction of C19_retries_forever,
   C19_waits_grow_and_cap, C19_reset_after_success and C19_quiescent_after_cancel for loop kind l. *)
Theorem C19_host_destination_reconnects :
  forall token_is_empty, reconnects_properly (wrapper_choice token_is_empty).
Proof. exact host_destination_reconnects. Qed.
Print Assumptions C19_host_destination_reconnects.

(* the file tool (internal/file) and pkg/client (hence pkg/status) always start ReconnectAuth *)
Theorem C19_file_tool_reconnects :
  reconnects_properly file_choice /\ reconnects_properly client_pkg_choice.
Proof. exact file_tool_reconnects. Qed.
Print Assumptions C19_file_tool_reconnects.

Example C19_wrapper_choice_witness :
  wrapper_choice true = LPlain /\ wrapper_choice false = LAuth /\ file_choice = LAuth /\
  map ev_wait (client (wrapper_choice true) (mkcfg 1000000000 10000000000 2)
                 [(AOk, Refuse); (AOk, Http5xx); (AOk, AcceptThenDrop 3); (AOk, AcceptThenStay 7)] (Some (3%nat, CConn 7)))
    = [0; 1000000000; 2000000000; 0] /\
  good_cfg (mkcfg 1000000000 10000000000 2).
Proof. vm_compute. repeat split; try discriminate; reflexivity. Qed.

(* pkg/status' decoding stage: after n messages taken from Receive, Status has been handed exactly the
   decodable ones among them, in order (undecodable ones are dropped, nothing else is) - for every
   verdict function of the decoder *)
Theorem C19_status_stage_in_order :
  forall ok n input, filt_run ok n (input, []) = (skipn n input, filter ok (firstn n input)).
Proof. exact status_stage_in_order. Qed.
Print Assumptions C19_status_stage_in_order.

Example C19_pipeline_witness :
  pipe_run (pipe_init 2 [1; 2; 3]%N) [0; 0; 1; 0; 1; 1; 5; 1]%nat = [[]; []; [1; 2; 3]%N] /\
  pipe_run (pipe_init 2 [1; 2; 3]%N) [1; 0; 0; 1]%nat = [[3]%N; [2]%N; [1]%N] /\
  filt_run N.even 4 ([1; 2; 3; 4; 5; 6]%N, []) = ([5; 6]%N, [2; 4]%N).
Proof. vm_compute. repeat split; reflexivity. Qed.

(* non-vacuity: the harness configuration is a good_cfg; a mixed schedule exercises every failure
   kind, a success, the reset, the cap and a cancellation during a wait *)
Example C19_witness :
  let c := mkcfg 40000000 320000000 2 in
  let sch := [(AHttp5xx, Down); (ADown, Down); (AOk, Refuse); (AEmptyUri, Down); (AOk, Hang);
              (AOk, AcceptThenDrop 3); (AHttp4xx, Down); (AOk, Garbage); (AOk, AcceptThenDrop 0)] in
  good_cfg c /\
  map ev_wait (client LAuth c sch None) =
    [0; 40000000; 80000000; 160000000; 320000000; 320000000; 0; 40000000; 80000000] /\
  map ev_wait (client LPlain c sch None) =
    [0; 40000000; 80000000; 160000000; 320000000; 320000000; 0; 40000000; 80000000] /\
  map ev_out (client LAuth c sch None) =
    [OParseFail; OAccessFail; OWsFail; OUriFail; OWsFail; OConnected 3; OUriFail; OWsFail; OConnected 0] /\
  length (client LAuth c sch (Some (3%nat, CWait))) = 3%nat /\
  length (client LAuth c sch (Some (3%nat, CAccess))) = 4%nat /\
  no_keep LAuth sch /\
  map ev_out (client LPlain c [(AOk, Down); (AOk, AcceptThenHang 2); (AOk, Down)] None) = [OWsFail; OConnected 2] /\
  map ev_out (client LPlain c [(AOk, Down); (AOk, AcceptThenHang 2); (AOk, Down)] (Some (1%nat, CConn 2))) = [OWsFail; OConnected 2] /\
  reaches_close false [DSendClose; DAwaitPeer; DCloseConn] = false /\
  ev_wait (last (client LAuth (mkcfg 1000000 50000000 2) (repeat (AHttp5xx, Down) 2000) None) (mkev 0 OWsFail)) = 50000000 /\
  map ev_out (client LPlain c [(AOk, Refuse); (AOk, AcceptThenStay 150); (AOk, Down)] (Some (1%nat, CConn 150))) = [OWsFail; OConnected 150] /\
  map ev_wait (client LPlain c [(AOk, Down); (AOk, Down); (AOk, Down); (AOk, AcceptThenDropW 1); (AOk, Down); (AOk, Down)] None) =
    [0; 40000000; 80000000; 160000000; 0; 40000000] /\
  fresh LAuth (firstn 6 sch) /\
  pump_run (pumps_init [1;2;3]%N [7;8]%N) [PWrite; PRead; PRead; PWrite; PWrite] =
    mkpumps [3]%N [1;2]%N [] [7;8]%N.
Proof.
  vm_compute. repeat split; try discriminate; try reflexivity.
  { repeat constructor. }
  right. exists [(AHttp5xx, Down); (ADown, Down); (AOk, Refuse); (AEmptyUri, Down); (AOk, Hang)], (AOk, AcceptThenDrop 3).
  split; reflexivity.
Qed.
