(* C03 - Messages stay inside their topic and are never echoed to their sender.
   Only statements, each closed by [exact] of a lemma proved in Proofs/Hub_proofs.v. *)
From Relay Require Import Base.Prelude Model.Hub Proofs.Hub_proofs Proofs.Hub_more_proofs.

(* every history: each message queued, being written or already written to connection i was received by the hub from a writer on exactly that connection's topic, other than itself, while connection i was a member *)
Theorem C03_queue_inv :
  forall evs i c m,
    nth_error (conns (run init evs)) i = Some c -> In m (content c) -> delivered_by evs i c m.
Proof. exact queue_inv. Qed.
Print Assumptions C03_queue_inv.

(* every history: a connection only ever holds messages of its own topic *)
Theorem C03_no_cross_topic :
  forall evs c m, In c (conns (run init evs)) -> In m (content c) -> m_topic m = topic c.
Proof. exact no_cross_topic. Qed.
Print Assumptions C03_no_cross_topic.

(* every history: a connection never holds a message it sent itself *)
Theorem C03_no_echo :
  forall evs c m, In c (conns (run init evs)) -> In m (content c) -> m_name m <> name c.
Proof. exact no_echo. Qed.
Print Assumptions C03_no_echo.

(* fan-out reaches exactly the other members of exactly the message's topic that have room *)
Theorem C03_offer_exact :
  forall m c,
    queue (offer m c) = queue c ++ [m] <->
    (st c = Joined /\ topic c = m_topic m /\ name c <> m_name m /\ length (queue c) < cap c).
Proof. exact offer_exact. Qed.
Print Assumptions C03_offer_exact.

(* an accepted connection gets the topic scanned from its path, equal to the token's topic, the capabilities of the token's scopes, and its path is a session path *)
Theorem C03_accept_fields :
  forall rq c, ws_accept rq = Some c ->
    topic c = topic_of_path (slashify (r_path rq)) /\ topic c = r_token_topic rq /\
    name c = r_name rq /\ cap c = r_cap rq /\
    (can_read c, can_write c) = caps (r_scopes rq) /\
    conn_type_of_path (slashify (r_path rq)) = "session"%string.
Proof. exact accept_fields. Qed.
Print Assumptions C03_accept_fields.

(* two accepted connections are treated as the same topic by the hub exactly when the topics scanned from their paths are equal strings *)
Theorem C03_topic_key_exact :
  forall rq1 rq2 c1 c2, ws_accept rq1 = Some c1 -> ws_accept rq2 = Some c2 ->
    ((forall m, String.eqb (topic c1) (m_topic m) = String.eqb (topic c2) (m_topic m)) <->
     topic_of_path (slashify (r_path rq1)) = topic_of_path (slashify (r_path rq2))).
Proof. exact topic_key_exact. Qed.
Print Assumptions C03_topic_key_exact.

(* the scanned topic only contains characters of the second character class *)
Theorem C03_topic_chars :
  forall p a, In a (list_ascii_of_string (topic_of_path p)) -> class2 a = true.
Proof. exact topic_chars. Qed.
Print Assumptions C03_topic_chars.

(* a path made of a slash, a first segment, a slash, a run t of second-class characters and a rest that is empty or starts outside that class has topic exactly t *)
Theorem C03_topic_of_path_spec :
  forall seg t rest,
    (forall a, In a (list_ascii_of_string seg) -> class1 a = true) ->
    (forall a, In a (list_ascii_of_string t) -> class2 a = true) ->
    (rest = EmptyString \/ exists b r, rest = String b r /\ class2 b = false) ->
    topic_of_path (String slash (seg ++ String slash (t ++ rest)))%string = t.
Proof. exact topic_of_path_spec. Qed.
Print Assumptions C03_topic_of_path_spec.

(* every connection the hub holds was registered in the history, under that name, topic, capabilities and capacity *)
Theorem C03_conn_from_register :
  forall evs c, In c (conns (run init evs)) ->
    exists r, In (Register r) evs /\ name c = name r /\ topic c = topic r /\
              can_read c = can_read r /\ can_write c = can_write r /\ cap c = cap r.
Proof. exact conn_from_register. Qed.
Print Assumptions C03_conn_from_register.

(* every history whose registrations all come out of websocket admission: a message held by a connection was sent by ANOTHER connection whose token names the same topic, string for string, and whose path scans to the same topic - whatever the spelling of either path *)
Theorem C03_isolation_by_token_topic :
  forall evs c m,
    (forall r, In (Register r) evs -> exists rq, ws_accept rq = Some r) ->
    In c (conns (run init evs)) -> In m (content c) ->
    exists rs rqs rc rqc,
      In (Register rs) evs /\ ws_accept rqs = Some rs /\ name rs = m_name m /\
      In (Register rc) evs /\ ws_accept rqc = Some rc /\ name rc = name c /\
      r_token_topic rqs = r_token_topic rqc /\ r_token_topic rqs = m_topic m /\
      topic_of_path (slashify (r_path rqs)) = topic_of_path (slashify (r_path rqc)) /\
      name rs <> name rc.
Proof. exact isolation_by_token_topic. Qed.
Print Assumptions C03_isolation_by_token_topic.

(* non-vacuity of the two above: the witness history below consists of accepted registrations (see C03_witness); here the hypothesis itself is exhibited for a short one *)
Example C03_accepted_history_witness :
  let mk := fun n p t => match ws_accept (mkreq n p t ["read"; "write"]%string 2) with
                         | Some c => c | None => mkclient 0 "" false false 0 [] [] [] Closed 0 end in
  let h := [Register (mk 1 "/session/a" "a"); Register (mk 2 "/session/a/" "a"); Recv 1 1 [10]]%N%string in
  (forall r, In (Register r) h -> exists rq, ws_accept rq = Some r) /\
  exists c, In c (conns (run init h)) /\ In (mkmsg 1 "a" 1 [10]%N) (content c).
Proof.
  split.
  - intros r [H|[H|[H|[]]]]; try discriminate; injection H as <-.
    + exists (mkreq 1 "/session/a" "a" ["read"; "write"]%string 2). reflexivity.
    + exists (mkreq 2 "/session/a/" "a" ["read"; "write"]%string 2). reflexivity.
  - vm_compute. eexists. split; [right; left; reflexivity|]. left. reflexivity.
Qed.

(* non-vacuity: two topics "a" and "ab" (one a prefix of the other), two connections on each,
   all accepted through ws_accept; messages cross inside a topic only, nobody hears itself, and
   the hypotheses of C03_queue_inv are met by connection 1 *)
Example C03_witness :
  let mk := fun n p t => match ws_accept (mkreq n p t ["read"; "write"]%string 2) with
                         | Some c => c | None => mkclient 0 "" false false 0 [] [] [] Closed 0 end in
  let h := [Register (mk 1 "/session/a" "a"); Register (mk 2 "session/a/" "a");
            Register (mk 3 "/session/ab" "ab"); Register (mk 4 "/session/ab" "ab");
            Recv 1 1 [10]; Recv 3 1 [30]; Recv 2 1 [20]; Recv 1 1 [11]]%N%string
           ++ drain 2 1 ++ drain 4 0 in
  let s := run init h in
  map topic (conns s) = ["a"; "a"; "ab"; "ab"]%string /\
  map (fun c => map (map m_data) (out c)) (conns s) = [[]; [[[10]; [11]]]; []; [[[30]]]]%N /\
  map (fun c => map m_data (content c)) (conns s) = [[[20]]; [[10]; [11]]; []; [[30]]]%N /\
  ws_accept (mkreq 5 "/session/a" "ab" ["read"]%string 2) = None /\
  exists c, nth_error (conns s) 1 = Some c /\ In (mkmsg 1 "a" 1 [11]%N) (content c).
Proof.
  vm_compute. repeat split. eexists. split; [reflexivity|]. right. left. reflexivity.
Qed.
