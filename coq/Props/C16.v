(* C16 - Each destination rule owns one outgoing connection, replaced / removed on command.
   Only statements, each closed by [exact] of a lemma proved in Proofs/Rwc_proofs.v.
   [trace ops] lists, in program order, everything the hub does during the history ops:
   EUnreg g / ECancel g / EInstall id g / EReg g for client generation g, and EEnq g when the messages
   hub offers a broadcast to client g. *)
From Relay Require Import Base.Prelude Base.AList Model.Rwc Proofs.Rwc_proofs.

(* at every moment of every history (every prefix p of the event trace) an id has at most one client
   that is installed and not cancelled *)
Theorem C16_one_live_per_id :
  forall ops p q id g1 g2,
    trace ops = p ++ q -> live_in p id g1 -> live_in p id g2 -> g1 = g2.
Proof. exact one_live_per_id. Qed.
Print Assumptions C16_one_live_per_id.

(* the live client of an id carries the rule (destination, stream) of the most recent add for that
   id that has not been deleted since; there is no client otherwise *)
Theorem C16_live_is_latest :
  forall ops id, option_map crule (clk id (clients (final ops))) = latest ops id.
Proof. exact live_is_latest. Qed.
Print Assumptions C16_live_is_latest.

(* when a new client is installed for an id, every client installed for that id before has already
   been unregistered from the messages hub and cancelled *)
Theorem C16_old_cancelled_before_new :
  forall ops p id g q,
    trace ops = p ++ EInstall id g :: q ->
    forall g', In (EInstall id g') p -> In (ECancel g') p /\ In (EUnreg g') p.
Proof. exact old_cancelled_before_new. Qed.
Print Assumptions C16_old_cancelled_before_new.

(* once a client has been cancelled no broadcast is ever enqueued for it again *)
Theorem C16_nothing_after_cancel :
  forall ops p g q, trace ops = p ++ ECancel g :: q -> ~ In (EEnq g) q.
Proof. exact nothing_after_cancel. Qed.
Print Assumptions C16_nothing_after_cancel.

(* a broadcast is offered only to destinations of rules that are the latest for their id *)
Theorem C16_bcast_only_live :
  forall ops str d, In d (snd (step (final ops) (Bcast str))) ->
    exists id r, latest ops id = Some r /\ rdest r = d /\ rstream r = str.
Proof. exact bcast_only_live. Qed.
Print Assumptions C16_bcast_only_live.

(* the rule listing is duplicate-free and, for every id, shows exactly the rule most recently added
   and not since deleted *)
Theorem C16_listing_exact :
  forall ops, NoDup (keys (rules (final ops))) /\ forall id, rlk id (rules (final ops)) = latest ops id.
Proof. exact listing_exact. Qed.
Print Assumptions C16_listing_exact.

(* the reserved id "deleteAll" cannot be created *)
Theorem C16_reserved_id :
  (forall s r, rid r = reserved -> step s (Add r) = (s, [], [])) /\
  (forall ops, rlk reserved (rules (final ops)) = None /\ clk reserved (clients (final ops)) = None).
Proof. exact reserved_id. Qed.
Print Assumptions C16_reserved_id.

(* operations that do not name a rule leave its client in place (same generation, so its connection
   is not restarted) and registered, and a broadcast on its stream is offered to it *)
Theorem C16_others_keep_flowing :
  (forall ops o id c, untouched o id -> clk id (clients (final ops)) = Some c ->
     clk id (clients (next (final ops) o)) = Some c /\ In c (members (next (final ops) o))) /\
  (forall ops id c, clk id (clients (final ops)) = Some c ->
     In (EEnq (cgen c)) (events (final ops) (Bcast (rstream (crule c)))) /\
     In (rdest (crule c)) (snd (step (final ops) (Bcast (rstream (crule c)))))).
Proof. exact others_keep_flowing. Qed.
Print Assumptions C16_others_keep_flowing.

(* replacing, deleting a rule or deleting all ends the old client: a client installed at any time is
   either still the client of its id, or it has been unregistered from the messages hub and cancelled *)
Theorem C16_installed_is_live_or_cancelled :
  forall ops id g, In (EInstall id g) (trace ops) ->
    (exists c, clk id (clients (final ops)) = Some c /\ cgen c = g) \/
    (In (ECancel g) (trace ops) /\ In (EUnreg g) (trace ops)).
Proof. exact installed_is_live_or_cancelled. Qed.
Print Assumptions C16_installed_is_live_or_cancelled.

(* in particular, when the last word on an id is a delete or a delete-all, every client ever made for
   that id has been cancelled and unregistered *)
Theorem C16_deleted_rule_has_no_client :
  forall ops id g, latest ops id = None -> In (EInstall id g) (trace ops) ->
    In (ECancel g) (trace ops) /\ In (EUnreg g) (trace ops).
Proof. exact deleted_rule_has_no_client. Qed.
Print Assumptions C16_deleted_rule_has_no_client.

Example C16_deleted_witness :
  let h := [Add (mkrule 1 10 100); Add (mkrule 2 10 200); Delete 1; Add (mkrule 2 11 201); DeleteAll]%N in
  latest h 1%N = None /\ latest h 2%N = None /\
  In (EInstall 1 0) (trace h) /\ In (EInstall 2 1) (trace h) /\ In (EInstall 2 2) (trace h) /\
  In (ECancel 2) (trace h).
Proof. vm_compute. repeat split; auto 20. Qed.

(* ids arrive by name: only the exact string "deleteAll" is read as the reserved id *)
Theorem C16_reserved_is_exact_word :
  forall name n, n <> reserved -> (id_of_name name n = reserved <-> name = "deleteAll"%string).
Proof. exact reserved_is_exact_word. Qed.
Print Assumptions C16_reserved_is_exact_word.

Example C16_reserved_word_witness :
  id_of_name "/deleteAll" 5 = 5%N /\ id_of_name "deleteAll/" 6 = 6%N /\ id_of_name "deleteall" 7 = 7%N /\
  id_of_name "" 8 = 8%N /\ id_of_name "deleteAll" 9 = reserved.
Proof. vm_compute. repeat split. Qed.

(* non-vacuity: a history that replaces, deletes and re-adds rules; the hypotheses above are met *)
Example C16_witness :
  let r1 := mkrule 1 10 100 in let r1' := mkrule 1 11 101 in let r2 := mkrule 2 10 200 in
  let h := [Add r1; Add r2; Bcast 10; Add r1'; Bcast 10; Delete 2; Add (mkrule 0 10 999); Bcast 11]%N in
  trace h = [EInstall 1 0; EReg 0; EInstall 2 1; EReg 1; EEnq 0; EEnq 1;
             EUnreg 0; ECancel 0; EInstall 1 2; EReg 2; EEnq 1; EUnreg 1; ECancel 1; EEnq 2]%N /\
  latest h 1%N = Some r1' /\ latest h 2%N = None /\
  map snd (run init h) = [[]; []; [100; 200]; []; [200]; []; []; [101]]%N /\
  live_in [EInstall 1 0; EReg 0; EInstall 2 1]%N 1%N 0%N /\
  untouched (Add r1') 2%N.
Proof.
  vm_compute. repeat split; try reflexivity; try discriminate.
  - left; reflexivity.
  - intros [H|[H|[H|H]]]; try discriminate; exact H.
Qed.
