(* C18 - The host's control interfaces answer every command and survive every input.
   Statements only; each is closed by [exact] of a lemma of Proofs/AdminApi_proofs.v.
   The model (Model/AdminApi.v) takes the command after the outer json.Unmarshal ([None] = that failed) and
   the inner json.Unmarshal of the rule as an oracle: every theorem holds for EVERY oracle [dd], [ds], every
   configured control destination [api], every state of the two rule tables and every command.
   [repaired] = the code with the repairs F11a (nil rule), F11b (replies through json.Marshal) and F11c
   (which = "deleteAll"); what the tree did before them is recorded at the end ([..._pinned_refuted]). *)
From Relay Require Import Base.Prelude Base.AList Model.AdminJson Model.AdminApi Model.AdminDecode
                          Proofs.AdminApi_proofs Proofs.AdminDecode_proofs.
From Relay Require Base.Json.

(* the handler never dereferences a nil rule: no command, in no history, ends the host *)
Theorem C18_admin_total :
  forall dd ds api cs s, ~ In Panic (snd (run dd ds api repaired s cs)).
Proof. exact admin_total_run. Qed.
Print Assumptions C18_admin_total.

(* whatever bytes go out on the control topic are well-formed JSON *)
Theorem C18_reply_is_json :
  forall dd ds api s c b, render repaired (snd (step dd ds api repaired s c)) = Some b -> wf b = true.
Proof. exact reply_is_json. Qed.
Print Assumptions C18_reply_is_json.

(* both together, over whole histories: every command of every history gets a reply, and it is JSON *)
Theorem C18_every_command_answered :
  forall dd ds api cs s,
    Forall (fun a => exists b, render repaired a = Some b /\ wf b = true) (snd (run dd ds api repaired s cs)).
Proof. exact every_command_answered_run. Qed.
Print Assumptions C18_every_command_answered.

(* the checker behind [wf] accepts everything shaped like json.Marshal output, for every content of the
   strings (any bytes: quotes, backslashes, control characters, invalid UTF-8) *)
Theorem C18_marshal_output_is_json : forall v, wf (print v) = true.
Proof. exact wf_print. Qed.
Print Assumptions C18_marshal_output_is_json.

(* a command answered with an error leaves both rule tables exactly as they were *)
Theorem C18_invalid_keeps_rules :
  forall dd ds api fx s c t, snd (step dd ds api fx s c) = Err t -> fst (step dd ds api fx s c) = s.
Proof. exact invalid_keeps_rules. Qed.
Print Assumptions C18_invalid_keeps_rules.

(* ---- "every byte string sent as a command": the handler on the BYTES of a message.  [decode] (Model/AdminDecode.v)
   is the model of json.Unmarshal(msg, &vw.Command): Base/Json.v's json.Valid, the top-level value (null / object /
   anything else), keys unquoted and matched without regard to ASCII case, members stored in order (the last one
   for a field decides), strings unquoted with invalid UTF-8 and lone surrogates replaced, the rule kept verbatim.
   [handle] = decode, then the dispatch of [step].  The correspondence run decodes every command message it
   sends (the malformed stream and the decoder corners included) and must arrive at what the real json.Unmarshal
   produced.  Only the INNER decoding of the rule into rwc.Rule / agg.Rule stays an oracle ([dd], [ds], any). *)

(* for EVERY byte list, every state, every configured destination: the handler's reply is valid JSON *)
Theorem C18_every_byte_string_gets_a_json_reply :
  forall dd ds api s msg,
    exists b, render repaired (snd (handle dd ds api repaired s msg)) = Some b /\ wf b = true.
Proof. exact every_byte_string_gets_a_json_reply. Qed.
Print Assumptions C18_every_byte_string_gets_a_json_reply.

(* ... and with the inner decoding of the rule modelled as well ([dec_dest_model], [dec_stream_model]: the rule
   bytes parsed by Base/Json.v and stored field by field into rwc.Rule / agg.Rule with encoding/json's matching
   and error texts) no oracle is left: for every SEQUENCE of byte strings from every state, every message is
   answered, with valid JSON, and the host survives *)
Theorem C18_every_byte_string_sequence_answered :
  forall api msgs s,
    Forall (fun a => exists b, render repaired a = Some b /\ wf b = true)
           (snd (run dec_dest_model dec_stream_model api repaired s (map decode msgs))) /\
    ~ In Panic (snd (run dec_dest_model dec_stream_model api repaired s (map decode msgs))).
Proof. intros api msgs s. split; [exact (bytes_sequence_answered api msgs s)|exact (bytes_sequence_never_panics api msgs s)]. Qed.
Print Assumptions C18_every_byte_string_sequence_answered.

(* every byte list is decoded one way or the other, and it is known which: an error exactly when it is not one
   JSON value, or its top-level value is neither null nor an object, or some member gives a string field a value
   that is neither a string nor null; otherwise each field is what its last storable member says *)
Theorem C18_decode_total :
  forall msg,
    (decode msg = None /\
     (Json.json_wf msg = false \/ top_members msg = None \/
      exists ms, top_members msg = Some ms /\ existsb bad_member ms = true)) \/
    (exists ms, Json.json_wf msg = true /\ top_members msg = Some ms /\ existsb bad_member ms = false /\
                decode msg = Some (mkc (last_str FVerb ms) (last_str FWhat ms) (last_str FWhich ms) (last_rule ms))).
Proof. exact decode_total. Qed.
Print Assumptions C18_decode_total.

(* the documented matching rule: keys select a field without regard to ASCII case, and of several string
   members for one field the LAST one decides (members for other fields, nulls and unknown keys in between or
   after do not matter) *)
Theorem C18_decode_case_insensitive_last_wins :
  (forall k k', map lower k = map lower k' -> field_of k = field_of k') /\
  (forall f pre k raw s rest,
     field_of k = Some f -> classify raw = RStr s -> existsb (string_for f) rest = false ->
     last_str f (pre ++ (k, raw) :: rest) = s).
Proof. split; [exact field_of_case_insensitive|exact last_string_member_wins]. Qed.
Print Assumptions C18_decode_case_insensitive_last_wins.

(* a message that does not decode is refused with the plain error and changes no table (every code variant);
   whatever is not one JSON value does not decode *)
Theorem C18_undecodable_bytes_change_nothing :
  forall dd ds api fx s msg, decode msg = None -> handle dd ds api fx s msg = (s, Err e_bad).
Proof. exact undecodable_bytes_change_nothing. Qed.
Print Assumptions C18_undecodable_bytes_change_nothing.

Theorem C18_not_json_is_undecodable : forall msg, Json.json_wf msg = false -> decode msg = None.
Proof. exact not_json_is_undecodable. Qed.
Print Assumptions C18_not_json_is_undecodable.

(* non-vacuity: upper-case and escaped keys, a duplicate in both roles, a null in between, a rule kept verbatim;
   the same message with a number for "which" does not decode; trailing bytes do not decode *)
Example C18_decode_witness :
  decode (bytes_of "{""VERB"":""delete"",""\u0076erb"":""add"",""what"":null,""What"":""stream"",""verb"":null, ""rule"" : {""stream"": ""s""} ,""x"":[1]}")
    = Some (mkc k_add k_stream [] (Some (bytes_of "{""stream"": ""s""}"))) /\
  decode (bytes_of "{""verb"":""list"",""which"":5}") = None /\
  decode (bytes_of "{""verb"":""list""}}") = None /\
  decode (bytes_of "null") = Some zero_cmd /\ decode (bytes_of """add""") = None.
Proof. vm_compute. repeat split. Qed.

(* non-vacuity of the whole chain on bytes: an "add stream" with upper-case keys is decoded, the rule's own
   decoding strips nothing but the leading slash, the table has the rule, the reply is its JSON; a rule whose
   feeds are numbers is refused with encoding/json's error text and changes nothing *)
Example C18_handle_bytes_witness :
  let s0 := mkst [] [] in
  let m1 := bytes_of "{""VERB"":""add"",""What"":""stream"",""rule"":{""Stream"":""/s"",""feeds"":[""a"",null]}}" in
  let m2 := bytes_of "{""verb"":""add"",""what"":""stream"",""rule"":{""stream"":""t"",""feeds"":[1]}}" in
  handle_bytes [] repaired s0 m1
    = (mkst [] [(bytes_of "s", Some [bytes_of "a"; []])], Ok (bytes_of "{""stream"":""s"",""feeds"":[""a"",""""]}")) /\
  handle_bytes [] repaired s0 m2
    = (s0, Err (bytes_of "json: cannot unmarshal number into Go struct field Rule.feeds of type string")).
Proof. vm_compute. split; reflexivity. Qed.

(* "well formed or not ... non-JSON": a message whose outer decoding fails (not JSON at all, or a member of
   the wrong type - [None] in the model; the decoding itself is encoding/json's, tied in by the correspondence
   run, which also checks that whatever decodes is accepted by [wf]) is refused with the plain error and
   changes nothing *)
Theorem C18_undecodable_is_refused :
  forall dd ds api fx s, step dd ds api fx s None = (s, Err e_bad).
Proof. exact undecodable_is_refused. Qed.
Print Assumptions C18_undecodable_is_refused.

(* "(the result or an error object)": an error is reported as the JSON object {"error": <text>} *)
Theorem C18_error_reply_is_error_object :
  forall t, render repaired (Err t) = Some (print (JObj [(bytes_of "error", JStr t)])).
Proof. exact error_reply_is_error_object. Qed.
Print Assumptions C18_error_reply_is_error_object.

(* "... and is re-created after a delete-all": whatever the destination table held - even another rule under
   the id apiRule - after delete destination all / deleteAll it holds exactly the control connection's rule *)
Theorem C18_delete_all_recreates_api_rule :
  forall dd ds api, api <> [] -> forall s w, w = k_all \/ w = k_deleteAll ->
    has_api api (fst (step dd ds api repaired s (c_delete_dest w))) /\
    forall id, id <> k_apiRule -> dlk id (dests (fst (step dd ds api repaired s (c_delete_dest w)))) = None.
Proof. exact delete_all_recreates_api_rule. Qed.
Print Assumptions C18_delete_all_recreates_api_rule.

(* non-vacuity: a table in which apiRule had been re-pointed and two other rules exist *)
Example C18_delete_all_witness :
  let api := bytes_of "ws://relay/in/api" in
  let dd := fun _ : bytes => @inr drule bytes [] in
  let ds := fun _ : bytes => @inr srule bytes [] in
  let s := mkst [(k_apiRule, mkd k_apiRule k_api (bytes_of "ws://elsewhere") [] []);
                 (bytes_of "00", zero_drule); (bytes_of "01", zero_drule)] [] in
  dests (fst (step dd ds api repaired s (c_delete_dest k_deleteAll))) = [(k_apiRule, api_rule api)] /\
  step dd ds api repaired s None = (s, Err e_bad).
Proof. vm_compute. split; reflexivity. Qed.

(* the control connection's own rule: with a control destination configured, no sequence of commands that
   does not itself re-write the rule ("add destination" with id apiRule) changes it - delete, delete-all and
   the reserved id "deleteAll" included (delete-all re-creates it in the same step) *)
Theorem C18_api_rule_protected :
  forall dd ds api, api <> [] ->
  forall cs s, has_api api s ->
    forallb (fun c => negb (sets_api_rule dd c)) cs = true ->
    has_api api (final dd ds api repaired s cs).
Proof. exact final_keeps_api. Qed.
Print Assumptions C18_api_rule_protected.

(* and with no restriction on the commands at all, a rule with the id apiRule is never missing afterwards *)
Theorem C18_api_rule_never_missing :
  forall dd ds api, api <> [] ->
  forall cs s, api_present s -> api_present (final dd ds api repaired s cs).
Proof. exact final_api_present. Qed.
Print Assumptions C18_api_rule_never_missing.

(* the HTTP rule API: every routed request is answered 200 with a JSON body, 404 (unknown stream) or 500
   (undecodable body) *)
Theorem C18_http_total :
  forall s q,
    let r := snd (hstep s q) in
    (fst r = 200%N /\ wf (snd r) = true) \/ (fst r = 404%N /\ exists n, q = HStreamShow n) \/
    (fst r = 500%N /\ ((exists t, q = HDestAdd (inr t)) \/ exists t, q = HStreamAdd (inr t))).
Proof. exact http_total. Qed.
Print Assumptions C18_http_total.

(* ... and a request that is answered with anything but 200 (undecodable body: 500, unknown stream: 404)
   leaves both rule tables as they were *)
Theorem C18_http_error_keeps_rules :
  forall s q, fst (snd (hstep s q)) <> 200%N -> fst (hstep s q) = s.
Proof. exact http_error_keeps_rules. Qed.
Print Assumptions C18_http_error_keeps_rules.

(* ---- the control topic as a whole, with the handler's busy window (Model/AdminApi.v [tstep]).
   FULL STATEMENT of the clause "every message arriving on the host's websocket control topic gets a reply",
   over histories of arrivals [TArrive c] and of moments at which the handler is waiting again [TReady]:

     forall dd ds api t evs, Forall (fun o => exists a, o = Some a /\ answered_with_json a)
                                    (snd (trun dd ds api repaired t evs))

   It does NOT hold on the code as it is (known finding F17, key
   F17:pipelined-command-dropped-before-the-handler): internalAPI's Send channel is unbuffered and the hub
   offers every message of the topic to it without waiting, so a command that arrives while the handler is
   still busy with an earlier one is silently dropped - the message is on the topic (other subscribers see it)
   and gets no reply.  Proved part, then the witness. *)

(* every command the handler takes gets exactly one reply (one outcome per arrival), and it is valid JSON;
   an arrival is either taken ([Some a]) or dropped ([None]) *)
Theorem C18_command_taken_is_answered :
  forall dd ds api evs t,
    Forall (fun o => match o with
                     | Some a => exists b, render repaired a = Some b /\ wf b = true
                     | None => True
                     end) (snd (trun dd ds api repaired t evs)).
Proof. exact command_taken_is_answered. Qed.
Print Assumptions C18_command_taken_is_answered.

(* F17: two commands back to back; the second arrives while the handler is busy with the first: no reply.
   (Reproduced on the real code by harness/cmd/c18, pipelined sessions: N commands back to back from one
   controller on /ws/api, k < N replies.) *)
Theorem C18_every_arriving_command_answered_refuted :
  exists evs, forall dd ds api s,
    In None (snd (trun dd ds api repaired (mkt s false) evs)) /\
    length (filter (fun e => match e with TArrive _ => true | TReady => false end) evs) = 2.
Proof.
  exists [TArrive c_healthcheck; TArrive c_healthcheck; TReady]. intros dd ds api s.
  rewrite (second_back_to_back_command_unanswered dd ds api s). split; [right; left; reflexivity|reflexivity].
Qed.
Print Assumptions C18_every_arriving_command_answered_refuted.

(* ---- the tree before the repairs: each clause had a counterexample (replayed on the real code by
   harness/cmd/c18; the repairs are fixes/F11a, F11b, F11c) *)
Theorem C18_admin_total_pinned_refuted :
  forall dd ds api s, snd (step dd ds api pinned s c_add_stream_norule) = Panic.
Proof. exact pinned_panics. Qed.
Print Assumptions C18_admin_total_pinned_refuted.

Theorem C18_reply_is_json_pinned_refuted :
  forall dd ds api s,
    exists b, render pinned (snd (step dd ds api pinned s c_delete_quote)) = Some b /\ wf b = false.
Proof. exact pinned_reply_not_json. Qed.
Print Assumptions C18_reply_is_json_pinned_refuted.

Theorem C18_api_rule_protected_pinned_refuted :
  forall dd ds api,
    let s := mkst [(k_apiRule, api_rule api)] [] in
    dlk k_apiRule (dests s) = Some (api_rule api) /\
    dlk k_apiRule (dests (fst (step dd ds api pinned s c_delete_deleteAll))) = None.
Proof. exact pinned_loses_api_rule. Qed.
Print Assumptions C18_api_rule_protected_pinned_refuted.

(* non-vacuity: a concrete history over a configured control connection - add a destination whose id contains
   a quote, list, delete it, delete everything, try to delete apiRule - keeps apiRule, answers every command
   with JSON, and the error-answered commands change nothing *)
Example C18_witness :
  let api := bytes_of "ws://relay/in/api" in
  let dd := fun raw => if beqb raw (bytes_of "R1")
                       then inl (mkd (bytes_of "a""b") (bytes_of "/video") (bytes_of "ws://x") [] [])
                       else inr (bytes_of "json: cannot unmarshal") in
  let ds := fun _ : bytes => @inr srule bytes (bytes_of "json: cannot unmarshal") in
  let s0 := mkst [(k_apiRule, api_rule api)] [] in
  let cs := [ Some (mkc k_add k_destination [] (Some (bytes_of "R1")));
              Some (mkc k_list k_destination k_all None);
              Some (mkc k_delete k_destination (bytes_of "a""b") None);
              Some (mkc k_add k_stream [] None);
              Some (mkc k_delete k_destination k_deleteAll None);
              Some (mkc k_delete k_destination k_apiRule None);
              None ] in
  forallb (fun c => negb (sets_api_rule dd c)) cs = true /\
  dlk k_apiRule (dests (final dd ds api repaired s0 cs)) = Some (api_rule api) /\
  map (fun a => match render repaired a with Some b => wf b | None => false end)
      (snd (run dd ds api repaired s0 cs)) = [true; true; true; true; true; true; true] /\
  map (fun a => match a with Err _ => true | _ => false end)
      (snd (run dd ds api repaired s0 cs)) = [false; false; false; true; false; true; true] /\
  dlk (bytes_of "a""b") (dests (final dd ds api repaired s0 (firstn 2 cs))) <> None.
Proof. vm_compute. repeat split; try reflexivity; discriminate. Qed.
