(* C08 - No client behaviour or admin sequence can stop or crash the relay.
   Only statements, each closed by [exact] of a lemma proved in Proofs/ChanMap_proofs.v or
   Proofs/HubFaults_proofs.v.  The models follow the code as repaired: F5 (the hub drops a slow reader
   in place, membership-guarded) is in the tree; F06 (chanmap forgets the children of a deleted
   parent in both maps) is the fix delivered with this check.  The two Examples at the end run the
   earlier behaviours on the histories that broke them. *)
From Relay Require Import Base.Prelude Base.AList Model.ChanMap Proofs.ChanMap_proofs
  Model.HubFaults Proofs.HubFaults_proofs Proofs.ChanMap_concurrent.
From Relay Require Model.SerialEq.

(* every sequence of chanmap operations whose Adds carry fresh child names and channels: no panic
   (every operation runs), no channel closed twice, the two maps mutually consistent, and no nil map
   stored under a parent key *)
Theorem C08_chanmap_total :
  forall ops, fresh_adds ops ->
    Forall (fun x => is_panic x = false) (snd (crun cm_init ops)) /\
    length (snd (crun cm_init ops)) = length ops /\
    NoDup (closedl (fst (crun cm_init ops))) /\
    consistent (fst (crun cm_init ops)) /\
    (forall p, plk p (children (fst (crun cm_init ops))) <> Some None).
Proof. exact chanmap_total. Qed.
Print Assumptions C08_chanmap_total.

(* F22: a booking is known to the store exactly as long as one of its connections is - ChildrenByParent has a
   key iff some child maps to it; in particular no empty map is kept for a past booking *)
Theorem C08_no_empty_parent_entries :
  forall ops, fresh_adds ops ->
    forall p, plk p (children (fst (crun cm_init ops))) <> None <->
              exists c, mlk c (pbc (fst (crun cm_init ops))) = Some p.
Proof. exact no_empty_parent_entries. Qed.
Print Assumptions C08_no_empty_parent_entries.

(* ---- the deny-channel store under concurrent use ----
   serveWs, Hub.drop and the deny loop call the store from different goroutines. It is one object behind one mutex and
   each method is one critical section (C12's generated obligation on the lock IR regenerated from the source), so the
   value-level serial-equivalence theorem applies with the store's own step function: any schedule of any threads
   leaves the store in the state of the sequential sequence of the same operations in lock-acquisition order (each
   thread's own order kept); and where no operation panics - which the first theorem of this file establishes for
   sequences with fresh names - that state is crun's, so the statements over operation sequences hold of every
   concurrent execution. *)
Theorem C08_chanmap_concurrent_use_is_sequential :
  forall progs (s0 : cm) sched (s : cm_cstate),
    SerialEq.run cm_ueqb cm_upd sched (SerialEq.init progs (fun _ => s0)) = Some s -> SerialEq.finished s = true ->
    SerialEq.st s tt = cfinal s0 (map (@SerialEq.c_op unit cop) (SerialEq.acqs s)) /\
    (forall i p, nth_error progs i = Some p -> SerialEq.by_thread i (SerialEq.acqs s) = SerialEq.mkcalls i 0 p).
Proof. exact concurrent_chanmap_is_sequential. Qed.
Print Assumptions C08_chanmap_concurrent_use_is_sequential.

Theorem C08_chanmap_sequence_state :
  forall ops s, (forall x, In x (snd (crun s ops)) -> is_panic x = false) -> fst (crun s ops) = cfinal s ops.
Proof. exact crun_cfinal. Qed.
Print Assumptions C08_chanmap_sequence_state.

(* ... spelled out: the state after ANY concurrent execution whose operations, in lock-acquisition order, carry fresh
   child names and channels is crun's, no channel was closed twice, the maps are consistent, no nil map is stored, and
   a booking has a key exactly while one of its connections has *)
Theorem C08_chanmap_concurrent_total :
  forall progs sched (s : cm_cstate),
    SerialEq.run cm_ueqb cm_upd sched (SerialEq.init progs (fun _ => cm_init)) = Some s -> SerialEq.finished s = true ->
    fresh_adds (map (@SerialEq.c_op unit cop) (SerialEq.acqs s)) ->
    SerialEq.st s tt = fst (crun cm_init (map (@SerialEq.c_op unit cop) (SerialEq.acqs s))) /\
    NoDup (closedl (SerialEq.st s tt)) /\
    consistent (SerialEq.st s tt) /\
    (forall p, plk p (children (SerialEq.st s tt)) <> Some None) /\
    (forall p, plk p (children (SerialEq.st s tt)) <> None <-> exists c, mlk c (pbc (SerialEq.st s tt)) = Some p).
Proof. exact concurrent_chanmap_total. Qed.
Print Assumptions C08_chanmap_concurrent_total.

(* the answers: the calls, in the order their bodies ran, are the calls in lock-acquisition order and every caller got
   the result the sequential sequence gives at that position ([cfold] = every operation with its result) ... *)
Theorem C08_chanmap_concurrent_responses :
  forall progs (s0 : cm) sched (s : cm_cstate),
    SerialEq.run cm_ueqb cm_upd sched (SerialEq.init progs (fun _ => s0)) = Some s -> SerialEq.finished s = true ->
    map fst (SerialEq.hist s) = SerialEq.acqs s /\
    map snd (SerialEq.hist s) = snd (cfold s0 (map (@SerialEq.c_op unit cop) (SerialEq.acqs s))).
Proof. exact concurrent_chanmap_responses. Qed.
Print Assumptions C08_chanmap_concurrent_responses.

(* ... so with fresh names no concurrent caller of the store panics (nil map, closing a closed channel), whatever the
   schedule: every call returned, none with a panic *)
Theorem C08_chanmap_concurrent_no_caller_panics :
  forall progs sched (s : cm_cstate),
    SerialEq.run cm_ueqb cm_upd sched (SerialEq.init progs (fun _ => cm_init)) = Some s -> SerialEq.finished s = true ->
    fresh_adds (map (@SerialEq.c_op unit cop) (SerialEq.acqs s)) ->
    length (SerialEq.hist s) = length (SerialEq.acqs s) /\
    Forall (fun x => is_panic x = false) (map snd (SerialEq.hist s)).
Proof. exact concurrent_chanmap_no_caller_panics. Qed.
Print Assumptions C08_chanmap_concurrent_no_caller_panics.

(* non-vacuity: an admission (Add), a disconnect of another connection (DelChild) and a deny (DelCloseParent) from
   three threads; the deny gets the lock between the two others: the store is what that order gives *)
Example C08_chanmap_concurrent_witness :
  let progs := [[(tt, Add 7 11 11)]; [(tt, DelCloseParent 7)]; [(tt, Add 7 12 12); (tt, DelChild 12)]]%N in
  match SerialEq.run cm_ueqb cm_upd [2;2;2; 1;1;1; 0;0;0; 2;2;2] (SerialEq.init progs (fun _ => cm_init)) with
  | Some s => (SerialEq.finished s, map (@SerialEq.c_tid unit cop) (SerialEq.acqs s), dump_children (SerialEq.st s tt))
  | None => (false, [], [])
  end = (true, [2; 1; 0; 2], [(7, Some [(11, 11)])]%N).
Proof. vm_compute. reflexivity. Qed.

(* non-vacuity of C08_chanmap_concurrent_total: that execution finishes and its lock-acquisition order is fresh *)
Example C08_chanmap_concurrent_total_witness :
  let progs := [[(tt, Add 7 11 11)]; [(tt, DelCloseParent 7)]; [(tt, Add 7 12 12); (tt, DelChild 12)]]%N in
  match SerialEq.run cm_ueqb cm_upd [2;2;2; 1;1;1; 0;0;0; 2;2;2] (SerialEq.init progs (fun _ => cm_init)) with
  | Some s => SerialEq.finished s = true /\ fresh_adds (map (@SerialEq.c_op unit cop) (SerialEq.acqs s))
  | None => False
  end.
Proof. vm_compute. repeat split; intuition discriminate. Qed.

(* non-vacuity: the last child of a booking goes (by child delete, twice) and the booking's key with it *)
Example C08_witness_empty_parent :
  let ops := [Add 7 11 11; Add 7 12 12; Add 8 13 13; DelChild 11; DelCloseChild 12]%N in
  fresh_adds ops /\ dump_children (fst (crun cm_init ops)) = [(8, Some [(13, 13)])]%N /\
  (* before F22 the emptied booking stayed, with an empty map *)
  dump_children (fst (crun_old cm_init ops)) = [(7, Some []); (8, Some [(13, 13)])]%N.
Proof. vm_compute. repeat split; intuition discriminate. Qed.

(* every event list (admissions, registrations, read errors, floods into readers that never drain,
   drains, denies) with fresh connection names: the hub loop, the deny loop and serveWs's shared-state
   steps all complete - no goroutine panics and the hub always returns to its select *)
Theorem C08_hub_total :
  forall evs, evs_fresh [] [] evs -> exists h, run hub_init evs = HOk h.
Proof. exact hub_total. Qed.
Print Assumptions C08_hub_total.

Theorem C08_hub_never_panics :
  forall evs w, evs_fresh [] [] evs -> run hub_init evs <> HPanic w.
Proof. exact hub_never_panics. Qed.
Print Assumptions C08_hub_never_panics.

Theorem C08_hub_never_stuck :
  forall evs, evs_fresh [] [] evs -> run hub_init evs <> HStuck.
Proof. exact hub_never_stuck. Qed.
Print Assumptions C08_hub_never_stuck.

(* a read error / reset / oversize or malformed frame on connection n (all reach the hub as
   Unregister n) changes nothing of any other connection: record, queue, membership, deny-channel
   entries; and closes no deny channel *)
Theorem C08_fault_is_local :
  forall h n h', step h (Unregister n) = HOk h' ->
    forall n', n' <> n -> untouched h h' n' /\ closedl (dcs h') = closedl (dcs h).
Proof. exact fault_is_local. Qed.
Print Assumptions C08_fault_is_local.

(* a flood: only readers whose queue is full are evicted; a reader with room stays a member and gets
   the message; connections that are not members of the sender's topic (and the sender) are untouched *)
Theorem C08_eviction_is_local :
  forall h ua ur from msg h' sc,
    HInv h ua ur -> step h (Broadcast from msg) = HOk h' -> clk from (clients h) = Some sc ->
    forall n' c', clk n' (clients h) = Some c' ->
      (is_member n' h = false \/ c_topic c' <> c_topic sc \/ n' = from ->
         clk n' (clients h') = Some c' /\ (forall t, In n' (members_of t h') <-> In n' (members_of t h))) /\
      (is_member n' h = true -> c_topic c' = c_topic sc -> n' <> from -> room c' = true ->
         clk n' (clients h') = Some (enq msg c') /\ In n' (members_of (c_topic c') h')).
Proof. exact eviction_is_local. Qed.
Print Assumptions C08_eviction_is_local.

(* after ANY event list: two fresh connections on a fresh topic, one sends, the other has the message *)
Theorem C08_canary_always_works :
  forall evs h, evs_fresh [] [] evs -> run hub_init evs = HOk h ->
    exists ua ur, HInv h ua ur /\
    forall a b t bid_a bid_b cap msg,
      a <> b -> ~ In a ua -> ~ In b ua -> ~ In a ur -> ~ In b ur -> members_of t h = [] -> (1 <= cap)%nat ->
      exists h', run h [WsAdd bid_a a; Register a t cap; WsAdd bid_b b; Register b t cap; Broadcast a msg] = HOk h' /\
                 clk b (clients h') = Some (mkclient t cap [msg] true) /\
                 clk a (clients h') = Some (mkclient t cap [] true).
Proof. exact canary_always_works. Qed.
Print Assumptions C08_canary_always_works.

(* every history of session / connect / disconnect / deny / allow / send calls over any bookings,
   lowered to the events the relay's goroutines see: nothing panics, nothing blocks *)
Theorem C08_admin_sequences_never_fail :
  forall allow_empty aevs, aconn_fresh [] aevs ->
    exists h, run hub_init (lower_all allow_empty lite_init aevs) = HOk h.
Proof. exact admin_never_fails. Qed.
Print Assumptions C08_admin_sequences_never_fail.

(* non-vacuity and the two earlier behaviours:
   - connect, deny, (the server closes the connection: unregister), allow, new session, reconnect on the
     same booking runs to HOk with the second connection a member; under the chanmap behaviour before
     F06 the same chanmap calls end in "assignment to entry in nil map";
   - a flood into a reader with a one-slot queue that never drains evicts exactly that reader; under
     the hub behaviour before F5 the same events leave the hub stuck *)
Definition members_are (o : outcome) (ins outs : list N) : bool :=
  match o with
  | HOk h => forallb (fun n => is_member n h) ins && forallb (fun n => negb (is_member n h)) outs
  | _ => false
  end.

(* "keeps letting connections in" at the level of the access API: after ANY history of session / connect /
   disconnect / deny / allow / send calls, a session for a booking that is not denied at that point,
   followed by a connect presenting its code, runs to completion and the new connection is on the topic *)
Theorem C08_valid_connect_always_joins :
  forall allow_empty aevs code bid topic n cap,
    aconn_fresh [] (aevs ++ [ASession code bid topic; AConnect code n cap]) ->
    memN bid (denied (lite_after allow_empty lite_init aevs)) = false ->
    ((bid =? 0)%N && negb allow_empty)%bool = false ->
    exists h, run hub_init (lower_all allow_empty lite_init (aevs ++ [ASession code bid topic; AConnect code n cap])) = HOk h /\
              is_member n h = true.
Proof. exact valid_connect_joins. Qed.
Print Assumptions C08_valid_connect_always_joins.

(* non-vacuity: the hypotheses are met after a deny / allow of the same booking *)
Example C08_witness_reconnect :
  let api := [ASession 1 7 3; AConnect 1 11 2; ADeny 7; AAllow 7]%N in
  aconn_fresh [] (api ++ [ASession 2 7 3; AConnect 2 12 2]%N) /\
  memN 7%N (denied (lite_after false lite_init api)) = false /\
  members_are (run hub_init (lower_all false lite_init (api ++ [ASession 2 7 3; AConnect 2 12 2]%N))) [12%N] [11%N] = true.
Proof. vm_compute. repeat split; intuition discriminate. Qed.

Example C08_witness :
  let api := [ASession 1 7 3; AConnect 1 11 2; ADeny 7; AAllow 7; ASession 2 7 3; AConnect 2 12 2; ASend 12 5]%N in
  aconn_fresh [] api /\
  lower_all false lite_init api =
    [WsAdd 7 11; Register 11 3 2; DenyBid 7; Unregister 11; WsAdd 7 12; Register 12 3 2; Broadcast 12 5]%N /\
  members_are (run hub_init (lower_all false lite_init api)) [12%N] [11%N] = true /\
  snd (crun_old cm_init [Add 7 11 11; DelCloseParent 7; DelChild 11; Add 7 12 12]%N) = [ROk; ROk; ROk; RPanicNilMap] /\
  snd (crun cm_init [Add 7 11 11; DelCloseParent 7; DelChild 11; Add 7 12 12]%N) = [ROk; ROk; ROk; ROk] /\
  let flood := [Register 1 9 1; Register 2 9 1; Register 3 9 4; Broadcast 3 100; Drain 2 1; Broadcast 3 101; Drain 2 1; Broadcast 3 102]%N in
  evs_fresh [] [] flood /\
  members_are (run hub_init flood) [2; 3]%N [1%N] = true /\
  run_gen false hub_init flood = HStuck.
Proof. vm_compute. repeat split; intuition discriminate. Qed.
