(* C15 - A stream carries exactly its latest rule's feeds; rule edits never crash host.
   Only statements, each closed by [exact] of a lemma proved in Proofs/Agg_proofs.v.
   [run true] / [final true] is the model of the hub with fixes/F09 applied; [false] is the code before it. *)
From Relay Require Import Base.Prelude Base.AList Model.Agg Proofs.Agg_proofs.

(* no history of register / unregister / add-rule / delete / delete-all / broadcast makes the hub
   close a Stopped channel twice: the run never reports a panic and the hub state always exists *)
Theorem C15_agg_never_panics :
  forall ops, snd (run true init ops) = false /\ final true ops <> None.
Proof. intros ops. exact (conj (agg_never_panics ops) (agg_never_dies ops)). Qed.
Print Assumptions C15_agg_never_panics.

(* after every history, for every registered stream client: the feeds of its live (not stopped)
   sub-subscriptions are, in order, the feeds of the latest rule of its stream (none if the rule was
   deleted or never set), and each of them is a member of the inner hub *)
Theorem C15_subs_match_rule :
  forall ops s c t,
    final true ops = Some s -> snd c = TStream t -> reg_of ops c = true ->
    live_feeds c s = match rule_of ops t with Some fs => fs | None => [] end /\
    (forall id f, In (id, f) (entries c s) -> ~ In id (closed s) /\ In (MSub id f c) (inner s)).
Proof. exact subs_match_rule. Qed.
Print Assumptions C15_subs_match_rule.

(* a message broadcast on feed f after a history (in which a client object registers once) is offered
   to exactly: the registered plain subscribers of f, and the registered stream subscribers whose
   stream's latest rule names f *)
Theorem C15_delivery_spec :
  forall ops f, wf ops ->
    exists out, run true init (ops ++ [Bcast f]) = (fst (run true init ops) ++ [out], false) /\
      forall c, In c out <-> expected ops f c.
Proof. exact delivery_spec_run. Qed.
Print Assumptions C15_delivery_spec.

(* rule operations leave the inner-hub membership of plain clients alone; after any history it is
   decided by the client's own register / unregister operations *)
Theorem C15_plain_unaffected :
  (forall s o s' out c g, Inv s -> is_rule_op o = true -> step true s o = Ok s' out -> snd c = TFeed g ->
     (In (MPlain c) (inner s') <-> In (MPlain c) (inner s))) /\
  (forall ops c g, snd c = TFeed g ->
     exists s, final true ops = Some s /\
       (In (MPlain c) (inner s) <-> reg_of ops c = true) /\
       reg_of ops c = reg_of (filter (fun o => negb (is_rule_op o)) ops) c).
Proof. exact plain_unaffected. Qed.
Print Assumptions C15_plain_unaffected.

(* a rule for the reserved word "deleteAll" is ignored and never stored *)
Theorem C15_reserved_id :
  (forall fx s fs, step fx s (AddRule reserved fs) = Ok s []) /\
  (forall ops s, final true ops = Some s -> rlk reserved (rules s) = None).
Proof. exact reserved_id. Qed.
Print Assumptions C15_reserved_id.

(* a rule edit takes effect at once: after an operation that leaves stream t without feed f (a rule for
   t that does not name f, a delete of t's rule, a delete-all) the very next broadcast on f is not
   offered to any subscriber of t; after a rule that names f it is offered to every registered one *)
Theorem C15_muted_feed_stops :
  forall ops o t f c, wf (ops ++ [o]) -> mutes o t f -> snd c = TStream t ->
    exists out, run true init ((ops ++ [o]) ++ [Bcast f]) = (fst (run true init (ops ++ [o])) ++ [out], false) /\
      ~ In c out.
Proof. exact muted_feed_stops. Qed.
Print Assumptions C15_muted_feed_stops.

Theorem C15_new_feed_starts :
  forall ops t fs f c,
    wf (ops ++ [AddRule t fs]) -> t <> reserved -> In f fs -> snd c = TStream t -> reg_of ops c = true ->
    exists out, run true init ((ops ++ [AddRule t fs]) ++ [Bcast f]) =
                  (fst (run true init (ops ++ [AddRule t fs])) ++ [out], false) /\ In c out.
Proof. exact new_feed_starts. Qed.
Print Assumptions C15_new_feed_starts.

Example C15_rule_edit_witness :
  let a := (1, TStream 1)%N in
  let h := [Register a; AddRule 1 [7; 8]]%N in
  mutes (AddRule 1 [8]%N) 1%N 7%N /\ mutes (Delete 1%N) 1%N 8%N /\ mutes DeleteAll 1%N 8%N /\ reg_of h a = true /\
  fst (run true init (h ++ [Bcast 7; AddRule 1 [8]; Bcast 7; Bcast 8; Delete 1; Bcast 8]%N)) =
    [[]; []; [a]; []; []; [a]; []; []].
Proof.
  vm_compute. repeat split; try discriminate; try reflexivity.
  - intros [H|H]; [discriminate|exact H].
  - left; reflexivity.
Qed.

(* plain subscribers, for EVERY history (no assumption on how clients register): a plain subscriber of
   feed g is offered a broadcast on f exactly when it is registered and g = f - rules play no part *)
Theorem C15_plain_delivery :
  forall ops c g f, snd c = TFeed g ->
    exists s, final true ops = Some s /\
      (In c (recipients f (inner s)) <-> reg_of ops c = true /\ g = f).
Proof. exact plain_delivery. Qed.
Print Assumptions C15_plain_delivery.

(* topics and rule keys arrive by name: a topic is a stream exactly when its name begins with "stream/";
   only the exact string "deleteAll" is read as the reserved rule key *)
Theorem C15_names :
  (forall name n, (topic_of_name name n = TStream n <-> prefix "stream/" name = true) /\
                  (topic_of_name name n = TFeed n <-> prefix "stream/" name = false)) /\
  (forall name n, n <> reserved -> (stream_of_name name n = reserved <-> name = "deleteAll"%string)).
Proof. exact (conj topic_of_name_spec stream_reserved_is_exact_word). Qed.
Print Assumptions C15_names.

Example C15_names_witness :
  topic_of_name "streamcam/video" 3 = TFeed 3 /\ topic_of_name "stream" 4 = TFeed 4 /\
  topic_of_name "Stream/x" 5 = TFeed 5 /\ topic_of_name "stream//a" 1 = TStream 1 /\ topic_of_name "stream/" 2 = TStream 2 /\
  stream_of_name "deleteall" 3 = 3%N /\ stream_of_name "deleteAll/" 3 = 3%N /\ stream_of_name "deleteAll" 3 = reserved.
Proof. vm_compute. repeat split. Qed.

(* defect F9, for the record: the same three histories on the model of the code before the repair
   (stopped entries left in SubClients) end in "close of closed channel"; after it they do not *)
Example C15_F9_before_and_after_repair :
  let c := (1, TStream 1)%N in
  let pre := [Register c; AddRule 1 [7]]%N in
  snd (run false init (pre ++ [Delete 1%N; Unregister c])) = true /\
  snd (run false init (pre ++ [DeleteAll; DeleteAll])) = true /\
  snd (run false init (pre ++ [Delete 1%N; DeleteAll])) = true /\
  snd (run true init (pre ++ [Delete 1%N; Unregister c; DeleteAll; DeleteAll; Delete 1%N])) = false.
Proof. vm_compute. repeat split. Qed.

(* non-vacuity: a well-formed history with two stream clients, a plain client, a replaced and a
   deleted rule; the hypotheses of the theorems above are met and the broadcasts reach whom they say *)
Example C15_witness :
  let a := (1, TStream 1)%N in let b := (2, TStream 2)%N in let p := (3, TFeed 7)%N in
  let h := [Register a; Register p; AddRule 1 [7; 8]; Register b; AddRule 2 [8]; AddRule 1 [8]; Delete 2]%N in
  reg_of h a = true /\ rule_of h 1%N = Some [8%N] /\ rule_of h 2%N = None /\
  fst (run true init (h ++ [Bcast 7; Bcast 8]%N)) = [[]; []; []; []; []; []; []; [p]; [a]] /\
  (exists s, final true h = Some s /\ live_feeds a s = [8%N] /\ live_feeds b s = [] /\ closed s <> []).
Proof.
  vm_compute. repeat split; try reflexivity.
  eexists. split; [reflexivity|]. repeat split; discriminate.
Qed.

Lemma C15_witness_wf :
  wf [Register (1, TStream 1); Register (3, TFeed 7); AddRule 1 [7; 8]; Register (2, TStream 2)]%N.
Proof.
  intros p c q E.
  destruct p as [|o1 [|o2 [|o3 [|o4 [|o5 p]]]]]; cbn in E; inversion E; subst; try reflexivity.
Qed.
