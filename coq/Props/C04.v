(* C04 - Read and write capabilities are enforced: only writers are heard, only readers are
   written to, and capabilities come from exactly the "read" and "write" scopes.
   Only statements, each closed by [exact] of a lemma proved in Proofs/Hub_proofs.v. *)
From Relay Require Import Base.Prelude Model.Hub Proofs.Hub_proofs Proofs.Hub_more_proofs.

(* a message arriving on a connection without the write capability changes nothing at all *)
Theorem C04_nonwriter_noop :
  forall s n mt d sd, sender s n = Some sd -> can_write sd = false -> step s (Recv n mt d) = s.
Proof. exact nonwriter_noop. Qed.
Print Assumptions C04_nonwriter_noop.

(* a message for a name with no open connection changes nothing at all *)
Theorem C04_unknown_sender_noop :
  forall s n mt d, sender s n = None -> step s (Recv n mt d) = s.
Proof. exact unknown_sender_noop. Qed.
Print Assumptions C04_unknown_sender_noop.

(* every history: whatever a connection holds was received by the hub from a connection that had the write capability *)
Theorem C04_heard_only_from_writers :
  forall evs c m, In c (conns (run init evs)) -> In m (content c) ->
    exists evs1 n mt d evs2 sd,
      evs = evs1 ++ Recv n mt d :: evs2 /\ sender (run init evs1) n = Some sd /\
      can_write sd = true /\ m = mkmsg n (topic sd) mt d.
Proof. exact heard_only_from_writers. Qed.
Print Assumptions C04_heard_only_from_writers.

(* every history: nothing is ever written, or being written, to a connection without the read capability *)
Theorem C04_nonreader_deaf :
  forall evs c, In c (conns (run init evs)) -> can_read c = false -> out c = [] /\ cur c = [].
Proof. exact nonreader_deaf. Qed.
Print Assumptions C04_nonreader_deaf.

(* the capabilities are: can read iff some scope is "read", can write iff some scope is "write" *)
Theorem C04_caps_exact :
  forall scopes,
    caps scopes = (existsb (fun sc => String.eqb sc "read") scopes,
                   existsb (fun sc => String.eqb sc "write") scopes).
Proof. exact caps_exact. Qed.
Print Assumptions C04_caps_exact.

(* the same, as list membership *)
Theorem C04_caps_membership :
  forall scopes,
    (fst (caps scopes) = true <-> In "read"%string scopes) /\
    (snd (caps scopes) = true <-> In "write"%string scopes).
Proof. exact caps_membership. Qed.
Print Assumptions C04_caps_membership.

(* a token with neither scope is refused a connection *)
Theorem C04_neither_refused :
  forall rq, ~ In "read"%string (r_scopes rq) -> ~ In "write"%string (r_scopes rq) -> ws_accept rq = None.
Proof. exact neither_refused. Qed.
Print Assumptions C04_neither_refused.

(* scopes other than "read" and "write" add no capability *)
Theorem C04_extra_scopes_add_nothing :
  forall scopes,
    caps (filter (fun sc => String.eqb sc "read" || String.eqb sc "write") scopes) = caps scopes.
Proof. exact extra_scopes_add_nothing. Qed.
Print Assumptions C04_extra_scopes_add_nothing.

(* stated on the tokens. Every history: if every registration under name n came out of admission with a token WITHOUT the write scope, nothing from n is queued for, being written to or written to anybody *)
Theorem C04_token_without_write_never_heard :
  forall evs n,
    (forall r, In (Register r) evs -> name r = n ->
               exists rq, ws_accept rq = Some r /\ ~ In "write"%string (r_scopes rq)) ->
    forall c m, In c (conns (run init evs)) -> In m (content c) -> m_name m <> n.
Proof. exact token_without_write_never_heard. Qed.
Print Assumptions C04_token_without_write_never_heard.

(* every history: a connection all of whose registrations came out of admission with a token WITHOUT the read scope never has a frame written or opened *)
Theorem C04_token_without_read_deaf :
  forall evs c, In c (conns (run init evs)) ->
    (forall r, In (Register r) evs -> name r = name c ->
               exists rq, ws_accept rq = Some r /\ ~ In "read"%string (r_scopes rq)) ->
    out c = [] /\ cur c = [].
Proof. exact token_without_read_deaf. Qed.
Print Assumptions C04_token_without_read_deaf.

(* every history whose registrations all come out of admission: the hub never holds a connection that can neither read nor write *)
Theorem C04_members_have_a_scope :
  forall evs c,
    (forall r, In (Register r) evs -> exists rq, ws_accept rq = Some r) ->
    In c (conns (run init evs)) -> can_read c = true \/ can_write c = true.
Proof. exact members_have_a_scope. Qed.
Print Assumptions C04_members_have_a_scope.

(* admission gives exactly the capabilities the token's scopes spell, and at least one *)
Theorem C04_accept_caps :
  forall rq r, ws_accept rq = Some r ->
    (can_read r = true <-> In "read"%string (r_scopes rq)) /\
    (can_write r = true <-> In "write"%string (r_scopes rq)) /\
    (In "read"%string (r_scopes rq) \/ In "write"%string (r_scopes rq)).
Proof. exact accept_caps. Qed.
Print Assumptions C04_accept_caps.

(* non-vacuity of the token-level theorems: a history of accepted registrations in which connection 2 (token: read and a look-alike of write) talks and connection 1 (token: write only) is sent to *)
Example C04_token_witness :
  let mk := fun n sc => match ws_accept (mkreq n "/session/t" "t" sc 2) with
                        | Some c => c | None => mkclient 0 "" false false 0 [] [] [] Closed 0 end in
  let h := [Register (mk 1 ["write"]); Register (mk 2 ["read"; "Write"]); Register (mk 3 ["read"; "write"]);
            Recv 2 1 [20]; Recv 3 1 [30]; Take 1; Take 2; Close 2]%N%string in
  (forall r, In (Register r) h -> name r = 2%N ->
             exists rq, ws_accept rq = Some r /\ ~ In "write"%string (r_scopes rq)) /\
  (forall r, In (Register r) h -> name r = 1%N ->
             exists rq, ws_accept rq = Some r /\ ~ In "read"%string (r_scopes rq)) /\
  map (fun c => (map (map m_data) (out c), length (queue c))) (conns (run init h)) = [([], O); ([[[30%N]]], O); ([], O)].
Proof.
  split; [|split].
  - intros r [H|[H|[H|[H|[H|[H|[H|[H|[]]]]]]]]] Hn; try discriminate; injection H as <-; try discriminate Hn.
    exists (mkreq 2 "/session/t" "t" ["read"; "Write"]%string 2). split; [reflexivity|].
    intros [E|[E|[]]]; discriminate.
  - intros r [H|[H|[H|[H|[H|[H|[H|[H|[]]]]]]]]] Hn; try discriminate; injection H as <-; try discriminate Hn.
    exists (mkreq 1 "/session/t" "t" ["write"]%string 2). split; [reflexivity|].
    intros [E|[]]; discriminate.
  - vm_compute. reflexivity.
Qed.

(* non-vacuity: a write-only connection 1, a read-only connection 2 and a read-write connection 3
   on one topic, each accepted through ws_accept with an extra scope; what the read-only one
   sends changes nothing; the write-only one is given messages but its writer discards them *)
Example C04_witness :
  let mk := fun n sc => match ws_accept (mkreq n "/session/a" "a" sc 4) with
                        | Some c => c | None => mkclient 0 "" false false 0 [] [] [] Closed 0 end in
  let h0 := [Register (mk 1 ["write"; "host"]); Register (mk 2 ["read"; "host"]);
             Register (mk 3 ["host"; "read"; "write"])]%N%string in
  let s0 := run init h0 in
  let h := h0 ++ [Recv 2 1 [20]; Recv 1 1 [10]; Recv 3 1 [30]]%N ++ drain 1 0 ++ drain 2 1 in
  let s := run init h in
  map (fun c => (can_read c, can_write c)) (conns s0) = [(false, true); (true, false); (true, true)] /\
  step s0 (Recv 2 1 [20]%N) = s0 /\
  map (fun c => map m_data (content c)) (conns s) = [[]; [[10]; [30]]; [[10]]]%N /\
  map (fun c => map (map m_data) (out c)) (conns s) = [[]; [[[10]; [30]]]; []]%N /\
  map m_data (log s) = [[10]; [30]]%N /\
  ws_accept (mkreq 4 "/session/a" "a" ["host"; "reader"]%string 4) = None /\
  exists c m, nth_error (conns (run init (h0 ++ [Recv 3 1 [30]%N]))) 0 = Some c /\
              can_read c = false /\ In m (content c) /\ m_data m = [30]%N.
Proof.
  vm_compute. repeat split. do 2 eexists. split; [reflexivity|]. split; [reflexivity|].
  split; [left; reflexivity|reflexivity].
Qed.
