(* C10 - Deny and allow lists behave as one consistent register.
   Only statements, each closed by [exact] of a lemma proved in Proofs/DenyStore_proofs.v. *)
From Relay Require Import Base.Prelude Base.AList Model.DenyStore Proofs.DenyStore_proofs Proofs.DenyStore_concurrent.
From Relay Require Model.SerialEq.

(* every history, from the empty store: a booking id is never on both lists *)
Theorem C10_never_on_both_lists :
  forall t ops id, ~ (on_deny (final (init t) ops) id /\ on_allow (final (init t) ops) id).
Proof. intros t ops id. exact (never_both (init t) ops id (inv_init t)). Qed.
Print Assumptions C10_never_on_both_lists.

(* every history: the two Go maps behave exactly like ONE register id -> (status, expiry):
   same outputs for every operation, and the same contents afterwards *)
Theorem C10_refines_single_register :
  forall t ops,
    R (fst (run (init t) ops)) (fst (spec_run (mkspec [] t) ops)) /\
    snd (run (init t) ops) = snd (spec_run (mkspec [] t) ops).
Proof. intros t ops. exact (refinement_run ops (init t) (mkspec [] t) (inv_init t) (R_init t)). Qed.
Print Assumptions C10_refines_single_register.

(* the status of an id is the one set by the most recent deny/allow for it *)
Theorem C10_last_writer_wins :
  forall t ops1 o ops2 id w e,
    sets (final (init t) ops1) o id = Some (w, e) ->
    quiet (fst (step (final (init t) ops1) o)) ops2 id e ->
    abs_lookup (final (init t) (ops1 ++ o :: ops2)) id = Some (w, e).
Proof. intros t ops1 o ops2 id w e. exact (last_writer_wins (init t) ops1 o ops2 id w e (inv_init t)). Qed.
Print Assumptions C10_last_writer_wins.

(* entries disappear (or change) only through an operation on the same id or a prune after their own expiry *)
Theorem C10_vanish_only_by_own_expiry :
  forall t ops o id w e,
    abs_lookup (final (init t) ops) id = Some (w, e) ->
    abs_lookup (fst (step (final (init t) ops) o)) id <> Some (w, e) ->
    sets (final (init t) ops) o id <> None \/ (o = OPrune /\ (e < now (final (init t) ops))%Z).
Proof. intros t ops o id w e. exact (vanish_only_by_own_expiry _ o id w e (inv_final _ ops (inv_init t))). Qed.
Print Assumptions C10_vanish_only_by_own_expiry.

Theorem C10_prune_keeps_unexpired :
  forall t ops id w e,
    abs_lookup (final (init t) ops) id = Some (w, e) -> (now (final (init t) ops) <= e)%Z ->
    abs_lookup (fst (step (final (init t) ops) OPrune)) id = Some (w, e).
Proof. intros t ops id w e. exact (prune_boundary _ id w e (inv_final _ ops (inv_init t))). Qed.
Print Assumptions C10_prune_keeps_unexpired.

(* the list endpoints report exactly the current contents *)
Theorem C10_lists_exact :
  forall t ops id,
    (forall l, snd (step (final (init t) ops) HListDeny) = RList l ->
       (In id l <-> exists e, abs_lookup (final (init t) ops) id = Some (Denied, e))) /\
    (forall l, snd (step (final (init t) ops) HListAllow) = RList l ->
       (In id l <-> exists e, abs_lookup (final (init t) ops) id = Some (Allowed, e))).
Proof. intros t ops id. exact (lists_exact _ id (inv_final _ ops (inv_init t))). Qed.
Print Assumptions C10_lists_exact.

(* the state the theorems speak of ([final]) is the state component of what the correspondence evaluates ([run]) *)
Theorem C10_final_is_state_of_run :
  forall ops s, fst (run s ops) = final s ops.
Proof. exact final_is_fst_run. Qed.
Print Assumptions C10_final_is_state_of_run.

(* requests with an empty id or an expiry in the past change nothing and are answered 400 *)
Theorem C10_bad_request_noop :
  forall s id e, ((id = 0)%N \/ (e < now s)%Z) ->
    step s (HDeny id e) = (s, RStatus 400) /\ step s (HAllow id e) = (s, RStatus 400).
Proof. exact bad_request_noop. Qed.
Print Assumptions C10_bad_request_noop.

(* ---- concurrent use ----
   The store is one object behind one mutex and each method is one critical section (that is C12's generated obligation
   on the lock IR regenerated from the source). Instantiating the value-level serial-equivalence theorem with the store's
   own step function: for ANY number of threads calling store operations and ANY schedule that runs them to completion,
   the store ends in the state of the sequential history of the same operations in the order in which they took the
   lock (each thread's own order kept) - so every statement above about histories holds of every concurrent execution;
   the first one is spelled out. The harness side is the store-level stress (prune racing re-denies, session racing
   deny, released pair by pair) with these invariants checked afterwards. *)
Theorem C10_concurrent_use_is_a_sequential_history :
  forall progs (s0 : st) sched (s : cstate),
    SerialEq.run ueqb dupd sched (SerialEq.init progs (fun _ => s0)) = Some s -> SerialEq.finished s = true ->
    SerialEq.st s tt = final s0 (map (@SerialEq.c_op unit op) (SerialEq.acqs s)) /\
    (forall i p, nth_error progs i = Some p -> SerialEq.by_thread i (SerialEq.acqs s) = SerialEq.mkcalls i 0 p).
Proof. exact concurrent_store_is_sequential. Qed.
Print Assumptions C10_concurrent_use_is_a_sequential_history.

Theorem C10_concurrent_never_on_both_lists :
  forall t progs sched (s : cstate) id,
    SerialEq.run ueqb dupd sched (SerialEq.init progs (fun _ => init t)) = Some s -> SerialEq.finished s = true ->
    ~ (on_deny (SerialEq.st s tt) id /\ on_allow (SerialEq.st s tt) id).
Proof. exact concurrent_never_on_both_lists. Qed.
Print Assumptions C10_concurrent_never_on_both_lists.

(* the same for the other clauses: whatever the schedule, the two maps are ONE register that saw the operations in the
   order in which they took the lock; the list endpoints asked afterwards report exactly the contents; and the last
   deny/allow for an id in that order decides its status *)
Theorem C10_concurrent_refines_single_register :
  forall t progs sched (s : cstate),
    SerialEq.run ueqb dupd sched (SerialEq.init progs (fun _ => init t)) = Some s -> SerialEq.finished s = true ->
    R (SerialEq.st s tt) (fst (spec_run (mkspec [] t) (map (@SerialEq.c_op unit op) (SerialEq.acqs s)))).
Proof. exact concurrent_refines_single_register. Qed.
Print Assumptions C10_concurrent_refines_single_register.

Theorem C10_concurrent_lists_exact :
  forall t progs sched (s : cstate) id,
    SerialEq.run ueqb dupd sched (SerialEq.init progs (fun _ => init t)) = Some s -> SerialEq.finished s = true ->
    (forall l, snd (step (SerialEq.st s tt) HListDeny) = RList l ->
       (In id l <-> exists e, abs_lookup (SerialEq.st s tt) id = Some (Denied, e))) /\
    (forall l, snd (step (SerialEq.st s tt) HListAllow) = RList l ->
       (In id l <-> exists e, abs_lookup (SerialEq.st s tt) id = Some (Allowed, e))).
Proof. exact concurrent_lists_exact. Qed.
Print Assumptions C10_concurrent_lists_exact.

Theorem C10_concurrent_last_writer_wins :
  forall t progs sched (s : cstate) ops1 o ops2 id w e,
    SerialEq.run ueqb dupd sched (SerialEq.init progs (fun _ => init t)) = Some s -> SerialEq.finished s = true ->
    map (@SerialEq.c_op unit op) (SerialEq.acqs s) = ops1 ++ o :: ops2 ->
    sets (final (init t) ops1) o id = Some (w, e) ->
    quiet (fst (step (final (init t) ops1) o)) ops2 id e ->
    abs_lookup (SerialEq.st s tt) id = Some (w, e).
Proof. exact concurrent_last_writer_wins. Qed.
Print Assumptions C10_concurrent_last_writer_wins.

(* linearizability with return values: the calls, in the order in which their bodies ran, are the calls in
   lock-acquisition order, and every caller got exactly the answer the sequential history gives at that position
   (an IsDenied asked concurrently with a deny or a prune answers as if it ran wholly before or wholly after it) *)
Theorem C10_concurrent_responses_are_sequential :
  forall progs (s0 : st) sched (s : cstate),
    SerialEq.run ueqb dupd sched (SerialEq.init progs (fun _ => s0)) = Some s -> SerialEq.finished s = true ->
    map fst (SerialEq.hist s) = SerialEq.acqs s /\
    map snd (SerialEq.hist s) = snd (run s0 (map (@SerialEq.c_op unit op) (SerialEq.acqs s))).
Proof. exact concurrent_responses_are_sequential. Qed.
Print Assumptions C10_concurrent_responses_are_sequential.

(* non-vacuity: three threads (deny 1 then ask; a session request for 1; an allow for 2); the schedule lets the session
   request in first, then the deny, the allow, the question: the lock was taken in the order 1,0,2,0 and the store is
   what that sequential history gives: 1 denied (the later deny took it off the allow list), 2 allowed *)
Example C10_concurrent_witness :
  let progs := [[(tt, ODeny 1 100); (tt, OIsDenied 1)]; [(tt, HSession false 1 70)]; [(tt, OAllow 2 50)]]%N in
  match SerialEq.run ueqb dupd [1;1;1; 0;0;0; 2;2;2; 0;0;0] (SerialEq.init progs (fun _ => init 10)) with
  | Some s => (SerialEq.finished s, map (@SerialEq.c_tid unit op) (SerialEq.acqs s),
               abs_lookup (SerialEq.st s tt) 1%N, abs_lookup (SerialEq.st s tt) 2%N)
  | None => (false, [], None, None)
  end = (true, [1; 0; 2; 0], Some (Denied, 100%Z), Some (Allowed, 50%Z)).
Proof. vm_compute. reflexivity. Qed.

(* the answers in that execution: the session request was granted (200) because it got in before the deny; the
   question asked after the deny is answered true *)
Example C10_concurrent_responses_witness :
  let progs := [[(tt, ODeny 1 100); (tt, OIsDenied 1)]; [(tt, HSession false 1 70)]; [(tt, OAllow 2 50)]]%N in
  match SerialEq.run ueqb dupd [1;1;1; 0;0;0; 2;2;2; 0;0;0] (SerialEq.init progs (fun _ => init 10)) with
  | Some s => map snd (SerialEq.hist s)
  | None => []
  end = [RStatus 200; RUnit; RUnit; RBool true].
Proof. vm_compute. reflexivity. Qed.

(* non-vacuity: a concrete history reaching a state with both lists populated, where the
   hypotheses of the theorems above are met *)
Example C10_witness :
  let h := [HDeny 1 100; HAllow 2 50; HSession false 3 70; OSetNow 60; OPrune; HDeny 3 90]%N in
  let s := final (init 10) h in
  abs_lookup s 1%N = Some (Denied, 100%Z) /\ abs_lookup s 2%N = None /\ abs_lookup s 3%N = Some (Denied, 90%Z) /\
  sets (final (init 10) [HDeny 1 100]%N) (HAllow 2 50) 2%N = Some (Allowed, 50%Z) /\
  quiet (fst (step (init 10) (HDeny 1 100))) [HAllow 2 50; HSession false 3 70; OSetNow 60; OPrune; HDeny 3 90]%N 1%N 100%Z.
Proof. vm_compute. repeat split; try discriminate; try reflexivity. Qed.
