(* C10 - Deny and allow lists behave as one consistent register.
   Only statements, each closed by [exact] of a lemma proved in Proofs/DenyStore_proofs.v. *)
From Relay Require Import Base.Prelude Base.AList Model.DenyStore Proofs.DenyStore_proofs.

(* every history, from the empty store: a booking id is never on both lists *)
Theorem C10_never_on_both_lists :
  forall t ops id, ~ (on_deny (final (init t) ops) id /\ on_allow (final (init t) ops) id).
Proof. intros t ops id. exact (never_both (init t) ops id (inv_init t)). Qed.
Print Assumptions C10_never_on_both_lists.

(* every history: the two Go maps behave exactly like ONE register id -> (status, expiry):
   same outputs for every operation, and the same contents afterwards *)
Theorem C10_refines_single_register :
  forall t ops,
    R (fst (run (init t) ops)) (fst (spec_run (mkspec [] t) ops)) /\
    snd (run (init t) ops) = snd (spec_run (mkspec [] t) ops).
Proof. intros t ops. exact (refinement_run ops (init t) (mkspec [] t) (inv_init t) (R_init t)). Qed.
Print Assumptions C10_refines_single_register.

(* the status of an id is the one set by the most recent deny/allow for it *)
Theorem C10_last_writer_wins :
  forall t ops1 o ops2 id w e,
    sets (final (init t) ops1) o id = Some (w, e) ->
    quiet (fst (step (final (init t) ops1) o)) ops2 id e ->
    abs_lookup (final (init t) (ops1 ++ o :: ops2)) id = Some (w, e).
Proof. intros t ops1 o ops2 id w e. exact (last_writer_wins (init t) ops1 o ops2 id w e (inv_init t)). Qed.
Print Assumptions C10_last_writer_wins.

(* entries disappear (or change) only through an operation on the same id or a prune after their own expiry *)
Theorem C10_vanish_only_by_own_expiry :
  forall t ops o id w e,
    abs_lookup (final (init t) ops) id = Some (w, e) ->
    abs_lookup (fst (step (final (init t) ops) o)) id <> Some (w, e) ->
    sets (final (init t) ops) o id <> None \/ (o = OPrune /\ (e < now (final (init t) ops))%Z).
Proof. intros t ops o id w e. exact (vanish_only_by_own_expiry _ o id w e (inv_final _ ops (inv_init t))). Qed.
Print Assumptions C10_vanish_only_by_own_expiry.

Theorem C10_prune_keeps_unexpired :
  forall t ops id w e,
    abs_lookup (final (init t) ops) id = Some (w, e) -> (now (final (init t) ops) <= e)%Z ->
    abs_lookup (fst (step (final (init t) ops) OPrune)) id = Some (w, e).
Proof. intros t ops id w e. exact (prune_boundary _ id w e (inv_final _ ops (inv_init t))). Qed.
Print Assumptions C10_prune_keeps_unexpired.

(* the list endpoints report exactly the current contents *)
Theorem C10_lists_exact :
  forall t ops id,
    (forall l, snd (step (final (init t) ops) HListDeny) = RList l ->
       (In id l <-> exists e, abs_lookup (final (init t) ops) id = Some (Denied, e))) /\
    (forall l, snd (step (final (init t) ops) HListAllow) = RList l ->
       (In id l <-> exists e, abs_lookup (final (init t) ops) id = Some (Allowed, e))).
Proof. intros t ops id. exact (lists_exact _ id (inv_final _ ops (inv_init t))). Qed.
Print Assumptions C10_lists_exact.

(* requests with an empty id or an expiry in the past change nothing and are answered 400 *)
Theorem C10_bad_request_noop :
  forall s id e, ((id = 0)%N \/ (e < now s)%Z) ->
    step s (HDeny id e) = (s, RStatus 400) /\ step s (HAllow id e) = (s, RStatus 400).
Proof. exact bad_request_noop. Qed.
Print Assumptions C10_bad_request_noop.

(* non-vacuity: a concrete history reaching a state with both lists populated, where the
   hypotheses of the theorems above are met *)
Example C10_witness :
  let h := [HDeny 1 100; HAllow 2 50; HSession false 3 70; OSetNow 60; OPrune; HDeny 3 90]%N in
  let s := final (init 10) h in
  abs_lookup s 1%N = Some (Denied, 100%Z) /\ abs_lookup s 2%N = None /\ abs_lookup s 3%N = Some (Denied, 90%Z) /\
  sets (final (init 10) [HDeny 1 100]%N) (HAllow 2 50) 2%N = Some (Allowed, 50%Z) /\
  quiet (fst (step (init 10) (HDeny 1 100))) [HAllow 2 50; HSession false 3 70; OSetNow 60; OPrune; HDeny 3 90]%N 1%N 100%Z.
Proof. vm_compute. repeat split; try discriminate; try reflexivity. Qed.
