(* C14 - Status reports tell the truth and the published client can read them.
   Only statements, each closed by [exact] of a lemma proved in Proofs/{Status,Dur,Json}_proofs.v. *)
From Relay Require Import Base.Prelude Base.Json Base.Dur Model.Status.
From Relay Require Import Proofs.Json_proofs Proofs.Dur_proofs Proofs.Status_proofs.
Local Open Scope N_scope.

(* In every hub state a history of register / unregister / eviction / traffic events can reach, the
   report list is the image of the membership under report_of_member: each connection that joined
   and has not left is listed exactly once (nothing missing, nothing stale, no duplicates), and what
   its report says about it is what was bound at its admission. *)
Theorem C14_status_lists_members :
  forall evs now, wf_history evs ->
    let h := hub_run evs in
    get_stats now h = map (report_of_member now) (listed h)
    /\ NoDup (map m_id (listed h))
    /\ (forall id, In id (map m_id (listed h)) <-> present evs id = true)
    /\ (forall m, In m (listed h) ->
          exists m0, joined_as evs (m_id m) = Some m0 /\ identity m = identity m0).
Proof. intros evs now. exact (status_lists_members_lemma evs now). Qed.
Print Assumptions C14_status_lists_members.

(* a report shows the member's own topic, scopes, capabilities, times, user agent, forwarded address *)
Theorem C14_report_shows_identity :
  forall now m, let r := report_of_member now m in
    r_topic r = m_topic m /\ r_scopes r = m_scopes m /\ r_canRead r = m_canRead m /\ r_canWrite r = m_canWrite m
    /\ r_connected r = m_connected m /\ r_expiresAt r = m_expiresAt m /\ r_userAgent r = m_userAgent m
    /\ r_remoteAddr r = m_remoteAddr m.
Proof. exact report_shows_identity. Qed.
Print Assumptions C14_report_shows_identity.

(* every int64 duration, written by Duration.String, is read back exactly by the client's
   lower-case / trim / ParseDuration chain (lr is unicode.ToLower on non-ASCII runes; all that is
   used of it is that it leaves the micro sign alone) *)
Theorem C14_duration_roundtrip :
  forall (lr : N -> N) (d : Z), lr 181 = 181 -> (- two63 <= d < two63)%Z ->
    read_last lr (duration_bytes d) = Some (d, false).
Proof. exact duration_roundtrip. Qed.
Print Assumptions C14_duration_roundtrip.

Theorem C14_duration_roundtrip_parse :
  forall d : Z, (- two63 <= d < two63)%Z -> parse_duration (duration_string d) = Some d.
Proof. exact duration_roundtrip_string. Qed.
Print Assumptions C14_duration_roundtrip_parse.

(* "Never" (and the empty string) are read as never = true, 999h *)
Theorem C14_never_roundtrip :
  forall lr : N -> N,
    read_last lr lit_Never = Some (dur_999h, true) /\ read_last lr [] = Some (dur_999h, true).
Proof. exact never_roundtrip. Qed.
Print Assumptions C14_never_roundtrip.

(* whatever json.Marshal returns for a report list is well-formed JSON *)
Theorem C14_encode_wf :
  forall rs s, encode_reports rs = Some s -> json_wf s = true.
Proof. exact encode_wf_lemma. Qed.
Print Assumptions C14_encode_wf.

(* the published decoder reads an encoded list back as the same values, for every library oracle;
   normalize = the same values with invalid UTF-8 bytes replaced by U+FFFD ... *)
Theorem C14_decode_encode_sanitized :
  forall lr ptime ncanon rs s, encode_reports rs = Some s ->
    decode_reports lr ptime ncanon s = map_opt (normalize lr ptime ncanon) rs.
Proof. exact decode_encode_sanitized_lemma. Qed.
Print Assumptions C14_decode_encode_sanitized.

(* ... which is the identity on strings that are valid UTF-8 *)
Theorem C14_decode_encode :
  forall lr ptime ncanon rs s, encode_reports rs = Some s -> forallb report_valid rs = true ->
    decode_reports lr ptime ncanon s = map_opt (read_back lr ptime ncanon) rs.
Proof. exact decode_encode_lemma. Qed.
Print Assumptions C14_decode_encode.

(* for a hub member the client sees the truth: capabilities, times, strings, and per direction the
   exact time since the last message (or never), size and rate *)
Theorem C14_client_reads_truth :
  forall lr ptime ncanon, lr 181 = 181 -> ncanon lex_zero = Some lex_zero ->
  forall now m tc te,
    ptime (quote_body true (m_connected m)) = Some tc ->
    ptime (quote_body true (m_expiresAt m)) = Some te ->
    frames_read_back ncanon (m_tx m) -> frames_read_back ncanon (m_rx m) ->
    (- two63 <= now - fr_last (m_tx m) < two63)%Z -> (- two63 <= now - fr_last (m_rx m) < two63)%Z ->
    normalize lr ptime ncanon (report_of_member now m) = Some (true_view now tc te m).
Proof. exact client_reads_truth_lemma. Qed.
Print Assumptions C14_client_reads_truth.

(* with fpsFromNs repaired (F13) a listing always encodes, whatever the traffic accumulators hold *)
Theorem C14_encode_total :
  forall now ms, Forall member_ok ms -> exists s, encode_reports (map (report_of_member now) ms) = Some s.
Proof. exact encode_total_lemma. Qed.
Print Assumptions C14_encode_total.

(* the same statement for fpsFromNs as it was is false: one member with mean inter-arrival 0 ns *)
Theorem C14_encode_total_before_repair_refuted :
  member_ok zero_mean_member /\
  encode_reports [report_of_member_with fps_from_ns_unguarded 5 zero_mean_member] = None /\
  exists s, encode_reports [report_of_member 5 zero_mean_member] = Some s.
Proof. exact encode_total_unguarded_refuted_lemma. Qed.
Print Assumptions C14_encode_total_before_repair_refuted.

(* a connection that joined stops being listed only by unregistering or by being evicted by the hub
   as a slow reader *)
Theorem C14_leaves_only_by_unregister_or_eviction :
  forall evs id m, joined_as evs id = Some m -> present evs id = false ->
    exists e, In e evs /\ removes id e.
Proof. exact leaves_only_by_lemma. Qed.
Print Assumptions C14_leaves_only_by_unregister_or_eviction.

(* with the F15 repair the relay's own stats reporter (internal; it never unregisters) is listed in
   every reachable state, whatever traffic its topic carries *)
Theorem C14_feeder_always_listed :
  forall evs id m, wf_history evs -> joined_as evs id = Some m -> m_internal m = true ->
    (forall t, ~ In (Unregister id t) evs) ->
    present evs id = true /\ In id (map m_id (listed (hub_run evs))).
Proof. exact feeder_always_listed_lemma. Qed.
Print Assumptions C14_feeder_always_listed.

(* the burst that evicted the reporter before the repair (a member not marked internal), and the
   same history with the mark *)
Theorem C14_burst_example :
  (forall b, wf_history (ex_burst b)) /\
  map m_id (listed (hub_run (ex_burst false))) = [2] /\ present (ex_burst false) 1 = false /\
  map m_id (listed (hub_run (ex_burst true))) = [2; 1] /\ present (ex_burst true) 1 = true.
Proof. exact burst_example_lemma. Qed.
Print Assumptions C14_burst_example.

(* message boundaries on the stats topic: the relay's write pump appends whatever else is queued to
   the websocket message it is writing, without a delimiter.  statsReporter's rate limit (a round
   starts with a sleep of one second) keeps reports at least a second apart, so a viewer whose
   pump takes each report within a second of its being queued gets exactly one report (one JSON
   array) per websocket message *)
Theorem C14_one_report_per_message :
  forall now waits lats, Forall (fun l => 0 <= l < rate_limit_ms)%Z lats ->
    messages (emit_times now waits) lats = map (fun t => [t]) (emit_times now waits).
Proof. exact one_report_per_message_lemma. Qed.
Print Assumptions C14_one_report_per_message.

(* ... and without that gap two reports share a message (what the client cannot decode) *)
Theorem C14_merged_message_example :
  messages [5000; 5000; 7000]%Z [0; 0; 0]%Z = [[5000; 5000]; [7000]]%Z.
Proof. exact merged_message_example. Qed.
Print Assumptions C14_merged_message_example.

(* F16 (known finding): "every listing the relay emits is read by the published client" is false.
   A report's expiry is string(MarshalText(exp)), the empty string when the token expires after the
   year 9999; and a list with one report whose expiry the client's time parser refuses is refused
   as a whole ... *)
Theorem C14_unreadable_expiry_spoils_the_list :
  forall lr ptime ncanon rs s r,
    encode_reports rs = Some s -> In r rs -> ptime (quote_body true (r_expiresAt r)) = None ->
    decode_reports lr ptime ncanon s = None.
Proof. exact unreadable_expiry_lemma. Qed.
Print Assumptions C14_unreadable_expiry_spoils_the_list.

(* ... witness: the same ordinary connection is readable alone and unreadable next to a
   connection whose expiry text is empty (well-formed JSON all the same) *)
Theorem C14_client_reads_every_listing_refuted :
  let ordinary := far_member 1 (bytes_of "2023-03-10T15:04:45Z") in
  let far := far_member 2 [] in
  (exists s, encode_reports [report_of_member 0 ordinary] = Some s /\
             exists l, decode_reports (fun r => r) far_ptime (fun l => Some l) s = Some l /\ length l = 1%nat) /\
  (exists s, encode_reports (map (report_of_member 0) [ordinary; far]) = Some s /\ json_wf s = true /\
             decode_reports (fun r => r) far_ptime (fun l => Some l) s = None).
Proof. exact far_expiry_refuted_lemma. Qed.
Print Assumptions C14_client_reads_every_listing_refuted.

(* what admission binds: the report of a connection as serveWs builds it shows the path's topic, the
   token's scopes and expiry, the request's user agent and forwarded address, can read / can write
   exactly when the scopes contain "read" / "write", and Never in both directions before any traffic *)
Theorem C14_join_binds_identity :
  forall now id topic scopes connected expires ua xff,
    let r := report_of_member now (member_at_join id topic scopes connected expires ua xff) in
    r_topic r = topic /\ r_scopes r = Some scopes /\ r_connected r = connected /\ r_expiresAt r = expires
    /\ r_userAgent r = ua /\ r_remoteAddr r = xff
    /\ (r_canRead r = true <-> In lit_read scopes) /\ (r_canWrite r = true <-> In lit_write scopes)
    /\ rs_last (r_tx r) = lit_Never /\ rs_last (r_rx r) = lit_Never.
Proof. exact join_binds_identity_lemma. Qed.
Print Assumptions C14_join_binds_identity.

Example C14_join_binds_identity_witness :
  let r := report_of_member 5 (member_at_join 9 [97] [[82; 101; 97; 100]; lit_write; []] [] [] [34] [255]) in
  r_canRead r = false /\ r_canWrite r = true /\ r_scopes r = Some [[82; 101; 97; 100]; lit_write; []].
Proof. vm_compute. repeat split. Qed.

(* "within one reporting interval": whatever arrives on the reporter's queue (update commands, other
   JSON, messages json.Unmarshal refuses - text, binary, empty -, nothing), at the end of every round of the repaired reporter the last report is less
   than StatsEvery old - a round lasts at most one second plus StatsEvery, so a change is reported
   within two such rounds (F18 repair) *)
Theorem C14_reporter_keeps_reporting :
  forall every rounds start,
    Forall (fun s => 0 <= s < Z.max 1 every)%Z (silences true every start start rounds).
Proof. exact reporter_keeps_reporting_lemma. Qed.
Print Assumptions C14_reporter_keeps_reporting.

(* the reporter as it was is refuted: messages that are not update commands, one per round, postpone
   the report for as long as they keep coming (silence after n+1 rounds: 1300 ms each) *)
Theorem C14_reporter_keeps_reporting_before_repair_refuted :
  forall n, silences false 1000 0 0 (repeat (RNoise 300) (S n)) <> [] /\
            last (silences false 1000 0 0 (repeat (RNoise 300) (S n))) 0%Z = (1300 * Z.of_nat (S n))%Z.
Proof. exact reporter_starved_lemma. Qed.
Print Assumptions C14_reporter_keeps_reporting_before_repair_refuted.

Example C14_reporter_witness :
  silences true 1000 0 0 [RNoise 300; RGarbled 300 false; RUpdate 10; RTick; RGarbled 999 true]%Z = [0; 0; 0; 0; 0]%Z /\
  silences true 5000 0 0 [RGarbled 300 false; RGarbled 300 false; RGarbled 300 false; RGarbled 300 false]%Z = [1300; 2600; 3900; 0]%Z /\
  silences true 5000 0 0 [RNoise 300; RNoise 300; RNoise 300; RNoise 300; RUpdate 10]%Z = [1300; 2600; 3900; 0; 0]%Z /\
  silences false 5000 0 0 [RNoise 300; RNoise 300; RNoise 300; RNoise 300; RNoise 300]%Z = [1300; 2600; 3900; 5200; 6500]%Z.
Proof. vm_compute. repeat split. Qed.

(* GET /status: whatever the handler writes for a listing (models.Report through the go-openapi JSON
   producer: snake_case names, omitempty, no HTML escaping, final newline) is well-formed JSON, and
   reading it back gives exactly the projected members with their values (strings with invalid
   UTF-8 replaced by U+FFFD) *)
Theorem C14_encode_rest_wf :
  forall rs s, encode_rest rs = Some s ->
    json_wf s = true /\
    exists l, map_opt rest_report rs = Some l /\ parse s = Some (canon false (JArr l)).
Proof. exact encode_rest_wf_lemma. Qed.
Print Assumptions C14_encode_rest_wf.

(* non-vacuity: a history with odd metadata (quotes, an invalid byte, U+2028, a 4-byte rune), one
   leave and one eviction; the listing encodes, is well-formed, and decodes to two reports whose
   topics and user agents are the sanitized ones *)
Definition ex_frames0 := mk_frames 0 0 lex_zero (Finite lex_zero).
Definition ex_member (id : N) (t ua : bytes) :=
  mk_member id t (Some [[114; 101; 97; 100]; [34; 60]]) true false
            (bytes_of "2023-03-10T14:04:45Z") (bytes_of "2023-03-10T15:04:45Z") ua [255] false ex_frames0 ex_frames0.
Definition ex_history : list event :=
  [Register (ex_member 1 [97] [34; 92; 255]); Register (ex_member 2 [97] [226; 128; 168; 240; 159; 152; 128]);
   Register (ex_member 3 [98] []); Traffic 2 Tx (mk_frames 3 1000 [53] NonFinite); Unregister 1 [97];
   Register (ex_member 4 [98] [60; 62; 38]); Broadcast [98] [3]].
Definition ex_ptime (raw : bytes) : option (Z * Z) :=
  if bytes_eqb raw (bytes_of "2023-03-10T14:04:45Z") then Some (1678457085, 0)%Z
  else if bytes_eqb raw (bytes_of "2023-03-10T15:04:45Z") then Some (1678460685, 0)%Z else None.

Example C14_witness :
  wf_history ex_history /\
  map m_id (listed (hub_run ex_history)) = [2; 4] /\
  present ex_history 1 = false /\ present ex_history 2 = true /\ present ex_history 3 = false /\
  exists s, encode_reports (get_stats 4600000001000 (hub_run ex_history)) = Some s /\ json_wf s = true /\
    option_map (map (fun d => (d_topic d, d_userAgent d, d_last (d_tx d), d_never (d_tx d), d_never (d_rx d))))
               (decode_reports (fun r => r) ex_ptime (fun l => Some l) s)
    = Some [([97], [226; 128; 168; 240; 159; 152; 128], 4600000000000%Z, false, true);
            ([98], [60; 62; 38], dur_999h, true, true)].
Proof.
  split; [cbn; repeat split; try reflexivity; try discriminate; intros id [<-|[]]; reflexivity|].
  split; [vm_compute; reflexivity|]. split; [vm_compute; reflexivity|]. split; [vm_compute; reflexivity|].
  split; [vm_compute; reflexivity|].
  eexists. split; [vm_compute; reflexivity|]. split; vm_compute; reflexivity.
Qed.

Example C14_encode_rest_witness :
  exists s, encode_rest (get_stats 4600000001000 (hub_run ex_history)) = Some s /\ json_wf s = true /\
            encode_rest [] = Some [91; 93; 10].
Proof. eexists. split; [vm_compute; reflexivity|]. split; vm_compute; reflexivity. Qed.

