(* C09 - Administrative and status endpoints require their own scopes.
   Model: Model/Access.v [handle true] (router, authenticator, binder, handlers of the tree with F07 applied).
   Only statements, each closed by [exact] of a lemma of Proofs/Access_proofs.v. *)
From Relay Require Import Base.Prelude Base.AList Model.DenyStore Model.Token Model.Access
  Proofs.Access_proofs Proofs.Access_history.
Local Open Scope string_scope.

(* listing, denying, allowing: a 2xx answer, or ANY change of the state (deny list, allow list, code store,
   hub membership, counters), happens only for a verified unexpired token for this host that carries
   exactly "relay:admin" *)
Theorem C09_admin_only :
  forall cfg s r,
    admin_route (r_route r) ->
    success (snd (handle true cfg s r)) \/ fst (handle true cfg s r) <> s ->
    exists b, r_cred r = Bearer b /\ valid_principal (clock s) (cfg_host cfg) (cfg_secret cfg) b /\
              In "relay:admin" (c_scopes (b_claims b)).
Proof. exact admin_only. Qed.
Print Assumptions C09_admin_only.

(* the status report likewise, with "relay:stats" *)
Theorem C09_stats_only :
  forall cfg s r,
    r_route r = RStatus ->
    success (snd (handle true cfg s r)) \/ fst (handle true cfg s r) <> s ->
    exists b, r_cred r = Bearer b /\ valid_principal (clock s) (cfg_host cfg) (cfg_secret cfg) b /\
              In "relay:stats" (c_scopes (b_claims b)).
Proof. exact stats_only. Qed.
Print Assumptions C09_stats_only.

(* any bearer whose scope list does not contain the exact scope is refused with an error status and the
   state is untouched - whatever else is or is not wrong with the token or the query values *)
Theorem C09_missing_scope_refused :
  forall cfg s r b scope,
    (admin_route (r_route r) /\ scope = "relay:admin") \/ (r_route r = RStatus /\ scope = "relay:stats") ->
    r_cred r = Bearer b -> ~ In scope (c_scopes (b_claims b)) ->
    refusal (snd (handle true cfg s r)) /\ fst (handle true cfg s r) = s.
Proof. exact missing_scope_refused. Qed.
Print Assumptions C09_missing_scope_refused.

(* and when the token itself verifies and the query values bind, the status is 401 *)
Theorem C09_missing_scope_is_401 :
  forall cfg s r c,
    validate_header (clock s) (cfg_host cfg) (cfg_secret cfg) (r_cred r) = Principal c ->
    (r_route r = RListDeny /\ ~ In "relay:admin" (c_scopes c)) \/
    (r_route r = RListAllow /\ ~ In "relay:admin" (c_scopes c)) \/
    (r_route r = RDeny /\ bind_params r <> None /\ ~ In "relay:admin" (c_scopes c)) \/
    (r_route r = RAllow /\ bind_params r <> None /\ ~ In "relay:admin" (c_scopes c)) \/
    (r_route r = RStatus /\ ~ In "relay:stats" (c_scopes c)) ->
    handle true cfg s r = (s, Resp 401 BError).
Proof. exact missing_scope_401. Qed.
Print Assumptions C09_missing_scope_is_401.

(* scope matching is string equality: none of the look-alike spellings (trailing/leading space, other case,
   prefixes, suffixes, comma- or space-joined lists, the stats scope, session scopes, wildcards, "") opens an
   admin endpoint, alone or in any combination *)
Theorem C09_lookalike_scopes :
  forall cfg s r b,
    admin_route (r_route r) -> r_cred r = Bearer b ->
    (forall x, In x (c_scopes (b_claims b)) -> In x lookalikes) ->
    refusal (snd (handle true cfg s r)) /\ fst (handle true cfg s r) = s.
Proof. exact lookalike_scopes. Qed.
Print Assumptions C09_lookalike_scopes.

Theorem C09_scope_match_is_equality :
  forall x l, str_mem x l = true <-> In x l.
Proof. exact str_mem_in. Qed.
Print Assumptions C09_scope_match_is_equality.

(* "otherwise invalid tokens are refused": whenever the authenticator does not produce a principal (no header,
   damaged token, wrong alg, wrong key, outside its window, other audience) every endpoint answers with an error
   status and nothing changes *)
Theorem C09_invalid_token_refused :
  forall cfg s r,
    (forall c, validate_header (clock s) (cfg_host cfg) (cfg_secret cfg) (r_cred r) <> Principal c) ->
    refusal (snd (handle true cfg s r)) /\ fst (handle true cfg s r) = s.
Proof. exact unauthenticated_refused. Qed.
Print Assumptions C09_invalid_token_refused.

(* in particular a token carrying the exact scope but signed with anything else than the configured secret (a
   "previous" key, the empty key, ...), whatever key id its header names *)
Theorem C09_forged_scope_refused :
  forall cfg s r b,
    r_cred r = Bearer b -> b_signed b <> Some (cfg_secret cfg) ->
    refusal (snd (handle true cfg s r)) /\ fst (handle true cfg s r) = s.
Proof. exact wrong_key_refused. Qed.
Print Assumptions C09_forged_scope_refused.

(* a refused call disconnects nobody, spends no code and leaves both lists alone *)
Theorem C09_no_disconnect :
  forall cfg s r,
    refusal (snd (handle true cfg s r)) ->
    hub (fst (handle true cfg s r)) = hub s /\ codes (fst (handle true cfg s r)) = codes s /\
    reg (fst (handle true cfg s r)) = reg s.
Proof. exact no_disconnect. Qed.
Print Assumptions C09_no_disconnect.

(* non-vacuity: a history in which a member has joined under booking 1; a deny of booking 1 by a stats-only
   principal is answered 401 and the member stays; the same call by an admin is answered 204, the member is
   gone and the id is on the deny list *)
Definition c09_cfg : config := mkconfig false "h" "w" "w" 30 7.
Definition c09_tok (scopes : list string) : credential :=
  Bearer (mkbearer SWell HS256 [] (Some 7%N) (mkclaims "t" "session" 1 scopes ["h"] (Some 50%Z) (Some 5%Z) (Some 5%Z))).
Definition c09_prefix : list op :=
  [OReq (mkreq (RSession "t") (c09_tok ["read"]) None None); OWs "/session/t" (Some 0%N) 7].

Example C09_witness :
  let s := final c09_cfg (init 10) c09_prefix in
  let denyreq sc := mkreq RDeny (c09_tok sc) (Some 1%N) (Some "40") in
  length (hub s) = 1%nat /\
  handle true c09_cfg s (denyreq ["relay:stats"; "relay:admin "]) = (s, Resp 401 BError) /\
  snd (handle true c09_cfg s (denyreq ["relay:admin"])) = Resp 204 BEmpty /\
  hub (fst (handle true c09_cfg s (denyreq ["relay:admin"]))) = [] /\
  snd (handle true c09_cfg (fst (handle true c09_cfg s (denyreq ["relay:admin"]))) (mkreq RListDeny (c09_tok ["relay:admin"]) None None))
    = Resp 200 (BIds [1%N]) /\
  snd (handle true c09_cfg s (mkreq RStatus (c09_tok ["relay:stats"]) None None))
    = Resp 200 (BReports [mkreport "t" ["read"] 50 true false 7]).
Proof. vm_compute. repeat split; reflexivity. Qed.

(* non-vacuity: an admin-scope token signed with key 8 (header says kid) is answered 500 on deny and the state stays;
   signed with the configured 7 it is answered 204 *)
Example C09_witness_forged :
  let tok k := Bearer (mkbearer SWell HS256 ["kid"] (Some k) (mkclaims "" "" 0 ["relay:admin"] ["h"] (Some 50%Z) None None)) in
  handle true c09_cfg (init 10) (mkreq RDeny (tok 8%N) (Some 1%N) (Some "40")) = (init 10, Resp 500 BError) /\
  snd (handle true c09_cfg (init 10) (mkreq RDeny (tok 7%N) (Some 1%N) (Some "40"))) = Resp 204 BEmpty.
Proof. vm_compute. split; reflexivity. Qed.
