(* C09 - Administrative and status endpoints require their own scopes.
   Model: Model/Access.v [handle true] (router, authenticator, binder, handlers of the tree with F07 applied).
   Only statements, each closed by [exact] of a lemma of Proofs/Access_proofs.v. *)
From Relay Require Import Base.Prelude Base.AList Model.DenyStore Model.Token Model.Access Model.Routing
  Proofs.Access_proofs Proofs.Access_history Proofs.Routing_proofs.
Local Open Scope string_scope.

(* listing, denying, allowing: a 2xx answer, or ANY change of the state (deny list, allow list, code store,
   hub membership, counters), happens only for a verified unexpired token for this host that carries
   exactly "relay:admin" *)
Theorem C09_admin_only :
  forall cfg s r,
    admin_route (r_route r) ->
    success (snd (handle true cfg s r)) \/ fst (handle true cfg s r) <> s ->
    exists b, r_cred r = Bearer b /\ valid_principal (clock s) (cfg_host cfg) (cfg_secret cfg) b /\
              In "relay:admin" (c_scopes (b_claims b)).
Proof. exact admin_only. Qed.
Print Assumptions C09_admin_only.

(* the status report likewise, with "relay:stats" *)
Theorem C09_stats_only :
  forall cfg s r,
    r_route r = RStatus ->
    success (snd (handle true cfg s r)) \/ fst (handle true cfg s r) <> s ->
    exists b, r_cred r = Bearer b /\ valid_principal (clock s) (cfg_host cfg) (cfg_secret cfg) b /\
              In "relay:stats" (c_scopes (b_claims b)).
Proof. exact stats_only. Qed.
Print Assumptions C09_stats_only.

(* any bearer whose scope list does not contain the exact scope is refused with an error status and the
   state is untouched - whatever else is or is not wrong with the token or the query values *)
Theorem C09_missing_scope_refused :
  forall cfg s r b scope,
    (admin_route (r_route r) /\ scope = "relay:admin") \/ (r_route r = RStatus /\ scope = "relay:stats") ->
    r_cred r = Bearer b -> ~ In scope (c_scopes (b_claims b)) ->
    refusal (snd (handle true cfg s r)) /\ fst (handle true cfg s r) = s.
Proof. exact missing_scope_refused. Qed.
Print Assumptions C09_missing_scope_refused.

(* and when the token itself verifies and the query values bind, the status is 401 *)
Theorem C09_missing_scope_is_401 :
  forall cfg s r c,
    validate_header (clock s) (cfg_host cfg) (cfg_secret cfg) (r_cred r) = Principal c ->
    (r_route r = RListDeny /\ ~ In "relay:admin" (c_scopes c)) \/
    (r_route r = RListAllow /\ ~ In "relay:admin" (c_scopes c)) \/
    (r_route r = RDeny /\ bind_params r <> None /\ ~ In "relay:admin" (c_scopes c)) \/
    (r_route r = RAllow /\ bind_params r <> None /\ ~ In "relay:admin" (c_scopes c)) \/
    (r_route r = RStatus /\ ~ In "relay:stats" (c_scopes c)) ->
    handle true cfg s r = (s, Resp 401 BError).
Proof. exact missing_scope_401. Qed.
Print Assumptions C09_missing_scope_is_401.

(* scope matching is string equality: none of the look-alike spellings (trailing/leading space, other case,
   prefixes, suffixes, comma- or space-joined lists, the stats scope, session scopes, wildcards, "") opens an
   admin endpoint, alone or in any combination *)
Theorem C09_lookalike_scopes :
  forall cfg s r b,
    admin_route (r_route r) -> r_cred r = Bearer b ->
    (forall x, In x (c_scopes (b_claims b)) -> In x lookalikes) ->
    refusal (snd (handle true cfg s r)) /\ fst (handle true cfg s r) = s.
Proof. exact lookalike_scopes. Qed.
Print Assumptions C09_lookalike_scopes.

Theorem C09_scope_match_is_equality :
  forall x l, str_mem x l = true <-> In x l.
Proof. exact str_mem_in. Qed.
Print Assumptions C09_scope_match_is_equality.

(* "otherwise invalid tokens are refused": whenever the authenticator does not produce a principal (no header,
   damaged token, wrong alg, wrong key, outside its window, other audience) every endpoint answers with an error
   status and nothing changes *)
Theorem C09_invalid_token_refused :
  forall cfg s r,
    ~ public_route (r_route r) ->   (* the documentation resources and OPTIONS * never look at a token *)
    (forall c, validate_header (clock s) (cfg_host cfg) (cfg_secret cfg) (r_cred r) <> Principal c) ->
    refusal (snd (handle true cfg s r)) /\ fst (handle true cfg s r) = s.
Proof. exact unauthenticated_refused. Qed.
Print Assumptions C09_invalid_token_refused.

(* in particular a token carrying the exact scope but signed with anything else than the configured secret (a
   "previous" key, the empty key, ...), whatever key id its header names *)
Theorem C09_forged_scope_refused :
  forall cfg s r b,
    ~ public_route (r_route r) ->
    r_cred r = Bearer b -> b_signed b <> Some (cfg_secret cfg) ->
    refusal (snd (handle true cfg s r)) /\ fst (handle true cfg s r) = s.
Proof. exact wrong_key_refused. Qed.
Print Assumptions C09_forged_scope_refused.

(* "for every endpoint and method of the access API": the quantifier over request LINES.  For every method string
   and every request-target byte string (router model: Model/Routing.v - net/http's acceptance, the documentation
   middlewares, method upper-casing, path.Clean of the escaped path, the two denco tables, 404 / 405), a 2xx answer
   or any change of state happens only (a) on one of the three public resources, which change nothing, (b) on
   /session/{id} for a request valid in C01's sense, (c) on the four admin operations for a valid token with exactly
   relay:admin, (d) on /status for a valid token with exactly relay:stats *)
Theorem C09_every_route_is_guarded :
  forall cfg s l,
    let r := req_of l in
    success (snd (handle true cfg s r)) \/ fst (handle true cfg s r) <> s ->
    (public_route (r_route r) /\ fst (handle true cfg s r) = s) \/
    (exists id, r_route r = RSession id /\ valid_request cfg s r) \/
    (admin_route (r_route r) /\
       exists b, r_cred r = Bearer b /\ valid_principal (clock s) (cfg_host cfg) (cfg_secret cfg) b /\ In "relay:admin" (c_scopes (b_claims b))) \/
    (r_route r = RStatus /\
       exists b, r_cred r = Bearer b /\ valid_principal (clock s) (cfg_host cfg) (cfg_secret cfg) b /\ In "relay:stats" (c_scopes (b_claims b))).
Proof. exact guarded_line. Qed.
Print Assumptions C09_every_route_is_guarded.

(* no aliasing: a line reaches an operation only if net/http accepts it, the decoded path is not a documentation
   resource, the method is GET or POST up to ASCII case, and the CLEANED ESCAPED path is found in that method's
   table - whose keys are, byte for byte, /bids/allow, /bids/deny, /status and /session/<one non-empty segment>
   (get_table_inv / post_table_inv); so no prefix, suffix, case variant, %2e or %2F spelling reaches one *)
Theorem C09_no_route_aliasing :
  forall m t r,
    route_of m t = r -> operation r ->
    valid_method m = true /\
    exists raw dec, raw_path_of_target m t = Some raw /\ unescape raw = Some dec /\
      dec <> "/swagger.json" /\ dec <> "/docs" /\
      let esc := escaped_path raw dec in
      (upper m = "GET" /\ get_table (clean esc) = Some r) \/
      (upper m = "POST" /\ post_table (clean_segments esc) (clean esc) = Some r).
Proof. exact route_operation_inv. Qed.
Print Assumptions C09_no_route_aliasing.

Theorem C09_tables_are_the_six_patterns :
  (forall p r, get_table p = Some r ->
     (p = "/bids/allow" /\ r = RListAllow) \/ (p = "/bids/deny" /\ r = RListDeny) \/ (p = "/status" /\ r = RStatus)) /\
  (forall segs p r, post_table segs p = Some r ->
     (p = "/bids/allow" /\ r = RAllow) \/ (p = "/bids/deny" /\ r = RDeny) \/
     (exists seg, segs = ["session"; seg] /\
        ((seg = ":" /\ r = RSession "") \/
         (seg <> ":" /\ exists id, r = RSession id /\ (unescape seg = Some id \/ (unescape seg = None /\ id = seg)))))).
Proof. split; [exact get_table_inv|exact post_table_inv]. Qed.
Print Assumptions C09_tables_are_the_six_patterns.

(* a refused call disconnects nobody, spends no code and leaves both lists alone *)
Theorem C09_no_disconnect :
  forall cfg s r,
    refusal (snd (handle true cfg s r)) ->
    hub (fst (handle true cfg s r)) = hub s /\ codes (fst (handle true cfg s r)) = codes s /\
    reg (fst (handle true cfg s r)) = reg s.
Proof. exact no_disconnect. Qed.
Print Assumptions C09_no_disconnect.

(* non-vacuity: a history in which a member has joined under booking 1; a deny of booking 1 by a stats-only
   principal is answered 401 and the member stays; the same call by an admin is answered 204, the member is
   gone and the id is on the deny list *)
Definition c09_cfg : config := mkconfig false "h" "w" "w" 30 7.
Definition c09_tok (scopes : list string) : credential :=
  Bearer (mkbearer SWell HS256 [] (Some 7%N) (mkclaims "t" "session" 1 scopes ["h"] (Some 50%Z) (Some 5%Z) (Some 5%Z))).
Definition c09_prefix : list op :=
  [OReq (mkreq (RSession "t") (c09_tok ["read"]) None None); OWs "/session/t" (Some 0%N) 7].

Example C09_witness :
  let s := final c09_cfg (init 10) c09_prefix in
  let denyreq sc := mkreq RDeny (c09_tok sc) (Some 1%N) (Some "40") in
  length (hub s) = 1%nat /\
  handle true c09_cfg s (denyreq ["relay:stats"; "relay:admin "]) = (s, Resp 401 BError) /\
  snd (handle true c09_cfg s (denyreq ["relay:admin"])) = Resp 204 BEmpty /\
  hub (fst (handle true c09_cfg s (denyreq ["relay:admin"]))) = [] /\
  snd (handle true c09_cfg (fst (handle true c09_cfg s (denyreq ["relay:admin"]))) (mkreq RListDeny (c09_tok ["relay:admin"]) None None))
    = Resp 200 (BIds [1%N]) /\
  snd (handle true c09_cfg s (mkreq RStatus (c09_tok ["relay:stats"]) None None))
    = Resp 200 (BReports [mkreport "t" ["read"] 50 true false 7]).
Proof. vm_compute. repeat split; reflexivity. Qed.

(* non-vacuity: an admin-scope token signed with key 8 (header says kid) is answered 500 on deny and the state stays;
   signed with the configured 7 it is answered 204 *)
Example C09_witness_forged :
  let tok k := Bearer (mkbearer SWell HS256 ["kid"] (Some k) (mkclaims "" "" 0 ["relay:admin"] ["h"] (Some 50%Z) None None)) in
  handle true c09_cfg (init 10) (mkreq RDeny (tok 8%N) (Some 1%N) (Some "40")) = (init 10, Resp 500 BError) /\
  snd (handle true c09_cfg (init 10) (mkreq RDeny (tok 7%N) (Some 1%N) (Some "40"))) = Resp 204 BEmpty.
Proof. vm_compute. split; reflexivity. Qed.

(* non-vacuity of the routing theorems: spellings that do and do not reach an operation *)
Example C09_witness_routes :
  map (fun mt => route_of (fst mt) (snd mt))
    [("GET", "/bids/deny"); ("get", "//bids/./deny/"); ("POST", "/x/../bids/allow?bid=/status"); ("GET", "http://other.example/status");
     ("GET", "/bids/Deny"); ("GET", "/bids/%64eny"); ("GET", "/bids/deny%2F"); ("GET", "/bids/deny/.."); ("GET", "/bids/deny/x");
     ("PUT", "/bids/deny"); ("HEAD", "/status"); ("POST", "/session/a%2Fb"); ("POST", "/session/:"); ("POST", "/session/a/b");
     ("GET", "/swagger%2Ejson"); ("DELETE", "/docs"); ("OPTIONS", "*"); ("GET", "*"); ("GET", "status"); ("G T", "/status"); ("GET", "/status%")]
  = [RListDeny; RListDeny; RAllow; RStatus;
     RNotFound; RNotFound; RNotFound; RNotFound; RNotFound;
     RBadMethod; RBadMethod; RSession "a/b"; RSession ""; RNotFound;
     RDocSpec; RDocUI; ROptionsStar; RNotFound; ROpaque; ROpaque; ROpaque].
Proof. vm_compute. reflexivity. Qed.
