(* C13 - Whatever a connection used is given back when it ends.
   Only statements, each closed by [exact] of a lemma of Proofs/Resources_proofs.v or
   Proofs/LoopIR_proofs.v.  Histories are arbitrary lists of connects (joined or refused for any
   reason), ends of any kind, and scheduling steps of the three per-connection goroutines, over any
   number of connections, in any order. *)
From Relay Require Import Base.Prelude Base.AList Model.Resources Proofs.Resources_proofs
                          Model.LoopIR Proofs.LoopIR_proofs.

(* FULL STATEMENT (released_after_end): after any history, every connection that has ended - for
   whatever reason, INCLUDING a refusal at admission - holds nothing once its goroutines have
   taken their next steps:
       forall h id c, lookup id (Resources.run h) = Some c -> ended c = true -> held (settle c) = [].
   This is refuted on today's code for refusals that come after the websocket upgrade (F08a, a
   known finding: the socket is not closed; witness below).  The part that holds - every
   connection that had been accepted, whatever ended it - is the _partial theorem; the refused
   ones hold nothing except, possibly, that socket. *)
Theorem C13_released_after_end_partial :
  forall h id c, lookup N.eqb id (Resources.run h) = Some c -> joined c = true -> ended c = true ->
    held (settle c) = [].
Proof. exact released_after_end. Qed.
Print Assumptions C13_released_after_end_partial.

Theorem C13_refused_keeps_only_socket :
  forall h id c k, lookup N.eqb id (Resources.run h) = Some c -> joined c = false ->
    In k (held (settle c)) -> k = Sock.
Proof. exact refused_keeps_only_socket. Qed.
Print Assumptions C13_refused_keeps_only_socket.

Theorem C13_refused_socket_left_open_refuted :
  exists h id c, lookup N.eqb id (Resources.run h) = Some c /\ ended c = true /\ held (settle c) = [Sock].
Proof. exact refused_socket_left_open. Qed.
Print Assumptions C13_refused_socket_left_open_refuted.

(* the footprint is bounded by the LIVE connections (plus, for sockets only, the refused ones of
   F08a): it does not grow with the number of past connections *)
Theorem C13_footprint_bounded :
  forall h k,
    (count_res k (settle_all (Resources.run h)) <=
     live (Resources.run h) + (match k with Sock => refused_open (Resources.run h) | _ => 0 end))%N.
Proof. exact footprint_bounded. Qed.
Print Assumptions C13_footprint_bounded.

(* goroutines exactly: one reader, one writer, one watcher per live connection, nothing else *)
Theorem C13_goroutines_exact :
  forall h k, k = Reader \/ k = Writer \/ k = Watcher ->
    count_res k (settle_all (Resources.run h)) = live (Resources.run h).
Proof. exact goroutines_exact. Qed.
Print Assumptions C13_goroutines_exact.

(* an ended connection is neither in the status report nor in any fan-out set *)
Theorem C13_not_listed_after_end :
  forall h id c, lookup N.eqb id (Resources.run h) = Some c -> ended c = true ->
    ~ In id (status_report (settle_all (Resources.run h))) /\
    forall tp sender, ~ In id (fanout (settle_all (Resources.run h)) tp sender).
Proof. exact not_listed_after_end. Qed.
Print Assumptions C13_not_listed_after_end.

(* "for any reason": whatever end reaches an accepted connection - client close, network loss,
   expiry, cancellation, eviction, or the relay's own shutdown (close(closed): every writePump
   returns and closes its socket) - as the last event of any history, the connection holds nothing
   once its goroutines have taken their next steps.  (The hypothesis `ended` of
   C13_released_after_end_partial is thereby met by each reason.) *)
Theorem C13_any_end_releases :
  forall h id r c, (forall x, r <> Refused x) ->
    lookup N.eqb id (Resources.run (h ++ [EEnd id r])) = Some c -> joined c = true ->
    held (settle c) = [].
Proof. exact any_end_releases. Qed.
Print Assumptions C13_any_end_releases.

Example C13_any_end_releases_nonvacuous :
  forallb (fun r =>
    match lookup N.eqb 2%N (Resources.run ([EConnect 1 Join 7 true; EConnect 2 Join 7 true; EWriter 2] ++ [EEnd 2%N r]))%N with
    | Some c => joined c && negb (Nat.eqb (length (held c)) 0) && Nat.eqb (length (held (settle c))) 0
    | None => false
    end) [ClientClose; NetLoss; Expiry; Cancel; Evict; Shutdown] = true.
Proof. vm_compute. reflexivity. Qed.

(* the idle baseline: when no connection is live (all ended, e.g. after a shutdown reached every
   one of them), nothing at all is held except the sockets F08a leaves behind *)
Theorem C13_idle_baseline :
  forall h k, live (Resources.run h) = 0%N -> k <> Sock ->
    count_res k (settle_all (Resources.run h)) = 0%N.
Proof. exact idle_baseline. Qed.
Print Assumptions C13_idle_baseline.

Example C13_idle_baseline_nonvacuous :
  let h := [EConnect 1 Join 7 true; EConnect 2 Join 8 false; EConnect 3 (Refuse NoCode) 8 true;
            EEnd 1 Shutdown; EEnd 2 Shutdown]%N in
  live (Resources.run h) = 0%N /\ count_res Watcher (Resources.run h) = 2%N /\
  count_res Watcher (settle_all (Resources.run h)) = 0%N /\ count_res Sock (settle_all (Resources.run h)) = 1%N.
Proof. vm_compute. repeat split. Qed.

(* no ghosts: in EVERY reachable state (no settling needed) whoever the status report lists, and
   whoever has a deny channel recorded, is an accepted connection whose reader is still running -
   membership cannot outlive, or be installed after, the reader that is the only one to undo it *)
Theorem C13_listed_has_reader :
  forall h id c, lookup N.eqb id (Resources.run h) = Some c ->
    h_member c = true \/ h_chan c = true -> joined c = true /\ h_reader c = true.
Proof. exact listed_has_reader. Qed.
Print Assumptions C13_listed_has_reader.

Example C13_listed_has_reader_nonvacuous :
  match lookup N.eqb 1%N (Resources.run [EConnect 1 Join 7 true; EEnd 1 Expiry; EWatcher 1; EWriter 1])%N with
  | Some c => h_member c = true /\ h_writer c = false /\ h_reader c = true
  | None => False
  end.
Proof. vm_compute. repeat split. Qed.

(* FULL CLAUSE (services_stop): "On shutdown request the relay's services stop" - every service
   loop of the relay exits after close(closed):
       forall l, In l Gen.LoopGen.loops -> exists n, forall sched, length sched >= n -> run l sched = Exited.
   It is REFUTED for the code as it is (known finding F21): Hub.run has no shutdown case and no case
   that leaves it; by C13_loop_without_exit_never_stops such a loop runs for ever (parked in its
   select). The refutation for the CURRENT source is the generated Gen/LoopGen.services_stop_refuted
   (re-established on every run from the regenerated loop shapes); below, the same fact for the shape
   itself: being accepted by the checker does not make a loop stop. The part that holds - every loop
   that HAS a shutdown case leaves at the iteration that takes it - is the _partial theorem. *)
Theorem C13_services_stop_refuted :
  exists l, loop_ok l = true /\ listens l = false /\ forall sched, LoopIR.run l sched = Running.
Proof.
  exists (mkloop "internal/crossbar/crossbar.go:run" false false
            [mkcase "h.register" Fall; mkcase "h.unregister" Fall; mkcase "h.broadcast" Fall]).
  split; [reflexivity|]. split; [reflexivity|]. apply never_exits. reflexivity.
Qed.
Print Assumptions C13_services_stop_refuted.

(* for ANY list of loop shapes accepted by the checker (the list regenerated from the source is
   Gen/LoopGen.loops, its obligation Gen/LoopGen.loops_ok), taking the shutdown case ends the loop -
   at that iteration at the latest *)
Theorem C13_services_stop_partial :
  forall ls, stops_on_close ls = true ->
  forall l, In l ls ->
  forall i c, nth_error (cases l) i = Some c -> is_shutdown c = true ->
  forall sched, In i sched -> LoopIR.run l sched = Exited.
Proof. exact loops_stop. Qed.
Print Assumptions C13_services_stop_partial.

(* with the other channels quiet, after close(closed) a checked loop that can see `closed` does
   not sleep, and whatever its select picks ends it *)
Theorem C13_quiet_exit :
  forall ls, stops_on_close ls = true ->
  forall l, In l ls -> sees_closed l = true ->
    blocks l (ready_after_close l []) = false /\
    forall i, In i (ready_after_close l []) -> forall rest, LoopIR.run l (i :: rest) = Exited.
Proof. exact quiet_exit. Qed.
Print Assumptions C13_quiet_exit.

(* the defect shape (F08c): a `break` that only leaves the select on the closed case keeps the loop
   running for any number of iterations, and none of them blocks - it spins; the checker rejects it *)
Theorem C13_break_select_spins :
  forall l i c busy, nth_error (cases l) i = Some c -> is_shutdown c = true -> tm c = BreakSelect ->
  forall n, LoopIR.run l (repeat i n) = Running /\
            In i (ready_after_close l busy) /\ blocks l (ready_after_close l busy) = false.
Proof. exact break_select_spins. Qed.
Print Assumptions C13_break_select_spins.

Theorem C13_spinner_rejected :
  forall ls l i c, In l ls -> nth_error (cases l) i = Some c -> is_shutdown c = true ->
    leaves (tm c) = false -> stops_on_close ls = false.
Proof. exact spinner_rejected. Qed.
Print Assumptions C13_spinner_rejected.

(* periodic services stay periodic: a loop accepted by the checker has no case on the channel of a
   timer that is made once (time.NewTimer before the loop) and never re-armed inside it - such a case
   can be taken once only, and a sweeper built on it runs a single period (the translator marks the
   shape, the checker rejects it; the code store's sweeper is also run over three of its periods) *)
Theorem C13_no_oneshot_timer_case :
  forall l c, loop_ok l = true -> In c (cases l) -> is_oneshot c = false.
Proof. exact no_oneshot_case. Qed.
Print Assumptions C13_no_oneshot_timer_case.

Example C13_oneshot_timer_rejected :
  loop_ok (mkloop "sweeper" true false [mkcase "c.closed" Return; mkcase "oneshot:timer.C" Fall]) = false /\
  loop_ok (mkloop "sweeper" true false [mkcase "c.closed" Return; mkcase "time.After(d)" Fall]) = true.
Proof. vm_compute. split; reflexivity. Qed.

(* "no worker is left spinning", the other half: with nothing ready a checked loop sleeps in its
   select (it has no default arm), it does not poll *)
Theorem C13_idle_blocks : forall l, loop_ok l = true -> blocks l [] = true.
Proof. exact idle_blocks. Qed.
Print Assumptions C13_idle_blocks.

(* "the relay's services stop" is NOT true of a loop that has no case leaving it: whatever its
   select picks it keeps running (parked in the select when nothing is ready). Today this is the
   shape of Hub.run - it cannot see `closed` and is listed as DEAF in Gen/LoopGen.v - so the hub
   goroutine outlives a shutdown request (blocked, not spinning); the claim C13_services_stop_partial makes is
   for the loops that have a shutdown case. *)
Theorem C13_loop_without_exit_never_stops :
  forall l, forallb (fun c => negb (leaves (tm c))) (cases l) = true ->
  forall sched, LoopIR.run l sched = Running.
Proof. exact never_exits. Qed.
Print Assumptions C13_loop_without_exit_never_stops.

Example C13_hub_loop_shape_never_stops :
  let hub := mkloop "internal/crossbar/crossbar.go:run" false false
               [mkcase "h.register" Fall; mkcase "h.unregister" Fall; mkcase "h.broadcast" Fall] in
  loop_ok hub = true /\ listens hub = false /\ blocks hub [] = true /\
  LoopIR.run hub [0; 1; 2; 2; 1; 0]%nat = Running.
Proof. vm_compute. repeat split. Qed.

(* non-vacuity: five connections ending in the five ways plus two refusals and one still live,
   goroutine steps interleaved; a checked loop list with a shutdown case; the spinning shape *)
Example C13_witness :
  let h := [EConnect 1 Join 7 true; EConnect 2 Join 7 true; EConnect 3 Join 8 false; EConnect 4 Join 8 true;
            EConnect 5 Join 9 true; EConnect 6 (Refuse BadCode) 9 true; EConnect 7 (Refuse DeniedBooking) 9 true;
            EConnect 8 Join 7 true;
            EEnd 1 ClientClose; EEnd 2 Expiry; EWatcher 2; EEnd 3 Cancel; EEnd 4 Evict; EWriter 4; EEnd 5 NetLoss;
            EReader 1; EReader 5; EWriter 2]%N in
  live (Resources.run h) = 1%N /\
  count_res Watcher (settle_all (Resources.run h)) = 1%N /\ count_res Sock (settle_all (Resources.run h)) = 3%N /\
  status_report (settle_all (Resources.run h)) = [8%N] /\
  (exists c, lookup N.eqb 2%N (Resources.run h) = Some c /\ joined c = true /\ ended c = true /\ held c <> []) /\
  stops_on_close [mkloop "w" true false [mkcase "c.send" Fall; mkcase "closed" Return]] = true /\
  LoopIR.run (mkloop "p" true false [mkcase "closed" BreakSelect]) (repeat 0%nat 1000) = Running.
Proof. vm_compute. repeat split; try reflexivity. eexists; repeat split; try reflexivity. discriminate. Qed.
