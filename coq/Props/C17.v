(* C17 - What the experiment sends into the host is what leaves it.
   Statements only; each is closed by [exact] of a lemma of Proofs/Ingest_proofs.v.
   All of them quantify over EVERY event list [evs] of the model (Model/Ingest.v): every split of the input
   into writes, every placement of the flushes (the 1 ms idle timer is timing, so it is part of the schedule),
   every consumer capacity, every delay between a hand-off and the moment a consumer looks at the message.
   [run false ...] is the code after repair F10 (frame copied before the hand-off); what the tree did
   before is recorded at the end. *)
From Relay Require Import Base.Prelude Model.Ingest Proofs.Ingest_proofs.

(* slices_of_input (both variants of the code; POST /ts/<feed> and tcpconnect, maxf = len(rawFrame)):
   the input is EXACTLY  frame_1 ++ thrown_1 ++ frame_2 ++ thrown_2 ++ ... ++ (bytes still pending),
   so frame k is input[a_k, a_k + |frame_k|) with a_(k+1) = a_k + |frame_k| + |thrown_k|: contiguous,
   non-overlapping, forward only.  Bytes are thrown away only behind a frame of the full buffer size
   (more than maxf bytes were pending at that flush): the truncation is part of the statement. *)
Theorem C17_slices_of_input :
  forall byref maxf caps evs,
    0 < maxf -> forallb (fun e => negb (is_ws_ev e)) evs = true ->
    let s := run byref maxf (init caps) evs in
    slices_at (input_of evs) 0 (handed s) (dropped s) /\
    Forall2 (frame_ok maxf) (handed s) (dropped s) /\
    input_of evs = weave (handed s) (dropped s) ++ acc s.
Proof. exact slices_of_input. Qed.
Print Assumptions C17_slices_of_input.

(* as long as no more than one buffer's worth has been written in total nothing is thrown away: the
   messages handed on, concatenated, are the input (up to what is still pending) *)
Theorem C17_no_truncation_small_input :
  forall byref maxf caps evs,
    0 < maxf -> forallb (fun e => negb (is_ws_ev e)) evs = true ->
    length (input_of evs) <= maxf ->
    let s := run byref maxf (init caps) evs in
    input_of evs = concat (handed s) ++ acc s.
Proof. exact no_truncation_small_input. Qed.
Print Assumptions C17_no_truncation_small_input.

(* content_stable: what a consumer reads, at whatever later time, equals what was handed on *)
Theorem C17_content_stable :
  forall maxf caps evs, Forall (fun c => got c = want c) (cons (run false maxf (init caps) evs)).
Proof. exact content_stable. Qed.
Print Assumptions C17_content_stable.

(* ... and the messages a consumer reads are hand-offs in hand-off order, none repeated, none
   backwards (a lagging consumer may miss some: the hub does not wait for a full queue) *)
Theorem C17_reads_are_handed_frames :
  forall maxf caps evs,
    let s := run false maxf (init caps) evs in Forall (fun c => sub (got c) (handed s)) (cons s).
Proof. exact reads_are_handed_frames. Qed.
Print Assumptions C17_reads_are_handed_frames.

(* the two together, in the words of the property: every message ANY consumer reads, however late it looks, is
   a contiguous slice input[a, a+n) of what was posted (POST /ts/<feed>, tcpconnect) *)
Theorem C17_reads_are_slices_of_input :
  forall maxf caps evs,
    0 < maxf -> forallb (fun e => negb (is_ws_ev e)) evs = true ->
    Forall (fun c => Forall (fun r => exists a, firstn (length r) (skipn a (input_of evs)) = r /\
                                               a + length r <= length (input_of evs)) (got c))
           (cons (run false maxf (init caps) evs)).
Proof. exact reads_are_slices_of_input. Qed.
Print Assumptions C17_reads_are_slices_of_input.

(* websocket ingest (/ws/<feed>) and the reverse direction (destination -> local feed clients): every
   message is handed on whole, in order, as a slice of its own - for both variants of the code *)
Theorem C17_websocket_paths :
  forall byref maxf caps evs,
    forallb (fun e => negb (is_flush e)) evs = true ->
    let s := run byref maxf (init caps) evs in
    handed s = wsmsgs_of evs /\ Forall (fun c => got c = want c /\ sub (got c) (wsmsgs_of evs)) (cons s).
Proof. exact ws_reads_are_sent_messages. Qed.
Print Assumptions C17_websocket_paths.

(* "forwarded to EACH subscribed destination": a destination whose channel holds at least one message and that
   looks at every message as soon as it is handed on misses nothing - what it has read is everything handed
   on, in order - whatever the writes, the flush points and the OTHER destinations (lagging, busy) do.
   The schedule is given from that destination's point of view ([expand c]: every hand-off is followed by its
   [Consume c]); [BO e] is any action of another consumer. *)
Theorem C17_keeping_up_gets_everything :
  forall maxf caps c k bs,
    nth_error caps c = Some k -> 1 <= k -> forallb (blk_ok c) bs = true ->
    let s := run false maxf (init caps) (concat (map (expand c) bs)) in
    exists cs, nth_error (cons s) c = Some cs /\ got cs = handed s.
Proof. exact keeping_up_gets_everything. Qed.
Print Assumptions C17_keeping_up_gets_everything.

(* non-vacuity: consumer 1 keeps up while consumer 0 never looks and is busy once: 1 has all three messages *)
Example C17_keeping_up_witness :
  let bs := [BW [1;2]%N; BF; BO (Busy 0); BM [7]%N; BW [3]%N; BO (Take 0); BF] in
  let s := run false 8 (init [2; 1]) (concat (map (expand 1) bs)) in
  forallb (blk_ok 1) bs = true /\ handed s = [[1;2]; [7]; [3]]%N /\
  map got (cons s) = [[]; [[1;2]; [7]; [3]]]%N.
Proof. vm_compute. repeat split. Qed.

(* ---- the websocket-out direction: hub -> local feed client through handleWs' writePump, which starts a
   websocket message with one hub message and appends whatever is queued in the client's Send channel.
   For every schedule (which offers find the client ready, when writePump runs) and EVERY channel capacity:
   each websocket message is made of unmodified hub messages, and over all websocket messages the parts
   appear in stream order - forward only, none twice (gaps = messages the hub dropped for a slow client) *)
Theorem C17_wsout_frames_in_stream_order :
  forall msg_at wcap evs,
    let s := wrun msg_at wcap evs in
    (exists hi, chain 0 (map fst (concat (wframes s))) hi /\ hi <= wnext s) /\
    Forall (fun f => frame_bytes f = concat (map msg_at (map fst f))) (wframes s).
Proof. exact wsout_frames_in_stream_order. Qed.
Print Assumptions C17_wsout_frames_in_stream_order.

(* a websocket message is a contiguous piece of the stream when no drop happened between its parts
   (its parts are consecutive hub messages k, k+1, ...) - and only this is guaranteed for a buffered channel *)
Theorem C17_wsout_consecutive_frame_is_slice :
  forall msg_at wcap evs f k,
    In f (wframes (wrun msg_at wcap evs)) -> map fst f = seq k (length f) ->
    frame_bytes f = concat (map msg_at (seq k (length f))).
Proof. exact wsout_consecutive_frame_is_slice. Qed.
Print Assumptions C17_wsout_consecutive_frame_is_slice.

(* the code as it is - Send is unbuffered - never has anything to append: every websocket message is
   exactly one hub message, hence always a contiguous slice, whatever the client's pace *)
Theorem C17_wsout_unbuffered_single_message :
  forall msg_at evs, Forall (single msg_at) (wframes (wrun msg_at 0 evs)).
Proof. intros msg_at evs. exact (wsout_unbuffered_single msg_at 0 evs eq_refl). Qed.
Print Assumptions C17_wsout_unbuffered_single_message.

(* with a channel of capacity 2 the same writePump glues messages 0, 1 and 3 into one websocket message
   (message 2 was dropped while the queue was full): not a contiguous slice.  The schedule run on the
   unbuffered code gives single messages. *)
Theorem C17_wsout_buffered_refuted :
  let s := wrun (fun k => [N.of_nat k]) 2 glue_events in
  map (map fst) (wframes s) = [[0; 1; 3]] /\ map frame_bytes (wframes s) = [[0; 1; 3]%N].
Proof. exact wsout_buffered_glues_across_drop. Qed.
Print Assumptions C17_wsout_buffered_refuted.

(* ---- the destination direction with a destination that ends the session and is dialled again (rwc client ->
   RelayOut -> reconws): for every schedule - offers, drops while the queue of capacity dcap is full, sends,
   writes that fail at a cut - what the destination receives over ALL its connections is a sub-sequence of
   the hub messages of the stream in their order: unmodified, strictly forward, none twice.  (The sibling of
   C17_reads_are_handed_frames for the reconnecting destination; losses at a cut are allowed, a message that
   was taken for a failed write is never sent later.) *)
Theorem C17_destination_receives_in_order :
  forall msg_at dcap evs,
    let s := drun msg_at dcap evs in
    (exists hi, chain 0 (map fst (dout s)) hi /\ hi <= dnext s) /\
    Forall (fun p => snd p = msg_at (fst p)) (dout s).
Proof. exact destination_receives_in_order. Qed.
Print Assumptions C17_destination_receives_in_order.

(* ---- the tree before repair F10: message 1 is read after flush 2 and shows frame 2's bytes
   (replayed on the real code by harness/cmd/c17: post AAA, pause, BBB; the queued message reads BBB) *)
Theorem C17_content_stable_pinned_refuted :
  let s := run true 8 (init [2]) f10_events in
  map got (cons s) = [[[66;66;66]%N]] /\ map want (cons s) = [[[65;65;65]%N]] /\
  handed s = [[65;65;65]%N; [66;66;66]%N].
Proof. exact byref_content_changes. Qed.
Print Assumptions C17_content_stable_pinned_refuted.

(* non-vacuity: a run with truncation (buffer of 4, 10 bytes pending at the first flush), a consumer of
   capacity 2 that looks only after two more flushes, one that takes at once and reads late *)
Example C17_witness :
  let evs := [Write [1;2;3]%N; Write [4;5;6;7;8;9;10]%N; Flush; Take 1; Write [11;12]%N; Flush;
              Write [13]%N; Flush; Consume 0; Consume 1; Consume 0; Write [14]%N]%N in
  let s := run false 4 (init [2; 2]) evs in
  forallb (fun e => negb (is_ws_ev e)) evs = true /\
  handed s = [[1;2;3;4]; [11;12]; [13]]%N /\ dropped s = [[5;6;7;8;9;10]; []; []]%N /\ acc s = [14]%N /\
  map got (cons s) = [[[1;2;3;4]; [11;12]]; [[1;2;3;4]]]%N /\
  map got (cons (run true 4 (init [2; 2]) evs)) = [[[13;12;3;4]; [13;12]]; [[13;12;3;4]]]%N.
Proof. vm_compute. repeat split. Qed.
