(* C11 - The access API always answers, and never with success to a bad request.
   Model: Model/Access.v [handle] = router, authenticator, binder and handler of one request, with an explicit
   [Panic] outcome wherever the Go code dereferences a *NumericDate; [handle true] is the tree with the nil
   checks of fixes/F07-nil-claims.patch, [handle false] the tree before it.
   Only statements, each closed by [exact] of a lemma of Proofs/Access_proofs.v / Access_history.v. *)
From Relay Require Import Base.Prelude Base.AList Model.DenyStore Model.Token Model.Access Model.Routing
  Proofs.Access_proofs Proofs.Access_history Proofs.Routing_proofs.
Local Open Scope string_scope.

(* every request - any route, any query values, any bearer incl. correctly signed ones lacking exp, nbf, iat,
   aud or scopes - in every state and configuration gets an answer: no handler faults *)
Theorem C11_always_answers :
  forall cfg s r, snd (handle true cfg s r) <> Panic.
Proof. exact handle_answers. Qed.
Print Assumptions C11_always_answers.

(* ... and so no sequential history of requests, websocket attempts, disconnections, clock changes, sweeps and
   timers ever contains an unanswered request - as long as the environment itself does not fail: the one modelled
   environment fault (the random source failing while a code is being minted, OFaultedReq) makes uuid.New panic,
   which the model shows as an unanswered request; it is excluded here and treated in C01_entropy_failure_mints_nothing *)
Theorem C11_always_answers_history :
  forall cfg t ops, no_fault ops -> ~ In (OutResp Panic) (snd (run cfg (init t) ops)).
Proof. intros cfg t ops. exact (run_never_faults cfg (init t) ops). Qed.
Print Assumptions C11_always_answers_history.

(* an answer is either a success (2xx) or an error status (>= 400) *)
Theorem C11_success_or_error :
  forall cfg s r, refusal (snd (handle true cfg s r)) \/ success (snd (handle true cfg s r)).
Proof. exact handle_refusal_or_success. Qed.
Print Assumptions C11_success_or_error.

(* success only for a request that is valid in every respect: the endpoint's own validity predicate
   (C01's for /session, C09's for the admin and status endpoints, bound query values in range) *)
Theorem C11_success_only_if_valid_partial :
  forall cfg s r, success (snd (handle true cfg s r)) -> public_route (r_route r) \/ valid_request cfg s r.
Proof. exact handle_success_valid. Qed.
Print Assumptions C11_success_only_if_valid_partial.

(* the full statement "success ONLY for a request that is valid in every respect" is FALSE of the code: three request
   lines are answered 200 with no token and no operation - go-openapi's documentation middlewares serve
   /swagger.json (the API description, JSON) and /docs (an HTML page) for any method, and net/http answers
   OPTIONS * itself.  They read nothing and change nothing (C11_public_resources_touch_nothing) *)
Theorem C11_success_only_if_valid_refuted :
  exists l, l_cred l = NoHeader /\ forall cfg s, success (snd (handle true cfg s (req_of l))) /\ ~ valid_request cfg s (req_of l).
Proof. exists (mkline "DELETE" "/docs" NoHeader None None). split; [reflexivity|]. intros cfg s. split; [cbn; lia|intros H; exact H]. Qed.
Print Assumptions C11_success_only_if_valid_refuted.

Theorem C11_public_resources_touch_nothing :
  forall cfg s r, public_route (r_route r) -> fst (handle true cfg s r) = s /\ success (snd (handle true cfg s r)).
Proof. exact handle_public. Qed.
Print Assumptions C11_public_resources_touch_nothing.

(* a refused request leaves the whole server state as it was ... *)
Theorem C11_stateless_failure :
  forall cfg s r, refusal (snd (handle true cfg s r)) -> fst (handle true cfg s r) = s.
Proof. exact handle_refusal_frame. Qed.
Print Assumptions C11_stateless_failure.

(* ... so the next operation, whatever it is, is answered as if the refused request had not happened *)
Theorem C11_next_request_unaffected :
  forall cfg s r o, refusal (snd (handle true cfg s r)) ->
    step cfg (fst (step cfg s (OReq r))) o = step cfg s o.
Proof. exact refused_then_next. Qed.
Print Assumptions C11_next_request_unaffected.

(* "parameter value (missing, empty, negative, overflowing, non-numeric)": the binder refuses exactly the requests
   whose bid is missing or empty or whose exp is missing or not a base-10 int64 (sign allowed, digits only, in
   range), and a refused binding is answered 422 with nothing changed *)
Theorem C11_unbindable_params :
  forall r,
    bind_params r = None <->
    r_bid r = None \/ r_bid r = Some 0%N \/ r_exp r = None \/ (exists raw, r_exp r = Some raw /\ parse_int64 raw = None).
Proof. exact bind_params_none_iff. Qed.
Print Assumptions C11_unbindable_params.

Theorem C11_unbound_params_422 :
  forall cfg s r c,
    validate_header (clock s) (cfg_host cfg) (cfg_secret cfg) (r_cred r) = Principal c ->
    r_route r = RDeny \/ r_route r = RAllow -> bind_params r = None ->
    handle true cfg s r = (s, Resp 422 BError).
Proof. exact unbound_params_422. Qed.
Print Assumptions C11_unbound_params_422.

Theorem C11_bound_exp_is_int64 :
  forall r b e, bind_params r = Some (b, e) -> b <> 0%N /\ (-9223372036854775808 <= e <= 9223372036854775807)%Z.
Proof. exact bound_params_range. Qed.
Print Assumptions C11_bound_exp_is_int64.

(* "signed or not": no principal, no handler - an error status on every route and nothing changed *)
Theorem C11_unauthenticated_refused :
  forall cfg s r,
    ~ public_route (r_route r) ->
    (forall c, validate_header (clock s) (cfg_host cfg) (cfg_secret cfg) (r_cred r) <> Principal c) ->
    refusal (snd (handle true cfg s r)) /\ fst (handle true cfg s r) = s.
Proof. exact unauthenticated_refused. Qed.
Print Assumptions C11_unauthenticated_refused.

(* "every request line": the router model (Model/Routing.v) composed with the handlers.  For EVERY method string and
   EVERY request-target byte string the request is answered, and in exactly one of three ways: an error status with
   the whole state unchanged (400 from net/http, 404, 405, or a refusal by authenticator / binder / handler); 200 on
   one of the three public resources with the state unchanged; or success on one of the six operations for a request
   that is valid in every respect *)
Theorem C11_every_request_line_answered :
  forall cfg s l,
    snd (handle true cfg s (req_of l)) <> Panic /\
    let r := req_of l in
    (refusal (snd (handle true cfg s r)) /\ fst (handle true cfg s r) = s) \/
    (public_route (r_route r) /\ success (snd (handle true cfg s r)) /\ fst (handle true cfg s r) = s) \/
    (operation (r_route r) /\ success (snd (handle true cfg s r)) /\ valid_request cfg s r).
Proof. intros cfg s l. split; [apply line_answered|apply line_trichotomy]. Qed.
Print Assumptions C11_every_request_line_answered.

(* the router is total and has five kinds of outcome *)
Theorem C11_route_total :
  forall m t,
    operation (route_of m t) \/ public_route (route_of m t) \/
    route_of m t = RNotFound \/ route_of m t = RBadMethod \/ route_of m t = ROpaque.
Proof. exact route_of_classes. Qed.
Print Assumptions C11_route_total.

(* a line that is not routed to an operation touches nothing *)
Theorem C11_unrouted_line_touches_nothing :
  forall cfg s l, ~ operation (route_of (l_method l) (l_target l)) -> fst (handle true cfg s (req_of l)) = s.
Proof. exact unrouted_line_frame. Qed.
Print Assumptions C11_unrouted_line_touches_nothing.

(* 405 is answered exactly where the other method's table knows the cleaned path *)
Theorem C11_bad_method_only_for_known_paths :
  forall m t,
    route_of m t = RBadMethod ->
    exists raw dec, raw_path_of_target m t = Some raw /\ unescape raw = Some dec /\
      let esc := escaped_path raw dec in
      (get_table (clean esc) <> None /\ upper m <> "GET") \/
      (post_table (clean_segments esc) (clean esc) <> None /\ upper m <> "POST").
Proof. exact route_bad_method_inv. Qed.
Print Assumptions C11_bad_method_only_for_known_paths.

(* the fault that F07 removes, kept as a checked record: before the nil checks a correctly signed token
   without exp faulted every endpoint, and one with exp but without iat faulted the session handler after the
   booking id had already been written to the allow list *)
Theorem C11_without_the_nil_checks_refuted :
  Forall (fun rt => snd (handle false f07_cfg (init 10) (f07_req rt None (Some 5%Z) (Some 5%Z))) = Panic)
         [RSession "t"; RDeny; RAllow; RListDeny; RListAllow; RStatus] /\
  handle false f07_cfg (init 10) (f07_req (RSession "t") (Some 50%Z) None (Some 5%Z))
    = (set_reg (init 10) (do_allow (reg (init 10)) 1 50), Panic).
Proof. exact unguarded_faults. Qed.
Print Assumptions C11_without_the_nil_checks_refuted.

(* non-vacuity: the same six requests on the repaired tree are answered 401 (session) / 401 (others), a good
   token is answered 200 with a code, a deny with an out-of-range exp is 422, and a valid deny is 204 *)
Example C11_witness :
  let good := f07_req (RSession "t") (Some 50%Z) (Some 5%Z) (Some 5%Z) in
  map (fun rt => snd (handle true f07_cfg (init 10) (f07_req rt None (Some 5%Z) (Some 5%Z))))
      [RSession "t"; RDeny; RAllow; RListDeny; RListAllow; RStatus]
  = [Resp 401 BText; Resp 401 BError; Resp 401 BError; Resp 401 BError; Resp 401 BError; Resp 401 BError] /\
  snd (handle true f07_cfg (init 10) good) = Resp 200 (BUri 0) /\
  snd (handle true f07_cfg (init 10) (f07_req (RSession "t") (Some 50%Z) None (Some 5%Z))) = Resp 401 BText /\
  snd (handle true f07_cfg (init 10)
         (mkreq RDeny (r_cred good) (Some 1%N) (Some "9223372036854775808"))) = Resp 422 BError /\
  snd (handle true f07_cfg (init 10) (mkreq RDeny (r_cred good) (Some 1%N) (Some "+0099"))) = Resp 204 BEmpty /\
  valid_request f07_cfg (init 10) good.
Proof.
  cbn zeta. do 5 (split; [vm_compute; reflexivity|]).
  exists (mkbearer SWell HS256 [] (Some 7%N) (f07_claims (Some 50%Z) (Some 5%Z) (Some 5%Z))).
  split; [reflexivity|]. split; [|split; [reflexivity|split; [intros H; discriminate H|reflexivity]]].
  unfold good_bearer. cbn. do 3 (split; [reflexivity|]).
  split; [exists 50%Z, 5%Z, 5%Z; repeat split; try reflexivity; lia|].
  split; [left; reflexivity|]. repeat split; discriminate.
Qed.

(* non-vacuity of the binder theorems: the spread of raw exp values *)
Example C11_witness_params :
  map parse_int64 [""; "+"; "-"; "12abc"; "1e12"; " 5"; "0x10"; "9223372036854775808"; "-9223372036854775809"]
    = [None; None; None; None; None; None; None; None; None] /\
  map parse_int64 ["0"; "-0"; "+0099"; "-5"; "9223372036854775807"; "-9223372036854775808"]
    = [Some 0; Some 0; Some 99; Some (-5); Some 9223372036854775807; Some (-9223372036854775808)]%Z /\
  handle true f07_cfg (init 10) (mkreq RDeny (r_cred (f07_req RDeny (Some 50%Z) (Some 5%Z) (Some 5%Z))) (Some 1%N) (Some "1e12"))
    = (init 10, Resp 422 BError).
Proof. vm_compute. repeat split; reflexivity. Qed.
