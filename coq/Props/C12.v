(* C12 - Concurrent use of the relay is equivalent to some serial use: every access to the shared code store,
   deny/allow lists, topic membership, cancel-channel map and per-connection statistics is synchronised,
   for every interleaving.

   Only statements, each closed by [exact] of a lemma of Proofs/LockIR_proofs.v.
   Part 1: generic theorems - for EVERY lock-IR program, guard table, rank function, number of threads, schedule.
   Part 2: the same for any program over the relay's guard table, threads running any function on any objects.
   Part 3: the tie to the code - Gen/LockGen.v is regenerated from the current source on every run and its
           obligations (gen_well_locked, ...) are closed there by vm_compute; here they are fed to part 2. *)
From Coq Require Import Relations.
From Relay Require Import Base.Prelude Model.LockIR Proofs.LockIR_proofs Gen.LockGen.
From Relay Require Model.SerialEq Proofs.SerialEq_proofs.
From Relay Require Import Model.Reduction Proofs.Reduction_proofs Model.Reduction2 Proofs.Reduction2_proofs.

(* ------------------------------------------------------------------ part 1: generic *)
Section Generic.
  Context {L F : Type}.
  Variable leqb : L -> L -> bool.
  Hypothesis leqb_spec : forall a b, leqb a b = true <-> a = b.
  Variable guard : F -> L.
  Variable rank : L -> nat.
  Variable nb ord : bool.
  Notation jump := (jump_chk leqb guard rank nb ord).

  (* data-race freedom: all threads start without locks on bodies the checker accepts; then in every reachable
     pool no two distinct threads are at conflicting accesses of the same field *)
  Theorem C12_well_locked_race_free :
    forall p q, initial leqb guard rank nb ord p -> steps leqb jump p q -> ~ race q.
  Proof. exact (well_locked_race_free leqb leqb_spec guard rank nb ord). Qed.

  (* while thread i holds m exclusively, only i can be at an access of a field guarded by m *)
  Theorem C12_excl_section_uninterrupted :
    forall p0 p, initial leqb guard rank nb ord p0 -> steps leqb jump p0 p ->
    forall i j t u m f w,
      nth_error p i = Some t -> held leqb m (fst t) = Some Ex ->
      nth_error p j = Some u -> at_access u f w -> guard f = m -> j = i.
  Proof.
    exact (fun p0 p Hi Hs i j t u m f w =>
             excl_section_uninterrupted leqb guard rank nb ord p i j t u m f w
               (steps_inv leqb leqb_spec guard rank nb ord p0 p (initial_inv leqb guard rank nb ord p0 Hi) Hs)).
  Qed.

  (* while thread i holds m (shared or exclusive), nobody else can be at a write of a field guarded by m *)
  Theorem C12_shared_section_sees_no_write :
    forall p0 p, initial leqb guard rank nb ord p0 -> steps leqb jump p0 p ->
    forall i j t u m f,
      nth_error p i = Some t -> held leqb m (fst t) <> None ->
      nth_error p j = Some u -> at_access u f true -> guard f = m -> j = i.
  Proof.
    exact (fun p0 p Hi Hs i j t u m f =>
             shared_section_sees_no_write leqb guard rank nb ord p i j t u m f
               (steps_inv leqb leqb_spec guard rank nb ord p0 p (initial_inv leqb guard rank nb ord p0 Hi) Hs)).
  Qed.

  (* with the strict checker (nb = true): a thread at a blocking channel operation holds no lock *)
  Theorem C12_no_block_while_locked :
    nb = true ->
    forall p0 p, initial leqb guard rank nb ord p0 -> steps leqb jump p0 p ->
    forall i t, nth_error p i = Some t -> at_block t -> fst t = [].
  Proof.
    exact (fun Hnb p0 p Hi Hs i t =>
             inv_no_block_while_locked leqb guard rank nb ord p i t Hnb
               (steps_inv leqb leqb_spec guard rank nb ord p0 p (initial_inv leqb guard rank nb ord p0 Hi) Hs)).
  Qed.

  (* with the ordered checker (ord = true): no cycle of threads each waiting for a lock the next one holds *)
  Theorem C12_lock_order_no_wait_cycle :
    ord = true ->
    forall p0 p, initial leqb guard rank nb ord p0 -> steps leqb jump p0 p ->
    forall i, ~ clos_trans nat (waits_for leqb p) i i.
  Proof.
    exact (fun Hord p0 p Hi Hs i =>
             inv_no_wait_cycle leqb leqb_spec guard rank nb ord p i Hord
               (steps_inv leqb leqb_spec guard rank nb ord p0 p (initial_inv leqb guard rank nb ord p0 Hi) Hs)).
  Qed.

  (* a thread whose body passes [single_section]: its events are
     (no access)* Acq m (accesses to fields of m only)* Rel m (no access)*, i.e. [run_phase] never fails *)
  Theorem C12_single_section_trace :
    forall p tr q i, exec leqb jump p tr q -> no_jump i tr ->
    forall ls k ph, nth_error p i = Some (ls, k) -> sec_cont leqb guard ph k = true -> phase_locks ph ls ->
    exists ph' ls' k', run_phase leqb guard i ph tr = Some ph' /\ nth_error q i = Some (ls', k') /\
                       sec_cont leqb guard ph' k' = true /\ phase_locks ph' ls'.
  Proof. exact (single_section_trace leqb leqb_spec guard rank nb ord). Qed.

  (* per-object atomicity at the level of the lock IR (which carries no values): while a single-section thread is
     inside its section on m, no other thread writes a field of m, and none reads one unless the section is shared.
     The VALUE-level statement (same answers and final state as a one-at-a-time execution) is part 4 below. *)
  Theorem C12_single_section_atomic :
    forall p tr p1 i ls k j e p2 m,
    inv leqb guard rank nb ord p -> exec leqb jump p tr p1 -> no_jump i tr ->
    nth_error p i = Some (ls, k) -> sec_cont leqb guard Before k = true -> ls = [] ->
    run_phase leqb guard i Before tr = Some (Inside m) ->
    step leqb jump p1 j e p2 -> j <> i ->
    (forall f, e = EWr f -> guard f <> m) /\
    (forall f, e = ERd f -> guard f = m -> exists k1, nth_error p1 i = Some ([(m, Sh)], k1)).
  Proof. exact (single_section_atomic_partial leqb leqb_spec guard rank nb ord). Qed.
End Generic.

Print Assumptions C12_well_locked_race_free.
Print Assumptions C12_excl_section_uninterrupted.
Print Assumptions C12_shared_section_sees_no_write.
Print Assumptions C12_no_block_while_locked.
Print Assumptions C12_lock_order_no_wait_cycle.
Print Assumptions C12_single_section_trace.
Print Assumptions C12_single_section_atomic.

(* ------------------------------------------------------------------ part 2: any program over the relay's guard table *)
(* [reach nb ord prog q]: q is reachable from a pool of ANY number of threads, each running ANY function of
   [prog] with its lock/field prefixes instantiated by ANY injective map to runtime objects, under ANY schedule,
   where moreover a thread may at any time jump to any code the checker accepts from the locks it holds. *)

Theorem C12_prog_race_free :
  forall prog q, well_locked_prog prog = true -> reach false false prog q -> ~ race q.
Proof. exact prog_race_free. Qed.
Print Assumptions C12_prog_race_free.

Theorem C12_prog_excl_section_uninterrupted :
  forall prog q i j t u m f w,
  well_locked_prog prog = true -> reach false false prog q ->
  nth_error q i = Some t -> held oname_eqb m (fst t) = Some Ex ->
  nth_error q j = Some u -> at_access u f w -> guard_of f = m -> j = i.
Proof. exact prog_excl_section_uninterrupted. Qed.
Print Assumptions C12_prog_excl_section_uninterrupted.

Theorem C12_prog_shared_section_sees_no_write :
  forall prog q i j t u m f,
  well_locked_prog prog = true -> reach false false prog q ->
  nth_error q i = Some t -> held oname_eqb m (fst t) <> None ->
  nth_error q j = Some u -> at_access u f true -> guard_of f = m -> j = i.
Proof. exact prog_shared_section_sees_no_write. Qed.
Print Assumptions C12_prog_shared_section_sees_no_write.

Theorem C12_prog_no_block_while_locked :
  forall prog q i t,
  no_block_while_locked prog = true -> reach true false prog q ->
  nth_error q i = Some t -> at_block t -> fst t = [].
Proof. exact prog_no_block_while_locked. Qed.
Print Assumptions C12_prog_no_block_while_locked.

Theorem C12_prog_lock_order_no_wait_cycle :
  forall prog q i,
  lock_order_ok prog = true -> reach false true prog q -> ~ clos_trans nat (waits_for oname_eqb q) i i.
Proof. exact prog_no_wait_cycle. Qed.
Print Assumptions C12_prog_lock_order_no_wait_cycle.

(* a loop variable or a callee's receiver may denote another object next time round: changing the
   instantiation of every prefix that is not currently locked is one of the allowed jumps *)
Theorem C12_rebinding_is_a_jump :
  forall nb ord rho rho' ls k,
  injective rho' -> (forall m md, In (m, md) ls -> rho' (fst m) = rho (fst m)) ->
  check_cont sname_eqb guard_of rank_of nb ord ls k = true ->
  ojump nb ord (inst_ls rho ls) (map (inst rho') k).
Proof. exact rebind_is_jump. Qed.
Print Assumptions C12_rebinding_is_a_jump.

(* ------------------------------------------------------------------ part 3: the relay as it is in the repository now *)
Theorem C12_relay_race_free :
  forall q, reach false false LockGen.prog q -> ~ race q.
Proof. exact (fun q => prog_race_free LockGen.prog q gen_well_locked). Qed.
Print Assumptions C12_relay_race_free.

Theorem C12_relay_excl_section_uninterrupted :
  forall q i j t u m f w, reach false false LockGen.prog q ->
  nth_error q i = Some t -> held oname_eqb m (fst t) = Some Ex ->
  nth_error q j = Some u -> at_access u f w -> guard_of f = m -> j = i.
Proof. exact (fun q i j t u m f w => prog_excl_section_uninterrupted LockGen.prog q i j t u m f w gen_well_locked). Qed.
Print Assumptions C12_relay_excl_section_uninterrupted.

Theorem C12_relay_shared_section_sees_no_write :
  forall q i j t u m f, reach false false LockGen.prog q ->
  nth_error q i = Some t -> held oname_eqb m (fst t) <> None ->
  nth_error q j = Some u -> at_access u f true -> guard_of f = m -> j = i.
Proof. exact (fun q i j t u m f => prog_shared_section_sees_no_write LockGen.prog q i j t u m f gen_well_locked). Qed.
Print Assumptions C12_relay_shared_section_sees_no_write.

Theorem C12_relay_no_block_while_locked :
  forall q i t, reach true false LockGen.prog q -> nth_error q i = Some t -> at_block t -> fst t = [].
Proof. exact (fun q i t => prog_no_block_while_locked LockGen.prog q i t gen_no_block_while_locked). Qed.
Print Assumptions C12_relay_no_block_while_locked.

Theorem C12_relay_lock_order_no_wait_cycle :
  forall q i, reach false true LockGen.prog q -> ~ clos_trans nat (waits_for oname_eqb q) i i.
Proof. exact (fun q i => prog_no_wait_cycle LockGen.prog q i gen_lock_order_ok). Qed.
Print Assumptions C12_relay_lock_order_no_wait_cycle.

(* every exported method of CodeStore, deny.Store and chanmap.Store is one critical section on its own lock *)
Theorem C12_relay_store_methods_single_section :
  forall nb ord p tr q i name body rho,
  In (name, body) LockGen.prog -> In name LockGen.store_methods -> injective rho ->
  nth_error p i = Some ([], [inst rho body]) ->
  exec oname_eqb (ojump nb ord) p tr q -> no_jump i tr ->
  exists ph, run_phase oname_eqb guard_of i Before tr = Some ph.
Proof.
  exact (fun nb ord p tr q i name body rho =>
           prog_single_section_trace nb ord LockGen.store_methods LockGen.prog p tr q i name body rho gen_single_section).
Qed.
Print Assumptions C12_relay_store_methods_single_section.

Theorem C12_relay_store_methods_atomic :
  forall p tr p1 i name body rho j e p2 m,
  runs LockGen.prog p ->
  In (name, body) LockGen.prog -> In name LockGen.store_methods -> injective rho ->
  nth_error p i = Some ([], [inst rho body]) ->
  exec oname_eqb (ojump false false) p tr p1 -> no_jump i tr ->
  run_phase oname_eqb guard_of i Before tr = Some (Inside m) ->
  step oname_eqb (ojump false false) p1 j e p2 -> j <> i ->
  (forall f, e = EWr f -> guard_of f <> m) /\
  (forall f, e = ERd f -> guard_of f = m -> exists k1, nth_error p1 i = Some ([(m, Sh)], k1)).
Proof.
  exact (fun p tr p1 i name body rho j e p2 m =>
           prog_single_section_atomic_partial LockGen.store_methods LockGen.prog p tr p1 i name body rho j e p2 m
             gen_well_locked gen_single_section).
Qed.
Print Assumptions C12_relay_store_methods_atomic.

(* ------------------------------------------------------------------ part 4: value-level serial equivalence *)
(* The sentence of the property: "the relay's answers and final state are those of some one-at-a-time ordering of
   the same operations". Model (Model/SerialEq.v): a set of locks, each protecting one object with a state; an
   operation is ONE critical section on ONE lock whose body is a deterministic function [upd] of the object's state
   (new state, result); a thread is a list of operations; any schedule; Acq m enabled iff nobody holds m.

   WHAT LINKS THIS TO THE CODE (hypotheses of the composition, each discharged elsewhere):
   (H1) every exported method of CodeStore, deny.Store, chanmap.Store IS such an operation: one critical section
        on its own store's mutex containing all its accesses to guarded fields, and nothing else shared is touched
        - [gen_single_section] + [gen_well_locked] on the IR regenerated from the source (part 3, and
        C12_relay_store_methods_single_section / _atomic: nobody else touches the object while the section runs);
   (H2) sync.Mutex is exclusive and not re-entrant (the interleaving semantics of Model/LockIR.v and of this model);
   (H3) the effect of each method's body on its object is the deterministic step function of the hand-written
        models coq/Model/CodeStore.v (C02), DenyStore.v (C10), ChanMap.v (C08): [upd] is NOT extracted from the
        source, it is tied to it by those properties' correspondence runs (clock and uuid are oracles there).
   C12 supplies atomicity (H1, H2), those properties supply the sequential semantics (H3); the theorem below is the
   composition. NOT covered: a formal refinement from the lock-IR semantics to this operation-level model (H1 is
   used as the modelling step); operations that are not a single section (Hub.GetStats: nested shared sections;
   request handlers: a SEQUENCE of store operations - for those the theorem gives exactly this: the individual
   store operations of all concurrent requests are linearizable in one total order that keeps each request's own
   order, but a handler as a whole is not atomic; request-level atomicity against a racing deny is C07). *)
Section Value.
  Context {Lk Op St Res : Type}.
  Variable lk_eqb : Lk -> Lk -> bool.
  Hypothesis lk_eqb_spec : forall a b, lk_eqb a b = true <-> a = b.
  Variable upd : Lk -> Op -> St -> St * Res.

  (* for every schedule that runs all threads to completion, with lin := the calls in the order of their Acq steps:
     (1) lin consists of every thread's program, in program order;
     (2) every object ends in the state the one-at-a-time execution of lin leaves it in;
     (3) per object, the bodies ran in the order of lin and returned what the one-at-a-time execution returns;
     (4) so every operation received exactly the result it receives in the one-at-a-time execution of lin. *)
  Theorem C12_serial_equivalence :
    forall progs s0 sched (s : @SerialEq.state Lk Op St Res),
    SerialEq.run lk_eqb upd sched (SerialEq.init progs s0) = Some s -> SerialEq.finished s = true ->
    (forall i p, nth_error progs i = Some p -> SerialEq.by_thread i (SerialEq.acqs s) = SerialEq.mkcalls i 0 p) /\
    (forall m, SerialEq.st s m = fst (SerialEq.serial lk_eqb upd (SerialEq.acqs s) s0) m) /\
    (forall m, SerialEq.ret_on lk_eqb m (SerialEq.hist s) = SerialEq.ret_on lk_eqb m (snd (SerialEq.serial lk_eqb upd (SerialEq.acqs s) s0))) /\
    (forall x, In x (SerialEq.hist s) <-> In x (snd (SerialEq.serial lk_eqb upd (SerialEq.acqs s) s0))).
  Proof. exact (SerialEq_proofs.serial_equivalence lk_eqb lk_eqb_spec upd). Qed.

  (* with the linearization point at the body instead of the Acq, at EVERY moment (not only at the end) the
     objects and the history are literally those of the one-at-a-time execution of the bodies applied so far *)
  Theorem C12_serial_equivalence_body_order :
    forall progs s0 sched (s : @SerialEq.state Lk Op St Res),
    SerialEq.run lk_eqb upd sched (SerialEq.init progs s0) = Some s ->
    (forall m, SerialEq.st s m = fst (SerialEq.serial lk_eqb upd (map fst (SerialEq.hist s)) s0) m) /\
    SerialEq.hist s = snd (SerialEq.serial lk_eqb upd (map fst (SerialEq.hist s)) s0).
  Proof. exact (SerialEq_proofs.serial_equivalence_body_order lk_eqb lk_eqb_spec upd). Qed.

  (* locality (Herlihy-Wing): what a one-at-a-time execution does to the object of m and returns to the operations
     on m depends only on the operations on m and their order - sections on different locks commute. Hence ANY total
     order that agrees with the per-object orders is as good as lin: per-object linearizability composes. *)
  Theorem C12_serial_locality :
    forall m (l1 l2 : list (@SerialEq.call Lk Op)) (s0 : Lk -> St),
    SerialEq.on_lock lk_eqb m l1 = SerialEq.on_lock lk_eqb m l2 ->
    fst (SerialEq.serial lk_eqb upd l1 s0) m = fst (SerialEq.serial lk_eqb upd l2 s0) m /\
    SerialEq.ret_on lk_eqb m (snd (SerialEq.serial lk_eqb upd l1 s0)) = SerialEq.ret_on lk_eqb m (snd (SerialEq.serial lk_eqb upd l2 s0)).
  Proof. exact (SerialEq_proofs.serial_locality lk_eqb lk_eqb_spec upd). Qed.

  Theorem C12_value_at_most_one_holder :
    forall progs s0 sched (s : @SerialEq.state Lk Op St Res) i j ti tj m,
    SerialEq.run lk_eqb upd sched (SerialEq.init progs s0) = Some s ->
    nth_error (SerialEq.thr s) i = Some ti -> nth_error (SerialEq.thr s) j = Some tj ->
    SerialEq.holdsb lk_eqb m ti = true -> SerialEq.holdsb lk_eqb m tj = true -> i = j.
  Proof. exact (SerialEq_proofs.at_most_one_holder lk_eqb lk_eqb_spec upd). Qed.
End Value.
Print Assumptions C12_serial_equivalence.
Print Assumptions C12_serial_equivalence_body_order.
Print Assumptions C12_serial_locality.
Print Assumptions C12_value_at_most_one_holder.

(* non-vacuity: three threads, two objects (fetch-and-add returning the old value), a schedule in which the sections
   on the two locks overlap and threads wait for each other; it runs to completion and the outcome is the serial one *)
Definition ex_upd (_ : nat) (o : N) (s : N) : N * N := ((s + o)%N, s).
Definition ex_progs : list (list (nat * N)) := [[(0, 1%N); (1, 10%N)]; [(0, 5%N)]; [(1, 7%N); (0, 2%N)]].
Definition ex_sched : list nat := [0;2;0;2;0;1;2;0;1;0;1;2;0;2;2].
Example C12_serial_witness :
  match SerialEq.run Nat.eqb ex_upd ex_sched (SerialEq.init ex_progs (fun _ => 0%N)) with
  | Some s =>
      (SerialEq.finished s, SerialEq.st s 0, SerialEq.st s 1, map (fun x => (SerialEq.c_tid (fst x), SerialEq.c_lock (fst x), snd x)) (SerialEq.hist s),
       map (fun c => (SerialEq.c_tid c, SerialEq.c_lock c)) (SerialEq.acqs s),
       map snd (snd (SerialEq.serial Nat.eqb ex_upd (SerialEq.acqs s) (fun _ => 0%N))))
  | None => (false, 0%N, 0%N, [], [], [])
  end
  = (true, 8%N, 17%N, [(0, 0, 0%N); (2, 1, 0%N); (1, 0, 1%N); (0, 1, 7%N); (2, 0, 6%N)],
     [(0, 0); (2, 1); (1, 0); (0, 1); (2, 0)], [0%N; 0%N; 1%N; 7%N; 6%N]).
Proof. vm_compute. reflexivity. Qed.

(* ------------------------------------------------------------------ part 5: from the lock IR to atomic sections *)
(* THE REDUCTION (Lipton-style, proved by forward simulation with roll-back abstraction and commit point at Rel).
   The lock IR is given values (Model/Reduction.v): every lock protects one object with a state, every thread has a
   local state, Rd/Wr are deterministic functions of (local, object); control, Acq, Rel, Block as in LockIR - and
   [C12_value_semantics_refines_lock_ir]: every step of this semantics IS a step of Model/LockIR.v's interleaving
   semantics on the erased pool, so parts 1-3 apply to it.
   [vstep] interleaves the individual IR steps of all threads under any schedule; [astep] is the operation-level
   model: a thread takes a step that touches no object, or runs one whole critical section Acq m; ...; Rel m ALONE
   in a single step ([solos] = upd := the sequential run of the body; relational, because Choice/Loop/Block are
   nondeterministic in the IR; thread-local state flows from one operation of a thread to its next).
   Hypothesis on the code ([msec_cont MOut k], decidable, evaluated on the generated bodies below): the code of
   every thread is a sequence of UN-NESTED critical sections - exclusive (Lock), or shared (RLock) and then
   read-only - each accessing only fields of its own lock, no access outside a section; loops, choices and blocking
   operations are allowed everywhere, no fuel / termination assumption is needed.

   What this closes: hypothesis (H1)+(H2) of part 4 is no longer a modelling step - the fine-grained executions of
   the IR bodies of the exported store methods ARE (up to the configuration reached whenever nobody holds a lock)
   executions of the operation-level model.
   What remains outside THIS theorem: (a) threads with NESTED sections (Frames.mu inside Hub.mu: GetStats, the status
   handler, statsReporter) - they are covered by part 7 (block-atomic reduction for arbitrary nesting); (b) the atomic model here is relational and carries
   thread-local state, part 4's [SerialEq] has a functional upd without local state - that the former instantiates
   to the latter for deterministic bodies is not formalised; (c) as before, the meaning of Rd/Wr ([rd], [wr]) is
   arbitrary here: the real bodies' effect is the C02/C10/C08 models'. *)
Section ReductionGeneric.
  Context {L F Ob Lo : Type}.
  Variable leqb : L -> L -> bool.
  Hypothesis leqb_spec : forall a b, leqb a b = true <-> a = b.
  Variable guard : F -> L.
  Variable rd : F -> Lo -> Ob -> Lo.
  Variable wr : F -> Lo -> Ob -> Lo * Ob.

  Theorem C12_value_semantics_refines_lock_ir :
    forall (jump_ok : list (L * mode) -> list (stmt L F) -> Prop) c i c',
    vstep leqb guard rd wr c i c' -> exists e, step leqb jump_ok (erase (thrs c)) i e (erase (thrs c')).
  Proof. exact (vstep_erases leqb guard rd wr). Qed.

  (* every configuration in which nobody holds a lock - in particular every final one - is reached, with the same
     object states, thread-local states (hence results) and remaining code, by an execution in which every critical
     section ran alone in one atomic step *)
  Theorem C12_reduction_to_atomic_sections :
    forall c0 c, red_init leqb guard c0 -> vsteps leqb guard rd wr c0 c -> quiescent c ->
    exists a, asteps leqb guard rd wr c0 a /\ thrs a = thrs c /\ forall m, objs a m = objs c m.
  Proof. exact (reduction leqb leqb_spec guard rd wr). Qed.

  (* the same with schedules (Lipton reduction proper): the atomic-section execution moves the threads in the
     order in which the fine-grained schedule moved them, minus stutter steps ([sublist]); each section is executed
     at the position of its Rel; every thread's own order is kept *)
  Theorem C12_reduction_schedule :
    forall c0 sch c, red_init leqb guard c0 -> vrun leqb guard rd wr c0 sch c -> quiescent c ->
    exists sch' a, arun leqb guard rd wr c0 sch' a /\ sublist sch' sch /\
                   thrs a = thrs c /\ forall m, objs a m = objs c m.
  Proof. exact (reduction_schedule leqb leqb_spec guard rd wr). Qed.

  (* one fine-grained step is a stutter or exactly one step of the atomic-section semantics, under the roll-back
     abstraction [sim] (threads inside a section put back to their Acq, their object to its value at the Acq) *)
  Theorem C12_reduction_step :
    forall c a i c', sim leqb guard rd wr c a -> vstep leqb guard rd wr c i c' ->
    exists a', (a' = a \/ astep leqb guard rd wr a i a') /\ sim leqb guard rd wr c' a'.
  Proof. exact (sim_step leqb leqb_spec guard rd wr). Qed.
End ReductionGeneric.
Print Assumptions C12_value_semantics_refines_lock_ir.
Print Assumptions C12_reduction_to_atomic_sections.
Print Assumptions C12_reduction_schedule.
Print Assumptions C12_reduction_step.

(* per-run obligation on the regenerated IR: every exported method of CodeStore, deny.Store, chanmap.Store is a
   sequence of un-nested sections on its own lock with no access outside (checked here by vm_compute) *)
Example gen_store_methods_exclusive_sections : msec_prog LockGen.store_methods LockGen.prog = true.
Proof. vm_compute. reflexivity. Qed.

(* any number of goroutines, each one call of any exported store method on any objects with any arguments (initial
   local state), any meaning of the field accesses, any schedule: whenever nobody holds a lock, the stores and all
   results are those of an execution where every method body ran alone, one at a time *)
Theorem C12_relay_store_methods_reduce :
  forall (Ob Lo : Type) (rd : oname -> Lo -> Ob -> Lo) (wr : oname -> Lo -> Ob -> Lo * Ob) c0 c,
  runs_methods LockGen.store_methods LockGen.prog c0 ->
  vsteps oname_eqb guard_of rd wr c0 c -> quiescent c ->
  exists a, asteps oname_eqb guard_of rd wr c0 a /\ thrs a = thrs c /\ forall m, objs a m = objs c m.
Proof.
  exact (fun Ob Lo rd wr c0 c =>
           prog_methods_reduce rd wr LockGen.store_methods LockGen.prog c0 c gen_store_methods_exclusive_sections).
Qed.
Print Assumptions C12_relay_store_methods_reduce.

(* more generally: every generated body that is a sequence of un-nested sections (on the current tree: all goroutine
   bodies and handlers, Hub.run included, except Hub.GetStats / the status handler / statsReporter, whose shared
   sections on Frames.mu are nested in one on Hub.mu) - any pool of such threads reduces to atomic sections *)
Definition reducible_names : list string :=
  map fst (filter (fun e => msec_sfn (snd e)) LockGen.prog).
Definition not_reducible := Eval vm_compute in
  map fst (filter (fun e => negb (msec_sfn (snd e))) LockGen.prog).
Print not_reducible.

Example gen_reducible_bodies : msec_prog reducible_names LockGen.prog = true.
Proof. vm_compute. reflexivity. Qed.

Theorem C12_relay_reducible_bodies_reduce :
  forall (Ob Lo : Type) (rd : oname -> Lo -> Ob -> Lo) (wr : oname -> Lo -> Ob -> Lo * Ob) c0 c,
  runs_methods reducible_names LockGen.prog c0 ->
  vsteps oname_eqb guard_of rd wr c0 c -> quiescent c ->
  exists a, asteps oname_eqb guard_of rd wr c0 a /\ thrs a = thrs c /\ forall m, objs a m = objs c m.
Proof.
  exact (fun Ob Lo rd wr c0 c =>
           prog_methods_reduce rd wr reducible_names LockGen.prog c0 c gen_reducible_bodies).
Qed.
Print Assumptions C12_relay_reducible_bodies_reduce.

(* non-vacuity: two threads, one object, thread 1 moves in the middle of thread 0's section and then waits for the
   lock; the hypotheses of the reduction hold and the run ends with the sum in the object and the old values returned *)
Example C12_reduction_witness :
  red_init Nat.eqb (fun f => f) w_c0 /\
  exists c, vsteps Nat.eqb (fun f => f) w_rd w_wr w_c0 c /\ quiescent c /\
            objs c 0 = 13%N /\ thrs c = [([], 1%N, []); ([], 6%N, [])].
Proof. exact reduction_witness. Qed.

(* ------------------------------------------------------------------ part 6: movers, for pools with NESTED sections *)
(* The both-mover fact of Lipton's argument, for every configuration reachable from well-locked code whatever the
   nesting: a step that is neither Acq nor Rel commutes with the following step of any other thread, same final
   configuration. (The assembled reduction for arbitrary nesting is part 7; it is proved by simulation and does not
   go through the mover lemmas - "Acq moves right" / "Rel moves left" are implicit in its commit-at-release.) *)
Section MoversGeneric.
  Context {L F Ob Lo : Type}.
  Variable leqb : L -> L -> bool.
  Hypothesis leqb_spec : forall a b, leqb a b = true <-> a = b.
  Variable guard : F -> L.
  Variable rd : F -> Lo -> Ob -> Lo.
  Variable wr : F -> Lo -> Ob -> Lo * Ob.

  Theorem C12_non_lock_steps_are_both_movers :
    forall c i c1 j c2, wl leqb guard c -> i <> j -> quiet c i ->
    vstep leqb guard rd wr c i c1 -> vstep leqb guard rd wr c1 j c2 ->
    exists c1' c2', vstep leqb guard rd wr c j c1' /\ vstep leqb guard rd wr c1' i c2' /\ same c2' c2.
  Proof. exact (quiet_step_commutes leqb leqb_spec guard rd wr). Qed.

  (* its hypothesis [wl] holds in every configuration reachable from well-locked code (checker of part 1) *)
  Theorem C12_discipline_reachable :
    forall rank nb ord c0 c,
    initial leqb guard rank nb ord (erase (thrs c0)) -> vsteps leqb guard rd wr c0 c -> wl leqb guard c.
  Proof. exact (wl_reachable leqb leqb_spec guard rd wr). Qed.
End MoversGeneric.
Print Assumptions C12_non_lock_steps_are_both_movers.
Print Assumptions C12_discipline_reachable.

Example C12_movers_witness :
  wl Nat.eqb (fun f => f) mv_c /\ quiet mv_c 0 /\
  exists c1 c2, vstep Nat.eqb (fun f => f) w_rd w_wr mv_c 0 c1 /\ vstep Nat.eqb (fun f => f) w_rd w_wr c1 1 c2.
Proof. exact movers_witness. Qed.

(* ------------------------------------------------------------------ part 7: the reduction for ARBITRARY nesting *)
(* An outer section that contains inner ones (Frames.mu inside Hub.mu: Hub.GetStats, the status handler,
   statsReporter) is NOT one atomic operation: between two inner sections another thread may update a client not yet
   read. What IS atomic, for any well-locked code, is every maximal run of a thread
        (control | Acq | Rd | Wr)*  Rel
   - right-movers and both-movers followed by one left-mover. [astep2] (Model/Reduction2.v) is the semantics in which
   each such run is ONE step ([ABlock], enabled when the locks it ends up holding are available) and locks stay held
   between two blocks of a thread. For un-nested sections a block is the whole section, as in part 5; a status report
   is a sequence of atomic per-client blocks under a membership frozen by the outer shared lock.
   Proved by the roll-back simulation of part 5 generalised to uncommitted runs that contain acquisitions: a thread is
   rolled back to the state just after its last release; its next Rel commits everything since as one block - sound
   because what it acquired it still holds at the commit, and the objects it touched were protected throughout.
   Hypothesis: [initial] = every thread starts without locks on a body that the lockset checker of part 1 accepts -
   i.e. gen_well_locked: ALL bodies of the regenerated program qualify (no separate nesting check is needed). *)
Section Reduction2Generic.
  Context {L F Ob Lo : Type}.
  Variable leqb : L -> L -> bool.
  Hypothesis leqb_spec : forall a b, leqb a b = true <-> a = b.
  Variable guard : F -> L.
  Variable rd : F -> Lo -> Ob -> Lo.
  Variable wr : F -> Lo -> Ob -> Lo * Ob.

  (* every configuration in which nobody holds a lock - in particular every final one - is reached, with the same
     objects, thread-local states (results) and remaining code, by a block-atomic execution whose schedule is the
     fine-grained one minus stutter steps (each block sits where its Rel was; every thread's own order is kept) *)
  Theorem C12_reduction_any_nesting :
    forall rank nb ord c0 sch c,
    initial leqb guard rank nb ord (erase (thrs c0)) ->
    vrun leqb guard rd wr c0 sch c -> quiescent c ->
    exists sch' a, arun2 leqb guard rd wr c0 sch' a /\ sublist sch' sch /\
                   thrs a = thrs c /\ forall m, objs a m = objs c m.
  Proof. exact (reduction2 leqb leqb_spec guard rd wr). Qed.

  (* one fine-grained step in a well-locked configuration is a stutter or exactly one block-atomic step *)
  Theorem C12_reduction_any_nesting_step :
    forall c a i c', wl leqb guard c -> sim2 leqb guard rd wr c a -> vstep leqb guard rd wr c i c' ->
    exists a', (a' = a \/ astep2 leqb guard rd wr a i a') /\ sim2 leqb guard rd wr c' a'.
  Proof. exact (sim2_step leqb leqb_spec guard rd wr). Qed.
End Reduction2Generic.
Print Assumptions C12_reduction_any_nesting.
Print Assumptions C12_reduction_any_nesting_step.

(* the relay: any number of goroutines, each running ANY body of the program regenerated from the source (all of
   them: handlers, pumps, Hub.run, GetStats, statsReporter, store methods ...), on any objects, any schedule *)
Definition all_bodies_count := Eval vm_compute in length LockGen.prog.
Print all_bodies_count.

Theorem C12_relay_all_bodies_reduce :
  forall (Ob Lo : Type) (rd : oname -> Lo -> Ob -> Lo) (wr : oname -> Lo -> Ob -> Lo * Ob) c0 sch c,
  runs_bodies LockGen.prog c0 ->
  vrun oname_eqb guard_of rd wr c0 sch c -> quiescent c ->
  exists sch' a, arun2 oname_eqb guard_of rd wr c0 sch' a /\ sublist sch' sch /\
                 thrs a = thrs c /\ forall m, objs a m = objs c m.
Proof.
  exact (fun Ob Lo rd wr c0 sch c => prog_all_bodies_reduce rd wr LockGen.prog c0 sch c gen_well_locked).
Qed.
Print Assumptions C12_relay_all_bodies_reduce.

(* non-vacuity: a thread with a shared section on lock 1 NESTED in a shared section on lock 0, and a second thread
   that runs an exclusive section on lock 1 in the middle of the first one's outer section; well locked; the run
   ends with the written value seen by the nested read *)
Example C12_reduction_any_nesting_witness :
  initial Nat.eqb (fun f => f) (fun m => m) false false (erase (thrs n_c0)) /\
  exists sch c, vrun Nat.eqb (fun f => f) n_rd n_wr n_c0 sch c /\ quiescent c /\
                objs c 1 = 15%N /\ thrs c = [([], 19%N, []); ([], 10%N, [])].
Proof. exact reduction2_witness. Qed.

(* ------------------------------------------------------------------ non-vacuity *)
(* an injective instantiation exists; a well-locked two-function program has a concrete execution reaching a pool
   where thread 0 is inside its exclusive section at a write and thread 1 waits for that lock *)
Example C12_witness :
  well_locked_prog w_prog = true /\ no_block_while_locked w_prog = true /\ lock_order_ok w_prog = true /\
  single_section_prog ["writer"; "reader"]%string w_prog = true /\
  exists q t0 t1,
    reach false false w_prog q /\
    nth_error q 0 = Some t0 /\ nth_error q 1 = Some t1 /\
    held oname_eqb (enc "h", "Hub.mu"%string) (fst t0) = Some Ex /\
    at_access t0 (enc "h", "Hub.clients"%string) true /\
    at_acq t1 (enc "h", "Hub.mu"%string) /\
    waits_for oname_eqb q 1 0.
Proof. exact witness_execution. Qed.

(* the generated program is not trivially accepted: it has bodies that acquire locks, write guarded fields,
   nest Hub.mu > Frames.mu, and block on channels (counts evaluated on the current source) *)
Fixpoint count_stmt (pr : sstmt -> bool) (s : sstmt) : nat :=
  (if pr s then 1 else 0) +
  match s with
  | Seq a b | Choice a b => count_stmt pr a + count_stmt pr b
  | Loop b => count_stmt pr b
  | _ => 0
  end.
Definition is_acq (s : sstmt) := match s with Acq _ _ => true | _ => false end.
Definition is_wr (s : sstmt) := match s with Wr _ => true | _ => false end.
Definition is_rd (s : sstmt) := match s with Rd _ => true | _ => false end.
Definition is_block (s : sstmt) := match s with Block _ => true | _ => false end.
Definition total (pr : sstmt -> bool) : nat := fold_right (fun e n => count_stmt pr (snd e) + n) 0 LockGen.prog.

Example C12_generated_nontrivial :
  (20 <=? total is_acq) && (15 <=? total is_wr) && (20 <=? total is_rd) && (8 <=? total is_block)
  && (10 <=? length LockGen.store_methods) && (30 <=? length LockGen.prog) = true.
Proof. vm_compute. reflexivity. Qed.
