(* C12 - Concurrent use of the relay is equivalent to some serial use: every access to the shared code store,
   deny/allow lists, topic membership, cancel-channel map and per-connection statistics is synchronised,
   for every interleaving.

   Only statements, each closed by [exact] of a lemma of Proofs/LockIR_proofs.v.
   Part 1: generic theorems - for EVERY lock-IR program, guard table, rank function, number of threads, schedule.
   Part 2: the same for any program over the relay's guard table, threads running any function on any objects.
   Part 3: the tie to the code - Gen/LockGen.v is regenerated from the current source on every run and its
           obligations (gen_well_locked, ...) are closed there by vm_compute; here they are fed to part 2. *)
From Coq Require Import Relations.
From Relay Require Import Base.Prelude Model.LockIR Proofs.LockIR_proofs Gen.LockGen.

(* ------------------------------------------------------------------ part 1: generic *)
Section Generic.
  Context {L F : Type}.
  Variable leqb : L -> L -> bool.
  Hypothesis leqb_spec : forall a b, leqb a b = true <-> a = b.
  Variable guard : F -> L.
  Variable rank : L -> nat.
  Variable nb ord : bool.
  Notation jump := (jump_chk leqb guard rank nb ord).

  (* data-race freedom: all threads start without locks on bodies the checker accepts; then in every reachable
     pool no two distinct threads are at conflicting accesses of the same field *)
  Theorem C12_well_locked_race_free :
    forall p q, initial leqb guard rank nb ord p -> steps leqb jump p q -> ~ race q.
  Proof. exact (well_locked_race_free leqb leqb_spec guard rank nb ord). Qed.

  (* while thread i holds m exclusively, only i can be at an access of a field guarded by m *)
  Theorem C12_excl_section_uninterrupted :
    forall p0 p, initial leqb guard rank nb ord p0 -> steps leqb jump p0 p ->
    forall i j t u m f w,
      nth_error p i = Some t -> held leqb m (fst t) = Some Ex ->
      nth_error p j = Some u -> at_access u f w -> guard f = m -> j = i.
  Proof.
    exact (fun p0 p Hi Hs i j t u m f w =>
             excl_section_uninterrupted leqb guard rank nb ord p i j t u m f w
               (steps_inv leqb leqb_spec guard rank nb ord p0 p (initial_inv leqb guard rank nb ord p0 Hi) Hs)).
  Qed.

  (* while thread i holds m (shared or exclusive), nobody else can be at a write of a field guarded by m *)
  Theorem C12_shared_section_sees_no_write :
    forall p0 p, initial leqb guard rank nb ord p0 -> steps leqb jump p0 p ->
    forall i j t u m f,
      nth_error p i = Some t -> held leqb m (fst t) <> None ->
      nth_error p j = Some u -> at_access u f true -> guard f = m -> j = i.
  Proof.
    exact (fun p0 p Hi Hs i j t u m f =>
             shared_section_sees_no_write leqb guard rank nb ord p i j t u m f
               (steps_inv leqb leqb_spec guard rank nb ord p0 p (initial_inv leqb guard rank nb ord p0 Hi) Hs)).
  Qed.

  (* with the strict checker (nb = true): a thread at a blocking channel operation holds no lock *)
  Theorem C12_no_block_while_locked :
    nb = true ->
    forall p0 p, initial leqb guard rank nb ord p0 -> steps leqb jump p0 p ->
    forall i t, nth_error p i = Some t -> at_block t -> fst t = [].
  Proof.
    exact (fun Hnb p0 p Hi Hs i t =>
             inv_no_block_while_locked leqb guard rank nb ord p i t Hnb
               (steps_inv leqb leqb_spec guard rank nb ord p0 p (initial_inv leqb guard rank nb ord p0 Hi) Hs)).
  Qed.

  (* with the ordered checker (ord = true): no cycle of threads each waiting for a lock the next one holds *)
  Theorem C12_lock_order_no_wait_cycle :
    ord = true ->
    forall p0 p, initial leqb guard rank nb ord p0 -> steps leqb jump p0 p ->
    forall i, ~ clos_trans nat (waits_for leqb p) i i.
  Proof.
    exact (fun Hord p0 p Hi Hs i =>
             inv_no_wait_cycle leqb leqb_spec guard rank nb ord p i Hord
               (steps_inv leqb leqb_spec guard rank nb ord p0 p (initial_inv leqb guard rank nb ord p0 Hi) Hs)).
  Qed.

  (* a thread whose body passes [single_section]: its events are
     (no access)* Acq m (accesses to fields of m only)* Rel m (no access)*, i.e. [run_phase] never fails *)
  Theorem C12_single_section_trace :
    forall p tr q i, exec leqb jump p tr q -> no_jump i tr ->
    forall ls k ph, nth_error p i = Some (ls, k) -> sec_cont leqb guard ph k = true -> phase_locks ph ls ->
    exists ph' ls' k', run_phase leqb guard i ph tr = Some ph' /\ nth_error q i = Some (ls', k') /\
                       sec_cont leqb guard ph' k' = true /\ phase_locks ph' ls'.
  Proof. exact (single_section_trace leqb leqb_spec guard rank nb ord). Qed.

  (* per-object atomicity. FULL STATEMENT aimed at (value-level serial equivalence: every execution can be
     reordered, keeping each thread's own trace, into one where every critical section is contiguous, with the
     same final store values) is NOT proved - the IR carries no values. Proved: while a single-section thread is
     inside its section on m, no other thread writes a field of m, and none reads one unless the section is shared. *)
  Theorem C12_single_section_atomic_partial :
    forall p tr p1 i ls k j e p2 m,
    inv leqb guard rank nb ord p -> exec leqb jump p tr p1 -> no_jump i tr ->
    nth_error p i = Some (ls, k) -> sec_cont leqb guard Before k = true -> ls = [] ->
    run_phase leqb guard i Before tr = Some (Inside m) ->
    step leqb jump p1 j e p2 -> j <> i ->
    (forall f, e = EWr f -> guard f <> m) /\
    (forall f, e = ERd f -> guard f = m -> exists k1, nth_error p1 i = Some ([(m, Sh)], k1)).
  Proof. exact (single_section_atomic_partial leqb leqb_spec guard rank nb ord). Qed.
End Generic.

Print Assumptions C12_well_locked_race_free.
Print Assumptions C12_excl_section_uninterrupted.
Print Assumptions C12_shared_section_sees_no_write.
Print Assumptions C12_no_block_while_locked.
Print Assumptions C12_lock_order_no_wait_cycle.
Print Assumptions C12_single_section_trace.
Print Assumptions C12_single_section_atomic_partial.

(* ------------------------------------------------------------------ part 2: any program over the relay's guard table *)
(* [reach nb ord prog q]: q is reachable from a pool of ANY number of threads, each running ANY function of
   [prog] with its lock/field prefixes instantiated by ANY injective map to runtime objects, under ANY schedule,
   where moreover a thread may at any time jump to any code the checker accepts from the locks it holds. *)

Theorem C12_prog_race_free :
  forall prog q, well_locked_prog prog = true -> reach false false prog q -> ~ race q.
Proof. exact prog_race_free. Qed.
Print Assumptions C12_prog_race_free.

Theorem C12_prog_excl_section_uninterrupted :
  forall prog q i j t u m f w,
  well_locked_prog prog = true -> reach false false prog q ->
  nth_error q i = Some t -> held oname_eqb m (fst t) = Some Ex ->
  nth_error q j = Some u -> at_access u f w -> guard_of f = m -> j = i.
Proof. exact prog_excl_section_uninterrupted. Qed.
Print Assumptions C12_prog_excl_section_uninterrupted.

Theorem C12_prog_shared_section_sees_no_write :
  forall prog q i j t u m f,
  well_locked_prog prog = true -> reach false false prog q ->
  nth_error q i = Some t -> held oname_eqb m (fst t) <> None ->
  nth_error q j = Some u -> at_access u f true -> guard_of f = m -> j = i.
Proof. exact prog_shared_section_sees_no_write. Qed.
Print Assumptions C12_prog_shared_section_sees_no_write.

Theorem C12_prog_no_block_while_locked :
  forall prog q i t,
  no_block_while_locked prog = true -> reach true false prog q ->
  nth_error q i = Some t -> at_block t -> fst t = [].
Proof. exact prog_no_block_while_locked. Qed.
Print Assumptions C12_prog_no_block_while_locked.

Theorem C12_prog_lock_order_no_wait_cycle :
  forall prog q i,
  lock_order_ok prog = true -> reach false true prog q -> ~ clos_trans nat (waits_for oname_eqb q) i i.
Proof. exact prog_no_wait_cycle. Qed.
Print Assumptions C12_prog_lock_order_no_wait_cycle.

(* a loop variable or a callee's receiver may denote another object next time round: changing the
   instantiation of every prefix that is not currently locked is one of the allowed jumps *)
Theorem C12_rebinding_is_a_jump :
  forall nb ord rho rho' ls k,
  injective rho' -> (forall m md, In (m, md) ls -> rho' (fst m) = rho (fst m)) ->
  check_cont sname_eqb guard_of rank_of nb ord ls k = true ->
  ojump nb ord (inst_ls rho ls) (map (inst rho') k).
Proof. exact rebind_is_jump. Qed.
Print Assumptions C12_rebinding_is_a_jump.

(* ------------------------------------------------------------------ part 3: the relay as it is in the repository now *)
Theorem C12_relay_race_free :
  forall q, reach false false LockGen.prog q -> ~ race q.
Proof. exact (fun q => prog_race_free LockGen.prog q gen_well_locked). Qed.
Print Assumptions C12_relay_race_free.

Theorem C12_relay_excl_section_uninterrupted :
  forall q i j t u m f w, reach false false LockGen.prog q ->
  nth_error q i = Some t -> held oname_eqb m (fst t) = Some Ex ->
  nth_error q j = Some u -> at_access u f w -> guard_of f = m -> j = i.
Proof. exact (fun q i j t u m f w => prog_excl_section_uninterrupted LockGen.prog q i j t u m f w gen_well_locked). Qed.
Print Assumptions C12_relay_excl_section_uninterrupted.

Theorem C12_relay_shared_section_sees_no_write :
  forall q i j t u m f, reach false false LockGen.prog q ->
  nth_error q i = Some t -> held oname_eqb m (fst t) <> None ->
  nth_error q j = Some u -> at_access u f true -> guard_of f = m -> j = i.
Proof. exact (fun q i j t u m f => prog_shared_section_sees_no_write LockGen.prog q i j t u m f gen_well_locked). Qed.
Print Assumptions C12_relay_shared_section_sees_no_write.

Theorem C12_relay_no_block_while_locked :
  forall q i t, reach true false LockGen.prog q -> nth_error q i = Some t -> at_block t -> fst t = [].
Proof. exact (fun q i t => prog_no_block_while_locked LockGen.prog q i t gen_no_block_while_locked). Qed.
Print Assumptions C12_relay_no_block_while_locked.

Theorem C12_relay_lock_order_no_wait_cycle :
  forall q i, reach false true LockGen.prog q -> ~ clos_trans nat (waits_for oname_eqb q) i i.
Proof. exact (fun q i => prog_no_wait_cycle LockGen.prog q i gen_lock_order_ok). Qed.
Print Assumptions C12_relay_lock_order_no_wait_cycle.

(* every exported method of CodeStore, deny.Store and chanmap.Store is one critical section on its own lock *)
Theorem C12_relay_store_methods_single_section :
  forall nb ord p tr q i name body rho,
  In (name, body) LockGen.prog -> In name LockGen.store_methods -> injective rho ->
  nth_error p i = Some ([], [inst rho body]) ->
  exec oname_eqb (ojump nb ord) p tr q -> no_jump i tr ->
  exists ph, run_phase oname_eqb guard_of i Before tr = Some ph.
Proof.
  exact (fun nb ord p tr q i name body rho =>
           prog_single_section_trace nb ord LockGen.store_methods LockGen.prog p tr q i name body rho gen_single_section).
Qed.
Print Assumptions C12_relay_store_methods_single_section.

Theorem C12_relay_store_methods_atomic_partial :
  forall p tr p1 i name body rho j e p2 m,
  runs LockGen.prog p ->
  In (name, body) LockGen.prog -> In name LockGen.store_methods -> injective rho ->
  nth_error p i = Some ([], [inst rho body]) ->
  exec oname_eqb (ojump false false) p tr p1 -> no_jump i tr ->
  run_phase oname_eqb guard_of i Before tr = Some (Inside m) ->
  step oname_eqb (ojump false false) p1 j e p2 -> j <> i ->
  (forall f, e = EWr f -> guard_of f <> m) /\
  (forall f, e = ERd f -> guard_of f = m -> exists k1, nth_error p1 i = Some ([(m, Sh)], k1)).
Proof.
  exact (fun p tr p1 i name body rho j e p2 m =>
           prog_single_section_atomic_partial LockGen.store_methods LockGen.prog p tr p1 i name body rho j e p2 m
             gen_well_locked gen_single_section).
Qed.
Print Assumptions C12_relay_store_methods_atomic_partial.

(* ------------------------------------------------------------------ non-vacuity *)
(* an injective instantiation exists; a well-locked two-function program has a concrete execution reaching a pool
   where thread 0 is inside its exclusive section at a write and thread 1 waits for that lock *)
Example C12_witness :
  well_locked_prog w_prog = true /\ no_block_while_locked w_prog = true /\ lock_order_ok w_prog = true /\
  single_section_prog ["writer"; "reader"]%string w_prog = true /\
  exists q t0 t1,
    reach false false w_prog q /\
    nth_error q 0 = Some t0 /\ nth_error q 1 = Some t1 /\
    held oname_eqb (enc "h", "Hub.mu"%string) (fst t0) = Some Ex /\
    at_access t0 (enc "h", "Hub.clients"%string) true /\
    at_acq t1 (enc "h", "Hub.mu"%string) /\
    waits_for oname_eqb q 1 0.
Proof. exact witness_execution. Qed.

(* the generated program is not trivially accepted: it has bodies that acquire locks, write guarded fields,
   nest Hub.mu > Frames.mu, and block on channels (counts evaluated on the current source) *)
Fixpoint count_stmt (pr : sstmt -> bool) (s : sstmt) : nat :=
  (if pr s then 1 else 0) +
  match s with
  | Seq a b | Choice a b => count_stmt pr a + count_stmt pr b
  | Loop b => count_stmt pr b
  | _ => 0
  end.
Definition is_acq (s : sstmt) := match s with Acq _ _ => true | _ => false end.
Definition is_wr (s : sstmt) := match s with Wr _ => true | _ => false end.
Definition is_rd (s : sstmt) := match s with Rd _ => true | _ => false end.
Definition is_block (s : sstmt) := match s with Block _ => true | _ => false end.
Definition total (pr : sstmt -> bool) : nat := fold_right (fun e n => count_stmt pr (snd e) + n) 0 LockGen.prog.

Example C12_generated_nontrivial :
  (20 <=? total is_acq) && (15 <=? total is_wr) && (20 <=? total is_rd) && (8 <=? total is_block)
  && (10 <=? length LockGen.store_methods) && (30 <=? length LockGen.prog) = true.
Proof. vm_compute. reflexivity. Qed.
