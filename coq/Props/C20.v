(* C20 - Play files parse as documented; the log filter passes exactly what rules allow.
   Only statements, each closed by [exact] of a lemma proved in Proofs/PlayParse_proofs.v or
   Proofs/Filter_proofs.v.  The oracles (pd = time.ParseDuration, ro = "regexp.Compile succeeds",
   ai = strconv.Atoi, mt = Regexp.MatchString) are universally quantified: every theorem holds for
   whatever these library calls answer.  "no_nl l" says that l is a text line (what bufio.Scanner
   hands to ParseLine).  The model follows the code as repaired by F14a, F14b and F14c. *)
From Coq Require Import Sorted.
From Relay Require Import Base.Prelude Base.AList Model.Filter Model.PlayParse
     Proofs.PlayParse_proofs Proofs.Filter_proofs.
Local Open Scope string_scope.

(* ---- the scanners are the regexps: each finds exactly the split the regexp describes
        (for all byte strings; msg is the (.* ) capture, i.e. up to a newline) ---- *)
Theorem C20_scan_comment_spec :
  forall l f msg, scan_comment l = Some (f, msg) <-> exists m, comment_form l f m /\ msg = take_line m.
Proof. exact scan_comment_spec. Qed.
Print Assumptions C20_scan_comment_spec.

Theorem C20_scan_delay_spec :
  forall l d msg, scan_delay l = Some (d, msg) <-> exists m, delay_form l d m /\ msg = take_line m.
Proof. exact scan_delay_spec. Qed.
Print Assumptions C20_scan_delay_spec.

Theorem C20_scan_cond_spec :
  forall l p n t msg,
    scan_cond l = Some (p, n, t, msg) <-> exists m, cond_form l p n t m /\ msg = take_line m.
Proof. exact scan_cond_spec. Qed.
Print Assumptions C20_scan_cond_spec.

Theorem C20_scan_filter_spec :
  forall l v msg, scan_filter l = Some (v, msg) <-> exists a, filter_form l v a /\ msg = take_line a.
Proof. exact scan_filter_spec. Qed.
Print Assumptions C20_scan_filter_spec.

Theorem C20_cond_gate_spec : forall l, cond_gate l = true <-> cond_gate_form l.
Proof. exact cond_gate_spec. Qed.
Print Assumptions C20_cond_gate_spec.

(* ---- every line yields exactly one item: the one the documented grammar allows ---- *)
Theorem C20_parse_meets_spec :
  forall pd ro ai l, no_nl l -> LineSpec pd ro ai l (parse_line pd ro ai l).
Proof. exact parse_meets_spec. Qed.
Print Assumptions C20_parse_meets_spec.

Theorem C20_parse_total_unique :
  forall pd ro ai l, no_nl l ->
    LineSpec pd ro ai l (parse_line pd ro ai l) /\
    forall i, LineSpec pd ro ai l i -> i = parse_line pd ro ai l.
Proof. exact parse_total_unique. Qed.
Print Assumptions C20_parse_total_unique.

(* ---- comments are never sent (any byte string whose first non-blank byte is '#') ---- *)
Theorem C20_comment_never_sent :
  forall pd ro ai l, head_nb l = Some "#"%char -> exists e m, parse_line pd ro ai l = IComment e m.
Proof. exact comment_never_sent. Qed.
Print Assumptions C20_comment_never_sent.

(* ---- a line that is not a command is sent verbatim ---- *)
Theorem C20_noncommand_verbatim :
  forall pd ro ai l, no_nl l -> ~ is_command l -> parse_line pd ro ai l = ISend l 0 "" 0 0.
Proof. exact noncommand_verbatim. Qed.
Print Assumptions C20_noncommand_verbatim.

Theorem C20_plain_text_verbatim :
  forall pd ro ai l c,
    head_nb l = Some c -> c <> "#"%char -> c <> "["%char -> c <> "<"%char -> c <> "|"%char ->
    parse_line pd ro ai l = ISend l 0 "" 0 0.
Proof. exact plain_text_verbatim. Qed.
Print Assumptions C20_plain_text_verbatim.

(* ---- a delayed send carries exactly the text after its prefix, leading blanks dropped,
        with the stated delay ---- *)
Theorem C20_delayed_send_exact :
  forall pd ro ai l d m t,
    no_nl l -> delay_form l d m -> m <> "" -> dur_of pd d = Some t ->
    parse_line pd ro ai l = ISend m t "" 0 0.
Proof. exact delayed_send_exact. Qed.
Print Assumptions C20_delayed_send_exact.

Theorem C20_wait_exact :
  forall pd ro ai l d t,
    no_nl l -> delay_form l d "" -> dur_of pd d = Some t -> parse_line pd ro ai l = IWait t.
Proof. exact wait_exact. Qed.
Print Assumptions C20_wait_exact.

(* was refuted on the pinned tree by "[5] hello" (F14a) *)
Theorem C20_bad_delay_is_error :
  forall pd ro ai l d m,
    no_nl l -> delay_form l d m -> d <> "" -> pd d = None -> parse_line pd ro ai l = IError.
Proof. exact bad_delay_is_error. Qed.
Print Assumptions C20_bad_delay_is_error.

(* ---- a conditional send carries exactly the text after its prefix and the stated pattern,
        count and timeout; was refuted on the pinned tree by a message containing '>' (F14b)
        and by a pattern containing \' (F14c) ---- *)
Theorem C20_conditional_send_exact :
  forall pd ro ai l p n t m k T,
    no_nl l -> cond_form l p n t m -> ro p = true -> ai n = Some k -> pd t = Some T ->
    parse_line pd ro ai l = ISend m 0 p k T.
Proof. exact conditional_send_exact. Qed.
Print Assumptions C20_conditional_send_exact.

(* ---- checking reports an error precisely when some line is malformed ---- *)
Theorem C20_check_iff_malformed :
  forall pd ro ai ls, (forall l, In l ls -> no_nl l) ->
    (check_fails (parse_file pd ro ai ls) = true <-> exists l, In l ls /\ malformed pd ro ai l).
Proof. exact check_iff_malformed. Qed.
Print Assumptions C20_check_iff_malformed.

(* line by line, and with the number Check reports *)
Theorem C20_error_iff_malformed :
  forall pd ro ai l, no_nl l -> (parse_line pd ro ai l = IError <-> malformed pd ro ai l).
Proof. exact error_iff_malformed. Qed.
Print Assumptions C20_error_iff_malformed.

Theorem C20_check_counts_error_lines :
  forall pd ro ai ls,
    check_count (parse_file pd ro ai ls) = count_true (fun l => is_error (parse_line pd ro ai l)) ls.
Proof. exact check_count_is_malformed_count. Qed.
Print Assumptions C20_check_counts_error_lines.

(* WHAT Check reports: a text exactly for the error lines; the text ends with the offending line,
   verbatim (the unknown-filter-verb text ends with the verb as written) *)
Theorem C20_error_text_iff_error :
  forall pd ro ai re de l, (exists t, error_of pd ro ai re de l = Some t) <-> parse_line pd ro ai l = IError.
Proof. exact error_of_iff. Qed.
Print Assumptions C20_error_text_iff_error.

Theorem C20_error_text_names_its_line :
  forall pd ro ai re de l t,
    error_of pd ro ai re de l = Some t ->
    (exists pre, t = pre ++ l) \/
    (exists v a pre, scan_filter l = Some (v, a) /\ verb_of v = VUnknown /\ t = pre ++ v).
Proof. exact error_text_names_its_line. Qed.
Print Assumptions C20_error_text_names_its_line.

(* ---- whole files (LoadFile / ParseByLine): ls are the newline-ended lines (LF, or CRLF: the \r is
        then the last byte of the line and is dropped), last is the text after the final newline.
        One item per physical line, ParseLine of that line, in order - the unterminated last
        line included ---- *)
Theorem C20_file_lines :
  forall ls last, (forall l, In l ls -> no_nl l) -> no_nl last ->
    raw_lines (unlines ls ++ last) = phys ls last.
Proof. exact raw_lines_unlines. Qed.
Print Assumptions C20_file_lines.

(* every line of ANY length (the repair F14d removed bufio.Scanner's 64 KiB limit) *)
Theorem C20_load_text_items :
  forall pd ro ai ls last,
    (forall l, In l ls -> no_nl l) -> no_nl last ->
    load_text pd ro ai (unlines ls ++ last) =
      map (fun l => parse_line pd ro ai (drop_cr l)) (phys ls last).
Proof. exact load_text_items. Qed.
Print Assumptions C20_load_text_items.

Theorem C20_file_check_iff_malformed :
  forall pd ro ai ls last,
    (forall l, In l ls -> no_nl l) -> no_nl last ->
    (check_fails (load_text pd ro ai (unlines ls ++ last)) = true <->
     exists l, In l (phys ls last) /\ malformed pd ro ai (drop_cr l)).
Proof. exact file_check_iff_malformed. Qed.
Print Assumptions C20_file_check_iff_malformed.

(* Check's report for any file text: exactly the malformed lines, each once, in the order of the
   file, each with its own 1-based physical line number (the code prints the texts only; the
   number is the model's account of where each text comes from) and the text ParseLine formats;
   as many entries as Check counts; empty iff no line is malformed *)
Theorem C20_check_reports_exactly_the_malformed_lines :
  forall pd ro ai re de ls last,
    (forall l, In l ls -> no_nl l) -> no_nl last ->
    let lines := map drop_cr (phys ls last) in
    let rep := check_report pd ro ai re de (file_lines (unlines ls ++ last)) in
    (forall n t, In (n, t) rep <->
       exists l, nth_error lines (N.to_nat n - 1) = Some l /\ (1 <= n)%N /\
                 malformed pd ro ai l /\ error_of pd ro ai re de l = Some t) /\
    StronglySorted (fun a b => (fst a < fst b)%N) rep /\
    N.of_nat (List.length rep) = check_count (load_text pd ro ai (unlines ls ++ last)) /\
    (rep = [] <-> ~ exists l, In l lines /\ malformed pd ro ai l).
Proof. exact check_reports_exactly_the_malformed_lines. Qed.
Print Assumptions C20_check_reports_exactly_the_malformed_lines.

(* EVIDENCE ONLY, about the loader as it was BEFORE F14d (load_text_limited = the same loader with
   bufio.Scanner's default limit): that model violates the clause - a file that is one line of
   65536 '=' has one physical line, gave no item, and the load failed.  The check found this, it
   was repaired in /repo (d428daa), and the harness keeps loading lines of 65535 .. several MiB
   through the real LoadFile and requires their items. *)
Theorem C20_old_scanner_limit_refuted :
  forall pd ro ai, exists text,
    List.length (raw_lines text) = 1%nat /\ load_text_limited pd ro ai text = ([], true).
Proof. intros pd ro ai. exists (rep 65536 "="). exact (old_limit_refused pd ro ai). Qed.
Print Assumptions C20_old_scanner_limit_refuted.

(* ---- the filter: for every sequence of accept / deny / reset (and delete) commands and every line ---- *)
Theorem C20_filter_spec :
  forall mt acts line,
    pass mt (ffinal acts) line = true <->
      ((forall p, ~ accept_in_force p acts) /\ (forall p, ~ deny_in_force p acts)) \/
      ((forall p, deny_in_force p acts -> mt p line = false) /\
       exists p, accept_in_force p acts /\ mt p line = true).
Proof. exact filter_spec. Qed.
Print Assumptions C20_filter_spec.

(* a received line is logged iff it passes the filter set by the commands received before it *)
Theorem C20_filter_lines_spec :
  forall mt evs s,
    (frun mt fnew (evs ++ [Line s]) =
     frun mt fnew evs ++ (if pass mt (ffinal (acts_of evs)) s then [s] else []))%list.
Proof. exact filter_lines_spec. Qed.
Print Assumptions C20_filter_lines_spec.

(* what is logged after any point of a history is what the rule lets through under the filter set
   by the commands before that point - whatever happened to the lines before it (e.g. lines lost
   while the log file could not be written) *)
Theorem C20_filter_output_splits :
  forall mt f e1 e2, (frun mt f (e1 ++ e2) = frun mt f e1 ++ frun mt (fstate f e1) e2)%list.
Proof. exact frun_app. Qed.
Print Assumptions C20_filter_output_splits.

Theorem C20_reset_clears : forall mt acts line, pass mt (ffinal (acts ++ [Reset])%list) line = true.
Proof. exact reset_clears. Qed.
Print Assumptions C20_reset_clears.

Theorem C20_readd_idempotent : forall f a, fapply (fapply f a) a = fapply f a.
Proof. exact readd_idempotent. Qed.
Print Assumptions C20_readd_idempotent.

Theorem C20_readd_in_force_same_verdict :
  forall mt acts p line,
    accept_in_force p acts -> pass mt (ffinal (acts ++ [Accept p])%list) line = pass mt (ffinal acts) line.
Proof. exact readd_in_force_same_verdict. Qed.
Print Assumptions C20_readd_in_force_same_verdict.

(* ---- the log channel is bounded and its consumer may stop reading: FilterLines then blocks on
        its send, and nothing is lost.  For EVERY capacity, EVERY schedule of filter and consumer
        moves and EVERY history: delivered ++ waiting in the channel ++ still owed by the rule is
        exactly what the rule lets through (none lost, none duplicated, order kept) ---- *)
Theorem C20_stalled_consumer_loses_nothing :
  forall mt cap sched evs,
    let p := prun mt cap (pinit evs) sched in
    (deliv p ++ pbuf p ++ frun mt (pf p) (pend p) = frun mt fnew evs)%list.
Proof. exact pipe_loses_nothing. Qed.
Print Assumptions C20_stalled_consumer_loses_nothing.

(* once every event is handled and the channel drained, exactly the permitted lines have arrived *)
Theorem C20_stalled_consumer_exact :
  forall mt cap sched evs,
    pdone (prun mt cap (pinit evs) sched) = true ->
    deliv (prun mt cap (pinit evs) sched) = frun mt fnew evs.
Proof. exact pipe_finished_exact. Qed.
Print Assumptions C20_stalled_consumer_exact.

(* at any moment - e.g. when the context is cancelled - what has arrived is a prefix of them *)
Theorem C20_delivered_is_prefix :
  forall mt cap sched evs,
    exists rest, (frun mt fnew evs = deliv (prun mt cap (pinit evs) sched) ++ rest)%list.
Proof. exact pipe_delivered_is_prefix. Qed.
Print Assumptions C20_delivered_is_prefix.

(* the pipeline is never stuck while something is left, and a schedule that keeps moving finishes *)
Theorem C20_pipe_progress :
  forall mt cap p, pdone p = false -> exists a q, pstep mt cap p a = Some q.
Proof. exact pipe_progress. Qed.
Print Assumptions C20_pipe_progress.

Theorem C20_pipe_completes : forall mt cap p, exists sched, pdone (prun mt cap p sched) = true.
Proof. exact pipe_completes. Qed.
Print Assumptions C20_pipe_completes.

(* non-vacuity: capacity 1, the consumer does not read: the second permitted line blocks the
   filter (its move is refused), the consumer's read releases it, all three lines arrive *)
Example C20_pipe_witness :
  let evs := [Line "a"; Line "b"; Act (Deny "x"); Line "c"] in
  let mt := fun (_ _ : string) => false in
  let blocked := prun mt 1 (pinit evs) [StepFilter] in
  pstep mt 1 blocked StepFilter = None /\ pstep mt 1 blocked StepRendezvous = None /\
  pbuf (prun mt 1 (pinit evs) [StepFilter; StepFilter; StepFilter]) = ["a"] /\
  pdone (prun mt 1 (pinit evs) [StepFilter; StepFilter; StepConsumer; StepFilter; StepConsumer; StepFilter;
                               StepFilter; StepConsumer]) = true /\
  deliv (prun mt 1 (pinit evs) [StepFilter; StepFilter; StepConsumer; StepFilter; StepConsumer; StepFilter;
                               StepFilter; StepConsumer]) = ["a"; "b"] /\
  frun mt fnew evs = ["a"; "b"].
Proof. vm_compute. repeat split. Qed.

(* ---- PLAYING the items: "with the stated delay".  play_check judges the stamps taken by the
        consumers of the real Play's channels, one-sidedly (Model/PlayParse.v).
        (1) it never blames a Play that keeps every stated delay, whatever the overheads;
        (2) passing means: every delayed send is handed over no earlier than its stated delay
            after the earliest possible finish of what came before;
        (3) and a conditional send hands the checker exactly the stated pattern, count and
            timeout, and sends only after the checker said "satisfied" ---- *)
Theorem C20_play_check_accepts_correct_play :
  forall T its o, plays T its o -> forall tol L, (0 <= tol)%Z -> (L <= T)%Z -> play_check tol L its o = true.
Proof. exact play_check_accepts_correct_play. Qed.
Print Assumptions C20_play_check_accepts_correct_play.

Theorem C20_play_check_keeps_stated_delay :
  forall tol L m d p k Tm r o,
    complete_cond p k Tm = false ->
    play_check tol L (ISend m d p k Tm :: r) o = true ->
    exists ready after ss, o_sent o = (m, ready, after) :: ss /\ (L + d - tol <= after)%Z.
Proof. exact play_check_keeps_stated_delay. Qed.
Print Assumptions C20_play_check_keeps_stated_delay.

Theorem C20_play_check_honours_condition :
  forall tol L m d p k Tm r o,
    complete_cond p k Tm = true ->
    play_check tol L (ISend m d p k Tm :: r) o = true ->
    exists recv sat cs ready after ss,
      o_cond o = (p, k, Tm, recv, sat) :: cs /\ (L + d - tol <= recv)%Z /\
      o_sent o = (m, ready, after) :: ss /\ (sat - tol <= after)%Z /\ (L + d - tol <= after)%Z.
Proof. exact play_check_honours_condition. Qed.
Print Assumptions C20_play_check_honours_condition.

(* non-vacuity: <'ready',1,30s> start ; [5s] stop - the checker takes 6 s.  Stamps of a correct
   Play pass; stamps in which "stop" leaves right after "start" (the 5 s swallowed by the time
   the condition took) do not *)
Example C20_play_witness :
  let its := [ISend "start" 0 "ready" 1 30000000000; ISend "stop" 5000000000 "" 0 0] in
  let good := mkobs [("start", 0, 6000100000); ("stop", 6000200000, 11000300000)]%Z
                    [("ready", 1, 30000000000, 50000, 6000000000)]%Z [] [] in
  let early := mkobs [("start", 0, 6000100000); ("stop", 6000200000, 6000300000)]%Z
                     [("ready", 1, 30000000000, 50000, 6000000000)]%Z [] [] in
  play_check 1000000 0 its good = true /\ play_check 1000000 0 its early = false /\
  plays 0 its good.
Proof.
  cbv zeta. split; [vm_compute; reflexivity|]. split; [vm_compute; reflexivity|].
  change (plays 0 [ISend "start" 0 "ready" 1 30000000000; ISend "stop" 5000000000 "" 0 0]
            (add_cond ("ready", 1, 30000000000, 50000, 6000000000)%Z
               (add_sent ("start", 0, 6000100000)%Z
                  (add_sent ("stop", 6000200000, 11000300000)%Z (mkobs [] [] [] []))))).
  apply P_send_cond with (C := 10000%Z) (S := 6000050000%Z) (H := 6000090000%Z); try reflexivity; try lia.
  apply P_send with (H := 11000200000%Z); try reflexivity; try lia.
  constructor.
Qed.

(* ---- non-vacuity: concrete oracles, the lines of the README and the three former witnesses ---- *)
Definition ex_pd (s : string) : option Z :=
  if s =? "1.2s" then Some 1200000000%Z else if s =? "100ms" then Some 100000000%Z
  else if s =? "10s" then Some 10000000000%Z else if s =? "1s" then Some 1000000000%Z else None.
Definition ex_ro (s : string) : bool := negb (s =? "^\/(?!\/)(.*?)").
Definition ex_ai (s : string) : option Z := if s =? "5" then Some 5%Z else if s =? "1" then Some 1%Z else None.
Definition ex_mt (p l : string) : bool :=
  ((p =? "[a-h]") && (l =? "ah")) || ((p =? "[a-h]") && (l =? "ah0")) || ((p =? "[0-9]") && (l =? "ah0")).

Example C20_witness :
  let P := parse_line ex_pd ex_ro ex_ai in
  (* the hypotheses of the theorems are met by README lines *)
  no_nl "[1.2s] {""some"":""msg""}" /\
  delay_form "[1.2s] {""some"":""msg""}" "1.2s" "{""some"":""msg""}" /\
  cond_form "<'\""is\""\s*:\s*\""running\""',5,10s> {""stop"":""motor""}" "\""is\""\s*:\s*\""running\""" "5" "10s" "{""stop"":""motor""}" /\
  filter_form "|+> ^\s*{" "+" "^\s*{" /\
  comment_form "#+ comment that is echoed to log file" "+" "comment that is echoed to log file" /\
  (* and the cascade reads them as documented *)
  P "# comment" = IComment false "comment" /\
  P "#+ comment that is echoed to log file" = IComment true "comment that is echoed to log file" /\
  P "{""some"":""msg""}" = ISend "{""some"":""msg""}" 0 "" 0 0 /\
  P "[1.2s] {""some"":""msg""}" = ISend "{""some"":""msg""}" 1200000000 "" 0 0 /\
  P "[100ms]" = IWait 100000000 /\
  P "[] # This WILL be sent" = ISend "# This WILL be sent" 0 "" 0 0 /\
  P "|+> ^\s*{" = IFilter (Accept "^\s*{") /\ P "|-> ""hb""" = IFilter (Deny """hb""") /\ P "|r>" = IFilter Reset /\
  P "|X>" = IError /\ P "|a> ^\/(?!\/)(.*?)" = IError /\
  (* F14a, F14b, F14c: the inputs that refuted the property on the pinned tree *)
  P "[5] hello" = IError /\
  P "<'p',1,1s> {""a"":"">""}" = ISend "{""a"":"">""}" 0 "p" 1 1000000000 /\
  P "<'\'foo\'',1,10s> x" = ISend "x" 0 "\'foo\'" 1 10000000000 /\
  check_fails (parse_file ex_pd ex_ro ex_ai ["# c"; "[5] hello"; "go"]) = true /\
  (* a file with a CRLF line, an empty line and an unterminated last line *)
  load_text ex_pd ex_ro ex_ai (str [35;32;99;13;10; 10; 91;53;93;32;104;10; 103;111]%N) =
    [IComment false "c"; ISend "" 0 "" 0 0; IError; ISend "go" 0 "" 0 0] /\
  check_report ex_pd ex_ro ex_ai (fun _ => "E") (fun _ => "D")
      (file_lines (str [35;32;99;13;10; 10; 91;53;93;32;104;10; 103;111;10; 124;88;62]%N)) =
    [(3%N, "unknown delay time format: [5] h");
     (5%N, "malformed filter command; first argument not one of [+,-,a,d,r,accept,deny,reset], but was X")] /\
  (* a line of 65536 bytes is a line like any other *)
  List.length (load_text ex_pd ex_ro ex_ai (rep 65536 "=")) = 1%nat /\
  (* filter: accept [a-h], deny [0-9]; then reset *)
  frun ex_mt fnew [Line "zz"; Act (Accept "[a-h]"); Act (Deny "[0-9]"); Line "ah"; Line "ah0"; Line "zz";
                   Act Reset; Line "zz"] = ["zz"; "ah"; "zz"] /\
  accept_in_force "[a-h]" [Accept "[a-h]"; Deny "[0-9]"; DelAccept "x"] /\
  frun ex_mt fnew [Act (Accept "[a-h]"); Act (Accept "[0-9]"); Act (DelAccept "[a-h]"); Line "ah"; Line "ah0"] = ["ah0"].
Proof.
  cbv zeta. repeat match goal with |- _ /\ _ => split end; try (vm_compute; reflexivity).
  - exists "", "", "", " ". vm_compute. repeat split.
  - exists "", "", "", "", "", "", "", " ". split; [vm_compute; reflexivity|].
    repeat split; try (vm_compute; reflexivity).
    repeat first [apply qp_nil | apply qp_esc; [reflexivity|reflexivity|] | apply qp_chr; [reflexivity|reflexivity|]].
  - exists "", "", "", " ". vm_compute. repeat split. discriminate.
  - exists "", "#", " ". vm_compute. repeat split. discriminate.
  - exists [], [Deny "[0-9]"; DelAccept "x"]. split; [reflexivity|].
    intros x [<-|[<-|[]]] [C|C]; discriminate.
Qed.
