(* C02 - Connection codes are single-use, short-lived and die with the booking.
   Only statements, each closed by [exact] of a lemma proved in Proofs/CodeStore_proofs.v.
   The model (Model/CodeStore.v) follows internal/ttlcode/ttlcode.go as repaired by fixes F01
   (ExchangeCode tests the expiry) and F02 (DeleteByBookingID holds the lock); the history
   [Submit c; Tick (ttl+1); Exchange c] that succeeded before F01 is the Example at the end. *)
From Relay Require Import Base.Prelude Base.AList Model.CodeStore Proofs.CodeStore_proofs.

(* every history whose codes are distinct: each code is exchanged successfully at most once *)
Theorem C02_exchange_at_most_once :
  forall t life ops c, fresh ops -> (wins c (init t life) ops <= 1)%nat.
Proof. intros t life ops c. exact (exchange_at_most_once t life ops c). Qed.
Print Assumptions C02_exchange_at_most_once.

(* from any state and without the freshness hypothesis: successes never outnumber the entry that was
   there plus the submissions of that code *)
Theorem C02_each_win_consumes_a_submission :
  forall c ops s, (wins c s ops <= (if mem N.eqb c (store s) then 1 else 0) + submits c ops)%nat.
Proof. exact wins_bound. Qed.
Print Assumptions C02_each_win_consumes_a_submission.

(* what comes out is what was stored under that code, and only before its expiry *)
Theorem C02_exchange_returns_stored :
  forall s c t b, snd (step s (Exchange c)) = OTok t b ->
    exists e, clk c (store s) = Some e /\ tok e = t /\ bk e = b /\ (now s <= exp e)%Z.
Proof. exact exchange_returns_stored. Qed.
Print Assumptions C02_exchange_returns_stored.

(* every history: a code presented more than ttl seconds after it was issued is refused,
   whatever happened in between (swept or not) *)
Theorem C02_no_exchange_after_ttl :
  forall t0 life ops1 c t b ops2,
    let s1 := final (init t0 life) ops1 in
    let s2 := final (fst (step s1 (Submit c t b))) ops2 in
    submits c ops2 = 0%nat ->
    (now s1 + life < now s2)%Z ->
    snd (step s2 (Exchange c)) = ORefused.
Proof. exact no_exchange_after_ttl. Qed.
Print Assumptions C02_no_exchange_after_ttl.

(* every history: after the booking is purged (deny), no entry names it ... *)
Theorem C02_purge_kills_booking :
  forall t0 life ops b c e,
    clk c (store (fst (step (final (init t0 life) ops) (Purge b)))) = Some e -> bk e <> b.
Proof. intros t0 life ops b c e. exact (purge_kills_booking _ b c e (inv_final _ ops (inv_init t0 life))). Qed.
Print Assumptions C02_purge_kills_booking.

(* ... a code issued for it before the purge is refused ever after ... *)
Theorem C02_purged_code_dead :
  forall t0 life ops1 c t b ops2 ops3,
    submits c ops2 = 0%nat -> submits c ops3 = 0%nat ->
    snd (step (final (init t0 life) (ops1 ++ Submit c t b :: ops2 ++ Purge b :: ops3)) (Exchange c)) = ORefused.
Proof. exact purged_code_dead. Qed.
Print Assumptions C02_purged_code_dead.

(* ... and (frame) the entries of every other booking are exactly as they were *)
Theorem C02_purge_frame :
  forall t0 life ops b c,
    let s := final (init t0 life) ops in
    (forall e, clk c (store s) = Some e -> bk e <> b) ->
    clk c (store (fst (step s (Purge b)))) = clk c (store s).
Proof. intros t0 life ops b c. exact (purge_frame _ b c (inv_final _ ops (inv_init t0 life))). Qed.
Print Assumptions C02_purge_frame.

(* exchanging one code leaves every other entry's presence and content unchanged *)
Theorem C02_exchange_frame :
  forall s c c', c' <> c -> clk c' (store (fst (step s (Exchange c)))) = clk c' (store s).
Proof. exact exchange_frame. Qed.
Print Assumptions C02_exchange_frame.

(* a sweep leaves every entry that has not expired exactly as it was, and removes nothing else but
   whole entries *)
Theorem C02_sweep_frame :
  forall t0 life ops c,
    let s := final (init t0 life) ops in
    (forall e, clk c (store s) = Some e -> (now s <= exp e)%Z -> clk c (store (fst (step s Sweep))) = Some e) /\
    (clk c (store (fst (step s Sweep))) = None \/ clk c (store (fst (step s Sweep))) = clk c (store s)).
Proof.
  intros t0 life ops c. exact (conj (fun e => sweep_frame _ c e (inv_final _ ops (inv_init t0 life)))
                                    (sweep_removes_only_expired _ c (inv_final _ ops (inv_init t0 life)))).
Qed.
Print Assumptions C02_sweep_frame.

(* issuing a code touches no other code *)
Theorem C02_submit_frame :
  forall s c t b c', c' <> c -> clk c' (store (fst (step s (Submit c t b)))) = clk c' (store s).
Proof. exact submit_frame. Qed.
Print Assumptions C02_submit_frame.

(* interleavings: any number of threads running any programs (admissions, sessions, denies, sweeps)
   with every store method one atomic step, under every schedule: at most one success per code *)
Theorem C02_exchange_at_most_once_sched :
  forall t life progs sched c,
    fresh (concat progs) -> (trace_wins c (snd (run_sched (init t life) progs sched)) <= 1)%nat.
Proof. exact exchange_at_most_once_sched. Qed.
Print Assumptions C02_exchange_at_most_once_sched.

(* n connections presenting the same live code at the same instant: exactly one wins under every
   schedule in which at least one of them runs; never more than one from any state *)
Theorem C02_same_instant_exactly_one :
  forall s c e n sched,
    clk c (store s) = Some e -> (now s <= exp e)%Z ->
    (exists i, In i sched /\ (i < n)%nat) ->
    trace_wins c (snd (run_sched s (repeat [Exchange c] n) sched)) = 1%nat.
Proof. exact same_instant_exactly_one. Qed.
Print Assumptions C02_same_instant_exactly_one.

Theorem C02_same_instant_at_most_one :
  forall s c n sched, (trace_wins c (snd (run_sched s (repeat [Exchange c] n) sched)) <= 1)%nat.
Proof. exact same_instant_at_most_one. Qed.
Print Assumptions C02_same_instant_at_most_one.

(* the statement speaks of websocket connections: a presentation may be on the path of ANOTHER topic
   (flag true; serveWs exchanges the code before it looks at the token). Every history of such
   presentations with distinct codes lets in at most one connection per code ... *)
Theorem C02_at_most_one_connection_per_code :
  forall t life ops c, fresh (map snd ops) -> (admissions c (init t life) ops <= 1)%nat.
Proof. exact admissions_at_most_once. Qed.
Print Assumptions C02_at_most_one_connection_per_code.

(* ... a wrong-path presentation never lets anybody in ... *)
Theorem C02_wrong_path_never_joins :
  forall c o x, is_win c o (view_out true x) = false.
Proof. exact wrong_path_never_joins. Qed.
Print Assumptions C02_wrong_path_never_joins.

(* ... and a code that has been presented once - successfully or not, on whatever path - is refused
   ever after, in every history (single use in the strong sense: presenting spends the code) *)
Theorem C02_presented_code_dead :
  forall t0 life ops1 c ops2, submits c ops2 = 0%nat ->
    snd (step (final (init t0 life) (ops1 ++ Exchange c :: ops2)) (Exchange c)) = ORefused.
Proof. exact presented_code_dead. Qed.
Print Assumptions C02_presented_code_dead.

(* every interleaving IS a history: the final store and the outputs of a scheduled run are those of the
   sequential run of the operations in the order the schedule took them - so every theorem above that
   is stated over histories (expiry, purge, frames) holds for every schedule of concurrent threads *)
Theorem C02_schedule_is_a_history :
  forall sched s progs,
    fst (run_sched s progs sched) = final s (trace_ops (snd (run_sched s progs sched))) /\
    map snd (snd (run_sched s progs sched)) = snd (run s (trace_ops (snd (run_sched s progs sched)))).
Proof. exact run_sched_is_run. Qed.
Print Assumptions C02_schedule_is_a_history.

(* sweeps, exchanges and purges running concurrently (any number of threads, any schedule, no thread
   issuing codes): what is left afterwards is explainable by the operations that completed - a code
   whose exchange succeeded is gone, no code of a purged booking is left, and a live code that nobody
   presented, of a booking nobody purged, is still there with its own entry *)
Theorem C02_concurrent_final_state_consistent :
  forall t0 life pre progs sched,
    let s := final (init t0 life) pre in
    let r := run_sched s progs sched in
    (forall c, submits c (concat progs) = 0%nat) ->
    (forall c, (1 <= trace_wins c (snd r))%nat -> clk c (store (fst r)) = None) /\
    (forall b, In (Purge b) (trace_ops (snd r)) -> forall c e, clk c (store (fst r)) = Some e -> bk e <> b) /\
    (forall c e, clk c (store s) = Some e -> (now s <= exp e)%Z -> forallb (spares c e) (concat progs) = true ->
       clk c (store (fst r)) = Some e).
Proof. exact concurrent_final_state_consistent. Qed.
Print Assumptions C02_concurrent_final_state_consistent.

(* non-vacuity for the five above: a wrong-path presentation spends the code (the later right-path one is
   refused) while another code is let in; a sweeper, an exchanger and a purger interleaved leave exactly
   the untouched code *)
Example C02_witness_view_and_concurrency :
  let h := [(false, Submit 1 10 7); (false, Submit 2 11 7); (true, Exchange 1); (false, Exchange 1); (false, Exchange 2)]%N in
  fresh (map snd h) /\
  run_view (init 100 30) h = [OCode 1; OCode 2; ORefused; ORefused; OTok 11 7]%N /\
  admissions 1%N (init 100 30) h = 0%nat /\ admissions 2%N (init 100 30) h = 1%nat /\
  let pre := [Submit 1 10 7; Submit 2 11 8; Submit 3 12 9]%N in
  let progs := [[Sweep; Sweep; Sweep]; [Exchange 1]; [Purge 8]]%N in
  let r := run_sched (final (init 100 30) pre) progs [0; 1; 0; 2; 0]%nat in
  (forall c, submits c (concat progs) = 0%nat) /\
  trace_wins 1%N (snd r) = 1%nat /\ In (Purge 8%N) (trace_ops (snd r)) /\
  forallb (spares 3%N (mkentry 12 9 130)) (concat progs) = true /\
  map fst (store (fst r)) = [3%N].
Proof.
  vm_compute. repeat split; try (repeat constructor; cbn; intuition discriminate); try tauto.
Qed.

(* non-vacuity: a concrete fresh history exercising every operation; the F1 history is refused; three
   presenters of one live code under a scrambled schedule give one winner *)
Example C02_witness :
  let h := [Submit 1 10 7; Submit 2 11 7; Submit 3 12 8; Exchange 1; Exchange 1; Tick 2; Sweep; Count;
            Purge 7; Exchange 2; Tick 2; Exchange 3]%N in
  fresh h /\
  snd (run (init 100 3) h) =
    [OCode 1; OCode 2; OCode 3; OTok 10 7; ORefused; OUnit; OUnit; OCount 2 2; OUnit; ORefused; OUnit; ORefused]%N /\
  snd (run (init 100 1) [Submit 1 10 7; Tick 2; Exchange 1]%N) = [OCode 1%N; OUnit; ORefused] /\
  trace_wins 1%N (snd (run_sched (fst (step (init 100 3) (Submit 1 10 7)%N)) (repeat [Exchange 1%N] 3) [2; 5; 0; 1; 2]%nat)) = 1%nat.
Proof. vm_compute. repeat split. repeat constructor; cbn; intuition discriminate. Qed.
