(* C05 - Each reader gets, in order and without loss or duplication, the messages of its topic
   from the other writers since it joined; the queue is bounded; a reader whose queue is full is
   dropped rather than skipped over.
   Only statements, each closed by [exact] of a lemma proved in Proofs/Hub_proofs.v. *)
From Relay Require Import Base.Prelude Model.Hub Proofs.Hub_proofs Proofs.Hub_more_proofs.

(* every history: what a reader has written, is writing and has queued is, in order, a prefix of the hub's messages that concern it since it registered; the prefix is everything while it is a member, and a proper prefix once it has been dropped for a full queue *)
Theorem C05_stream_inv :
  forall evs c, In c (conns (run init evs)) -> can_read c = true ->
    exists rest, content c ++ rest = relevant c (log_since (run init evs) c) /\
                 (st c = Joined -> rest = []) /\ (st c = Evicted -> rest <> []).
Proof. exact stream_inv. Qed.
Print Assumptions C05_stream_inv.

(* every history: a reader that is still a member holds exactly its stream: nothing lost, duplicated or reordered *)
Theorem C05_stream_joined :
  forall evs c, In c (conns (run init evs)) -> can_read c = true -> st c = Joined ->
    content c = relevant c (log_since (run init evs) c).
Proof. exact stream_joined. Qed.
Print Assumptions C05_stream_joined.

(* the same at byte level: payloads of the frames on the socket, then of the open frame, then of the queue, back to back, are the payloads of its stream back to back *)
Theorem C05_stream_bytes :
  forall evs c, In c (conns (run init evs)) -> can_read c = true -> st c = Joined ->
    concat (map (fun f => snd (wire f)) (out c)) ++ concat (map m_data (cur c)) ++ concat (map m_data (queue c))
    = concat (map m_data (relevant c (log_since (run init evs) c))).
Proof. exact stream_bytes. Qed.
Print Assumptions C05_stream_bytes.

(* every history: each frame on a reader's socket is a non-empty run of consecutive messages of its stream, typed by its first message, and the frames in order form a prefix of the stream *)
Theorem C05_frames_are_runs :
  forall evs c, In c (conns (run init evs)) -> can_read c = true ->
    Forall (fun f => f <> []) (out c) /\
    (exists rest, concat (out c) ++ rest = relevant c (log_since (run init evs) c)) /\
    (forall f, In f (out c) -> exists h t, f = h :: t /\ wire f = (m_mt h, concat (map m_data f))).
Proof. exact frames_are_runs. Qed.
Print Assumptions C05_frames_are_runs.

(* a member whose queue is full when a message for it arrives is dropped from the hub, keeping what it already holds *)
Theorem C05_full_queue_drops_reader :
  forall s n mt d m i c,
    event_msg s (Recv n mt d) = Some m -> nth_error (conns s) i = Some c ->
    st c = Joined -> wants c m = true -> cap c <= length (queue c) ->
    exists c', nth_error (conns (step s (Recv n mt d))) i = Some c' /\
               st c' = Evicted /\ is_joined c' = false /\ content c' = content c.
Proof. exact full_queue_drops_reader. Qed.
Print Assumptions C05_full_queue_drops_reader.

(* a connection that is no longer a member never becomes one again *)
Theorem C05_dropped_stays_dropped :
  forall evs s i c, nth_error (conns s) i = Some c -> st c <> Joined ->
    exists c', nth_error (conns (run s evs)) i = Some c' /\ st c' <> Joined /\ name c' = name c.
Proof. exact dropped_stays_dropped. Qed.
Print Assumptions C05_dropped_stays_dropped.

(* a member that is still a member after a message for it arrived had room and got the message at the back of its queue: no message is skipped *)
Theorem C05_kept_means_enqueued :
  forall s n mt d m i c c',
    event_msg s (Recv n mt d) = Some m -> nth_error (conns s) i = Some c ->
    nth_error (conns (step s (Recv n mt d))) i = Some c' ->
    st c = Joined -> wants c m = true -> st c' = Joined ->
    queue c' = queue c ++ [m] /\ length (queue c) < cap c.
Proof. exact kept_means_enqueued. Qed.
Print Assumptions C05_kept_means_enqueued.

(* every history: a queue never holds more than its capacity *)
Theorem C05_queue_bounded :
  forall evs c, In c (conns (run init evs)) -> length (queue c) <= cap c.
Proof. exact queue_bounded. Qed.
Print Assumptions C05_queue_bounded.

(* every history: the messages of any one writer reach a member reader in the order the hub received them *)
Theorem C05_per_writer_order :
  forall evs c w, In c (conns (run init evs)) -> can_read c = true -> st c = Joined ->
    filter (fun m => N.eqb (m_name m) w) (content c) =
    filter (fun m => N.eqb (m_name m) w && wants c m) (log_since (run init evs) c).
Proof. exact per_writer_order. Qed.
Print Assumptions C05_per_writer_order.

(* the hub log is exactly the messages accepted along the history, in order *)
Theorem C05_log_spec :
  forall evs s, log (run s evs) = log s ++ accepted_along s evs.
Proof. exact log_spec. Qed.
Print Assumptions C05_log_spec.

(* a dropped connection whose writer has drained the queue finds the channel closed and closes the socket *)
Theorem C05_evicted_drains_then_closes :
  forall c, st c = Evicted -> cur c = [] -> queue c = [] -> st (take c) = Closed.
Proof. exact evicted_drains_then_closes. Qed.
Print Assumptions C05_evicted_drains_then_closes.

(* configuration: whatever BufferSize a relay is given, its connections get a capacity in 1..512: the configured one when legal, otherwise 256 *)
Theorem C05_effective_cap :
  forall z, 1 <= effective_cap z <= 512 /\
            ((1 <= z <= 512)%Z -> effective_cap z = Z.to_nat z) /\
            ((z < 1 \/ 512 < z)%Z -> effective_cap z = 256).
Proof. exact (fun z => conj (effective_cap_legal z) (conj (effective_cap_in_range z) (effective_cap_fallback z))). Qed.
Print Assumptions C05_effective_cap.

(* every history: a reader is dropped for a full queue only if MORE messages than its queue holds were sent to it since it joined *)
Theorem C05_evicted_only_beyond_capacity :
  forall evs c, In c (conns (run init evs)) -> can_read c = true -> st c = Evicted ->
    cap c < length (relevant c (log_since (run init evs) c)).
Proof. exact evicted_only_beyond_capacity. Qed.
Print Assumptions C05_evicted_only_beyond_capacity.

(* hence: with at most cap messages sent to it since it joined, however fast and however it stalls, a reader is never dropped *)
Theorem C05_within_capacity_never_dropped :
  forall evs c, In c (conns (run init evs)) -> can_read c = true ->
    length (relevant c (log_since (run init evs) c)) <= cap c -> st c <> Evicted.
Proof. exact within_capacity_never_dropped. Qed.
Print Assumptions C05_within_capacity_never_dropped.

(* the writer makes progress: for a reader whose socket is open, taking the head and closing the frame puts exactly the head of the queue on the socket as the next frame; a follow-on step appends exactly the next queued message to the open frame *)
Theorem C05_writer_progress :
  forall c h q, is_closed c = false -> queue c = h :: q ->
    (can_read c = true -> cur c = [] ->
       out (close_frame (take c)) = out c ++ [[h]] /\ queue (close_frame (take c)) = q /\
       cur (close_frame (take c)) = [] /\ st (close_frame (take c)) = st c) /\
    (cur c <> [] -> cur (more c) = cur c ++ [h] /\ queue (more c) = q /\ out (more c) = out c).
Proof.
  exact (fun c h q Hcl Hq => conj (fun Hr Hcur => drain_progress c h q Hcl Hr Hcur Hq)
                                  (fun Hcur => more_progress c h q Hcl Hcur Hq)).
Qed.
Print Assumptions C05_writer_progress.

(* the read limit: a message of more than 10 MiB is not relayed - the hub log and what everybody holds stay as they are - and every connection of the sender's name is closed; up to the limit the message goes to the hub as it is *)
Theorem C05_read_limit :
  forall s n mt size d,
    ((max_message_size < size)%N ->
       read_event n mt size d = Unregister n /\
       log (step s (read_event n mt size d)) = log s /\
       (forall c', In c' (conns (step s (read_event n mt size d))) -> name c' = n -> st c' = Closed) /\
       (forall c', In c' (conns (step s (read_event n mt size d))) -> exists c, In c (conns s) /\ content c' = content c)) /\
    ((size <= max_message_size)%N -> read_event n mt size d = Recv n mt d).
Proof.
  exact (fun s n mt size d => conj (oversize_drops_writer s n mt size d) (within_limit_is_received n mt size d)).
Qed.
Print Assumptions C05_read_limit.

(* non-vacuity of the four above: capacity 2; three messages evict the stalled reader 2 (3 > 2), reader 3 drained in between and stays; the oversize message closes writer 1 and leaves the log alone *)
Example C05_capacity_witness :
  let w := mkclient 1 "a" true true 2 [] [] [] Joined 0 in
  let r2 := mkclient 2 "a" true false 2 [] [] [] Joined 0 in
  let r3 := mkclient 3 "a" true false 2 [] [] [] Joined 0 in
  let h := ([Register w; Register r2; Register r3; Recv 1 1 [10]; Recv 1 2 [11]] ++ drain 3 1%nat ++ [Recv 1 1 [12]])%N in
  let s := run init h in
  let s' := step s (read_event 1 2 10485761 [13])%N in
  map st (conns s) = [Joined; Evicted; Joined] /\
  map (fun c => (cap c, length (relevant c (log_since s c)))) (conns s) = [(2, 0); (2, 3); (2, 3)] /\
  map (fun c => map wire (out c)) (conns s) = [[]; []; [(1, [10; 11])]]%N /\
  map st (conns s') = [Closed; Evicted; Joined] /\ length (log s') = 3 /\
  read_event 1 2 10485760 [13]%N = Recv 1 2 [13]%N.
Proof. vm_compute. repeat split. Qed.

(* non-vacuity: writer 1, slow reader 2 with capacity 1 and reader 3 with capacity 2 on one topic.
   The second message finds reader 2's queue full: it is dropped (Evicted), still drains the one
   message it holds, then closes; reader 3 writes both messages merged into one frame. *)
Example C05_witness :
  let w := mkclient 1 "a" true true 1 [] [] [] Joined 0 in
  let r2 := mkclient 2 "a" true false 1 [] [] [] Joined 0 in
  let r3 := mkclient 3 "a" true false 2 [] [] [] Joined 0 in
  let h1 := [Register w; Recv 1 1 [9]; Register r2; Register r3; Recv 1 1 [10]; Recv 1 2 [11]]%N in
  let s1 := run init h1 in
  let s2 := run init (h1 ++ drain 3 1 ++ drain 2 0) in
  let s3 := run s2 [Take 2%N] in
  map st (conns s1) = [Joined; Evicted; Joined] /\
  map since (conns s1) = [0; 1; 1] /\
  map (fun c => map m_data (content c)) (conns s1) = [[]; [[10]]; [[10]; [11]]]%N /\
  map (fun c => map m_data (relevant c (log_since s1 c))) (conns s1) = [[]; [[10]; [11]]; [[10]; [11]]]%N /\
  map (fun c => map wire (out c)) (conns s2) = [[]; [(1, [10])]; [(1, [10; 11])]]%N /\
  map (fun c => length (queue c) <=? cap c) (conns s1) = [true; true; true] /\
  map st (conns s3) = [Joined; Closed; Joined] /\
  (exists c m, event_msg (run init [Register w; Recv 1 1 [9]; Register r2; Register r3; Recv 1 1 [10]]%N) (Recv 1 2 [11])%N = Some m /\
               nth_error (conns (run init [Register w; Recv 1 1 [9]; Register r2; Register r3; Recv 1 1 [10]]%N)) 1 = Some c /\
               st c = Joined /\ wants c m = true /\ cap c <= length (queue c)).
Proof.
  vm_compute. repeat split. do 2 eexists. repeat split. constructor.
Qed.
