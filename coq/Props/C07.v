(* C07 - Cancelling a booking takes effect and stays in effect, whatever races with it.
   Statements over the interleaving model (Model/RelaySys.v): every schedule, any number of
   session / deny / allow / websocket-admission / disconnect threads over any bookings, plus the
   crossbar's deny loop. Each is closed by [exact] of a lemma of Proofs/RelaySys_proofs.v. *)
From Relay Require Import Base.Prelude Model.RelaySys Model.HandlerIR Proofs.RelaySys_proofs Proofs.RelaySys_global Proofs.HandlerIR_proofs.

(* whatever the interleaving: once everything has run to completion (every handler finished, every
   deny notification processed), a booking on the deny list has no live connection *)
Theorem C07_deny_closes_all :
  forall ts cs n sched b k,
    Forall initial_thread ts ->
    quiescent (run sched (init ts cs n)) = true ->
    memN b (deny (run sched (init ts cs n))) = true ->
    live (run sched (init ts cs n)) k b = false.
Proof. intros ts cs n sched b k H. exact (deny_closes_all ts cs n sched b k H). Qed.
Print Assumptions C07_deny_closes_all.

(* no racing request silently erases a cancellation: the only steps that take a booking off the deny
   list are the first step of an explicit allow request for that booking, and a prune tick whose clock is
   past an expiry recorded for it *)
Theorem C07_deny_sticks :
  forall s w s' b,
    step s w = Some s' -> memN b (deny s) = true -> memN b (deny s') = false ->
    exists i, w = T i /\ (thr s i = Some (TAllow b 0) \/ exists t, thr s i = Some (TPrune t 0) /\ expired_at s t b = true).
Proof. exact deny_sticks. Qed.
Print Assumptions C07_deny_sticks.

(* "... until an explicit allow or the expiry given in the deny request": for every schedule and any
   threads, a booking denied with recorded expiry e stops being denied only by an explicit allow request
   for it or by a prune tick whose clock t is past e; and the deny step records exactly the expiry the
   request stated (the latest request wins) *)
Theorem C07_deny_holds_until_allow_or_expiry :
  forall ts cs n sched w s' b e,
    step (run sched (init ts cs n)) w = Some s' ->
    memN b (deny (run sched (init ts cs n))) = true -> In (b, e) (dexp (run sched (init ts cs n))) ->
    memN b (deny s') = false ->
    exists i, w = T i /\ (thr (run sched (init ts cs n)) i = Some (TAllow b 0) \/
                          exists t, thr (run sched (init ts cs n)) i = Some (TPrune t 0) /\ (e < t)%Z).
Proof. exact deny_holds_until_allow_or_expiry. Qed.
Print Assumptions C07_deny_holds_until_allow_or_expiry.

Theorem C07_deny_records_its_expiry :
  forall s i b e,
    thr s i = Some (TDeny b e 0) ->
    exists s', tstep s i = Some s' /\ memN b (deny s') = true /\ In (b, e) (dexp s') /\
               (forall e', In (b, e') (dexp s') -> e' = e).
Proof. exact deny_records_its_expiry. Qed.
Print Assumptions C07_deny_records_its_expiry.

(* new session requests carrying a denied booking are refused with 400: no code, no change *)
Theorem C07_deny_refuses_new :
  forall s i b st,
    thr s i = Some (TSession b 0 st) -> memN b (deny s) = true ->
    tstep s i = Some (with_threads s (upd (threads s) i (TSession b 2 400))).
Proof. exact deny_refuses_new. Qed.
Print Assumptions C07_deny_refuses_new.

(* codes already issued join nothing while the booking is denied *)
Theorem C07_denied_code_joins_nothing :
  forall s i c b,
    thr s i = Some (TWs c 1 (Some b)) -> memN b (deny s) = true ->
    tstep s i = Some (with_threads (op_delchild s i) (upd (threads s) i (TWs c 9 (Some b)))).
Proof. exact denied_code_joins_nothing. Qed.
Print Assumptions C07_denied_code_joins_nothing.

(* other bookings are unaffected *)
Theorem C07_other_bookings_untouched :
  forall s i s' t b b',
    thr s i = Some t -> tstep s i = Some s' ->
    match t with TSession x _ _ | TDeny x _ _ | TAllow x _ => x = b | _ => False end -> b' <> b ->
    memN b' (deny s') = memN b' (deny s) /\ memN b' (allow s') = memN b' (allow s) /\
    codes_of s' b' = codes_of s b' /\ chans_of s' b' = chans_of s b' /\ closed s' = closed s /\ members s' = members s.
Proof. exact other_bookings_untouched. Qed.
Print Assumptions C07_other_bookings_untouched.

Theorem C07_loop_closes_only_its_booking :
  forall s s' b r k,
    q s = b :: r -> denyloop s = Some s' -> memn k (closed s') = true -> memn k (closed s) = false -> In (k, b) (chm s).
Proof. exact loop_closes_only_its_booking. Qed.
Print Assumptions C07_loop_closes_only_its_booking.

(* "... and other bookings are unaffected", over whole executions (provenance): whatever the schedule and the pool
   of requests, a booking is on the deny list only if some deny request of the pool names it; the relay closes a
   connection's deny channel only if that connection exchanged a code of a booking that some deny request of the
   pool names; and a session request for a booking that no deny request names always passes its deny check *)
Theorem C07_denied_only_if_requested :
  forall ts cs n sched b,
    Forall initial_thread ts ->
    memN b (deny (run sched (init ts cs n))) = true ->
    exists j e, nth_error ts j = Some (TDeny b e 0).
Proof. exact denied_only_if_requested. Qed.
Print Assumptions C07_denied_only_if_requested.

Theorem C07_closed_only_if_denied :
  forall ts cs n sched k,
    Forall initial_thread ts ->
    memn k (closed (run sched (init ts cs n))) = true ->
    exists c pc b j e, thr (run sched (init ts cs n)) k = Some (TWs c pc (Some b)) /\ nth_error ts j = Some (TDeny b e 0).
Proof. exact closed_only_if_denied. Qed.
Print Assumptions C07_closed_only_if_denied.

Theorem C07_undenied_booking_is_served :
  forall ts cs n sched b i st,
    Forall initial_thread ts ->
    (forall j e, nth_error ts j <> Some (TDeny b e 0)) ->
    thr (run sched (init ts cs n)) i = Some (TSession b 0 st) ->
    tstep (run sched (init ts cs n)) i =
      Some (with_threads (op_track (run sched (init ts cs n)) b) (upd (threads (run sched (init ts cs n))) i (TSession b 1 0))).
Proof. exact undenied_booking_is_served. Qed.
Print Assumptions C07_undenied_booking_is_served.

(* non-vacuity: booking 1 is denied and its connection closed while a connection of booking 2 (code 8) joins and
   stays, and a session request for booking 2 is still at its deny check with booking 1 on the deny list *)
Example C07_provenance_witness :
  let ts := [TWs 7 0 None; TDeny 1 900 0; TWs 8 0 None; TSession 2 0 0] in
  let s := run [T 0; T 0; T 2; T 2; T 1; T 1; T 1; T 0; T 2; L] (init ts [(7, 1); (8, 2)]%N 50) in
  Forall initial_thread ts /\ closed s = [0] /\ memN 1 (deny s) = true /\ memN 2 (deny s) = false /\
  live s 2 2 = true /\ thr s 3 = Some (TSession 2 0 0) /\ (forall j e, nth_error ts j <> Some (TDeny 2 e 0)).
Proof.
  cbv zeta. split; [repeat constructor|]. vm_compute. repeat split.
  intros [|[|[|[|[|j]]]]] e H; cbn in H; discriminate.
Qed.

(* ---- the static half of the tie to the Go handlers ----
   Model/HandlerIR.v writes the thread programs of this model as the handlers' sequences of store operations, one group
   per program counter; translator/handlers regenerates those sequences (and the scheduling points that delimit the
   steps) from internal/access/access.go and internal/crossbar/crossbar.go on every run and Gen/HandlerGen.v carries
   the obligation that they are equal (gen_handlers_follow_the_programs). The theorems here say what the programs mean:
   a thread whose counter is pc performs exactly group pc - with the meaning group_sem gives it - and nothing else
   changes in the stores; past its program a thread does not move. *)
Theorem C07_session_follows_program :
  forall s i b pc st g,
    thr s i = Some (TSession b pc st) -> nth_error program_session pc = Some g ->
    exists s', tstep s i = Some s' /\ exists s0, group_sem g i b 0 0 s = Some s0 /\ same_stores s' s0.
Proof. exact session_follows_program. Qed.
Print Assumptions C07_session_follows_program.

Theorem C07_deny_follows_program :
  forall s i b e pc g,
    thr s i = Some (TDeny b e pc) -> nth_error program_deny pc = Some g ->
    exists s', tstep s i = Some s' /\ exists s0, group_sem g i b e 0 s = Some s0 /\ same_stores s' s0.
Proof. exact deny_follows_program. Qed.
Print Assumptions C07_deny_follows_program.

Theorem C07_allow_follows_program :
  forall s i b pc g,
    thr s i = Some (TAllow b pc) -> nth_error program_allow pc = Some g ->
    exists s', tstep s i = Some s' /\ exists s0, group_sem g i b 0 0 s = Some s0 /\ same_stores s' s0.
Proof. exact allow_follows_program. Qed.
Print Assumptions C07_allow_follows_program.

Theorem C07_ws_follows_program :
  forall s i c pc tok g,
    thr s i = Some (TWs c pc tok) -> nth_error program_ws pc = Some g -> (pc = 0 \/ exists b, tok = Some b) ->
    exists s', tstep s i = Some s' /\
      exists s0, group_sem g i (match tok with Some b => b | None => 0%N end) 0 c s = Some s0 /\ same_stores s' s0.
Proof. exact ws_follows_program. Qed.
Print Assumptions C07_ws_follows_program.

Theorem C07_drop_follows_program :
  forall s i k pc g,
    thr s i = Some (TLeave k pc) -> nth_error program_drop pc = Some g ->
    exists s', tstep s i = Some s' /\ exists s0, group_sem g k 0 0 0 s = Some s0 /\ same_stores s' s0.
Proof. exact drop_follows_program. Qed.
Print Assumptions C07_drop_follows_program.

Theorem C07_past_the_program_nothing_moves :
  forall s i t,
    thr s i = Some t ->
    match t with
    | TSession _ pc _ => length program_session <= pc
    | TDeny _ _ pc => length program_deny <= pc
    | TAllow _ pc => length program_allow <= pc
    | TWs _ pc _ => length program_ws <= pc
    | TLeave _ pc => length program_drop <= pc
    | TPrune _ pc => 1 <= pc
    end -> tstep s i = None.
Proof. exact past_the_program_nothing_moves. Qed.
Print Assumptions C07_past_the_program_nothing_moves.

(* non-vacuity: the check that compares the source with the programs is not trivially true - a deny handler that
   notifies the crossbar BEFORE purging the codes, or one that loses a scheduling point, is rejected *)
Example C07_handlers_ok_rejects :
  handlers_ok [("session", [HHook "a"; HOp "DenyStore.AllowIfNotDenied"; HHook "b"; HOp "CodeStore.SubmitToken"; HHook "c"]);
               ("deny", [HHook "a"; HOp "DenyStore.Deny"; HHook "b"; HSend "DenyChannel"; HHook "c"; HOp "CodeStore.DeleteByBookingID"; HHook "d"]);
               ("allow", [HHook "a"; HOp "DenyStore.Allow"; HHook "b"]);
               ("ws", [HHook "a"; HOp "CodeStore.ExchangeCode"; HOp "dcs.Add"; HHook "b"; HOp "DenyStore.IsDenied"; HOp "dcs.DeleteChild"; HHook "c"; HSend "hub.register"; HHook "d"]);
               ("drop", [HOp "dcs.DeleteChild"; HHook "a"]); ("denyloop", [HHook "a"; HOp "dcs.DeleteAndCloseParent"; HHook "b"])]%string = false
  /\ handlers_ok [("session", [HHook "a"; HOp "DenyStore.AllowIfNotDenied"; HOp "CodeStore.SubmitToken"; HHook "c"])]%string = false.
Proof. vm_compute. split; reflexivity. Qed.

(* non-vacuity: a racing schedule that ends quiescent with booking 1 denied, a connection that had
   joined and a deny that closed it *)
Example C07_witness :
  let s := run [T 0; T 0; T 1; T 1; T 1; T 0; L] (init [TWs 7 0 None; TDeny 1 900 0] [(7, 1)]%N 50) in
  quiescent s = true /\ memN 1 (deny s) = true /\ members s = [(0, 1%N)] /\ live s 0 1 = false /\ closed s = [0].
Proof. vm_compute. repeat split. Qed.

(* non-vacuity for the expiry clause: a deny until 900 survives a prune tick at clock 900 and is lifted by one at 901 *)
Example C07_expiry_witness :
  let s := run [T 0; T 0; T 0; L; T 1] (init [TDeny 1 900 0; TPrune 900 0; TPrune 901 0] [] 50) in
  memN 1 (deny s) = true /\ In (1%N, 900%Z) (dexp s) /\
  memN 1 (deny (run [T 2] s)) = false.
Proof. vm_compute. repeat split. left; reflexivity. Qed.

(* the same theorems do NOT hold of the code as it was before the two repairs (kept as evidence that the
   statements are not vacuous): F3 - the session handler's Allow erased a concurrent deny *)
Example C07_old_code_deny_erased :
  let o := orun [T 0; T 1; T 1; T 1; L; T 0; T 0] (mkosys (init [] [] 50) [OSession 1 0 0; ODenyT 1 0]) in
  oquiescent o = true /\ memN 1 (deny (osy o)) = false /\ lookupc 50 (codes (osy o)) = Some 1%N.
Proof. vm_compute. repeat split. Qed.

(* F4 - the hub recorded the deny channel only after registration: a deny processed in between found nothing to close *)
Example C07_old_code_connection_survives :
  let o := orun [T 0; T 0; T 1; T 1; T 1; L; T 0] (mkosys (init [] [(7, 1)]%N 50) [OWs 7 0 None; ODenyT 1 0]) in
  oquiescent o = true /\ memN 1 (deny (osy o)) = true /\ live (osy o) 0 1 = true.
Proof. vm_compute. repeat split. Qed.
