(* C06 - A connection lasts as long as its token allows and no longer.
   Only statements, each closed by [exact] of a lemma of Proofs/Lifetime_proofs.v.
   Time: nanoseconds (Z) for instants, whole seconds for token claims. *)
From Relay Require Import Base.Prelude Model.Lifetime Proofs.Lifetime_proofs.
From Relay Require Base.AList Model.Resources Proofs.Resources_proofs.
Open Scope Z_scope.

(* for every admission instant t and expiry E, up to the largest lifetime a Duration can hold:
   the expiry timer fires inside the second that follows E *)
Theorem C06_close_within_a_second :
  forall t E, 0 <= E - floor_s t <= max_ttl ->
    E * ns_per_s <= fire_at t E < (E + 1) * ns_per_s.
Proof. exact close_within_a_second. Qed.
Print Assumptions C06_close_within_a_second.

(* whatever the client and the traffic do - data in either direction, a reader that stalls, a
   client that ignores close frames, pongs or none, in any number and at any times - the
   connection is closed no later than the instant the watcher's timer fires *)
Theorem C06_watcher_independent :
  forall c evs h, status c = Open -> fire c <= h ->
    exists r a, status (run c evs h) = Closed r a /\ a <= fire c.
Proof. exact watcher_independent. Qed.
Print Assumptions C06_watcher_independent.

(* a code presented before the token's not-before second, or after its expiry second, joins nothing *)
Theorem C06_not_before_nbf :
  forall t tok others, floor_s t < nbf tok -> ws_accept t tok others = Refused TooEarly.
Proof. exact not_before_nbf. Qed.
Print Assumptions C06_not_before_nbf.

Theorem C06_not_after_exp :
  forall t tok others, exp tok < floor_s t -> exists r, ws_accept t tok others = Refused r.
Proof. exact not_after_exp. Qed.
Print Assumptions C06_not_after_exp.

Theorem C06_accepted_only_inside_window :
  forall t tok others f, ws_accept t tok others = Accepted f ->
    nbf tok <= floor_s t <= exp tok /\ others = true /\ f = fire_at t (exp tok).
Proof. exact accepted_inside_window. Qed.
Print Assumptions C06_accepted_only_inside_window.

(* the boundary: during the expiry second itself (floor t = E) the connection IS accepted, with a
   zero timer - it is closed at once (F12b: documented behaviour, inside the one-second bound) *)
Theorem C06_boundary_second_zero_timer :
  forall t tok, nbf tok <= floor_s t -> floor_s t = exp tok -> ws_accept t tok true = Accepted t.
Proof. exact boundary_zero_timer. Qed.
Print Assumptions C06_boundary_second_zero_timer.

(* until E the relay does not itself end a connection whose client answers pings: when every ping
   (sent on schedule) is answered less than pongWait - pingPeriod = 6 s later, and nothing but
   benign traffic happens, the only thing that closes the connection is the expiry timer, at its
   firing time - for event lists of any length *)
Theorem C06_no_early_close :
  forall t f evs h,
    timely (t + ping_period) None (evs ++ [(EDataIn, h)]) = true ->
    match status (run (start t f) evs h) with
    | Open => True
    | Closed r a => r = Expiry /\ a = f
    end.
Proof. exact no_early_close. Qed.
Print Assumptions C06_no_early_close.

(* any number of idle ping/pong rounds: still open after all of them while the token lives *)
Theorem C06_idle_any_duration :
  forall t f ds, Forall (fun d => 0 <= d < slack) ds ->
    let h := t + ping_period * (1 + Z.of_nat (length ds)) in
    h < f -> status (run (start t f) (idle_rounds (t + ping_period) ds) h) = Open.
Proof. exact idle_stays_open. Qed.
Print Assumptions C06_idle_any_duration.

(* a client that never answers a ping is dropped when the first read deadline passes (60 s) *)
Theorem C06_unanswered_pings_dropped :
  forall t f k h, t + pong_wait < f -> t + pong_wait < h -> (1 <= k)%nat ->
    status (run (start t f) (pings_only (t + ping_period) k) h) = Closed ReadTimeout (t + pong_wait).
Proof. exact unanswered_dropped. Qed.
Print Assumptions C06_unanswered_pings_dropped.

(* the last sentence of the property, end to end: a connection accepted at t with a token
   expiring at E (any lifetime a Duration can hold) whose client keeps answering pings - whatever
   else it sends, however long it idles - is ended by the relay only by the expiry timer, at an
   instant in [E, E + 1 s): never before E *)
Theorem C06_not_ended_before_expiry :
  forall t tok f evs h,
    ws_accept t tok true = Accepted f -> exp tok - floor_s t <= max_ttl ->
    timely (t + ping_period) None (evs ++ [(EDataIn, h)]) = true ->
    match status (run (start t f) evs h) with
    | Open => True
    | Closed r a => r = Expiry /\ exp tok * ns_per_s <= a < (exp tok + 1) * ns_per_s
    end.
Proof. exact not_ended_before_expiry. Qed.
Print Assumptions C06_not_ended_before_expiry.

Example C06_not_ended_before_expiry_nonvacuous :
  let t := 1700000000300000000 in
  let evs := [(EDataOut, t + ns_per_s); (EPongUnsolicited, t + 2 * ns_per_s); (EClientPing, t + 3 * ns_per_s);
              (EPing, t + ping_period); (EPong, t + ping_period + 1000000); (EDataIn, t + 58 * ns_per_s)] in
  ws_accept t (mktoken 1699999999 1700000059) true = Accepted (1700000059300000000) /\
  timely (t + ping_period) None (evs ++ [(EDataIn, t + 61 * ns_per_s)]) = true /\
  status (run (start t 1700000059300000000) evs (t + 58 * ns_per_s)) = Open /\
  status (run (start t 1700000059300000000) evs (t + 61 * ns_per_s)) = Closed Expiry 1700000059300000000.
Proof. vm_compute. repeat split. Qed.

(* "nothing is relayed to or from it afterwards": in the resource model of the hub (Model/Resources.v,
   the C13 machine) a connection that has ended - by Expiry or for any other reason - has, once its
   goroutines took their next steps, no reader any more (readPump is the only thing that hands a
   client's messages to the hub) and is in no fan-out set of any topic for any sender *)
Theorem C06_nothing_relayed_after_close :
  forall h id c,
    AList.lookup N.eqb id (Resources.run h) = Some c -> Resources.joined c = true -> Resources.ended c = true ->
    Resources.h_reader (Resources.settle c) = false /\
    forall tp sender, ~ In id (Resources.fanout (Resources.settle_all (Resources.run h)) tp sender).
Proof. exact Resources_proofs.nothing_relayed_after_end. Qed.
Print Assumptions C06_nothing_relayed_after_close.

Example C06_nothing_relayed_after_close_nonvacuous :
  let h := [Resources.EConnect 1 Resources.Join 7 true; Resources.EConnect 2 Resources.Join 7 true;
            Resources.EEnd 1 Resources.Expiry]%N in
  Resources.fanout (Resources.run h) 7%N 2%N = [1%N] /\
  Resources.fanout (Resources.settle_all (Resources.run h)) 7%N 2%N = [] /\
  Resources.fanout (Resources.settle_all (Resources.run h)) 7%N 1%N = [2%N].
Proof. vm_compute. repeat split. Qed.

(* F12a. The multiplication as it was written before the repair, time.Duration(ttl) * time.Second
   without the clamp, wraps int64 from E - floor t = 9 223 372 037 on: a valid far-future token
   gets a negative duration and the connection is closed the moment it is accepted. *)
Theorem C06_ttl_overflow_refuted :
  (exists t E, 0 <= E - floor_s t /\ 0 <= t /\ fire_at_raw t E = t /\ fire_at_raw t E < E * ns_per_s) /\
  (forall ttl, max_ttl < ttl < 2 * max_ttl -> dur_raw ttl < 0).
Proof. exact (conj ttl_overflow_raw raw_wraps_from_bound_on). Qed.
Print Assumptions C06_ttl_overflow_refuted.

(* with the clamp (the code as repaired) the duration is never negative, and a lifetime beyond the
   bound gets the longest timer there is (292 years) instead of an immediate close *)
Theorem C06_clamped_never_wraps :
  (forall ttl, 0 <= ttl -> 0 <= dur ttl) /\
  (forall t E, max_ttl <= E - floor_s t ->
     fire_at t E = t + max_ttl * ns_per_s /\ t + 9223372036 * ns_per_s <= fire_at t E).
Proof. exact (conj dur_nonneg clamped_far_future). Qed.
Print Assumptions C06_clamped_never_wraps.

(* F12c. Before its repair the cancellation reached the socket only when writePump looked at the
   `cancelled` channel: with a writer blocked on a stalled reader that is up to writeWait (10 s)
   after the timer fired - more than the second the property allows. Since the repair the watcher
   closes the socket itself, so the closure instant is the firing instant whatever the writer does. *)
Theorem C06_blocked_writer_refuted :
  exists f w, w <= f /\ f + ns_per_s < cancel_seen_unrepaired f (Some w) /\
              cancel_seen_unrepaired f (Some w) <= f + write_wait.
Proof. exact blocked_writer_late. Qed.
Print Assumptions C06_blocked_writer_refuted.

Theorem C06_cancel_reaches_socket_at_once : forall f blocked, cancel_seen f blocked = f.
Proof. exact cancel_seen_at_fire. Qed.
Print Assumptions C06_cancel_reaches_socket_at_once.

(* The timeline machine carries the socket's write deadline as state (set by the last data write;
   the ping sets its own), so C06_no_early_close above also says: no ping of the code as it is can
   fail on a stale deadline.  The variant in which the ping branch does NOT set its own deadline is
   refuted: one message delivered at t+1 s, then silence - the first ping (t+54 s) goes out under a
   deadline that passed at t+11 s, fails, and the relay closes a connection whose client answers
   pings, 246 s before its expiry; the code as it is keeps the same connection open. *)
Theorem C06_ping_under_stale_deadline_refuted :
  exists t f evs h a,
    timely (t + ping_period) None (evs ++ [(EDataIn, h)]) = true /\
    status (run_v false false (start t f) evs h) = Closed WriteTimeout a /\ a + 200 * ns_per_s < f /\
    status (run (start t f) evs h) = Open.
Proof. exact stale_deadline_kills_quiet_connection. Qed.
Print Assumptions C06_ping_under_stale_deadline_refuted.

(* The event alphabet of C06_no_early_close includes what a client may legitimately do besides
   answering pings: unsolicited pongs as a one-way heartbeat (EPongUnsolicited, any payload - the
   handler renews the read deadline), pings of its own (EClientPing - answered with a pong, nothing
   else changes), data messages of any length including zero (EDataIn), an ignored close frame.
   None of them ends the connection.  The variant in which the pong handler rejects a pong that
   does not echo the relay's ping is refuted: the heartbeat client, which answers every ping in
   time, is dropped at its first unsolicited pong, 298 s before its expiry. *)
Theorem C06_strict_pong_handler_refuted :
  exists t f evs h a,
    timely (t + ping_period) None (evs ++ [(EDataIn, h)]) = true /\
    status (run_v true true (start t f) evs h) = Closed PongRejected a /\ a + 200 * ns_per_s < f /\
    status (run (start t f) evs h) = Open.
Proof. exact strict_pong_kills_heartbeat_client. Qed.
Print Assumptions C06_strict_pong_handler_refuted.

(* non-vacuity: a 3 s token accepted 0.9 s into a second closes 0.9 s into the second after E;
   130 s of idling with prompt pongs leaves a long-lived connection open; the same without pongs
   is dropped at 60 s; the overflow witness really has a valid (accepted) token *)
Example C06_witness :
  let t := 1700000000900000000 in
  ws_accept t (mktoken 1699999999 1700000003) true = Accepted 1700000003900000000 /\
  timely (t + ping_period) None
         (idle_rounds (t + ping_period) [1000000; 5999999999] ++ [(EDataIn, t + 130 * ns_per_s)]) = true /\
  status (run (start t (t + 3600 * ns_per_s)) (idle_rounds (t + ping_period) [1000000; 5999999999]) (t + 130 * ns_per_s)) = Open /\
  status (run (start t (t + 3600 * ns_per_s)) (pings_only (t + ping_period) 2) (t + 130 * ns_per_s))
    = Closed ReadTimeout (t + pong_wait) /\
  (exists f, ws_accept 1700000000500000000 (mktoken 0 11700000000) true = Accepted f /\ 1700000000500000000 < f).
Proof. vm_compute. repeat split; try reflexivity. eexists; split; reflexivity. Qed.
