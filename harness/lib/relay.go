package lib

import (
	"bytes"
	"encoding/json"
	"fmt"
	"io"
	"io/ioutil"
	"net"
	"net/http"
	"net/url"
	"os"
	"strconv"
	"strings"
	"sync"
	"time"

	"github.com/golang-jwt/jwt/v4"
	"github.com/gorilla/websocket"
	"github.com/practable/relay/internal/relay"
	log "github.com/sirupsen/logrus"
)

// FreePorts returns n distinct free TCP ports. They are drawn at random from below the kernel's
// ephemeral range, so that neither outgoing connections of this or other processes nor concurrently
// running checks are likely to take a port between the probe and the bind.
func FreePorts(n int) []int {
	seed := uint64(os.Getpid())*0x9E3779B97F4A7C15 ^ uint64(time.Now().UnixNano())
	r := &Rng{s: seed}
	var ps []int
	seen := map[int]bool{}
	for len(ps) < n {
		p := 10000 + r.Intn(22000)
		if seen[p] {
			continue
		}
		l, err := net.Listen("tcp", ":"+strconv.Itoa(p))
		if err != nil {
			continue
		}
		l.Close()
		seen[p] = true
		ps = append(ps, p)
	}
	return ps
}

// Relay is one real relay.Relay running in this process (only one per process: the crossbar
// registers its handler on http.DefaultServeMux).
type Relay struct {
	AccessURL string // what tokens must name as audience, and where the access API listens
	Target    string // ws://127.0.0.1:port
	Secret    string
	Closed    chan struct{}
	Wg        *sync.WaitGroup
	HTTP      *http.Client
}

type RelayOpts struct {
	AllowNoBookingID bool
	BufferSize       int64
	RawBufferSize    bool // pass BufferSize to relay.Relay exactly as given (0, negative, >512: the relay's own fallback applies)
	PruneEvery       time.Duration
	StatsEvery       time.Duration
	Secret           string
}

// StartRelay starts the real relay with logging silenced and waits until both ports answer.
func StartRelay(o RelayOpts) *Relay {
	log.SetOutput(ioutil.Discard)
	log.SetLevel(log.PanicLevel)
	ps := FreePorts(2)
	if o.Secret == "" {
		o.Secret = "verif-secret"
	}
	if o.PruneEvery == 0 {
		o.PruneEvery = time.Minute
	}
	if o.BufferSize == 0 && !o.RawBufferSize {
		o.BufferSize = 128
	}
	if o.StatsEvery == 0 {
		o.StatsEvery = time.Second
	}
	r := &Relay{
		AccessURL: "http://127.0.0.1:" + strconv.Itoa(ps[1]),
		Target:    "ws://127.0.0.1:" + strconv.Itoa(ps[0]),
		Secret:    o.Secret,
		Closed:    make(chan struct{}),
		Wg:        &sync.WaitGroup{},
		HTTP:      &http.Client{Timeout: 5 * time.Second},
	}
	r.Wg.Add(1)
	go relay.Relay(r.Closed, r.Wg, relay.Config{
		AccessPort:       ps[1],
		RelayPort:        ps[0],
		Audience:         r.AccessURL,
		Secret:           o.Secret,
		Target:           r.Target,
		AllowNoBookingID: o.AllowNoBookingID,
		PruneEvery:       o.PruneEvery,
		BufferSize:       o.BufferSize,
		StatsEvery:       o.StatsEvery,
	})
	for _, p := range ps {
		deadline := time.Now().Add(5 * time.Second)
		for time.Now().Before(deadline) {
			c, err := net.DialTimeout("tcp", "127.0.0.1:"+strconv.Itoa(p), 100*time.Millisecond)
			if err == nil {
				c.Close()
				break
			}
			time.Sleep(5 * time.Millisecond)
		}
	}
	return r
}

// Claims builds the usual claim set; delete or overwrite keys of the result to make bad tokens.
func (r *Relay) Claims(topic, bid string, scopes []string, iat, nbf, exp int64) jwt.MapClaims {
	sc := make([]interface{}, len(scopes))
	for i, s := range scopes {
		sc[i] = s
	}
	return jwt.MapClaims{
		"topic": topic, "prefix": "session", "scopes": sc, "booking_id": bid,
		"aud": []interface{}{r.AccessURL}, "iat": iat, "nbf": nbf, "exp": exp,
	}
}

// Sign signs arbitrary claims with HS256 and the given secret.
func Sign(claims jwt.MapClaims, secret string) string {
	t := jwt.NewWithClaims(jwt.SigningMethodHS256, claims)
	s, err := t.SignedString([]byte(secret))
	if err != nil {
		panic(err)
	}
	return s
}

// AdminBearer is a valid token carrying the given scopes (e.g. relay:admin, relay:stats).
func (r *Relay) AdminBearer(scopes ...string) string {
	now := time.Now().Unix()
	c := r.Claims("", "", scopes, now-5, now-5, now+3600)
	delete(c, "topic")
	delete(c, "prefix")
	delete(c, "booking_id")
	return Sign(c, r.Secret)
}

// Resp is the projection of an HTTP answer the harnesses compare.
type Resp struct {
	Status int
	Body   []byte
	Err    error
}

// Do sends one request to the access API. bearer=="" sends no Authorization header.
func (r *Relay) Do(method, pathAndQuery, bearer string) Resp {
	req, err := http.NewRequest(method, r.AccessURL+pathAndQuery, nil)
	if err != nil {
		return Resp{Err: err}
	}
	if bearer != "" {
		req.Header.Set("Authorization", bearer)
	}
	resp, err := r.HTTP.Do(req)
	if err != nil {
		return Resp{Err: err}
	}
	defer resp.Body.Close()
	b, _ := io.ReadAll(resp.Body)
	return Resp{Status: resp.StatusCode, Body: b}
}

// Session posts to /session/{topic} and returns the status and, on 200, the uri and its code.
func (r *Relay) Session(topic, bearer string) (int, string, string) {
	rs := r.Do("POST", "/session/"+topic, bearer)
	if rs.Err != nil {
		return -1, "", ""
	}
	if rs.Status != 200 {
		return rs.Status, "", ""
	}
	var body struct {
		URI string `json:"uri"`
	}
	if err := json.Unmarshal(rs.Body, &body); err != nil {
		return rs.Status, "", ""
	}
	u, err := url.Parse(body.URI)
	if err != nil {
		return rs.Status, body.URI, ""
	}
	return rs.Status, body.URI, u.Query().Get("code")
}

func (r *Relay) Deny(bid string, exp int64, bearer string) Resp {
	return r.Do("POST", "/bids/deny?bid="+url.QueryEscape(bid)+"&exp="+strconv.FormatInt(exp, 10), bearer)
}
func (r *Relay) Allow(bid string, exp int64, bearer string) Resp {
	return r.Do("POST", "/bids/allow?bid="+url.QueryEscape(bid)+"&exp="+strconv.FormatInt(exp, 10), bearer)
}

// BidList GETs /bids/deny or /bids/allow and returns the ids.
func (r *Relay) BidList(which, bearer string) ([]string, int) {
	rs := r.Do("GET", "/bids/"+which, bearer)
	if rs.Err != nil || rs.Status != 200 {
		return nil, rs.Status
	}
	var b struct {
		BookingIds []string `json:"booking_ids"`
	}
	if err := json.Unmarshal(rs.Body, &b); err != nil {
		return nil, -2
	}
	return b.BookingIds, 200
}

// Dial opens a websocket to the given uri (as returned by Session) with optional headers.
func Dial(uri string, hdr http.Header) (*websocket.Conn, *http.Response, error) {
	d := websocket.Dialer{HandshakeTimeout: 3 * time.Second}
	return d.Dial(uri, hdr)
}

// ReadOne reads one message with a timeout; ok=false on timeout or error (err says which).
func ReadOne(c *websocket.Conn, d time.Duration) (mt int, data []byte, err error) {
	c.SetReadDeadline(time.Now().Add(d))
	return c.ReadMessage()
}

// IsTimeout tells a read timeout from a closed connection.
func IsTimeout(err error) bool {
	if ne, ok := err.(net.Error); ok && ne.Timeout() {
		return true
	}
	return err != nil && strings.Contains(err.Error(), "i/o timeout")
}

// Status fetches /status with a stats bearer and returns the decoded reports (generic maps).
func (r *Relay) Status(bearer string) ([]map[string]interface{}, int) {
	rs := r.Do("GET", "/status", bearer)
	if rs.Err != nil {
		return nil, -1
	}
	if rs.Status != 200 {
		return nil, rs.Status
	}
	var out []map[string]interface{}
	dec := json.NewDecoder(bytes.NewReader(rs.Body))
	if err := dec.Decode(&out); err != nil {
		return nil, -2
	}
	return out, 200
}

func (r *Relay) Stop() {
	defer func() { recover() }()
	close(r.Closed)
}

var _ = fmt.Sprintf

// NewHTTPClient returns the client the helpers use (short timeout, keep-alives on).
func NewHTTPClient() *http.Client { return &http.Client{Timeout: 5 * time.Second} }
