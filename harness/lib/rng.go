// Package lib holds what every property harness shares: one PRNG per run, Coq emitters,
// the result file the driver reads, and helpers to start a real relay in-process.
package lib

// Rng is splitmix64: every random choice of a run derives from one seed so disagreements replay.
type Rng struct{ s uint64 }

func NewRng(seed int64) *Rng { return &Rng{s: uint64(seed)*0x9E3779B97F4A7C15 + 0x1234567} }

func (r *Rng) U64() uint64 {
	r.s += 0x9E3779B97F4A7C15
	z := r.s
	z = (z ^ (z >> 30)) * 0xBF58476D1CE4E5B9
	z = (z ^ (z >> 27)) * 0x94D049BB133111EB
	return z ^ (z >> 31)
}

// Intn returns a value in [0,n).
func (r *Rng) Intn(n int) int {
	if n <= 0 {
		return 0
	}
	return int(r.U64() % uint64(n))
}

// Range returns a value in [lo,hi].
func (r *Rng) Range(lo, hi int) int { return lo + r.Intn(hi-lo+1) }

func (r *Rng) Bool() bool { return r.U64()&1 == 1 }

// Chance is true with probability num/den.
func (r *Rng) Chance(num, den int) bool { return r.Intn(den) < num }

func (r *Rng) Pick(xs []string) string { return xs[r.Intn(len(xs))] }

// Fork derives an independent generator (for per-case determinism regardless of case order).
func (r *Rng) Fork() *Rng { return &Rng{s: r.U64()} }
