package lib

import (
	"encoding/json"
	"flag"
	"os"
	"path/filepath"
	"strconv"
)

// Violation is something the property's own oracle found on an implementation trace.
type Violation struct {
	Clause string      `json:"clause"` // which clause of the property failed
	Case   int         `json:"case"`   // index into Cases (-1 if not tied to a case)
	Detail string      `json:"detail"`
	Replay interface{} `json:"replay"` // enough to re-run exactly this input/history/schedule
	Key    string      `json:"key"`    // stable identifier used by known_findings.json
}

// Result is what a harness leaves for the driver in <out>/result.json.
type Result struct {
	Property     string                 `json:"property"`
	Seed         int64                  `json:"seed"`
	Tier         string                 `json:"tier"`
	Evaluations  int                    `json:"evaluations"`
	ShardSize    int                    `json:"shard_size"`
	Distribution map[string]int         `json:"distribution"`
	Samples      []interface{}          `json:"samples"`
	Cases        []interface{}          `json:"cases"` // case k of the shards, in JSON, for replays
	Violations   []Violation            `json:"violations"`
	Notes        []string               `json:"notes"`
	Extra        map[string]interface{} `json:"extra,omitempty"`
}

func NewResult(prop string, seed int64, tier string) *Result {
	return &Result{Property: prop, Seed: seed, Tier: tier, Distribution: map[string]int{}, ShardSize: 250}
}

func (r *Result) Count(key string)         { r.Distribution[key]++ }
func (r *Result) CountN(key string, n int) { r.Distribution[key] += n }
func (r *Result) Sample(x interface{}) {
	if len(r.Samples) < 3 {
		r.Samples = append(r.Samples, x)
	}
}
func (r *Result) Violate(v Violation) { r.Violations = append(r.Violations, v) }

func (r *Result) Write(dir string) error {
	if err := os.MkdirAll(dir, 0o755); err != nil {
		return err
	}
	b, err := json.MarshalIndent(r, "", " ")
	if err != nil {
		return err
	}
	return os.WriteFile(filepath.Join(dir, "result.json"), b, 0o644)
}

// Args are the flags every harness command accepts.
type Args struct {
	Seed   int64
	Tier   string
	Out    string
	Replay string
	N      int // optional override of the case count
}

func ParseArgs() Args {
	var a Args
	flag.Int64Var(&a.Seed, "seed", 1, "PRNG seed")
	flag.StringVar(&a.Tier, "tier", "quick", "quick|thorough")
	flag.StringVar(&a.Out, "out", "", "output directory")
	flag.StringVar(&a.Replay, "replay", "", "replay file (JSON) to re-run instead of generating")
	flag.IntVar(&a.N, "n", 0, "override number of cases")
	flag.Parse()
	if s := os.Getenv("VERIF_SEED"); s != "" && !isFlagSet("seed") {
		if v, err := strconv.ParseInt(s, 10, 64); err == nil {
			a.Seed = v
		}
	}
	if a.Out == "" {
		a.Out = "."
	}
	return a
}

func isFlagSet(name string) bool {
	set := false
	flag.Visit(func(f *flag.Flag) {
		if f.Name == name {
			set = true
		}
	})
	return set
}

// Pick returns q for the quick tier and t for thorough (or the -n override).
func (a Args) Pick(q, t int) int {
	if a.N > 0 {
		return a.N
	}
	if a.Tier == "thorough" {
		return t
	}
	return q
}

// ReadReplayCase loads the "case" member of a replay file written by the driver into v.
func ReadReplayCase(path string, v interface{}) {
	b, err := os.ReadFile(path)
	if err != nil {
		panic(err)
	}
	var w struct {
		Case json.RawMessage `json:"case"`
	}
	if err := json.Unmarshal(b, &w); err != nil {
		panic(err)
	}
	if err := json.Unmarshal(w.Case, v); err != nil {
		panic(err)
	}
}
