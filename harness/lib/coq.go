package lib

import (
	"fmt"
	"os"
	"path/filepath"
	"strings"
)

// Coq term emitters. Numbers are always emitted with an explicit scope so that no notation
// scope has to be open in the cases file.

func N(n uint64) string { return fmt.Sprintf("%d%%N", n) }
func Nat(n int) string  { return fmt.Sprintf("%d%%nat", n) }
func Z(n int64) string {
	if n < 0 {
		return fmt.Sprintf("(%d)%%Z", n)
	}
	return fmt.Sprintf("%d%%Z", n)
}
func Bool(b bool) string {
	if b {
		return "true"
	}
	return "false"
}
func List(xs []string) string   { return "[" + strings.Join(xs, "; ") + "]" }
func Tuple(xs ...string) string { return "(" + strings.Join(xs, ", ") + ")" }
func App(f string, args ...string) string {
	if len(args) == 0 {
		return f
	}
	return "(" + f + " " + strings.Join(args, " ") + ")"
}
func OptionOf(ok bool, v string) string {
	if !ok {
		return "None"
	}
	return "(Some " + v + ")"
}

// Bytes emits a Go byte string as a list of N (any byte representable).
func Bytes(b []byte) string {
	xs := make([]string, len(b))
	for i, c := range b {
		xs[i] = fmt.Sprintf("%d", c)
	}
	return "[" + strings.Join(xs, ";") + "]%N"
}

// Str emits a Coq string built from the bytes of s.
func Str(s string) string { return "(str " + Bytes([]byte(s)) + ")" }

// Interner maps strings to small N (0 is reserved for the empty string).
type Interner struct {
	ids  map[string]uint64
	strs []string
}

func NewInterner() *Interner { return &Interner{ids: map[string]uint64{"": 0}, strs: []string{""}} }
func (in *Interner) ID(s string) uint64 {
	if v, ok := in.ids[s]; ok {
		return v
	}
	v := uint64(len(in.strs))
	in.ids[s] = v
	in.strs = append(in.strs, s)
	return v
}
func (in *Interner) Strings() []string { return in.strs }

// WriteShards writes cases_<k>.v files of at most per cases each. header is the Require line(s)
// (e.g. "From Relay Require Import Base.Prelude Model.DenyStore Corr.C10."), typ the Coq type of a case.
// Every shard prints  MISMATCHES = [...]  and NONTRIVIAL = n  through vm_compute.
func WriteShards(dir, header, typ string, cases []string, per int) ([]string, error) {
	return WriteShardsPre(dir, header, "", typ, cases, per)
}

// WriteShardsPre is WriteShards with a preamble of definitions (string tables, oracles) placed
// before the case list in every shard.
func WriteShardsPre(dir, header, preamble, typ string, cases []string, per int) ([]string, error) {
	if err := os.MkdirAll(dir, 0o755); err != nil {
		return nil, err
	}
	old, _ := filepath.Glob(filepath.Join(dir, "cases_*"))
	for _, f := range old {
		os.Remove(f)
	}
	var files []string
	for k := 0; k*per < len(cases) || k == 0; k++ {
		lo, hi := k*per, (k+1)*per
		if hi > len(cases) {
			hi = len(cases)
		}
		var sb strings.Builder
		sb.WriteString(header + "\n")
		sb.WriteString(preamble + "\n")
		sb.WriteString(fmt.Sprintf("Definition cases : list (%s) := [\n", typ))
		for i := lo; i < hi; i++ {
			sb.WriteString("  " + cases[i])
			if i+1 < hi {
				sb.WriteString(";")
			}
			sb.WriteString("\n")
		}
		sb.WriteString("].\n")
		sb.WriteString("Definition MISMATCHES := Eval vm_compute in (mismatches cases).\nPrint MISMATCHES.\n")
		sb.WriteString("Definition NONTRIVIAL := Eval vm_compute in (nontrivial cases).\nPrint NONTRIVIAL.\n")
		f := filepath.Join(dir, fmt.Sprintf("cases_%d.v", k))
		if err := os.WriteFile(f, []byte(sb.String()), 0o644); err != nil {
			return nil, err
		}
		files = append(files, f)
		if hi >= len(cases) {
			break
		}
	}
	return files, nil
}
