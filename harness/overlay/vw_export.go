// Accessors for unexported parts of internal/vw, mapped into the package at build time with
// `go build -overlay` (see checks/C17.json, checks/C18.json). Nothing here changes behaviour: each
// function only forwards to the unexported one.
package vw

import "net/http"

// VerifHandleAdminMessage forwards to (*App).handleAdminMessage.
func (app *App) VerifHandleAdminMessage(msg []byte) ([]byte, error) {
	return app.handleAdminMessage(msg)
}

// VerifInternalAPI forwards to (*App).internalAPI (blocks until the app is closed).
func (app *App) VerifInternalAPI(topic string) { app.internalAPI(topic) }

// VerifHandleTs forwards to (*App).handleTs.
func (app *App) VerifHandleTs(w http.ResponseWriter, r *http.Request) { app.handleTs(w, r) }

// VerifHandleWs forwards to (*App).handleWs.
func (app *App) VerifHandleWs(w http.ResponseWriter, r *http.Request) { app.handleWs(w, r) }

// VerifStartHTTPServer forwards to (*App).startHTTPServer (real router, real routes).
func (app *App) VerifStartHTTPServer(port int) *http.Server { return app.startHTTPServer(port) }

// VerifApp returns the package-level App that Stream() assembles and runs (for hosts started the way
// `relay host` starts them: configuration from the environment).
func VerifApp() *App { return &app }
