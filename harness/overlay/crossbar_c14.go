package crossbar

// Accessors for the C14 harness (added to the build with -overlay; /repo is not touched).

import "time"

// VerifFpsFromNs exposes fpsFromNs.
func VerifFpsFromNs(ns float64) float64 { return fpsFromNs(ns) }

// VerifAddTx feeds one (inter-arrival ns, size) sample into the tx accumulators of every member of
// topic whose user agent is ua: the same two Add calls readPump makes for a received message.
// deltaNs = 0 is a message stamped in the same clock tick as the previous one / as the connection.
func VerifAddTx(h *Hub, topic, ua string, deltaNs, size float64) int {
	h.mu.RLock()
	defer h.mu.RUnlock()
	n := 0
	for c := range h.clients[topic] {
		if c.userAgent == ua {
			c.stats.tx.mu.Lock()
			c.stats.tx.ns.Add(deltaNs)
			c.stats.tx.last = time.Now()
			c.stats.tx.size.Add(size)
			c.stats.tx.mu.Unlock()
			n++
		}
	}
	return n
}
