package crossbar

// Accessors for the C14 harness (added to the build with -overlay; /repo is not touched).

import "time"

// VerifFpsFromNs exposes fpsFromNs.
func VerifFpsFromNs(ns float64) float64 { return fpsFromNs(ns) }

// VerifAddTx feeds one (inter-arrival ns, size) sample into the tx accumulators of every member of
// topic whose user agent is ua: the same two Add calls readPump makes for a received message.
// deltaNs = 0 is a message stamped in the same clock tick as the previous one / as the connection.
func VerifAddTx(h *Hub, topic, ua string, deltaNs, size float64) int {
	h.mu.RLock()
	defer h.mu.RUnlock()
	n := 0
	for c := range h.clients[topic] {
		if c.userAgent == ua {
			c.stats.tx.mu.Lock()
			c.stats.tx.ns.Add(deltaNs)
			c.stats.tx.last = time.Now()
			c.stats.tx.size.Add(size)
			c.stats.tx.mu.Unlock()
			n++
		}
	}
	return n
}

// VerifRewindLast moves the "last message" time stamp of every member of topic whose user agent is ua
// into the past: the connection has then been quiet for `ago` (tx, and rx as well if both is set).
// Only the time stamp changes, under the same lock the pumps take.
func VerifRewindLast(h *Hub, topic, ua string, ago time.Duration, both bool) int {
	h.mu.RLock()
	defer h.mu.RUnlock()
	n := 0
	for c := range h.clients[topic] {
		if c.userAgent == ua {
			c.stats.tx.mu.Lock()
			c.stats.tx.last = time.Now().Add(-ago)
			c.stats.tx.mu.Unlock()
			if both {
				c.stats.rx.mu.Lock()
				c.stats.rx.ns.Add(1e6)
				c.stats.rx.size.Add(7)
				c.stats.rx.last = time.Now().Add(-ago)
				c.stats.rx.mu.Unlock()
			}
			n++
		}
	}
	return n
}
