package crossbar

// Accessor for the C13 harness (added to the build with -overlay; /repo is not touched).

// VerifChanEntries counts the deny channels currently recorded in the hub's chanmap store.
func VerifChanEntries(h *Hub) int {
	if h.dcs == nil {
		return 0
	}
	h.dcs.Lock()
	defer h.dcs.Unlock()
	n := 0
	for _, children := range h.dcs.ChildrenByParent {
		n += len(children)
	}
	return n
}
