package crossbar

// Accessors for the C13 harness (added to the build with -overlay; /repo is not touched).

import "time"

// VerifChanEntries counts the deny channels currently recorded in the hub's chanmap store.
func VerifChanEntries(h *Hub) int {
	if h.dcs == nil {
		return 0
	}
	h.dcs.Lock()
	defer h.dcs.Unlock()
	n := 0
	for _, children := range h.dcs.ChildrenByParent {
		n += len(children)
	}
	return n
}

// VerifHoldHub keeps the hub's lock for d: the hub loop stops inside whatever it is doing, and
// register / unregister / broadcast requests pile up behind it (a busy hub, deterministically).
func VerifHoldHub(h *Hub, d time.Duration) {
	h.mu.Lock()
	time.Sleep(d)
	h.mu.Unlock()
}

// VerifChanParents counts the booking ids the hub's chanmap store keeps a child map for (empty maps included).
func VerifChanParents(h *Hub) int {
	if h.dcs == nil {
		return 0
	}
	h.dcs.Lock()
	defer h.dcs.Unlock()
	return len(h.dcs.ChildrenByParent)
}
