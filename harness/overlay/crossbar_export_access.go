package crossbar

// Accessors for the C01 correspondence harness (added at build time with go build -overlay; not part of
// the repository): the path functions websocket admission uses.

// VerifAccessSlashify is slashify.
func VerifAccessSlashify(p string) string { return slashify(p) }

// VerifAccessPrefixOfPath is getConnectionTypeFromPath.
func VerifAccessPrefixOfPath(p string) string { return getConnectionTypeFromPath(p) }

// VerifAccessTopicOfPath is getTopicFromPath.
func VerifAccessTopicOfPath(p string) string { return getTopicFromPath(p) }
