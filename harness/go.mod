module github.com/practable/relay/verifharness

go 1.16

require (
	github.com/client9/reopen v1.0.0
	github.com/golang-jwt/jwt/v4 v4.3.0
	github.com/google/uuid v1.3.0
	github.com/gorilla/websocket v1.5.0
	github.com/jpillora/backoff v1.0.0
	github.com/practable/relay v0.0.0
	github.com/sirupsen/logrus v1.8.1
)

replace github.com/practable/relay => /repo

replace golang.org/x/sys => golang.org/x/sys v0.0.0-20220811171246-fbc7d0a398ab
