package main

import (
	"fmt"
	"strconv"
	"strings"

	"github.com/practable/relay/verifharness/lib"
)

// ConsSpec is one subscriber: the capacity of its channel, how it behaves, how many messages it leaves
// unread while the next burst is pushed through.
type ConsSpec struct {
	Cap    int    `json:"cap"`
	Policy string `json:"policy"` // "queue": leaves messages in its channel; "hand": receives at once, looks later
	Hold   int    `json:"hold"`   // 0..2 messages kept unread across the next burst
}

// Burst is a run of writes with (almost) no gap between them, followed by a pause >= 5 ms.
type Burst struct {
	Chunks  []int `json:"chunks"`   // sizes
	GapUs   []int `json:"gap_us"`   // sleep before each chunk (0 = back to back)
	PauseMs int   `json:"pause_ms"` // pause after the burst (at least 5)
}

// Stream is one case.
type Stream struct {
	Kind      string     `json:"kind"` // "ts" POST /ts/<feed>; "tcp" tcpconnect.HandleConn; "ws" websocket ingest; "rev" destination -> feed client
	Name      string     `json:"name"`
	Seed      uint64     `json:"seed"`
	MaxFrame  int        `json:"max_frame"` // len(rawFrame): 1024000 for ts (fixed in the code), chosen for tcp
	Bursts    []Burst    `json:"bursts"`
	Consumers []ConsSpec `json:"consumers"`
	// standing dimensions of every kind: the log level the host runs at ("" = panic as in production, "debug",
	// "trace": behaviour must be byte-identical), odd request headers on the websocket upgrades (X-Forwarded-For in
	// all shapes, X-Real-Ip, Forwarded, shared X-Request-Id, garbage X-Request-Start, permessage-deflate offered),
	// identical re-posts of the destination rules before the traffic starts
	LogLevel string `json:"log_level,omitempty"`
	Headers  bool   `json:"headers,omitempty"`
	Reposts  int    `json:"reposts,omitempty"`
	// agg: destination Leaver-1 (a plain hub client) leaves the stream half way; wsbig: client pings between the
	// messages, and a last message that announces 5000 bytes, sends 1000 and drops the connection
	Leaver int `json:"leaver,omitempty"`
	// rev: the same destination URL is subscribed to the feed by TWO rules with different ids (two connections of one
	// destination); what the destination sends must reach the feed clients once and must not come back to it
	TwinRules bool `json:"twin_rules,omitempty"`
	// stall: the destination stops reading for StallMs (> 10 s: longer than any write deadline) while the feed posts
	// PostKB of traffic, then reads again; afterwards it sends Count messages of Blk bytes to every connection the
	// host has with it: the local feed client must get each of them once
	StallMs    int  `json:"stall_ms,omitempty"`
	PostKB     int  `json:"post_kb,omitempty"`
	Pings      bool `json:"pings,omitempty"`
	BrokenTail bool `json:"broken_tail,omitempty"`
	// websocket-out ("wsout"): Count hub messages of Blk bytes pushed through the hub towards a real websocket
	// client of /ws/<feed> that reads ReadBurst messages, pauses ReadPauseUs, ... with a receive buffer of Rcvbuf
	Blk         int `json:"blk,omitempty"`
	Count       int `json:"count,omitempty"`
	ReadBurst   int `json:"read_burst,omitempty"`
	ReadPauseUs int `json:"read_pause_us,omitempty"`
	Rcvbuf      int `json:"rcvbuf,omitempty"`
	// reconnecting destination ("dest"): Count stamped hub messages of Blk bytes on a stream with a destination
	// rule; the destination (a websocket server of the harness) ends the session after CutMin..CutMax messages
	// (close frame, or the connection just dropped when Abrupt) and is dialled again by rwc/reconws
	// aggregated stream ("agg"): DestKinds destinations ("hub" = plain hub client, "rwc" = destination rule to a
	// websocket server of the harness) sit on stream/<name>; the stream rule (Feeds feeds) is added according to
	// Order: "dest-first" (destinations, then the rule), "resubmit" (rule, destinations, the same rule again),
	// "replace" (rule with one feed, destinations, rule with all feeds), "rule-first" (rule, then destinations);
	// then Count stamped messages of Blk bytes are published on the feeds in turn
	DestKinds []string `json:"dest_kinds,omitempty"`
	Feeds     int      `json:"feeds,omitempty"`
	Order     string   `json:"order,omitempty"`
	// sized websocket feed ("wsbig"): message i has Sizes[i] bytes (self-describing: "WB", sequence number, length,
	// a ramp derived from both) and is sent with WriteMessage (Frags[i] < 2) or as Frags[i] raw continuation
	// fragments; BurstLen messages back to back, then GapUs; SlowUs: each lagging subscriber (channel of 2) is busy
	// that long after every message it takes
	Sizes    []int `json:"sizes,omitempty"`
	Frags    []int `json:"frags,omitempty"`
	BurstLen int   `json:"burst_len,omitempty"`
	GapUs    int   `json:"gap_us,omitempty"`
	SlowUs   []int `json:"slow_us,omitempty"`
	// typed websocket messages ("wstext"): sent by a websocket client of /ws/<feed>, forwarded by a destination rule
	Msgs   []TMsg    `json:"msgs,omitempty"`
	CutMin int       `json:"cut_min,omitempty"`
	CutMax int       `json:"cut_max,omitempty"`
	Abrupt bool      `json:"abrupt,omitempty"`
	Obs    *Observed `json:"obs,omitempty"`
}

// TMsg is one websocket message with its type.
type TMsg struct {
	Text bool   `json:"text"`
	Data []byte `json:"data"`
}

// Ev is one event of the schedule handed to the model.
type Ev struct {
	T   string `json:"t"` // W(off,n) F M(off,n) B(c) T(c) C(c)
	Off int    `json:"off,omitempty"`
	N   int    `json:"n,omitempty"`
	C   int    `json:"c,omitempty"`
}

// Read is one message as a consumer saw it.
type Read struct {
	K      int    `json:"k"`       // index of the hand-off (position in Tap), -1 if it matches none
	AtRead []byte `json:"at_read"` // what it showed when the consumer first looked
	Later  []byte `json:"later"`   // what the same slice showed at the end of the stream
}

// Observed is what the real code did with a stream.
type Observed struct {
	Tap       [][]byte   `json:"tap"`                 // every hand-off, copied at once by a subscriber that never lags
	Reads     [][]Read   `json:"reads"`               // per consumer
	Events    []Ev       `json:"events"`              // reconstructed schedule
	Ambiguous string     `json:"ambiguous,omitempty"` // the schedule could not be reconstructed unambiguously: case discarded
	Raced     string     `json:"raced,omitempty"`     // a hand-off arrived while a consumer was acting: the oracle still applies, the case is not given to the model
	Err       string     `json:"err,omitempty"`       // the stream did not complete
	Posted    int        `json:"posted"`
	Frames    [][]byte   `json:"frames,omitempty"` // wsout: the websocket messages the slow client received
	FrameLens []int      `json:"frame_lens,omitempty"`
	Conns     []int      `json:"conns,omitempty"`
	Back      [][]byte   `json:"back,omitempty"`      // rev with twin rules: what came back to the destination over any of its connections
	NConns    int        `json:"nconns,omitempty"`    // stall: connections the host had with the destination when it sent
	PerDest   [][][]byte `json:"per_dest,omitempty"`  // agg: what each destination received, in order
	RecvText  []bool     `json:"recv_text,omitempty"` // wstext: for every message received (Frames), whether it came as a text message     // dest: for every message received (Frames), the number of the connection it came over
	TapLens   []int      `json:"tap_lens,omitempty"`  // lengths of the hand-offs (kept when the bytes are dropped from a report)
}

// genBytes: bytes [off, off+n) of the input with the given seed; Corr/C17.v [gen] computes the same.
func genBytes(seed uint64, off, n int) []byte {
	o := uint64(off)
	x, y, z := (seed+o)%251, (seed+7*o)%241, (seed+13*o)%239
	out := make([]byte, n)
	for i := range out {
		if x == 250 {
			x = 0
		} else {
			x++
		}
		if y < 234 {
			y += 7
		} else {
			y -= 234
		}
		if z < 226 {
			z += 13
		} else {
			z -= 226
		}
		out[i] = byte((x + y + z) & 255)
	}
	return out
}

// wsoutInput: Count hub messages of Blk bytes each: 4 marker bytes "VWO:", the index of the message (4 bytes,
// big endian), then input bytes - Corr/C17.v [wmsg] computes the same
func (s Stream) wsoutInput() []byte {
	in := genBytes(s.Seed, 0, s.Blk*s.Count)
	for k := 0; k < s.Count; k++ {
		b := in[k*s.Blk:]
		copy(b, []byte{86, 87, 79, 58, byte(k >> 24), byte(k >> 16), byte(k >> 8), byte(k)})
	}
	return in
}

// wsoutIndex reads the index a piece claims to carry (-1 if it does not start with a marker)
func wsoutIndex(piece []byte) int {
	if len(piece) < 8 || piece[0] != 86 || piece[1] != 87 || piece[2] != 79 || piece[3] != 58 {
		return -1
	}
	return int(piece[4])<<24 | int(piece[5])<<16 | int(piece[6])<<8 | int(piece[7])
}

func (s Stream) total() int {
	if s.Kind == "wsout" || s.Kind == "dest" || s.Kind == "agg" || s.Kind == "stall" {
		return s.Blk * s.Count
	}
	if s.Kind == "wsbig" {
		t := 0
		for _, n := range s.Sizes {
			t += n
		}
		return t
	}
	if s.Kind == "wstext" {
		t := 0
		for _, m := range s.Msgs {
			t += len(m.Data)
		}
		return t
	}
	t := 0
	for _, b := range s.Bursts {
		for _, c := range b.Chunks {
			t += c
		}
	}
	return t
}

func checksum61(b []byte) uint64 {
	a := uint64(5381)
	for i := 0; i < len(b); i += 61 {
		a = ((a << 5) + a + uint64(b[i]) + 1) & 0xFFFFFFFF
	}
	return a
}

// hx emits a byte string for the Corr file: packed seven bytes to a 63-bit integer literal, least
// significant byte first ([ub] unpacks it)
func hx(b []byte) string {
	ws := make([]string, 0, len(b)/7+1)
	for i := 0; i < len(b); i += 7 {
		var w uint64
		for j := 6; j >= 0; j-- {
			if i+j < len(b) {
				w = w<<8 | uint64(b[i+j])
			}
		}
		ws = append(ws, strconv.FormatUint(w, 10))
	}
	return "(ub " + strconv.Itoa(len(b)) + "%N [" + strings.Join(ws, ";") + "]%uint63)"
}

// obsb: small messages travel whole, large ones as length + sparse checksum + both ends
func obsb(b []byte) string { return obsbLimit(b, 4096) }

func obsbLimit(b []byte, limit int) string {
	if len(b) <= limit || len(b) < 64 {
		return "(OB " + hx(b) + ")"
	}
	return lib.App("OD", lib.N(uint64(len(b))), lib.N(checksum61(b)), hx(b[:32]), hx(b[len(b)-32:]))
}

// wsoutStarts: for every websocket message received, the index of the hub message it starts with (-1 if it
// does not start with one)
func (s Stream) wsoutStarts() []int {
	out := []int{}
	for _, f := range s.Obs.Frames {
		k := wsoutIndex(f)
		if k >= s.Count {
			k = -1
		}
		out = append(out, k)
	}
	return out
}

func (s Stream) coqWsOut() string {
	o := s.Obs
	starts := s.wsoutStarts()
	evs := []string{}
	next := 0
	for _, k := range starts {
		if k < next { // not forward, or not a hub message: the model cannot follow; the oracle reports it
			continue
		}
		if k > next {
			evs = append(evs, lib.App("WMiss", lib.Nat(k-next)))
		}
		evs = append(evs, "WOffer", "WRest")
		next = k + 1
	}
	if s.Count > next {
		evs = append(evs, lib.App("WMiss", lib.Nat(s.Count-next)))
	}
	frames := []string{}
	for _, f := range o.Frames {
		frames = append(frames, obsbLimit(f, 256))
	}
	return lib.App("CW", lib.N(s.Seed), lib.N(uint64(s.Blk)), lib.List(evs), lib.List(frames))
}

func (s Stream) coqDest() string {
	o := s.Obs
	evs := []string{}
	next := 0
	recv := []string{}
	for _, f := range o.Frames {
		k := wsoutIndex(f)
		if k < next || k >= s.Count { // repeated, backwards or not a hub message: the model cannot follow; the oracle reports it
			recv = append(recv, obsbLimit(f, 256))
			continue
		}
		if k > next {
			evs = append(evs, lib.App("DMiss", lib.Nat(k-next)))
		}
		evs = append(evs, "DOffer", "DSend")
		next = k + 1
		recv = append(recv, obsbLimit(f, 256))
	}
	if s.Count > next {
		evs = append(evs, lib.App("DMiss", lib.Nat(s.Count-next)))
	}
	return lib.App("CD", lib.N(s.Seed), lib.N(uint64(s.Blk)), lib.List(evs), lib.List(recv))
}

// bigMsg: message number sq of a sized websocket feed; Corr/C17.v [bmsg] computes the same
func bigMsg(sq, n int) []byte {
	x := (sq*31 + n) % 251
	out := make([]byte, 0, n)
	if n >= 10 {
		out = append(out, 87, 66, byte(sq>>24), byte(sq>>16), byte(sq>>8), byte(sq), byte(n>>24), byte(n>>16), byte(n>>8), byte(n))
	}
	for len(out) < n {
		out = append(out, byte(x))
		if x == 250 {
			x = 0
		} else {
			x++
		}
	}
	return out
}

// bigSeq: the sequence number a received message carries (-1: none - shorter than the header, or scrambled)
func bigSeq(f []byte) int {
	if len(f) < 10 || f[0] != 87 || f[1] != 66 {
		return -1
	}
	return int(f[2])<<24 | int(f[3])<<16 | int(f[4])<<8 | int(f[5])
}

// bigMatch tells which message sent each received one is: by the number it carries, or - for messages too short
// to carry one, or damaged - the next message sent that it equals (else -1)
func (s Stream) bigMatch(got [][]byte) []int {
	out := make([]int, len(got))
	next := 0
	for j, f := range got {
		k := bigSeq(f)
		if k < 0 || k >= len(s.Sizes) {
			k = -1
			for i := next; i < len(s.Sizes); i++ {
				if s.Sizes[i] == len(f) && s.Sizes[i] < 10 && string(bigMsg(i, s.Sizes[i])) == string(f) {
					k = i
					break
				}
			}
		}
		out[j] = k
		if k >= next {
			next = k + 1
		}
	}
	return out
}

func (s Stream) coqBig() string {
	o := s.Obs
	nd := len(s.SlowUs)
	for len(o.PerDest) < nd {
		o.PerDest = append(o.PerDest, nil)
	}
	idx := make([][]int, nd)
	pos := make([]int, nd)
	for d := 0; d < nd; d++ {
		idx[d] = s.bigMatch(o.PerDest[d])
	}
	evs, tap := []string{}, []string{}
	for k, n := range s.Sizes {
		got := make([]bool, nd)
		for d := 0; d < nd; d++ {
			if pos[d] < len(idx[d]) && idx[d][pos[d]] == k {
				got[d] = true
			} else {
				evs = append(evs, lib.App("Busy", lib.Nat(d)))
			}
		}
		evs = append(evs, lib.App("WsMsg", lib.App("bmsg", lib.N(uint64(k)), lib.N(uint64(n)))))
		for d := 0; d < nd; d++ {
			if got[d] {
				evs = append(evs, lib.App("Consume", lib.Nat(d)))
				pos[d]++
			}
		}
	}
	for _, m := range o.Tap {
		tap = append(tap, obsbLimit(m, 128))
	}
	caps, reads := []string{}, []string{}
	for d := 0; d < nd; d++ {
		caps = append(caps, lib.Nat(2))
		one := []string{}
		for _, m := range o.PerDest[d] {
			one = append(one, obsbLimit(m, 128))
		}
		reads = append(reads, lib.List(one))
	}
	return lib.App("CS", lib.N(0), lib.List(caps), lib.List(evs), lib.List(tap), lib.List(reads))
}

// coqAgg / coqText: the websocket-path model (WsMsg events): every message published is a hand-off, a
// destination that missed one was Busy, one that got it Consumes it at once
func (s Stream) coqAgg() string {
	o := s.Obs
	nd := len(s.DestKinds)
	for len(o.PerDest) < nd { // the stream did not complete
		o.PerDest = append(o.PerDest, nil)
	}
	next := make([]int, nd) // position in each destination's received list
	evs := []string{}
	tap := []string{}
	input := s.wsoutInput()
	for k := 0; k < s.Count; k++ {
		got := make([]bool, nd)
		for d := 0; d < nd; d++ {
			if next[d] < len(o.PerDest[d]) && wsoutIndex(o.PerDest[d][next[d]]) == k {
				got[d] = true
			} else {
				evs = append(evs, lib.App("Busy", lib.Nat(d)))
			}
		}
		evs = append(evs, lib.App("WsMsg", lib.App("wmsg", lib.N(s.Seed), lib.N(uint64(s.Blk)), lib.Nat(k))))
		tap = append(tap, obsbLimit(input[k*s.Blk:(k+1)*s.Blk], 128))
		for d := 0; d < nd; d++ {
			if got[d] {
				evs = append(evs, lib.App("Consume", lib.Nat(d)))
				next[d]++
			}
		}
	}
	caps, reads := []string{}, []string{}
	for d := 0; d < nd; d++ {
		caps = append(caps, lib.Nat(1))
		one := []string{}
		for _, m := range o.PerDest[d] {
			one = append(one, obsbLimit(m, 128))
		}
		reads = append(reads, lib.List(one))
	}
	return lib.App("CS", lib.N(0), lib.List(caps), lib.List(evs), lib.List(tap), lib.List(reads))
}

func (s Stream) coqText() string {
	// the websocket message type travels with the message: for the model it is the first byte of the content
	// (1 = text, 2 = binary), so "unmodified" covers it
	typed := func(text bool, d []byte) []byte {
		t := byte(2)
		if text {
			t = 1
		}
		return append([]byte{t}, d...)
	}
	o := s.Obs
	evs, tap, reads := []string{}, []string{}, []string{}
	gi := 0
	for _, m := range s.Msgs {
		if gi < len(o.Frames) && string(o.Frames[gi]) == string(m.Data) {
			evs = append(evs, lib.App("WsMsg", hx(typed(m.Text, m.Data))), lib.App("Consume", lib.Nat(0)))
			gi++
		} else {
			evs = append(evs, lib.App("Busy", lib.Nat(0)), lib.App("WsMsg", hx(typed(m.Text, m.Data))))
		}
		tap = append(tap, "(OB "+hx(typed(m.Text, m.Data))+")")
	}
	for j, f := range o.Frames {
		text := j < len(o.RecvText) && o.RecvText[j]
		reads = append(reads, "(OB "+hx(typed(text, f))+")")
	}
	return lib.App("CS", lib.N(0), lib.List([]string{lib.Nat(2)}), lib.List(evs), lib.List(tap), lib.List([]string{lib.List(reads)}))
}

// coqStall: after the stall the destination's messages are hand-offs of the websocket path; the feed client is
// the one consumer (Busy when it missed one)
func (s Stream) coqStall() string {
	o := s.Obs
	evs, tap, reads := []string{}, []string{}, []string{}
	input := s.wsoutInput()
	gi := 0
	for k := 0; k < s.Count; k++ {
		m := lib.App("WsMsg", lib.App("wmsg", lib.N(s.Seed), lib.N(uint64(s.Blk)), lib.Nat(k)))
		if gi < len(o.Frames) && wsoutIndex(o.Frames[gi]) == k {
			evs = append(evs, m, lib.App("Consume", lib.Nat(0)))
			gi++
		} else {
			evs = append(evs, lib.App("Busy", lib.Nat(0)), m)
		}
		tap = append(tap, obsbLimit(input[k*s.Blk:(k+1)*s.Blk], 128))
	}
	for _, f := range o.Frames {
		reads = append(reads, obsbLimit(f, 128))
	}
	return lib.App("CS", lib.N(0), lib.List([]string{lib.Nat(1)}), lib.List(evs), lib.List(tap), lib.List([]string{lib.List(reads)}))
}

func (s Stream) coq() string {
	if s.Kind == "stall" {
		return s.coqStall()
	}
	if s.Kind == "agg" {
		return s.coqAgg()
	}
	if s.Kind == "wsbig" {
		return s.coqBig()
	}
	if s.Kind == "wstext" {
		return s.coqText()
	}
	if s.Kind == "wsout" {
		return s.coqWsOut()
	}
	if s.Kind == "dest" {
		return s.coqDest()
	}
	o := s.Obs
	evs := []string{}
	for _, e := range o.Events {
		switch e.T {
		case "W":
			evs = append(evs, lib.App("Write", lib.App("gen", lib.N(s.Seed), lib.N(uint64(e.Off)), lib.N(uint64(e.N)))))
		case "M":
			evs = append(evs, lib.App("WsMsg", lib.App("gen", lib.N(s.Seed), lib.N(uint64(e.Off)), lib.N(uint64(e.N)))))
		case "F":
			evs = append(evs, "Flush")
		case "B":
			evs = append(evs, lib.App("Busy", lib.Nat(e.C)))
		case "T":
			evs = append(evs, lib.App("Take", lib.Nat(e.C)))
		case "C":
			evs = append(evs, lib.App("Consume", lib.Nat(e.C)))
		}
	}
	caps := []string{}
	for _, c := range s.Consumers {
		caps = append(caps, lib.Nat(c.Cap))
	}
	tap := []string{}
	for _, m := range o.Tap {
		tap = append(tap, obsb(m))
	}
	reads := []string{}
	for _, rs := range o.Reads {
		one := []string{}
		for _, r := range rs {
			one = append(one, obsb(r.Later))
		}
		reads = append(reads, lib.List(one))
	}
	return lib.App("CS", lib.N(uint64(s.MaxFrame)), lib.List(caps), lib.List(evs), lib.List(tap), lib.List(reads))
}

func (s Stream) describe() string {
	d := s.describeKind()
	if s.TwinRules {
		d += " [the destination is subscribed by TWO rules with different ids: two connections of one destination]"
	}
	if s.LogLevel != "" || s.Headers || s.Reposts > 0 || s.Leaver > 0 || s.Pings || s.BrokenTail {
		d += fmt.Sprintf(" [log level %q, odd upgrade headers %v, identical rule re-posts %d, leaver %d, pings %v, broken last message %v]", s.LogLevel, s.Headers, s.Reposts, s.Leaver, s.Pings, s.BrokenTail)
	}
	return d
}

func (s Stream) describeKind() string {
	var sb strings.Builder
	if s.Kind == "wsout" {
		return fmt.Sprintf("wsout stream %q seed=%d: %d hub messages of %d bytes towards a websocket client of /ws/<feed> that reads %d messages then pauses %d us (SO_RCVBUF %d)",
			s.Name, s.Seed, s.Count, s.Blk, s.ReadBurst, s.ReadPauseUs, s.Rcvbuf)
	}
	if s.Kind == "stall" {
		return fmt.Sprintf("stall stream %q seed=%d: a destination that stops reading for %d ms while the feed posts %d kB, reads again, and then sends %d messages of %d bytes over every connection the host has with it to a local feed client",
			s.Name, s.Seed, s.StallMs, s.PostKB, s.Count, s.Blk)
	}
	if s.Kind == "wsbig" {
		nf := 0
		for _, f := range s.Frags {
			if f >= 2 {
				nf++
			}
		}
		sz := fmt.Sprint(s.Sizes)
		if len(sz) > 90 {
			sz = sz[:90] + "...]"
		}
		return fmt.Sprintf("wsbig stream %q: %d websocket feed messages of sizes %s (%d of them as raw continuation fragments), %d back to back then %d us; subscribers busy %v us per message",
			s.Name, len(s.Sizes), sz, nf, s.BurstLen, s.GapUs, s.SlowUs)
	}
	if s.Kind == "agg" {
		return fmt.Sprintf("agg stream %q seed=%d: destinations %v on stream/%s, stream rule over %d feed(s) added in order %q, then %d messages of %d bytes published on the feeds in turn",
			s.Name, s.Seed, s.DestKinds, s.Name, s.Feeds, s.Order, s.Count, s.Blk)
	}
	if s.Kind == "wstext" {
		parts := []string{}
		for i, m := range s.Msgs {
			if i >= 12 {
				parts = append(parts, "...")
				break
			}
			t := "bin"
			if m.Text {
				t = "text"
			}
			parts = append(parts, fmt.Sprintf("%s:%x", t, m.Data))
		}
		return fmt.Sprintf("wstext stream %q: %d typed websocket messages into /ws/<feed>, forwarded by a destination rule: %s", s.Name, len(s.Msgs), strings.Join(parts, " "))
	}
	if s.Kind == "dest" {
		return fmt.Sprintf("dest stream %q seed=%d: %d hub messages of %d bytes on a stream whose destination ends the session after every %d-%d messages (abrupt=%v) and is dialled again by rwc/reconws",
			s.Name, s.Seed, s.Count, s.Blk, s.CutMin, s.CutMax, s.Abrupt)
	}
	fmt.Fprintf(&sb, "%s stream %q seed=%d max_frame=%d bursts=", s.Kind, s.Name, s.Seed, s.MaxFrame)
	for i, b := range s.Bursts {
		if i > 0 {
			sb.WriteString(" | ")
		}
		fmt.Fprintf(&sb, "%v pause %dms", b.Chunks, b.PauseMs)
	}
	fmt.Fprintf(&sb, " consumers=%+v", s.Consumers)
	return sb.String()
}

// ---------------------------------------------------------------- generator

func genStream(r *lib.Rng, kind string, i int) Stream {
	s := genStreamKind(r, kind, i)
	s.LogLevel = []string{"", "", "", "trace", "trace", "debug"}[r.Intn(6)]
	s.Headers = r.Chance(1, 2)
	switch kind {
	case "agg":
		s.Reposts = []int{0, 0, 1, 2}[r.Intn(4)]
		for d, k := range s.DestKinds {
			if k == "hub" && r.Chance(1, 4) {
				s.Leaver = d + 1
				break
			}
		}
	case "dest", "wstext":
		s.Reposts = []int{0, 1, 2}[r.Intn(3)]
	case "rev":
		s.TwinRules = r.Chance(1, 2)
	case "wsbig":
		s.Pings, s.BrokenTail = r.Chance(1, 2), r.Chance(1, 2)
	}
	return s
}

func genStreamKind(r *lib.Rng, kind string, i int) Stream {
	s := Stream{Kind: kind, Name: fmt.Sprintf("%s%d", kind, i), Seed: uint64(r.Intn(1 << 20))}
	if kind == "wsbig" {
		n := r.Range(8, 24)
		for i := 0; i < n; i++ {
			sz := sizeThresholds[r.Intn(len(sizeThresholds)-2)] // the two megabyte sizes are in the fixed streams
			if r.Chance(1, 4) {
				sz = r.Range(0, 20000)
			}
			fr := 0
			if r.Chance(1, 3) {
				fr = r.Range(2, 5)
			}
			s.Sizes, s.Frags = append(s.Sizes, sz), append(s.Frags, fr)
		}
		s.BurstLen, s.GapUs = r.Range(1, 8), r.Range(0, 3000)
		s.SlowUs = []int{0, r.Range(200, 3000)}
		return s
	}
	if kind == "agg" {
		s.Blk = []int{32, 64, 256}[r.Intn(3)]
		s.Count = r.Range(40, 120)
		s.Feeds = r.Range(1, 2)
		s.Order = r.Pick([]string{"dest-first", "resubmit", "replace", "rule-first", "dest-first"})
		nd := r.Range(2, 3)
		for i := 0; i < nd; i++ {
			s.DestKinds = append(s.DestKinds, r.Pick([]string{"hub", "hub", "rwc"}))
		}
		return s
	}
	if kind == "wstext" {
		s.Msgs = genTextMsgs(r)
		return s
	}
	if kind == "dest" {
		s.Blk = []int{64, 256, 1024}[r.Intn(3)]
		s.Count = r.Range(300, 900)
		s.CutMin, s.CutMax = 3, 8
		s.Abrupt = r.Chance(1, 3)
		return s
	}
	if kind == "wsout" {
		s.Blk = []int{4096, 4096, 1024, 8192}[r.Intn(4)]
		s.Count = r.Range(600, 1500)
		s.ReadBurst = r.Range(4, 40)
		s.ReadPauseUs = r.Range(100, 1500)
		s.Rcvbuf = []int{16384, 65536}[r.Intn(2)]
		return s
	}
	size := func() int {
		switch r.Intn(10) {
		case 0:
			return r.Range(1, 4)
		case 1:
			return 188
		case 2:
			return r.Range(1500, 3000)
		}
		return r.Range(20, 400)
	}
	nb := r.Range(2, 6)
	switch kind {
	case "ts":
		s.MaxFrame = 1024000
	case "tcp":
		s.MaxFrame = []int{32, 64, 100, 256, 1024}[r.Intn(5)]
	}
	for b := 0; b < nb; b++ {
		var bu Burst
		nc := r.Range(1, 4)
		if kind == "ws" || kind == "rev" {
			nc = r.Range(1, 3)
		}
		for c := 0; c < nc; c++ {
			n := size()
			if kind == "ts" && r.Chance(1, 12) {
				n = r.Range(20000, 150000) // a key frame's worth: far above every internal buffer but the frame buffer
			}
			if kind == "ts" && r.Chance(1, 10) {
				n = sizeThresholds[1+r.Intn(len(sizeThresholds)-3)] // a size at one of the limits (up to 64 KiB + 1)
			}
			if kind == "tcp" && r.Chance(1, 3) {
				n = r.Range(1, 2*s.MaxFrame+10) // around the buffer size: some flushes must truncate
			}
			if (kind == "ws" || kind == "rev") && r.Chance(1, 15) {
				n = 0 // an empty websocket message is a message too
			}
			bu.Chunks = append(bu.Chunks, n)
			g := 0
			if c > 0 && r.Chance(1, 4) {
				g = r.Range(50, 400) // a short gap, well below the 1 ms idle timer
			}
			bu.GapUs = append(bu.GapUs, g)
		}
		bu.PauseMs = r.Range(5, 9)
		s.Bursts = append(s.Bursts, bu)
	}
	switch kind {
	case "ts", "ws":
		nc := r.Range(1, 3)
		for c := 0; c < nc; c++ {
			s.Consumers = append(s.Consumers, ConsSpec{Cap: 2, Policy: r.Pick([]string{"queue", "queue", "hand"}), Hold: r.Intn(3)})
		}
	case "tcp":
		s.Consumers = []ConsSpec{{Cap: 1000, Policy: "hand", Hold: r.Intn(3)}}
	case "rev":
		s.Consumers = []ConsSpec{{Cap: 1, Policy: "queue", Hold: 0}}
	}
	return s
}

// message sizes around the limits of the layers a message passes (websocket length encodings 125/126, the 4096
// byte read and write buffers less frame headers, 64 KiB, 1 MiB)
var sizeThresholds = []int{0, 1, 125, 126, 127, 4087, 4088, 4089, 4095, 4096, 4097, 8192, 65535, 65536, 65537, 1 << 20, 1<<20 + 1}

// genTextMsgs: a UTF-8 text with multi-byte characters cut into websocket messages at arbitrary byte offsets
// (so that some messages end or begin in the middle of a character), sent as text or as binary, plus stray bytes
func genTextMsgs(r *lib.Rng) []TMsg {
	text := []byte(strings.Repeat("T=23.5\u00b0C \u00b10.1 \u00b5V \u20ac5 \U0001F600 na\u00efve\n", r.Range(1, 3)))
	var out []TMsg
	for p := 0; p < len(text); {
		n := r.Range(1, 12)
		if p+n > len(text) {
			n = len(text) - p
		}
		out = append(out, TMsg{Text: r.Chance(3, 4), Data: append([]byte{}, text[p:p+n]...)})
		p += n
	}
	stray := [][]byte{[]byte("\xef\xbb\xbfbom first"), {0xef, 0xbb, 0xbf}, {0xff}, {0xc2}, {0xb0}, {0xe2, 0x82}, {0xf0, 0x9f, 0x98}, {0xc0, 0x80}, {0xed, 0xa0, 0x80}, {'o', 'k', 0xfe, 'o', 'k'}, []byte("\u00b0"), {}}
	for i := 0; i < 6; i++ {
		m := TMsg{Text: r.Chance(3, 4), Data: stray[r.Intn(len(stray))]}
		at := r.Intn(len(out) + 1)
		out = append(out[:at], append([]TMsg{m}, out[at:]...)...)
	}
	return out
}

// corpus: streams that run first in every run
func corpus(tier string) []Stream {
	out := []Stream{
		// DESIGN section 8, F10: two frames, a subscriber that looks only after the second flush
		{Kind: "ts", Name: "f10-two-frames-late-reader", Seed: 65, MaxFrame: 1024000,
			Bursts:    []Burst{{Chunks: []int{1000}, GapUs: []int{0}, PauseMs: 30}, {Chunks: []int{1000}, GapUs: []int{0}, PauseMs: 30}},
			Consumers: []ConsSpec{{Cap: 2, Policy: "queue", Hold: 2}, {Cap: 2, Policy: "hand", Hold: 1}}},
		{Kind: "tcp", Name: "f10-tcp-late-reader", Seed: 66, MaxFrame: 1024,
			Bursts:    []Burst{{Chunks: []int{300}, GapUs: []int{0}, PauseMs: 20}, {Chunks: []int{200}, GapUs: []int{0}, PauseMs: 20}, {Chunks: []int{100}, GapUs: []int{0}, PauseMs: 20}},
			Consumers: []ConsSpec{{Cap: 1000, Policy: "hand", Hold: 2}}},
		// more than the fixed frame buffer between two flushes: the truncation the theorem states
		{Kind: "tcp", Name: "tcp-truncation", Seed: 67, MaxFrame: 64,
			Bursts:    []Burst{{Chunks: []int{200}, GapUs: []int{0}, PauseMs: 20}, {Chunks: []int{64}, GapUs: []int{0}, PauseMs: 20}, {Chunks: []int{65}, GapUs: []int{0}, PauseMs: 20}, {Chunks: []int{10}, GapUs: []int{0}, PauseMs: 20}},
			Consumers: []ConsSpec{{Cap: 1000, Policy: "hand", Hold: 1}}},
		{Kind: "ts", Name: "ts-truncation-1300kB", Seed: 68, MaxFrame: 1024000,
			Bursts:    []Burst{{Chunks: []int{700000, 600000}, GapUs: []int{0, 0}, PauseMs: 40}, {Chunks: []int{500}, GapUs: []int{0}, PauseMs: 10}},
			Consumers: []ConsSpec{{Cap: 2, Policy: "queue", Hold: 1}}},
		// hub -> slow local websocket client: thousands of 4 kB messages, far more than it reads
		{Kind: "wsout", Name: "wsout-slow-client", Seed: 69, Blk: 4096, Count: 3000, ReadBurst: 8, ReadPauseUs: 800, Rcvbuf: 16384},
		// every threshold size through the websocket feed, whole and as continuation fragments
		{Kind: "wsbig", Name: "wsbig-thresholds", Sizes: append([]int{}, sizeThresholds...), Frags: make([]int, len(sizeThresholds)), BurstLen: 1, GapUs: 2000, SlowUs: []int{0}},
		{Kind: "wsbig", Name: "wsbig-fragments", Sizes: []int{0, 1, 10, 125, 126, 127, 300, 4088, 4089, 4097, 8192, 20000, 65536, 70000}, Frags: []int{2, 2, 3, 2, 5, 3, 4, 2, 3, 2, 5, 4, 3, 2}, BurstLen: 2, GapUs: 1000, SlowUs: []int{0, 500}},
		// bursts of large frames towards subscribers that are briefly busy: nothing may arrive late
		{Kind: "wsbig", Name: "wsbig-large-bursts-slow-subscribers", Sizes: []int{65536, 65537, 70000, 65536, 100000, 65536, 4096, 65536, 65535, 65536, 80000, 65536, 65536, 1000, 65536, 65536, 131072, 65536, 65536, 65536, 200, 65536, 65536, 65536},
			Frags: make([]int, 24), BurstLen: 6, GapUs: 1500, SlowUs: []int{1000, 2500, 300}},
		// the same at trace log level, with odd upgrade headers and with the destination rules re-posted unchanged
		{Kind: "agg", Name: "agg-repost-trace", Seed: 76, Blk: 64, Count: 80, Feeds: 2, Order: "rule-first", DestKinds: []string{"rwc", "hub", "rwc"}, LogLevel: "trace", Headers: true, Reposts: 2},
		{Kind: "agg", Name: "agg-repost-leaver", Seed: 77, Blk: 64, Count: 80, Feeds: 1, Order: "dest-first", DestKinds: []string{"hub", "rwc", "hub"}, Reposts: 1, Leaver: 1},
		{Kind: "rev", Name: "rev-twin-rules", Seed: 80, TwinRules: true, Consumers: []ConsSpec{{Cap: 1, Policy: "queue"}},
			Bursts: []Burst{{Chunks: []int{40, 33, 200}, GapUs: []int{0, 0, 0}, PauseMs: 5}, {Chunks: []int{64, 1000}, GapUs: []int{0, 0}, PauseMs: 5}}},
		{Kind: "rev", Name: "rev-trace", Seed: 78, LogLevel: "trace", Headers: true, Consumers: []ConsSpec{{Cap: 1, Policy: "queue"}},
			Bursts: []Burst{{Chunks: []int{40, 33, 200}, GapUs: []int{0, 0, 0}, PauseMs: 5}, {Chunks: []int{32, 1000, 35}, GapUs: []int{0, 0, 0}, PauseMs: 5}}},
		{Kind: "dest", Name: "dest-repost-debug", Seed: 79, Blk: 256, Count: 600, CutMin: 3, CutMax: 8, LogLevel: "debug", Reposts: 2},
		{Kind: "wsbig", Name: "wsbig-pings-broken-tail-trace", Sizes: []int{40, 4096, 33, 70000, 100}, Frags: []int{0, 0, 2, 0, 3}, BurstLen: 1, GapUs: 500, SlowUs: []int{0, 300}, LogLevel: "trace", Headers: true, Pings: true, BrokenTail: true},
		// several destinations on one aggregated stream, registered before the stream rule is added / re-submitted
		{Kind: "agg", Name: "agg-dest-first", Seed: 73, Blk: 64, Count: 80, Feeds: 2, Order: "dest-first", DestKinds: []string{"hub", "hub", "rwc"}},
		{Kind: "agg", Name: "agg-resubmit", Seed: 74, Blk: 64, Count: 80, Feeds: 1, Order: "resubmit", DestKinds: []string{"hub", "rwc"}},
		{Kind: "agg", Name: "agg-replace", Seed: 75, Blk: 64, Count: 80, Feeds: 2, Order: "replace", DestKinds: []string{"rwc", "rwc", "hub"}},
		// text messages that are not valid UTF-8 on their own (a degree sign split between C2 and B0; stray bytes)
		{Kind: "wstext", Name: "wstext-split-runes", Msgs: []TMsg{
			{Text: true, Data: []byte("T=23.5\xc2")}, {Text: true, Data: []byte("\xb0C\n")}, {Text: true, Data: []byte("ok\xff\xfeok")},
			{Text: false, Data: []byte("bin\xc2")}, {Text: true, Data: []byte("\xe2\x82")}, {Text: true, Data: []byte("\xac5 \u00b5V")},
			{Text: true, Data: []byte("plain ascii")}, {Text: true, Data: []byte("\xf0\x9f\x98")}, {Text: true, Data: []byte("\x80")}, {Text: false, Data: []byte{0, 1, 2, 0xff}}}},
		// feed -> hub -> rwc -> reconws -> a destination that ends the session every few messages
		{Kind: "dest", Name: "dest-cuts-close-frame", Seed: 71, Blk: 256, Count: 1200, CutMin: 3, CutMax: 8},
		{Kind: "dest", Name: "dest-cuts-abrupt", Seed: 72, Blk: 256, Count: 1200, CutMin: 3, CutMax: 8, Abrupt: true},
		{Kind: "wsout", Name: "wsout-slower-client", Seed: 70, Blk: 4096, Count: 3000, ReadBurst: 30, ReadPauseUs: 300, Rcvbuf: 65536},
	}
	return out
}
