// c17: correspondence + oracle for "what the experiment sends into the host is what leaves it".
// Real code under test: vw.(*App).handleTs behind the real router and HTTP server (chunked POST whose writer
// controls the gaps), vw.(*App).handleWs (websocket ingest and the local feed client's writePump), the agg/hub
// fan-out, rwc's RelayIn (destination -> feed clients, through a real reconnecting websocket client) and
// tcpconnect.HandleConn.  Subscribers are in-process hub clients with the channel capacity of rwc's destination
// clients (2) that leave 0-2 messages unread while the next burst goes through, keep the slices they received
// and look at them again at the end of the stream.  Flush points depend on the 1 ms idle timer, so the
// OBSERVED message boundaries are the schedule given to the model, which must reproduce every content.
// Streams run in child processes (batches), so a frozen or crashed host ends one batch, not the harness.
package main

import (
	"bufio"
	"bytes"
	"encoding/json"
	"fmt"
	"io/ioutil"
	"os"
	"os/exec"
	"sync"
	"time"

	"github.com/practable/relay/verifharness/lib"
	log "github.com/sirupsen/logrus"
)

func childMain() {
	log.SetOutput(ioutil.Discard)
	log.SetLevel(log.PanicLevel)
	var batch []Stream
	in, _ := ioutil.ReadAll(os.Stdin)
	if err := json.Unmarshal(in, &batch); err != nil {
		fmt.Fprintln(os.Stderr, "bad batch:", err)
		os.Exit(3)
	}
	out := bufio.NewWriter(os.Stdout)
	for i := range batch {
		runStream(&batch[i])
		b, _ := json.Marshal(batch[i].Obs)
		out.Write(b)
		out.WriteByte('\n')
		out.Flush()
	}
	os.Exit(0)
}

func runBatch(batch []Stream) {
	in, _ := json.Marshal(batch)
	cmd := exec.Command(os.Args[0], "batch")
	cmd.Stdin = bytes.NewReader(in)
	var stderr bytes.Buffer
	cmd.Stderr = &stderr
	stdout, _ := cmd.StdoutPipe()
	if err := cmd.Start(); err != nil {
		panic(err)
	}
	lines := make(chan *Observed, len(batch)+1)
	go func() {
		sc := bufio.NewScanner(stdout)
		sc.Buffer(make([]byte, 1<<20), 256<<20)
		for sc.Scan() {
			var o Observed
			if json.Unmarshal(sc.Bytes(), &o) == nil {
				lines <- &o
			}
		}
		close(lines)
	}()
	n := 0
	watchdog := time.After(30*time.Second + time.Duration(len(batch))*6*time.Second)
loop:
	for {
		select {
		case o, ok := <-lines:
			if !ok {
				break loop
			}
			batch[n].Obs = o
			n++
		case <-watchdog:
			break loop
		}
	}
	_ = cmd.Process.Kill()
	_ = cmd.Wait()
	tail := stderr.String()
	if len(tail) > 800 {
		tail = tail[:800]
	}
	for i := n; i < len(batch); i++ {
		why := "not run: an earlier stream of the batch ended the host process"
		if i == n {
			why = "the host process ended or froze during this stream: " + tail
		}
		batch[i].Obs = &Observed{Err: why}
	}
}

// ---------------------------------------------------------------- the property's own oracle
// (a transcription of the statement, not of the model: slices of the input, forward only, unchanged)

func short(b []byte) string {
	if len(b) > 24 {
		return fmt.Sprintf("%x...(%d bytes)", b[:24], len(b))
	}
	return fmt.Sprintf("%x", b)
}

// slimOf: the stream without the bulk bytes it produced (what a replay needs is the stream itself)
func slimOf(s Stream) Stream {
	if s.Obs != nil {
		so := *s.Obs
		so.TapLens = nil
		for _, m := range so.Tap {
			so.TapLens = append(so.TapLens, len(m))
		}
		so.FrameLens = nil
		for _, f := range so.Frames {
			so.FrameLens = append(so.FrameLens, len(f))
		}
		so.Tap, so.Reads, so.Frames, so.PerDest = nil, nil, nil, nil
		s.Obs = &so
	}
	return s
}

func oracle(s Stream, idx int, res *lib.Result) {
	o := s.Obs
	bad := func(clause, detail string) {
		res.Violate(lib.Violation{Clause: clause, Case: idx, Replay: slimOf(s), Key: clause + ":" + s.Kind,
			Detail: s.describe() + " -> " + detail})
	}
	if o.Err != "" {
		bad("stream-did-not-complete", o.Err)
		return
	}
	input := genBytes(s.Seed, 0, s.total())
	if s.Kind == "stall" {
		// after the stall: what the destination sends reaches the feed client once each, in order, unmodified
		input = s.wsoutInput()
		lastK := -1
		for j, f := range o.Frames {
			k := wsoutIndex(f)
			switch {
			case k < 0 || k >= s.Count || len(f) != s.Blk || !bytes.Equal(f, input[k*s.Blk:(k+1)*s.Blk]):
				bad("not-the-message-sent", fmt.Sprintf("message %d received by the feed client (%s) is not a message the destination sent", j, short(f)))
			case k <= lastK:
				bad("repeat-or-backwards", fmt.Sprintf("the feed client received the destination's message %d after message %d: repeated or backwards (%d received for %d sent; the host had %d connection(s) with the destination after the stall)", k, lastK, len(o.Frames), s.Count, o.NConns))
			}
			if k > lastK {
				lastK = k
			}
		}
		if len(o.Frames) == 0 {
			bad("nothing-received", fmt.Sprintf("after the stall the feed client received none of the destination's %d messages (connections with the destination: %d)", s.Count, o.NConns))
		}
		return
	}
	if s.Kind == "wsbig" {
		// every websocket feed message is handed on once, whole and unmodified, in order; a subscriber that lags
		// may miss messages but what it gets is byte-identical to what was sent under that number, and the
		// numbers only go up
		if o.Err != "" {
			bad("stream-did-not-complete", o.Err)
		}
		check := func(who string, got [][]byte, complete bool) {
			idx := s.bigMatch(got)
			lastK := -1
			for j, f := range got {
				k := idx[j]
				switch {
				case k < 0 || !bytes.Equal(f, bigMsg(k, s.Sizes[k])):
					want := "no message sent has this length and content"
					if k >= 0 {
						want = fmt.Sprintf("it carries number %d, under which %d bytes %s were sent", k, s.Sizes[k], short(bigMsg(k, s.Sizes[k])))
					}
					bad("not-the-message-sent", fmt.Sprintf("%s: message %d received (%d bytes, %s) is not a message sent: %s", who, j, len(f), short(f), want))
				case k <= lastK:
					bad("repeat-or-backwards", fmt.Sprintf("%s received message number %d (%d bytes) after message number %d: repeated or backwards", who, k, len(f), lastK))
				}
				if k > lastK {
					lastK = k
				}
			}
			if complete && len(got) != len(s.Sizes) {
				bad("message-count", fmt.Sprintf("%s: %d messages sent, %d handed on", who, len(s.Sizes), len(got)))
			}
		}
		check("the subscriber that never lags", o.Tap, o.Err == "")
		for d, got := range o.PerDest {
			check(fmt.Sprintf("subscriber %d (busy %d us after every message)", d, s.SlowUs[d]), got, false)
		}
		return
	}
	if s.Kind == "agg" {
		// every destination subscribed to the stream gets the feed messages unmodified, forward, none twice;
		// a subscribed destination that gets nothing at all is not being forwarded to
		input = s.wsoutInput()
		for d, got := range o.PerDest {
			lastK := -1
			for j, f := range got {
				k := wsoutIndex(f)
				switch {
				case k < 0 || k >= s.Count || len(f) != s.Blk || !bytes.Equal(f, input[k*s.Blk:(k+1)*s.Blk]):
					bad("not-the-message-sent", fmt.Sprintf("destination %d (%s): message %d received (%s) is not a feed message", d, s.DestKinds[d], j, short(f)))
				case k <= lastK:
					bad("repeat-or-backwards", fmt.Sprintf("destination %d (%s) received feed message %d (input offset %d) after feed message %d: repeated or backwards (it got %d messages for %d published)", d, s.DestKinds[d], k, k*s.Blk, lastK, len(got), s.Count))
				}
				if k > lastK {
					lastK = k
				}
			}
			if len(got) == 0 && s.Count >= 20 {
				bad("subscribed-destination-received-nothing", fmt.Sprintf("destination %d (%s) sits on the stream and received none of the %d feed messages", d, s.DestKinds[d], s.Count))
			}
		}
		return
	}
	if s.Kind == "wstext" {
		// what the destination receives are the messages sent, byte for byte and with their type, in order
		gi := 0
		for j, f := range o.Frames {
			found := false
			for ; gi < len(s.Msgs); gi++ {
				if bytes.Equal(s.Msgs[gi].Data, f) && (j >= len(o.RecvText) || o.RecvText[j] == s.Msgs[gi].Text) {
					found = true
					gi++
					break
				}
			}
			if !found {
				typ := "binary"
				if j < len(o.RecvText) && o.RecvText[j] {
					typ = "text"
				}
				bad("not-the-message-sent", fmt.Sprintf("the destination received %s message %d = %x, which is none of the (remaining) messages sent", typ, j, f))
				break
			}
		}
		if len(o.Frames) == 0 {
			bad("nothing-received", "the destination received nothing at all")
		}
		return
	}
	if s.Kind == "dest" {
		// over all its connections the destination receives hub messages of the stream, unmodified, strictly
		// forward, none twice; messages lost at a cut or dropped for the lagging path are allowed
		input = s.wsoutInput()
		lastK, lastConn := -1, 0
		for j, f := range o.Frames {
			k := wsoutIndex(f)
			conn := 0
			if j < len(o.Conns) {
				conn = o.Conns[j]
			}
			switch {
			case k < 0 || k >= s.Count || len(f) != s.Blk || !bytes.Equal(f, input[k*s.Blk:(k+1)*s.Blk]):
				bad("not-the-message-sent", fmt.Sprintf("message %d received by the destination (connection %d, %d bytes, %s) is not a hub message of the stream", j, conn, len(f), short(f)))
			case k == lastK:
				bad("repeat-or-backwards", fmt.Sprintf("the destination received hub message %d (input offset %d) twice: on connection %d and again on connection %d", k, k*s.Blk, lastConn, conn))
			case k < lastK:
				bad("repeat-or-backwards", fmt.Sprintf("the destination received hub message %d (input offset %d) on connection %d AFTER hub message %d (offset %d) on connection %d: an older slice after a newer one", k, k*s.Blk, conn, lastK, lastK*s.Blk, lastConn))
			}
			if k > lastK {
				lastK, lastConn = k, conn
			}
		}
		if len(o.Frames) == 0 {
			bad("nothing-received", "the destination received nothing at all")
		}
		return
	}
	if s.Kind == "wsout" {
		input = s.wsoutInput()
		// every websocket message received is a contiguous slice of the stream, and the messages go forward
		// (gaps BETWEEN messages are what the hub dropped for a slow client; none INSIDE a message)
		starts := s.wsoutStarts()
		end := 0
		where := func(piece []byte) int { // the input offset a piece carries (-1: none)
			if k := wsoutIndex(piece); k >= 0 {
				return k * s.Blk
			}
			return -1
		}
		for j, f := range o.Frames {
			k := starts[j]
			off := k * s.Blk
			switch {
			case k < 0 || off+len(f) > len(input) || !bytes.Equal(f, input[off:off+len(f)]):
				// say where its pieces come from
				pieces := []string{}
				for p := 0; p < len(f) && len(pieces) < 6; p += s.Blk {
					q := p + s.Blk
					if q > len(f) {
						q = len(f)
					}
					pieces = append(pieces, fmt.Sprintf("%d", where(f[p:q])))
				}
				bad("not-a-contiguous-slice", fmt.Sprintf("websocket message %d (%d bytes) is not a contiguous slice of the stream: its %d-byte pieces come from input offsets %v", j, len(f), s.Blk, pieces))
			case off < end:
				bad("repeat-or-backwards", fmt.Sprintf("websocket message %d is input[%d:%d], the previous one ended at %d", j, off, off+len(f), end))
			}
			if k >= 0 {
				end = off + len(f)
			}
		}
		if len(o.Frames) == 0 {
			bad("nothing-received", "the websocket client received nothing at all")
		}
		return
	}
	if s.Kind == "rev" && len(o.Back) > 0 {
		bad("own-message-came-back", fmt.Sprintf("the destination (two rules, one URL) got %d message(s) back from the host over its own connections, the first: %s", len(o.Back), short(o.Back[0])))
	}
	type span struct{ a, b int }
	spans := make([]span, len(o.Tap))
	whole := s.Kind == "ws" || s.Kind == "rev"
	if whole {
		// every message sent is handed on as one message, in order
		var sent []span
		p := 0
		for _, b := range s.Bursts {
			for _, n := range b.Chunks {
				sent = append(sent, span{p, p + n})
				p += n
			}
		}
		if len(o.Tap) != len(sent) {
			bad("message-count", fmt.Sprintf("%d messages sent, %d handed on", len(sent), len(o.Tap)))
		}
		for k, m := range o.Tap {
			if k < len(sent) {
				spans[k] = sent[k]
				if !bytes.Equal(m, input[sent[k].a:sent[k].b]) {
					bad("not-the-message-sent", fmt.Sprintf("hand-off %d is %s, message %d sent was %s", k, short(m), k, short(input[sent[k].a:sent[k].b])))
				}
			}
		}
	} else {
		_, starts, _ := locate(input, o.Tap, s.MaxFrame)
		pos := 0
		for k, m := range o.Tap {
			a := starts[k]
			spans[k] = span{a, a + len(m)}
			switch {
			case len(m) == 0:
				bad("empty-message", fmt.Sprintf("hand-off %d is empty", k))
			case len(m) > s.MaxFrame:
				bad("longer-than-buffer", fmt.Sprintf("hand-off %d has %d bytes", k, len(m)))
			case a+len(m) > len(input) || !bytes.Equal(m, input[a:a+len(m)]):
				bad("not-a-slice-of-input", fmt.Sprintf("hand-off %d (%s) is not input[%d:%d] (%s)", k, short(m), a, a+len(m), short(input[min(a, len(input)):min(a+len(m), len(input))])))
			case a > pos && !(k > 0 && len(o.Tap[k-1]) == s.MaxFrame):
				bad("gap-without-full-frame", fmt.Sprintf("hand-off %d starts at %d, the previous one ended at %d and was not a full buffer", k, a, pos))
			}
			pos = a + len(m)
		}
		if pos < len(input) && !(len(o.Tap) > 0 && len(o.Tap[len(o.Tap)-1]) == s.MaxFrame) {
			bad("input-lost", fmt.Sprintf("%d bytes written, hand-offs end at %d", len(input), pos))
		}
	}
	for c, rs := range o.Reads {
		lastK := -1
		for j, r := range rs {
			if r.K < 0 || r.K >= len(spans) {
				bad("read-matches-no-hand-off", fmt.Sprintf("consumer %d read %d: %s", c, j, short(r.AtRead)))
				continue
			}
			if r.K <= lastK {
				bad("repeat-or-backwards", fmt.Sprintf("consumer %d read hand-off %d after hand-off %d", c, r.K, lastK))
			}
			lastK = r.K
			sp := spans[r.K]
			if sp.b > len(input) {
				continue
			}
			want := input[sp.a:sp.b]
			if !bytes.Equal(r.AtRead, want) {
				bad("content-changed-after-hand-off", fmt.Sprintf("consumer %d (%+v) looked at hand-off %d = input[%d:%d] = %s and read %s", c, s.Consumers[c], r.K, sp.a, sp.b, short(want), short(r.AtRead)))
			} else if !bytes.Equal(r.Later, want) {
				bad("content-changed-after-hand-off", fmt.Sprintf("consumer %d (%+v): hand-off %d = input[%d:%d] = %s reads %s through the same slice at the end of the stream", c, s.Consumers[c], r.K, sp.a, sp.b, short(want), short(r.Later)))
			}
		}
	}
}

func main() {
	if len(os.Args) > 1 && os.Args[1] == "batch" {
		childMain()
		return
	}
	a := lib.ParseArgs()
	res := lib.NewResult("C17", a.Seed, a.Tier)
	res.ShardSize = 16
	rng := lib.NewRng(a.Seed)

	var streams []Stream
	if a.Replay != "" {
		var s Stream
		lib.ReadReplayCase(a.Replay, &s)
		s.Obs = nil
		streams = []Stream{s}
	} else {
		streams = corpus(a.Tier)
		n := a.Pick(92, 800)
		for i := 0; i < n; i++ {
			r := rng.Fork()
			kind := []string{"ts", "ts", "ts", "tcp", "tcp", "ws", "ws", "rev"}[i%8]
			if i%23 == 22 {
				kind = "wsout"
			}
			if i%23 == 11 {
				kind = "dest"
			}
			if i%23 == 5 || i%23 == 17 {
				kind = "agg"
			}
			if i%23 == 8 {
				kind = "wstext"
			}
			if i%23 == 2 || i%23 == 14 {
				kind = "wsbig"
			}
			streams = append(streams, genStream(r, kind, i))
		}
	}

	// the long scenario (a destination that stalls for more than 10 s) runs in its own child next to everything else
	var stallWg sync.WaitGroup
	if a.Replay == "" {
		streams = append(streams, Stream{Kind: "stall", Name: "stall-12s", Seed: 81, Blk: 256, Count: 30, StallMs: 12000, PostKB: 12288})
	}
	nShort := len(streams)
	if last := len(streams) - 1; streams[last].Kind == "stall" {
		nShort = last
		stallWg.Add(1)
		go func(b []Stream) {
			defer stallWg.Done()
			runBatch(b)
		}(streams[last:])
	}
	// batches of 8 streams, 3 child processes at a time
	var wg sync.WaitGroup
	sem := make(chan struct{}, 3)
	for lo := 0; lo < nShort; lo += 8 {
		hi := lo + 8
		if hi > nShort {
			hi = nShort
		}
		wg.Add(1)
		sem <- struct{}{}
		go func(b []Stream) {
			defer func() { <-sem; wg.Done() }()
			runBatch(b)
		}(streams[lo:hi])
	}
	wg.Wait()
	stallWg.Wait()

	var coq []string
	for i, s := range streams {
		o := s.Obs
		if o.Ambiguous != "" {
			res.Count("discarded:ambiguous-schedule")
			res.Notes = append(res.Notes, "discarded "+s.Name+": "+o.Ambiguous)
			o.Events, o.Tap, o.Reads = nil, nil, make([][]Read, len(s.Consumers)) // an empty case: trivially agreed, counted as discarded
		} else {
			oracle(s, i, res)
		}
		if o.Raced != "" && o.Ambiguous == "" {
			res.Count("not-modelled:hand-off-raced-consumer-action")
			res.Notes = append(res.Notes, "oracle only for "+s.Name+": "+o.Raced)
			empty := s
			eo := *o
			eo.Events, eo.Tap, eo.Reads = nil, nil, make([][]Read, len(s.Consumers))
			empty.Obs = &eo
			coq = append(coq, empty.coq())
		} else {
			coq = append(coq, s.coq())
		}
		res.Evaluations++
		res.Count("streams:" + s.Kind)
		if s.LogLevel != "" {
			res.Count("log-level:" + s.LogLevel)
		}
		if s.Headers {
			res.Count("odd-upgrade-headers")
		}
		if s.Reposts > 0 {
			res.Count("identical-rule-reposts:" + s.Kind)
		}
		res.CountN("bytes-posted", o.Posted)
		res.CountN("hand-offs", len(o.Tap))
		if s.Kind == "agg" {
			res.Count("agg:order=" + s.Order)
			for d, got := range o.PerDest {
				res.Count("agg:destinations:" + s.DestKinds[d])
				res.CountN("agg:messages-received", len(got))
				res.CountN("agg:messages-missed", s.Count-len(got))
			}
		}
		if s.Kind == "wsbig" {
			res.CountN("wsbig:messages-sent", len(s.Sizes))
			for i, n := range s.Sizes {
				switch {
				case n >= 65536:
					res.Count("wsbig:size>=64KiB")
				case n >= 4089:
					res.Count("wsbig:size>=4089")
				default:
					res.Count("wsbig:size<4089")
				}
				if i < len(s.Frags) && s.Frags[i] >= 2 {
					res.Count("wsbig:sent-as-continuation-fragments")
				}
			}
			for d, got := range o.PerDest {
				if s.SlowUs[d] > 0 {
					res.CountN("wsbig:missed-by-a-busy-subscriber", len(s.Sizes)-len(got))
				}
			}
		}
		if s.Kind == "wstext" {
			res.CountN("wstext:messages-sent", len(s.Msgs))
			res.CountN("wstext:messages-received", len(o.Frames))
		}
		if s.Kind == "dest" {
			res.CountN("dest:hub-messages", s.Count)
			res.CountN("dest:messages-received", len(o.Frames))
			if n := len(o.Conns); n > 0 {
				res.CountN("dest:connections", o.Conns[n-1])
			}
		}
		if s.Kind == "wsout" {
			res.CountN("wsout:hub-messages", s.Count)
			res.CountN("wsout:websocket-messages-received", len(o.Frames))
			for _, f := range o.Frames {
				if len(f) > s.Blk {
					res.Count("wsout:websocket-messages-longer-than-one-hub-message")
				}
			}
		}
		for k, m := range o.Tap {
			if len(m) == s.MaxFrame {
				res.Count("full-buffer-frames")
			}
			_ = k
		}
		for _, e := range o.Events {
			res.Count("event:" + e.T)
		}
		cuts := 0
		if s.Kind == "ts" || s.Kind == "tcp" {
			_, starts, _ := locate(genBytes(s.Seed, 0, s.total()), o.Tap, s.MaxFrame)
			pos := 0
			for k, m := range o.Tap {
				if k < len(starts) && starts[k] > pos {
					cuts++
				}
				if k < len(starts) {
					pos = starts[k] + len(m)
				}
			}
			if len(o.Tap) > 0 && pos < s.total() {
				cuts++
			}
		}
		res.CountN("flushes-that-threw-bytes-away", cuts)
		for c, rs := range o.Reads {
			res.CountN("reads", len(rs))
			if c < len(s.Consumers) {
				res.CountN(fmt.Sprintf("reads:policy=%s,hold=%d", s.Consumers[c].Policy, s.Consumers[c].Hold), len(rs))
			}
			if len(rs) < len(o.Tap) {
				res.CountN("hand-offs-missed-by-a-lagging-consumer", len(o.Tap)-len(rs))
			}
		}
		// the result file keeps the case without the bulk bytes
		slim := slimOf(s)
		res.Sample(slim)
		res.Cases = append(res.Cases, slim)
	}
	hdr := "From Coq Require Import Uint63.\nFrom Relay Require Import Base.Prelude Model.Ingest Corr.C17."
	if _, err := lib.WriteShards(a.Out, hdr, "case", coq, res.ShardSize); err != nil {
		fmt.Fprintln(os.Stderr, err)
		os.Exit(2)
	}
	if err := res.Write(a.Out); err != nil {
		fmt.Fprintln(os.Stderr, err)
		os.Exit(2)
	}
}
