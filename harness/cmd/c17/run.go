package main

import (
	"bytes"
	"context"
	"fmt"
	"io"
	"net"
	"net/http"
	"net/http/httptest"
	"runtime"
	"sort"
	"strconv"
	"strings"
	"sync"
	"time"

	"github.com/gorilla/websocket"
	"github.com/practable/relay/internal/agg"
	"github.com/practable/relay/internal/hub"
	"github.com/practable/relay/internal/rwc"
	"github.com/practable/relay/internal/tcpconnect"
	"github.com/practable/relay/internal/vw"
	"github.com/practable/relay/verifharness/lib"
	log "github.com/sirupsen/logrus"
)

// host is one real vw.App with its hubs running and its real HTTP server (real router) listening.
type host struct {
	app  *vw.App
	base string // 127.0.0.1:port
	srv  *http.Server
}

func newHost() *host {
	a := &vw.App{Hub: agg.New(), Closed: make(chan struct{})}
	a.Websocket = rwc.New(a.Hub)
	go a.Hub.RunWithStats(a.Closed)
	go a.Websocket.Run(a.Closed)
	port := lib.FreePorts(1)[0]
	h := &host{app: a, base: "127.0.0.1:" + strconv.Itoa(port)}
	h.srv = a.VerifStartHTTPServer(port)
	for i := 0; i < 400; i++ {
		c, err := net.DialTimeout("tcp", h.base, 50*time.Millisecond)
		if err == nil {
			c.Close()
			break
		}
		time.Sleep(5 * time.Millisecond)
	}
	return h
}

// barrier: when it returns, the hub has finished fanning out every message it had accepted before.
// (Register goes agg loop -> hub loop; the second one is accepted by the agg loop only after the hub loop
// took the first, which it does only between two broadcasts.)
func (h *host) barrier() {
	for i := 0; i < 2; i++ {
		h.app.Hub.Register <- &hub.Client{Hub: h.app.Hub.Hub, Name: "verif-barrier", Topic: "verif-barrier", Send: make(chan hub.Message, 1), Stats: hub.NewClientStats()}
	}
}

type msgKey struct {
	sent int64
	n    int
}

// tap: a subscriber with a channel so large that the hub never finds it full; it copies every message at once.
type tap struct {
	cl     *hub.Client
	mu     sync.Mutex
	msgs   [][]byte
	index  map[msgKey]int
	bytes  int
	last   time.Time
	stop   chan struct{}
	synced chan struct{}
}

const syncType = -4242

// sync returns when the tap has recorded every message the hub had put into its channel before the call
// (the channel is FIFO: a marker put in by the harness itself comes out after them).
func (t *tap) sync() {
	t.cl.Send <- hub.Message{Type: syncType}
	<-t.synced
}

func (h *host) newTap(topic string) *tap {
	t := &tap{cl: &hub.Client{Hub: h.app.Hub.Hub, Name: "verif-tap", Topic: topic, Send: make(chan hub.Message, 4096), Stats: hub.NewClientStats()},
		index: map[msgKey]int{}, stop: make(chan struct{}), synced: make(chan struct{}, 1)}
	h.app.Hub.Register <- t.cl
	go func() {
		for {
			select {
			case m := <-t.cl.Send:
				if m.Type == syncType {
					t.synced <- struct{}{}
					continue
				}
				cp := append([]byte{}, m.Data...)
				t.mu.Lock()
				t.index[msgKey{m.Sent.UnixNano(), len(m.Data)}] = len(t.msgs)
				t.msgs = append(t.msgs, cp)
				t.bytes += len(cp)
				t.last = time.Now()
				t.mu.Unlock()
			case <-t.stop:
				return
			}
		}
	}()
	return t
}

func (t *tap) state() (count, nbytes int, last time.Time) {
	t.mu.Lock()
	defer t.mu.Unlock()
	return len(t.msgs), t.bytes, t.last
}

// waitBytes waits until the tap has seen want bytes, or nothing new has arrived for quiet after at least
// one message since the call (then bytes were thrown away or are stuck), or the deadline passes.
func (t *tap) waitBytes(want int, quiet, deadline time.Duration) {
	start := time.Now()
	c0, _, _ := t.state()
	for time.Since(start) < deadline {
		c, b, last := t.state()
		if b >= want {
			return
		}
		if c > c0 && time.Since(last) > quiet {
			return
		}
		time.Sleep(300 * time.Microsecond)
	}
}

func (t *tap) waitCount(want int, deadline time.Duration) bool {
	start := time.Now()
	for time.Since(start) < deadline {
		if c, _, _ := t.state(); c >= want {
			return true
		}
		time.Sleep(200 * time.Microsecond)
	}
	return false
}

// consumer: an in-process subscriber (like rwc's destination client) that lags on purpose.
type consumer struct {
	spec  ConsSpec
	idx   int
	cl    *hub.Client
	hand  []hub.Message
	kept  [][]byte // the slices as received (never copied): looked at again at the end
	reads []Read
}

type evLog struct {
	at int // number of hand-offs observed when the action was performed
	ev Ev
}

func (c *consumer) look(m hub.Message, t *tap, log *[]evLog, at int) {
	t.mu.Lock()
	k, ok := t.index[msgKey{m.Sent.UnixNano(), len(m.Data)}]
	t.mu.Unlock()
	if !ok {
		k = -1
	}
	c.reads = append(c.reads, Read{K: k, AtRead: append([]byte{}, m.Data...)})
	c.kept = append(c.kept, m.Data)
	*log = append(*log, evLog{at, Ev{T: "C", C: c.idx}})
}

// act: what the consumer does between two bursts (final = the stream is over: look at everything)
func (c *consumer) act(t *tap, log *[]evLog, final bool) (raced bool) {
	t.sync()
	at, _, _ := t.state()
	defer func() {
		// a hand-off that arrives while the consumer is acting cannot be ordered against its actions
		t.sync()
		if now, _, _ := t.state(); now != at {
			raced = true
		}
	}()
	hold := c.spec.Hold
	if final {
		hold = 0
	}
	if c.spec.Policy == "hand" {
		for len(c.cl.Send) > 0 {
			c.hand = append(c.hand, <-c.cl.Send)
			*log = append(*log, evLog{at, Ev{T: "T", C: c.idx}})
		}
		for len(c.hand) > hold {
			c.look(c.hand[0], t, log, at)
			c.hand = c.hand[1:]
		}
		return false
	}
	for len(c.cl.Send) > hold {
		c.look(<-c.cl.Send, t, log, at)
	}
	return false
}

func (c *consumer) finish() {
	for i := range c.reads {
		c.reads[i].Later = append([]byte{}, c.kept[i]...)
	}
}

// buildEvents merges the harness's own writes, the observed hand-offs and the consumer actions into the
// schedule for the model.  cut[k] = number of input bytes written when hand-off k was flushed.
func buildEvents(s Stream, tapLens []int, cuts []int, log []evLog) []Ev {
	var evs []Ev
	li := 0
	flushLog := func(at int) {
		for li < len(log) && log[li].at <= at {
			evs = append(evs, log[li].ev)
			li++
		}
	}
	// chunk boundaries of the harness's writes
	bounds := []int{}
	p := 0
	for _, b := range s.Bursts {
		for _, c := range b.Chunks {
			p += c
			bounds = append(bounds, p)
		}
	}
	pos, bi := 0, 0
	writeUpTo := func(to int) {
		for pos < to {
			for bi < len(bounds) && bounds[bi] <= pos {
				bi++
			}
			end := to
			if bi < len(bounds) && bounds[bi] < to {
				end = bounds[bi]
			}
			evs = append(evs, Ev{T: "W", Off: pos, N: end - pos})
			pos = end
		}
	}
	flushLog(0)
	for k := range tapLens {
		writeUpTo(cuts[k])
		evs = append(evs, Ev{T: "F"})
		flushLog(k + 1)
	}
	writeUpTo(s.total())
	flushLog(1 << 30)
	return evs
}

// locate: where the hand-offs sit in the input.  cuts[k] = how many input bytes had been written when
// hand-off k was flushed (its end, plus whatever was thrown away behind it when it filled the buffer).
// A hand-off that is not where it should be is left where the lengths put it: the oracle reports it.
func locate(input []byte, taps [][]byte, maxf int) (cuts []int, starts []int, ambiguous string) {
	pos := 0
	for k, m := range taps {
		start := pos
		rest := input[min(pos, len(input)):]
		if !bytes.HasPrefix(rest, m) && k > 0 && len(taps[k-1]) == maxf {
			// bytes were thrown away behind a full frame: find where this hand-off starts.  Hand-offs that
			// follow it without another truncation are contiguous with it, so they are searched for together.
			needle := append([]byte{}, m...)
			for j := k + 1; j < len(taps) && len(needle) < 64 && len(taps[j-1]) != maxf; j++ {
				needle = append(needle, taps[j]...)
			}
			if i := bytes.Index(rest, needle); i >= 0 {
				start = pos + i
				if len(needle) < 64 && bytes.Contains(input[min(start+1, len(input)):], needle) {
					ambiguous = fmt.Sprintf("hand-off %d (%d bytes, %d with its successors) matches the input at more than one place behind a truncated frame", k, len(m), len(needle))
				}
				cuts[k-1] = start
			}
		}
		starts = append(starts, start)
		pos = start + len(m)
		cuts = append(cuts, min(pos, len(input)))
	}
	if n := len(taps); n > 0 && len(taps[n-1]) == maxf && pos < len(input) {
		cuts[n-1] = len(input) // the rest was thrown away behind the last (full) frame
	}
	return
}

func min(a, b int) int {
	if a < b {
		return a
	}
	return b
}

// ---------------------------------------------------------------- POST /ts/<feed> and websocket ingest

func runHubStream(s *Stream) {
	o := &Observed{}
	s.Obs = o
	h := newHost()
	feed := "feed-" + s.Name
	t := h.newTap(feed)
	var cons []*consumer
	for i, cs := range s.Consumers {
		c := &consumer{spec: cs, idx: i, cl: &hub.Client{Hub: h.app.Hub.Hub, Name: "verif-consumer-" + strconv.Itoa(i), Topic: feed, Send: make(chan hub.Message, cs.Cap), Stats: hub.NewClientStats()}}
		h.app.Hub.Register <- c.cl
		cons = append(cons, c)
	}
	h.barrier()
	input := genBytes(s.Seed, 0, s.total())
	var log []evLog
	raced := false
	defer func() {
		if raced {
			o.Raced = "a hand-off arrived while a consumer was acting (late flush): its order against the consumer's actions is unknown"
		}
	}()

	var write func(b []byte) error
	var closeIn func()
	var wsLens []int
	switch s.Kind {
	case "ts":
		pr, pw := io.Pipe()
		req, _ := http.NewRequest("POST", "http://"+h.base+"/ts/"+feed, pr)
		go func() {
			resp, err := (&http.Client{}).Do(req)
			if err == nil {
				resp.Body.Close()
			}
		}()
		write = func(b []byte) error { _, err := pw.Write(b); return err }
		closeIn = func() { pw.Close() }
	case "ws":
		c, err := dialFeed(h, feed, s)
		if err != nil {
			o.Err = "dial: " + err.Error()
			return
		}
		write = func(b []byte) error {
			wsLens = append(wsLens, len(b))
			return c.WriteMessage(websocket.BinaryMessage, b)
		}
		closeIn = func() { c.Close() }
	}
	time.Sleep(3 * time.Millisecond)

	off := 0
	sent := 0
	for _, b := range s.Bursts {
		for i, n := range b.Chunks {
			if b.GapUs[i] > 0 {
				time.Sleep(time.Duration(b.GapUs[i]) * time.Microsecond)
			}
			if err := write(input[off : off+n]); err != nil {
				o.Err = "write: " + err.Error()
				return
			}
			off += n
			sent++
			if s.Kind == "ws" {
				// one message at a time: the reconstruction of the schedule needs the hand-offs of one
				// message to be over before the next is sent
				if !t.waitCount(sent, 2*time.Second) {
					o.Err = fmt.Sprintf("websocket message %d was not handed on within 2 s", sent-1)
					break
				}
			}
		}
		if s.Kind == "ts" {
			t.waitBytes(off, 25*time.Millisecond, 3*time.Second)
		}
		time.Sleep(time.Duration(b.PauseMs) * time.Millisecond)
		h.barrier()
		for _, c := range cons {
			if c.act(t, &log, false) {
				raced = true
			}
		}
	}
	o.Posted = off
	time.Sleep(5 * time.Millisecond)
	h.barrier()
	for _, c := range cons {
		if c.act(t, &log, true) {
			raced = true
		}
	}
	closeIn()
	close(t.stop)
	t.mu.Lock()
	o.Tap = t.msgs
	t.mu.Unlock()
	for _, c := range cons {
		c.finish()
		o.Reads = append(o.Reads, c.reads)
	}
	if s.Kind == "ws" {
		// every websocket message is its own hand-off
		p := 0
		li := 0
		for k, n := range wsLens {
			for li < len(log) && log[li].at <= k {
				o.Events = append(o.Events, log[li].ev)
				li++
			}
			o.Events = append(o.Events, Ev{T: "M", Off: p, N: n})
			p += n
		}
		for ; li < len(log); li++ {
			o.Events = append(o.Events, log[li].ev)
		}
		return
	}
	lens := []int{}
	for _, m := range o.Tap {
		lens = append(lens, len(m))
	}
	cuts, _, amb := locate(input, o.Tap, s.MaxFrame)
	o.Ambiguous = amb
	o.Events = buildEvents(*s, lens, cuts, log)
}

// ---------------------------------------------------------------- tcpconnect.HandleConn

func runTCP(s *Stream) {
	o := &Observed{}
	s.Obs = o
	l, err := net.Listen("tcp", "127.0.0.1:0")
	if err != nil {
		o.Err = err.Error()
		return
	}
	defer l.Close()
	ctx, cancel := context.WithCancel(context.Background())
	defer cancel()
	tc := tcpconnect.New().WithMaxFrameBytes(s.MaxFrame)
	accepted := make(chan net.Conn, 1)
	go func() {
		c, err := l.Accept()
		if err == nil {
			accepted <- c
		}
	}()
	out, err := net.Dial("tcp", l.Addr().String())
	if err != nil {
		o.Err = err.Error()
		return
	}
	defer out.Close()
	srvConn := <-accepted
	go tc.HandleConn(ctx, srvConn)

	input := genBytes(s.Seed, 0, s.total())
	hold := s.Consumers[0].Hold
	var mu sync.Mutex
	var taps [][]byte // copy at the moment of receipt = the hand-off as first seen
	var kept [][]byte
	var reads []Read
	var log []evLog
	lastRx := time.Now()
	nread := 0
	done := make(chan struct{})
	go func() {
		for {
			select {
			case f := <-tc.In:
				mu.Lock()
				taps = append(taps, append([]byte{}, f...))
				kept = append(kept, f)
				log = append(log, evLog{len(taps), Ev{T: "T", C: 0}})
				for len(taps)-nread > hold {
					reads = append(reads, Read{K: nread, AtRead: append([]byte{}, kept[nread]...)})
					log = append(log, evLog{len(taps), Ev{T: "C", C: 0}})
					nread++
				}
				lastRx = time.Now()
				mu.Unlock()
			case <-done:
				return
			}
		}
	}()
	time.Sleep(3 * time.Millisecond)
	off := 0
	for _, b := range s.Bursts {
		for i, n := range b.Chunks {
			if b.GapUs[i] > 0 {
				time.Sleep(time.Duration(b.GapUs[i]) * time.Microsecond)
			}
			if _, err := out.Write(input[off : off+n]); err != nil {
				o.Err = "write: " + err.Error()
				return
			}
			off += n
		}
		// wait until the frame(s) of this burst have come out (quiet for a while after the last one)
		start := time.Now()
		for time.Since(start) < 3*time.Second {
			mu.Lock()
			nb := 0
			for _, m := range taps {
				nb += len(m)
			}
			quiet := time.Since(lastRx) > 12*time.Millisecond && time.Since(start) > 12*time.Millisecond
			mu.Unlock()
			if quiet && (nb > 0 || off == 0) {
				break
			}
			time.Sleep(time.Millisecond)
		}
		time.Sleep(time.Duration(b.PauseMs) * time.Millisecond)
	}
	o.Posted = off
	close(done)
	mu.Lock()
	defer mu.Unlock()
	for nread < len(taps) {
		reads = append(reads, Read{K: nread, AtRead: append([]byte{}, kept[nread]...)})
		log = append(log, evLog{len(taps), Ev{T: "C", C: 0}})
		nread++
	}
	for i := range reads {
		reads[i].Later = append([]byte{}, kept[i]...)
	}
	o.Tap = taps
	o.Reads = [][]Read{reads}
	lens := []int{}
	for _, m := range taps {
		lens = append(lens, len(m))
	}
	cuts, _, amb := locate(input, taps, s.MaxFrame)
	o.Ambiguous = amb
	o.Events = buildEvents(*s, lens, cuts, log)
}

// ---------------------------------------------------------------- destination -> local feed client

func runReverse(s *Stream) {
	o := &Observed{}
	s.Obs = o
	h := newHost()
	feed := "feed-" + s.Name
	t := h.newTap(feed)
	// the destination: a websocket server the host connects out to
	up := websocket.Upgrader{CheckOrigin: func(*http.Request) bool { return true }}
	conns := make(chan *websocket.Conn, 4)
	dest := httptest.NewServer(http.HandlerFunc(func(w http.ResponseWriter, r *http.Request) {
		c, err := up.Upgrade(w, r, nil)
		if err == nil {
			conns <- c
		}
	}))
	defer dest.Close()
	h.app.Websocket.Add <- rwc.Rule{ID: "d0", Stream: feed, Destination: "ws" + strings.TrimPrefix(dest.URL, "http") + "/in/" + feed}
	var dc *websocket.Conn
	select {
	case dc = <-conns:
	case <-time.After(3 * time.Second):
		o.Err = "the host did not connect to the destination within 3 s"
		return
	}
	var backMu sync.Mutex
	var back [][]byte
	listen := func(c *websocket.Conn) { // whatever the host sends to the destination over this connection
		for {
			_, d, err := c.ReadMessage()
			if err != nil {
				return
			}
			backMu.Lock()
			back = append(back, d)
			backMu.Unlock()
		}
	}
	if s.TwinRules {
		// the same destination under a second rule id: a second connection of the same destination
		h.app.Websocket.Add <- rwc.Rule{ID: "d1", Stream: feed, Destination: "ws" + strings.TrimPrefix(dest.URL, "http") + "/in/" + feed}
		select {
		case c2 := <-conns:
			go listen(c2)
		case <-time.After(3 * time.Second):
			o.Err = "the host did not open the second connection to the destination within 3 s"
			return
		}
		go listen(dc)
		defer func() {
			backMu.Lock()
			o.Back = append([][]byte{}, back...)
			backMu.Unlock()
		}()
	}
	// the local feed client: a websocket client of /ws/<feed> (handleWs writePump)
	fc, err := dialFeed(h, feed, s)
	if err != nil {
		o.Err = "dial: " + err.Error()
		return
	}
	defer fc.Close()
	rx := make(chan []byte, 1024)
	go func() {
		for {
			_, d, err := fc.ReadMessage()
			if err != nil {
				return
			}
			rx <- d
		}
	}()
	time.Sleep(5 * time.Millisecond)
	h.barrier()
	input := genBytes(s.Seed, 0, s.total())
	off, sent := 0, 0
	type sentMsg struct{ off, n int }
	var sents []sentMsg
	for _, b := range s.Bursts {
		for _, n := range b.Chunks {
			if err := dc.WriteMessage(websocket.BinaryMessage, input[off:off+n]); err != nil {
				o.Err = "write: " + err.Error()
				return
			}
			sents = append(sents, sentMsg{off, n})
			sent++
			if !t.waitCount(sent, 2*time.Second) {
				o.Err = fmt.Sprintf("message %d from the destination was not handed on within 2 s", sent-1)
				return
			}
			h.barrier()
			time.Sleep(500 * time.Microsecond)
			off += n
		}
		time.Sleep(time.Duration(b.PauseMs) * time.Millisecond)
	}
	o.Posted = off
	// what the feed client received (nothing new for 80 ms = that is all)
	var got [][]byte
collect:
	for {
		select {
		case d := <-rx:
			got = append(got, d)
		case <-time.After(80 * time.Millisecond):
			break collect
		}
	}
	close(t.stop)
	t.mu.Lock()
	o.Tap = t.msgs
	t.mu.Unlock()
	// the hub offers a message to the feed client's writePump only if that goroutine is waiting at that
	// instant: which messages got through is part of the schedule (Busy = it was not waiting)
	var reads []Read
	gi := 0
	for k, m := range sents {
		if gi < len(got) && bytes.Equal(got[gi], input[m.off:m.off+m.n]) {
			o.Events = append(o.Events, Ev{T: "M", Off: m.off, N: m.n}, Ev{T: "C", C: 0})
			reads = append(reads, Read{K: k, AtRead: got[gi], Later: got[gi]})
			gi++
		} else {
			o.Events = append(o.Events, Ev{T: "B", C: 0}, Ev{T: "M", Off: m.off, N: m.n})
		}
	}
	for ; gi < len(got); gi++ { // received but never sent, or out of order: for the oracle
		reads = append(reads, Read{K: -1, AtRead: got[gi], Later: got[gi]})
	}
	o.Reads = [][]Read{reads}
}

// ---------------------------------------------------------------- hub -> slow local websocket client

func runWsOut(s *Stream) {
	o := &Observed{}
	s.Obs = o
	h := newHost()
	feed := "feed-" + s.Name
	d := websocket.Dialer{ReadBufferSize: 4096}
	var hdr http.Header
	if s.Headers {
		hdr = oddHeaders(s.Seed)
	}
	c, _, err := d.Dial("ws://"+h.base+"/ws/"+feed, hdr)
	if err != nil {
		o.Err = "dial: " + err.Error()
		return
	}
	defer c.Close()
	if tc, ok := c.UnderlyingConn().(*net.TCPConn); ok && s.Rcvbuf > 0 {
		_ = tc.SetReadBuffer(s.Rcvbuf)
	}
	var mu sync.Mutex
	var frames [][]byte
	last := time.Now()
	go func() {
		n := 0
		for {
			_, data, err := c.ReadMessage()
			if err != nil {
				return
			}
			mu.Lock()
			frames = append(frames, data)
			last = time.Now()
			mu.Unlock()
			n++
			if s.ReadBurst > 0 && n%s.ReadBurst == 0 {
				time.Sleep(time.Duration(s.ReadPauseUs) * time.Microsecond)
			}
		}
	}()
	time.Sleep(5 * time.Millisecond)
	h.barrier()
	input := s.wsoutInput()
	inj := &hub.Client{Hub: h.app.Hub.Hub, Name: "verif-inj", Topic: feed}
	for k := 0; k < s.Count; k++ {
		h.app.Hub.Broadcast <- hub.Message{Sender: *inj, Data: input[k*s.Blk : (k+1)*s.Blk], Type: websocket.BinaryMessage, Sent: time.Now()}
		if k%16 == 15 {
			time.Sleep(300 * time.Microsecond) // a burst of 16, a breath: the stream lasts some tens of ms
		}
	}
	o.Posted = s.total()
	// the client keeps reading what is buffered on the way; done when nothing new arrived for a while
	start := time.Now()
	for time.Since(start) < 1500*time.Millisecond {
		mu.Lock()
		quiet := time.Since(last) > 150*time.Millisecond
		mu.Unlock()
		if quiet {
			break
		}
		time.Sleep(10 * time.Millisecond)
	}
	mu.Lock()
	o.Frames = frames
	mu.Unlock()
	runtime.KeepAlive(c)
}

// ---------------------------------------------------------------- reconnecting destination

func runDest(s *Stream) {
	o := &Observed{}
	s.Obs = o
	h := newHost()
	feed := "feed-" + s.Name
	up := websocket.Upgrader{CheckOrigin: func(*http.Request) bool { return true }}
	var mu sync.Mutex
	var recv [][]byte
	var conns []int
	nconn := 0
	last := time.Now()
	connected := make(chan struct{}, 1024)
	// how many messages each connection is allowed: from the stream's seed
	cutRng := lib.NewRng(int64(s.Seed) + 17)
	dest := httptest.NewServer(http.HandlerFunc(func(w http.ResponseWriter, r *http.Request) {
		c, err := up.Upgrade(w, r, nil)
		if err != nil {
			return
		}
		mu.Lock()
		nconn++
		me := nconn
		k := cutRng.Range(s.CutMin, s.CutMax)
		mu.Unlock()
		connected <- struct{}{}
		for i := 0; i < k; i++ {
			_, d, err := c.ReadMessage()
			if err != nil {
				c.Close()
				return
			}
			mu.Lock()
			recv = append(recv, d)
			conns = append(conns, me)
			last = time.Now()
			mu.Unlock()
		}
		// end the session; whatever the host writes from now on is lost at the cut
		if s.Abrupt {
			c.UnderlyingConn().Close()
			return
		}
		_ = c.WriteControl(websocket.CloseMessage, websocket.FormatCloseMessage(websocket.CloseNormalClosure, ""), time.Now().Add(time.Second))
		c.SetReadDeadline(time.Now().Add(200 * time.Millisecond))
		for {
			if _, _, err := c.ReadMessage(); err != nil {
				break
			}
		}
		c.Close()
	}))
	defer dest.Close()
	h.app.Websocket.Add <- rwc.Rule{ID: "d0", Stream: feed, Destination: "ws" + strings.TrimPrefix(dest.URL, "http") + "/in/" + feed}
	select {
	case <-connected:
	case <-time.After(3 * time.Second):
		o.Err = "the host did not connect to the destination within 3 s"
		return
	}
	for i := 0; i < s.Reposts; i++ { // the identical rule again
		h.app.Websocket.Add <- rwc.Rule{ID: "d0", Stream: feed, Destination: "ws" + strings.TrimPrefix(dest.URL, "http") + "/in/" + feed}
		select {
		case <-connected:
		case <-time.After(300 * time.Millisecond): // it may keep its connection: what counts is what arrives
		}
	}
	time.Sleep(3 * time.Millisecond)
	h.barrier()
	input := s.wsoutInput()
	inj := &hub.Client{Hub: h.app.Hub.Hub, Name: "verif-inj", Topic: feed}
	for k := 0; k < s.Count; k++ {
		h.app.Hub.Broadcast <- hub.Message{Sender: *inj, Data: input[k*s.Blk : (k+1)*s.Blk], Type: websocket.BinaryMessage, Sent: time.Now()}
		if k%8 == 7 {
			time.Sleep(150 * time.Microsecond) // the feed keeps producing in small bursts; the destination path lags behind them
		}
	}
	o.Posted = s.total()
	start := time.Now()
	for time.Since(start) < 2*time.Second {
		mu.Lock()
		quiet := time.Since(last) > 150*time.Millisecond
		mu.Unlock()
		if quiet {
			break
		}
		time.Sleep(5 * time.Millisecond)
	}
	mu.Lock()
	o.Frames = append([][]byte{}, recv...)
	o.Conns = append([]int{}, conns...)
	mu.Unlock()
}

// ---------------------------------------------------------------- several destinations on an aggregated stream

// wsSink is a websocket server of the harness that records what it receives.
type wsSink struct {
	srv       *httptest.Server
	mu        sync.Mutex
	msgs      [][]byte
	text      []bool
	last      time.Time
	connected chan struct{}
}

func newWsSink() *wsSink {
	k := &wsSink{connected: make(chan struct{}, 64), last: time.Now()}
	up := websocket.Upgrader{CheckOrigin: func(*http.Request) bool { return true }}
	k.srv = httptest.NewServer(http.HandlerFunc(func(w http.ResponseWriter, r *http.Request) {
		c, err := up.Upgrade(w, r, nil)
		if err != nil {
			return
		}
		k.connected <- struct{}{}
		for {
			mt, d, err := c.ReadMessage()
			if err != nil {
				c.Close()
				return
			}
			k.mu.Lock()
			k.msgs = append(k.msgs, d)
			k.text = append(k.text, mt == websocket.TextMessage)
			k.last = time.Now()
			k.mu.Unlock()
		}
	}))
	return k
}

func (k *wsSink) url(path string) string { return "ws" + strings.TrimPrefix(k.srv.URL, "http") + path }
func (k *wsSink) count() int {
	k.mu.Lock()
	defer k.mu.Unlock()
	return len(k.msgs)
}

func runAgg(s *Stream) {
	o := &Observed{}
	s.Obs = o
	h := newHost()
	stream := "stream/" + s.Name
	feeds := []string{}
	for i := 0; i < s.Feeds; i++ {
		feeds = append(feeds, fmt.Sprintf("feed%d-%s", i, s.Name))
	}
	type dest struct {
		sink *wsSink
		cl   *hub.Client
		mu   sync.Mutex
		got  [][]byte
	}
	dests := make([]*dest, len(s.DestKinds))
	count := func(d *dest) int {
		if d.sink != nil {
			return d.sink.count()
		}
		d.mu.Lock()
		defer d.mu.Unlock()
		return len(d.got)
	}
	stop := make(chan struct{})
	defer close(stop)
	addDests := func() bool {
		for i, kind := range s.DestKinds {
			d := &dest{}
			dests[i] = d
			if kind == "rwc" {
				d.sink = newWsSink()
				h.app.Websocket.Add <- rwc.Rule{ID: "d" + strconv.Itoa(i), Stream: stream, Destination: d.sink.url("/in/" + strconv.Itoa(i))}
				select {
				case <-d.sink.connected:
				case <-time.After(3 * time.Second):
					o.Err = "the host did not connect to destination " + strconv.Itoa(i) + " within 3 s"
					return false
				}
				continue
			}
			d.cl = &hub.Client{Hub: h.app.Hub.Hub, Name: "verif-dest-" + strconv.Itoa(i), Topic: stream, Send: make(chan hub.Message, 4096), Stats: hub.NewClientStats()}
			h.app.Hub.Register <- d.cl
			go func(d *dest) {
				for {
					select {
					case m := <-d.cl.Send:
						d.mu.Lock()
						d.got = append(d.got, append([]byte{}, m.Data...))
						d.mu.Unlock()
					case <-stop:
						return
					}
				}
			}(d)
		}
		return true
	}
	settle := func() {
		h.app.Websocket.Add <- rwc.Rule{ID: "deleteAll"} // taken and dropped by the rwc loop once it is idle
		h.app.Hub.Add <- agg.Rule{Stream: "deleteAll"}   // same for the agg loop
		h.barrier()
		time.Sleep(2 * time.Millisecond)
	}
	rule := func(fs []string) { h.app.Hub.Add <- agg.Rule{Stream: stream, Feeds: fs}; settle() }
	switch s.Order {
	case "dest-first":
		if !addDests() {
			return
		}
		settle()
		rule(feeds)
	case "resubmit":
		rule(feeds)
		if !addDests() {
			return
		}
		settle()
		rule(feeds)
	case "replace":
		rule(feeds[:1])
		if !addDests() {
			return
		}
		settle()
		rule(feeds)
	default: // rule-first
		rule(feeds)
		if !addDests() {
			return
		}
		settle()
	}
	for i := 0; i < s.Reposts; i++ {
		// every destination rule posted again, unchanged: each destination still gets each message once
		for d, kind := range s.DestKinds {
			if kind != "rwc" {
				continue
			}
			h.app.Websocket.Add <- rwc.Rule{ID: "d" + strconv.Itoa(d), Stream: stream, Destination: dests[d].sink.url("/in/" + strconv.Itoa(d))}
			select {
			case <-dests[d].sink.connected:
			case <-time.After(300 * time.Millisecond): // it may keep its connection: what counts is what arrives
			}
		}
		settle()
	}
	input := s.wsoutInput()
	left := false
	for k := 0; k < s.Count; k++ {
		if s.Leaver > 0 && !left && k >= s.Count/2 && dests[s.Leaver-1].cl != nil {
			h.app.Hub.Unregister <- dests[s.Leaver-1].cl // a viewer of the stream leaves; the others go on
			settle()
			left = true
		}
		feed := feeds[k%len(feeds)]
		inj := hub.Client{Name: "verif-inj", Topic: feed}
		h.app.Hub.Broadcast <- hub.Message{Sender: inj, Data: input[k*s.Blk : (k+1)*s.Blk], Type: websocket.BinaryMessage, Sent: time.Now()}
		// one message at a time: wait until the destinations have it (or clearly will not get it)
		start := time.Now()
		for time.Since(start) < 25*time.Millisecond {
			all := true
			for di, d := range dests {
				if left && di == s.Leaver-1 {
					continue
				}
				if count(d) < k+1 {
					all = false
				}
			}
			if all {
				break
			}
			time.Sleep(100 * time.Microsecond)
		}
	}
	o.Posted = s.total()
	time.Sleep(60 * time.Millisecond)
	for _, d := range dests {
		if d.sink != nil {
			d.sink.mu.Lock()
			o.PerDest = append(o.PerDest, append([][]byte{}, d.sink.msgs...))
			d.sink.mu.Unlock()
			d.sink.srv.Close()
		} else {
			d.mu.Lock()
			o.PerDest = append(o.PerDest, append([][]byte{}, d.got...))
			d.mu.Unlock()
		}
	}
}

// ---------------------------------------------------------------- typed websocket messages through a destination rule

func runText(s *Stream) {
	o := &Observed{}
	s.Obs = o
	h := newHost()
	feed := "feed-" + s.Name
	sink := newWsSink()
	defer sink.srv.Close()
	h.app.Websocket.Add <- rwc.Rule{ID: "t0", Stream: feed, Destination: sink.url("/in/" + feed)}
	select {
	case <-sink.connected:
	case <-time.After(3 * time.Second):
		o.Err = "the host did not connect to the destination within 3 s"
		return
	}
	c, err := dialFeed(h, feed, s)
	if err != nil {
		o.Err = "dial: " + err.Error()
		return
	}
	defer c.Close()
	for i := 0; i < s.Reposts; i++ { // the identical rule again: the destination keeps receiving each message once
		h.app.Websocket.Add <- rwc.Rule{ID: "t0", Stream: feed, Destination: sink.url("/in/" + feed)}
		select {
		case <-sink.connected:
		case <-time.After(300 * time.Millisecond): // it may keep its connection: what counts is what arrives
		}
	}
	time.Sleep(5 * time.Millisecond)
	h.barrier()
	for _, m := range s.Msgs {
		mt := websocket.BinaryMessage
		if m.Text {
			mt = websocket.TextMessage
		}
		before := sink.count()
		if err := c.WriteMessage(mt, m.Data); err != nil {
			o.Err = "write: " + err.Error()
			return
		}
		start := time.Now()
		for time.Since(start) < 300*time.Millisecond && sink.count() == before {
			time.Sleep(200 * time.Microsecond)
		}
		o.Posted += len(m.Data)
	}
	time.Sleep(30 * time.Millisecond)
	sink.mu.Lock()
	o.Frames = append([][]byte{}, sink.msgs...)
	o.RecvText = append([]bool{}, sink.text...)
	sink.mu.Unlock()
}

// ---------------------------------------------------------------- sized / fragmented websocket feed messages

// writeFragments sends one websocket message as n frames written by hand on the connection (client frames are
// masked): first frame with the message type and FIN clear, continuation frames, FIN set on the last.
func writeFragments(c net.Conn, mt int, data []byte, n int, r *lib.Rng) error {
	cuts := []int{0}
	for i := 1; i < n; i++ {
		cuts = append(cuts, r.Intn(len(data)+1))
	}
	cuts = append(cuts, len(data))
	sort.Ints(cuts)
	for i := 0; i < n; i++ {
		part := data[cuts[i]:cuts[i+1]]
		b0 := byte(0)
		if i == 0 {
			b0 = byte(mt)
		}
		if i == n-1 {
			b0 |= 0x80
		}
		hdr := []byte{b0}
		switch {
		case len(part) < 126:
			hdr = append(hdr, 0x80|byte(len(part)))
		case len(part) < 65536:
			hdr = append(hdr, 0x80|126, byte(len(part)>>8), byte(len(part)))
		default:
			l := uint64(len(part))
			hdr = append(hdr, 0x80|127, byte(l>>56), byte(l>>48), byte(l>>40), byte(l>>32), byte(l>>24), byte(l>>16), byte(l>>8), byte(l))
		}
		key := []byte{byte(r.Intn(256)), byte(r.Intn(256)), byte(r.Intn(256)), byte(r.Intn(256))}
		hdr = append(hdr, key...)
		masked := make([]byte, len(part))
		for j := range part {
			masked[j] = part[j] ^ key[j%4]
		}
		if _, err := c.Write(append(hdr, masked...)); err != nil {
			return err
		}
		if i+1 < n {
			time.Sleep(200 * time.Microsecond) // the frames arrive separately
		}
	}
	return nil
}

func runBig(s *Stream) {
	o := &Observed{}
	s.Obs = o
	h := newHost()
	feed := "feed-" + s.Name
	t := h.newTap(feed)
	type sub struct {
		cl  *hub.Client
		mu  sync.Mutex
		got [][]byte
	}
	subs := make([]*sub, len(s.SlowUs))
	stop := make(chan struct{})
	defer close(stop)
	for i, slow := range s.SlowUs {
		u := &sub{cl: &hub.Client{Hub: h.app.Hub.Hub, Name: "verif-sub-" + strconv.Itoa(i), Topic: feed, Send: make(chan hub.Message, 2), Stats: hub.NewClientStats()}}
		subs[i] = u
		h.app.Hub.Register <- u.cl
		go func(u *sub, slow int) {
			for {
				select {
				case m := <-u.cl.Send:
					u.mu.Lock()
					u.got = append(u.got, append([]byte{}, m.Data...))
					u.mu.Unlock()
					if slow > 0 {
						time.Sleep(time.Duration(slow) * time.Microsecond) // busy with this one for a while
					}
				case <-stop:
					return
				}
			}
		}(u, slow)
	}
	h.barrier()
	c, err := dialFeed(h, feed, s)
	if err != nil {
		o.Err = "dial: " + err.Error()
		return
	}
	defer c.Close()
	time.Sleep(3 * time.Millisecond)
	fr := lib.NewRng(int64(len(s.Sizes))*7919 + 3)
	for i, n := range s.Sizes {
		msg := bigMsg(i, n)
		var err error
		if i < len(s.Frags) && s.Frags[i] >= 2 {
			err = writeFragments(c.UnderlyingConn(), websocket.BinaryMessage, msg, s.Frags[i], fr)
		} else {
			err = c.WriteMessage(websocket.BinaryMessage, msg)
		}
		if err != nil {
			o.Err = "write: " + err.Error()
			return
		}
		o.Posted += n
		if s.Pings {
			_ = c.WriteControl(websocket.PingMessage, []byte("hb"), time.Now().Add(time.Second))
		}
		if s.BurstLen > 0 && (i+1)%s.BurstLen == 0 && s.GapUs > 0 {
			time.Sleep(time.Duration(s.GapUs) * time.Microsecond)
		}
	}
	if !t.waitCount(len(s.Sizes), 5*time.Second) {
		got, _, _ := t.state()
		o.Err = fmt.Sprintf("%d websocket feed messages sent, only %d handed on within 5 s", len(s.Sizes), got)
	}
	if s.BrokenTail && o.Err == "" {
		// a peer that fails in the middle: a frame announcing 5000 bytes, 1000 sent, connection dropped - nothing
		// of it may be handed on
		raw := c.UnderlyingConn()
		_, _ = raw.Write(append([]byte{0x82, 0x80 | 126, 5000 >> 8, 5000 & 255, 1, 2, 3, 4}, make([]byte, 1000)...))
		raw.Close()
	}
	time.Sleep(40 * time.Millisecond) // anything that is still on its way to a subscriber
	close(t.stop)
	t.mu.Lock()
	o.Tap = t.msgs
	t.mu.Unlock()
	for _, u := range subs {
		u.mu.Lock()
		o.PerDest = append(o.PerDest, append([][]byte{}, u.got...))
		u.mu.Unlock()
	}
}

// oddHeaders: request headers a proxy chain or a tracing layer may add to an upgrade; none of them may change
// what is forwarded
func oddHeaders(seed uint64) http.Header {
	r := lib.NewRng(int64(seed) + 4711)
	h := http.Header{}
	h.Set("X-Forwarded-For", r.Pick([]string{"203.0.113.7", "203.0.113.7, 198.51.100.2, 10.0.0.1", "203.0.113.7:4711", "[2001:db8::7]:443", "[2001:db8::7", "", strings.Repeat("1.2.3.4, ", 500)}))
	h.Set("X-Real-Ip", r.Pick([]string{"203.0.113.7", "not-an-ip", ""}))
	h.Set("Forwarded", `for="[2001:db8::7]:4711";proto=https;by=203.0.113.43`)
	h.Set("X-Request-Id", "same-on-every-connection")
	h.Set("X-Correlation-Id", "same-on-every-connection")
	h.Set("Traceparent", "00-0af7651916cd43dd8448eb211c80319c-b7ad6b7169203331-01")
	h.Set("X-Request-Start", r.Pick([]string{"t=0", "t=99999999999999", "garbage", "-1"}))
	h.Add("X-Forwarded-Proto", "https")
	h.Add("X-Forwarded-Proto", "http")
	return h
}

// dialFeed connects a websocket client to /ws/<feed>, with the stream's header and compression dimensions
func dialFeed(h *host, feed string, s *Stream) (*websocket.Conn, error) {
	d := websocket.Dialer{HandshakeTimeout: 5 * time.Second}
	var hdr http.Header
	if s.Headers {
		hdr = oddHeaders(s.Seed)
		d.EnableCompression = true // offers permessage-deflate; the host does not take it
	}
	c, _, err := d.Dial("ws://"+h.base+"/ws/"+feed, hdr)
	return c, err
}

func setLogLevel(level string) {
	switch level {
	case "trace":
		log.SetLevel(log.TraceLevel)
	case "debug":
		log.SetLevel(log.DebugLevel)
	default:
		log.SetLevel(log.PanicLevel)
	}
}

// ---------------------------------------------------------------- a destination that stalls longer than any deadline

func runStall(s *Stream) {
	o := &Observed{}
	s.Obs = o
	h := newHost()
	feed := "feed-" + s.Name
	up := websocket.Upgrader{CheckOrigin: func(*http.Request) bool { return true }, ReadBufferSize: 1024}
	var mu sync.Mutex
	var live []*websocket.Conn
	reading := make(chan struct{}) // closed when the destination reads again
	dest := httptest.NewServer(http.HandlerFunc(func(w http.ResponseWriter, r *http.Request) {
		c, err := up.Upgrade(w, r, nil)
		if err != nil {
			return
		}
		if tc, ok := c.UnderlyingConn().(*net.TCPConn); ok {
			_ = tc.SetReadBuffer(4096)
		}
		mu.Lock()
		live = append(live, c)
		mu.Unlock()
		<-reading // the stall: connected, but not reading
		for {
			if _, _, err := c.ReadMessage(); err != nil {
				mu.Lock()
				for i, x := range live {
					if x == c {
						live = append(live[:i], live[i+1:]...)
						break
					}
				}
				mu.Unlock()
				return
			}
		}
	}))
	defer dest.Close()
	h.app.Websocket.Add <- rwc.Rule{ID: "d0", Stream: feed, Destination: "ws" + strings.TrimPrefix(dest.URL, "http") + "/in/" + feed}
	for i := 0; i < 600; i++ {
		mu.Lock()
		n := len(live)
		mu.Unlock()
		if n > 0 {
			break
		}
		time.Sleep(5 * time.Millisecond)
	}
	fc, err := dialFeed(h, feed, s)
	if err != nil {
		o.Err = "dial: " + err.Error()
		return
	}
	defer fc.Close()
	rx := make(chan []byte, 4096)
	go func() {
		for {
			_, d, err := fc.ReadMessage()
			if err != nil {
				return
			}
			rx <- d
		}
	}()
	h.barrier()
	// the feed keeps posting while the destination does not read: far more than the socket buffers hold
	inj := &hub.Client{Hub: h.app.Hub.Hub, Name: "verif-inj", Topic: feed}
	chunk := make([]byte, 64*1024)
	start := time.Now()
	posted := 0
	for time.Since(start) < time.Duration(s.StallMs)*time.Millisecond {
		if posted < s.PostKB*1024 {
			h.app.Hub.Broadcast <- hub.Message{Sender: *inj, Data: chunk, Type: websocket.BinaryMessage, Sent: time.Now()}
			posted += len(chunk)
			time.Sleep(10 * time.Millisecond)
		} else {
			h.app.Hub.Broadcast <- hub.Message{Sender: *inj, Data: chunk[:100], Type: websocket.BinaryMessage, Sent: time.Now()}
			time.Sleep(100 * time.Millisecond)
		}
	}
	close(reading) // the destination recovers
	time.Sleep(1500 * time.Millisecond)
	for len(rx) > 0 { // the feed client also saw the feed's own traffic? no: it is excluded only from its own; drop it
		<-rx
	}
	// now the destination talks: every message goes out over every connection the host has with it
	input := s.wsoutInput()
	mu.Lock()
	o.NConns = len(live)
	mu.Unlock()
	for k := 0; k < s.Count; k++ {
		mu.Lock()
		cs := append([]*websocket.Conn{}, live...)
		mu.Unlock()
		for _, c := range cs {
			_ = c.WriteMessage(websocket.BinaryMessage, input[k*s.Blk:(k+1)*s.Blk])
		}
		time.Sleep(4 * time.Millisecond)
	}
	o.Posted = s.total()
collect:
	for {
		select {
		case d := <-rx:
			if wsoutIndex(d) >= 0 {
				o.Frames = append(o.Frames, d)
			}
		case <-time.After(150 * time.Millisecond):
			break collect
		}
	}
}

func runStream(s *Stream) {
	setLogLevel(s.LogLevel)
	defer func() {
		if r := recover(); r != nil && s.Obs != nil {
			s.Obs.Err = fmt.Sprintf("harness panic: %v", r)
		}
	}()
	switch s.Kind {
	case "ts", "ws":
		runHubStream(s)
	case "tcp":
		runTCP(s)
	case "rev":
		runReverse(s)
	case "wsout":
		runWsOut(s)
	case "dest":
		runDest(s)
	case "stall":
		runStall(s)
	case "wsbig":
		runBig(s)
	case "agg":
		runAgg(s)
	case "wstext":
		runText(s)
	}
}
