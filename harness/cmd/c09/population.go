package main

import (
	"strconv"

	"github.com/practable/relay/verifharness/cmd/c01/acc"
	"github.com/practable/relay/verifharness/lib"
)

// The population history: thousands of DISTINCT valid bearer strings of mixed principals (session tokens of
// several subjects, booking-system admin tokens, stats tokens) presented to ONE access.API instance, and all
// along the way earlier strings - the one seen 1024 / 2048 / 4096 tokens ago, a random old one, the previous
// one - presented again on their own endpoint and on the endpoints of the other kinds: every principal must
// keep exactly its own rights however many others the instance has seen. The history is cut into chunks of
// consecutive operations for the model (the model needs no memory of earlier chunks: the deny list stays empty
// and nothing else the chunks do is read back), but it is ONE run against ONE instance on the real side.

func popToken(host string, now int64, i int) (acc.Bearer, string) {
	switch i % 5 {
	case 3:
		b := acc.ScopeBearer(host, now, []string{"relay:admin"})
		b.Claims["sub"], b.Claims["jti"] = "booking-system-"+strconv.Itoa(i%3), "a"+strconv.Itoa(i)
		b.Claims["exp"] = now + 7200
		b.Label = "population:admin"
		return b, "admin"
	case 4:
		b := acc.ScopeBearer(host, now, []string{"relay:stats"})
		b.Claims["sub"], b.Claims["jti"] = "monitor-"+strconv.Itoa(i%2), "m"+strconv.Itoa(i)
		b.Claims["exp"] = now + 7200
		b.Label = "population:stats"
		return b, "stats"
	}
	sc := [][]string{{"read", "write"}, {"read"}, {"write"}}[i%3]
	b := acc.SessionBearer(host, now, "p"+strconv.Itoa(i), "pb"+strconv.Itoa(i), sc)
	b.Claims["sub"] = "user-" + strconv.Itoa(i%7)
	b.Claims["exp"] = now + 7200
	b.Label = "population:session"
	return b, "session"
}

// own: the request the principal is entitled to; foreign(k): requests of the other kinds it is not.
func popOwn(b acc.Bearer, kind string, i int) acc.Req {
	switch kind {
	case "admin":
		return mkReq("listdeny", b, "", 0)
	case "stats":
		return mkReq("status", b, "", 0)
	}
	topic, _ := b.Claims["topic"].(string)
	q := acc.Req{Route: "session", ID: topic, Auth: b}
	q.Method, q.Target = acc.TargetFor("session", topic, nil, nil)
	return q
}

func popForeign(b acc.Bearer, kind string, now int64, k int) acc.Req {
	switch kind {
	case "session":
		return []acc.Req{mkReq("listdeny", b, "", 0), mkReq("status", b, "", 0), mkReq("deny", b, "victim", now+500), mkReq("listallow", b, "", 0), mkReq("allow", b, "victim", now+500)}[k%5]
	case "admin":
		if k%2 == 0 {
			return mkReq("status", b, "", 0)
		}
		q := acc.Req{Route: "session", ID: "p0", Auth: b}
		q.Method, q.Target = acc.TargetFor("session", "p0", nil, nil)
		return q
	}
	return []acc.Req{mkReq("listdeny", b, "", 0), mkReq("deny", b, "victim", now+500), mkReq("allow", b, "victim", now+500)}[k%3]
}

// genPopulation returns the chunks (cases) of one population history of n tokens.
func genPopulation(r *lib.Rng, e *acc.Env, n, perChunk int, base int) ([]acc.Case, [][]int) {
	now := int64(1600000000 + r.Intn(200000000))
	host := e.Cfg.Host
	toks := make([]acc.Bearer, n)
	kinds := make([]string, n)
	for i := range toks {
		toks[i], kinds[i] = popToken(host, now, i)
	}
	var cases []acc.Case
	var steps [][]int
	var ops []acc.Op
	var st []int
	flush := func() {
		if len(ops) == 0 {
			return
		}
		cases = append(cases, acc.Case{Name: "c09-" + strconv.Itoa(base+len(cases)), T0: now, Ops: ops, Cfg: e.Cfg, Mode: "mock", Tags: []string{"population"}})
		steps = append(steps, st)
		ops, st = nil, nil
	}
	add := func(q acc.Req, label string) {
		q.Label = label
		st = append(st, len(ops))
		ops = append(ops, acc.Op{K: "req", Req: &q})
	}
	for i := 0; i < n; i++ {
		add(popOwn(toks[i], kinds[i], i), "step")
		// an earlier string again: the ones a ring / table of a power-of-two size would have just recycled, a random
		// old one, the previous one
		// one earlier string per new one, in rotation: the one a ring / table of a power-of-two size has just recycled,
		// a random old one, the previous one
		j := -1
		switch {
		case i%3 == 0 && i >= 256:
			ds := []int{1024, 2048, 4096, 512, 256}
			for t := 0; t < len(ds); t++ { // rotate through the distances that fit, 1024 first
				if d := ds[((i/3)+t)%len(ds)]; i-d >= 0 {
					j = i - d
					break
				}
			}
		case i%3 == 1 && i > 0:
			j = r.Intn(i)
		case i > 0:
			j = i - 1
		}
		if j >= 0 {
			if i%2 == 0 {
				add(popOwn(toks[j], kinds[j], j), "step-repeat")
			}
			add(popForeign(toks[j], kinds[j], now, i), "step-repeat")
		}
		if (i+1)%perChunk == 0 {
			flush()
		}
	}
	flush()
	return cases, steps
}
