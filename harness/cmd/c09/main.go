// c09: "administrative and status endpoints require their own scopes".
// Two kinds of cases, both run on the real code and both re-evaluated on the Coq model:
//
//	lists  (real access.API, harness clock): admin puts one id on each list; list both; X; list both -
//	       X is an admin/status endpoint called with a scope set from {exact, look-alikes, session scopes,
//	       empty, many} and optionally one token invalidity;
//	bystander (whole relay, wall clock): a legitimate connection joins under booking B; X = deny B by a
//	       principal without the admin scope; the connection must stay listed; then a genuine admin deny
//	       removes it (which shows the observation can see a disconnection).
package main

import (
	"fmt"
	"os"
	"strconv"
	"strings"
	"sync"
	"time"

	"github.com/practable/relay/verifharness/cmd/c01/acc"
	"github.com/practable/relay/verifharness/lib"
)

func sp(s string) *string { return &s }

// the same strings as Proofs/Access_proofs.v [lookalikes]
// the scope vocabulary (shared with the other access checks)
var lookalikes = acc.ScopeLookalikes

type scopeSet struct {
	class  string
	scopes []string
}

func scopeSets(r *lib.Rng) scopeSet {
	switch r.Intn(12) {
	case 0:
		return scopeSet{"exact-admin", []string{"relay:admin"}}
	case 1:
		return scopeSet{"exact-stats", []string{"relay:stats"}}
	case 2:
		return scopeSet{"exact-both", []string{"relay:stats", "relay:admin"}}
	case 3:
		return scopeSet{"many-with-admin", []string{"read", "write", "x", "relay:admin", "relay:other"}}
	case 4:
		return scopeSet{"many-without", []string{"read", "write", "host", "client", "relay:other", "admin:relay"}}
	case 5:
		return scopeSet{"empty", []string{}}
	case 6:
		return scopeSet{"session", [][]string{{"read"}, {"write"}, {"read", "write"}, {"host"}, {"client"}}[r.Intn(5)]}
	case 7:
		// several look-alikes at once
		n := r.Range(2, 5)
		s := []string{}
		for i := 0; i < n; i++ {
			s = append(s, lookalikes[r.Intn(len(lookalikes))])
		}
		return scopeSet{"lookalikes", s}
	}
	return scopeSet{"lookalike", []string{lookalikes[r.Intn(len(lookalikes))]}}
}

var endpoints = []string{"deny", "allow", "listdeny", "listallow", "status"}

func mkReq(route string, auth acc.Bearer, bid string, exp int64) acc.Req {
	q := acc.Req{Route: route, Auth: auth}
	if route == "deny" || route == "allow" {
		q.Bid = sp(bid)
		q.Exp = sp(strconv.FormatInt(exp, 10))
	}
	q.Method, q.Target = acc.TargetFor(route, "", q.Bid, q.Exp)
	return q
}

func has(l []string, x string) bool {
	for _, y := range l {
		if y == x {
			return true
		}
	}
	return false
}

func sameIds(a, b acc.Out) bool {
	if a.Body != "ids" || b.Body != "ids" || len(a.Ids) != len(b.Ids) {
		return false
	}
	for i := range a.Ids {
		if a.Ids[i] != b.Ids[i] {
			return false
		}
	}
	return true
}

type meta struct {
	kind  string // lists | bystander | history
	steps []int  // history: positions of the test requests
	x     int    // index of X in the ORIGINAL op list
	class string
	// indices (original numbering) of the observations around X
	before, after []int
}

func part(l string) string {
	if i := strings.Index(l, ":"); i > 0 {
		return l[:i]
	}
	return l
}

// find the executed index of original op i (real mode inserts setnow ops): ops keep their order, so count
func executedIndex(c acc.Case, orig int) int {
	n := -1
	for j, o := range c.Ops {
		if o.K != "setnow" || c.Mode == "mock" {
			n++
		}
		if n == orig {
			return j
		}
	}
	return -1
}

func oracle(c acc.Case, m meta, idx int, host string, res *lib.Result) {
	xi := executedIndex(c, m.x)
	if xi < 0 || xi >= len(c.Outs) {
		return
	}
	x := *c.Ops[xi].Req
	o := c.Outs[xi]
	// the clock X saw
	now := c.T0
	for j := 0; j < xi; j++ {
		if c.Ops[j].K == "setnow" {
			now = c.Ops[j].T
		}
	}
	scopes := x.Auth.Classify().Claims.Scopes
	need := "relay:admin"
	if x.Route == "status" || x.Canon == "status" {
		need = "relay:stats"
	}
	if x.Route == "line" && (x.Canon == "public" || x.Canon == "session" || x.Canon == "") {
		// not an admin / status operation: a 2xx is fine for the public resources (documentation, OPTIONS *), is C01's
		// business for /session, and for a line that aims at nothing the model's 404 / 405 / 400 is compared in Coq
		if o := c.Outs[xi]; x.Canon == "" && o.NoAnswer == "" && o.Status >= 200 && o.Status < 300 {
			res.Violate(lib.Violation{Clause: "admin-only", Case: idx, Key: "admin-only:unrouted-line:" + m.class, Replay: c,
				Detail: fmt.Sprintf("%s %s aims at no operation (by Go's own url / path libraries) and was answered %d", x.Method, x.Target, o.Status)})
		}
		return
	}
	entitled := x.Auth.ValidPrincipal(now, host) && has(scopes, need)
	key := func(clause string) string { return clause + ":" + x.Route + ":" + m.class + "/" + part(x.Auth.Label) }
	bad := func(clause, detail string) {
		hv, _ := x.Auth.Build("<secret>")
		_ = hv
		res.Violate(lib.Violation{Clause: clause, Case: idx, Key: key(clause), Replay: c,
			Detail: fmt.Sprintf("%s %s with scopes %q (%s, token %s) at clock %d: %s", x.Method, x.Target, scopes, m.class, x.Auth.Label, now, detail)})
	}
	if o.NoAnswer != "" {
		bad("answered", "no HTTP response: "+o.NoAnswer)
		return
	}
	is2xx := o.Status >= 200 && o.Status < 300
	if is2xx && !entitled {
		clause := "admin-only"
		if x.Route == "status" {
			clause = "stats-only"
		}
		bad(clause, fmt.Sprintf("answered %d to a principal without a valid token carrying %q", o.Status, need))
	}
	if !entitled && x.Route != "notfound" && x.Route != "line" && x.Auth.ValidPrincipal(now, host) && !is2xx && o.Status != 401 {
		bad("missing-scope-is-401", fmt.Sprintf("valid token without %q answered %d, not 401", need, o.Status))
	}
	if !is2xx {
		get := func(ix []int) []acc.Out {
			out := []acc.Out{}
			for _, i := range ix {
				if j := executedIndex(c, i); j >= 0 {
					out = append(out, c.Outs[j])
				}
			}
			return out
		}
		b, a := get(m.before), get(m.after)
		if m.kind == "lists" && len(b) == 2 && len(a) == 2 {
			if !sameIds(b[0], a[0]) || !sameIds(b[1], a[1]) {
				bad("refused-call-changed-lists", fmt.Sprintf("deny %v -> %v, allow %v -> %v (status %d)", b[0].Ids, a[0].Ids, b[1].Ids, a[1].Ids, o.Status))
			}
		}
		if m.kind == "bystander" && len(b) == 1 && len(a) == 1 {
			if len(b[0].Reports) == 1 && len(a[0].Reports) != 1 {
				bad("bystander-disconnected", fmt.Sprintf("the connection on the booking named in the refused call is no longer listed (status %d)", o.Status))
			}
		}
	}
}

// oracleHist: the shared history oracle, read for this property (admin and status endpoints only).
func oracleHist(c acc.Case, idx int, res *lib.Result) {
	for _, f := range acc.JudgeHistory(c) {
		clause := ""
		switch {
		case f.Clause == "success-for-invalid" && f.Route == "status":
			clause = "stats-only"
		case f.Clause == "success-for-invalid" && f.Route != "session":
			clause = "admin-only"
		case f.Clause == "refusal-changed-lists" && f.Route != "session":
			clause = "refused-call-changed-lists"
		case f.Clause == "answered" && f.Route != "session":
			clause = "answered"
		}
		if clause == "" {
			continue
		}
		hist := c
		hist.Ops, hist.Outs = c.Ops[:f.Op+1], c.Outs[:f.Op+1]
		p := f.Part
		if i := strings.Index(p, "/"); i > 0 {
			p = p[:i]
		}
		res.Violate(lib.Violation{Clause: clause, Case: idx, Key: clause + ":" + f.Route + ":history/" + p, Replay: hist,
			Detail: fmt.Sprintf("history %s (%d operations so far): %s", c.Name, f.Op+1, f.Detail)})
	}
}

func main() {
	a := lib.ParseArgs()
	acc.Supervise("C09", a, 280*time.Second, func() { work(a) })
}

func work(a lib.Args) {
	res := lib.NewResult("C09", a.Seed, a.Tier)
	res.ShardSize = 80 // histories are long: smaller shards spread over the Coq workers
	rng := lib.NewRng(a.Seed)
	mocks := map[bool]*acc.Env{false: acc.StartMockAPI(false), true: acc.StartMockAPI(true)}
	real := acc.StartRealRelay(rng.Bool())
	popEnv := acc.StartMockAPI(false) // the one instance of the population history

	var cases []acc.Case
	var metas []meta
	n := 0

	genLists := func(r *lib.Rng) {
		e := mocks[r.Bool()]
		now := int64(1600000000 + r.Intn(200000000))
		name := "c09-" + strconv.Itoa(n)
		adm := acc.ScopeBearer(e.Cfg.Host, now, []string{"relay:admin"})
		bkD, bkA, bkN := "den-"+name, "alw-"+name, "new-"+name
		ss := scopeSets(r)
		auth := acc.ScopeBearer(e.Cfg.Host, now, ss.scopes)
		auth.Label = "good"
		if r.Chance(1, 4) {
			auth = acc.Mutate(auth, r.Intn(len(acc.Mutations)), now, e.Cfg.Host)
			if _, ok := auth.Claims["scopes"]; ok && strings.HasPrefix(auth.Label, "scopes:") {
				ss.class = "mutated-scopes"
			}
		}
		if r.Chance(1, 10) { // a complete session token presented to an admin endpoint
			auth = acc.SessionBearer(e.Cfg.Host, now, "topic-"+name, "bk-"+name, []string{"read", "write"})
			auth.Label = "session-token"
			ss.class = "session"
		}
		rt := endpoints[r.Intn(len(endpoints))]
		target := []string{bkD, bkA, bkN}[r.Intn(3)]
		x := mkReq(rt, auth, target, now+int64(r.Range(0, 500)))
		ld := mkReq("listdeny", adm, "", 0)
		la := mkReq("listallow", adm, "", 0)
		d0 := mkReq("deny", adm, bkD, now+1000)
		a0 := mkReq("allow", adm, bkA, now+1000)
		ops := []acc.Op{{K: "req", Req: &d0}, {K: "req", Req: &a0}, {K: "req", Req: &ld}, {K: "req", Req: &la}, {K: "req", Req: &x}, {K: "req", Req: &ld}, {K: "req", Req: &la}}
		c := acc.Case{Name: name, T0: now, Ops: ops, Cfg: e.Cfg, Mode: "mock"}
		cases = append(cases, c)
		metas = append(metas, meta{kind: "lists", x: 4, class: ss.class, before: []int{2, 3}, after: []int{5, 6}})
		n++
	}

	// the audience dimension: exact scope, valid signature and window, aud a look-alike of this API's audience
	genAudience := func(r *lib.Rng, rt string, pick int) {
		e := mocks[r.Bool()]
		now := int64(1600000000 + r.Intn(200000000))
		name := "c09-" + strconv.Itoa(n)
		adm := acc.ScopeBearer(e.Cfg.Host, now, []string{"relay:admin"})
		bkD, bkA := "den-"+name, "alw-"+name
		scope := "relay:admin"
		if rt == "status" {
			scope = "relay:stats"
		}
		avs := acc.AudienceVariants(e.Cfg.Host)
		av := avs[pick%len(avs)]
		auth := acc.WithAud(acc.ScopeBearer(e.Cfg.Host, now, []string{scope}), av)
		target := bkA
		if rt == "allow" {
			target = bkD
		}
		x := mkReq(rt, auth, target, now+300)
		ld := mkReq("listdeny", adm, "", 0)
		la := mkReq("listallow", adm, "", 0)
		d0 := mkReq("deny", adm, bkD, now+1000)
		a0 := mkReq("allow", adm, bkA, now+1000)
		ops := []acc.Op{{K: "req", Req: &d0}, {K: "req", Req: &a0}, {K: "req", Req: &ld}, {K: "req", Req: &la}, {K: "req", Req: &x}, {K: "req", Req: &ld}, {K: "req", Req: &la}}
		cases = append(cases, acc.Case{Name: name, T0: now, Ops: ops, Cfg: e.Cfg, Mode: "mock"})
		metas = append(metas, meta{kind: "lists", x: 4, class: "exact-scope", before: []int{2, 3}, after: []int{5, 6}})
		n++
	}

	// the request-path dimension: non-canonical spellings of every admin / status endpoint over the raw connection,
	// crossed with {exact scope, session scopes, look-alike scopes, no token}
	genSpelling := func(r *lib.Rng, rt string, sp acc.Spelling, kind int) {
		e := mocks[r.Bool()]
		now := int64(1600000000 + r.Intn(200000000))
		name := "c09-" + strconv.Itoa(n)
		adm := acc.ScopeBearer(e.Cfg.Host, now, []string{"relay:admin"})
		bkD, bkA := "den-"+name, "alw-"+name
		scope := "relay:admin"
		if rt == "status" {
			scope = "relay:stats"
		}
		var auth acc.Bearer
		class := ""
		switch kind {
		case 0:
			auth, class = acc.ScopeBearer(e.Cfg.Host, now, []string{scope}), "exact-scope"
		case 1:
			auth, class = acc.SessionBearer(e.Cfg.Host, now, "topic-"+name, "bk-"+name, []string{"read", "write"}), "session"
			auth.Label = "session-token"
		case 2:
			auth, class = acc.ScopeBearer(e.Cfg.Host, now, []string{lookalikes[r.Intn(len(lookalikes))], "relay:admin ", "relay:stat"}), "lookalikes"
			if rt != "status" { // "relay:stats" is a look-alike only on the admin endpoints
				auth.Claims["scopes"] = []string{"relay:stats", "relay:admin "}
			}
		default:
			auth, class = acc.Bearer{Kind: "none", Label: "raw:no-header"}, "no-token"
		}
		if auth.Label == "" {
			auth.Label = "good"
		}
		target := bkA
		if rt == "allow" {
			target = bkD
		}
		x := acc.Respell(mkReq(rt, auth, target, now+300), sp)
		ld := mkReq("listdeny", adm, "", 0)
		la := mkReq("listallow", adm, "", 0)
		d0 := mkReq("deny", adm, bkD, now+1000)
		a0 := mkReq("allow", adm, bkA, now+1000)
		ops := []acc.Op{{K: "req", Req: &d0}, {K: "req", Req: &a0}, {K: "req", Req: &ld}, {K: "req", Req: &la}, {K: "req", Req: &x}, {K: "req", Req: &ld}, {K: "req", Req: &la}}
		cases = append(cases, acc.Case{Name: name, T0: now, Ops: ops, Cfg: e.Cfg, Mode: "mock"})
		metas = append(metas, meta{kind: "lists", x: 4, class: class, before: []int{2, 3}, after: []int{5, 6}})
		n++
	}

	// the JOSE header x signing-key dimension: exact scope, valid claims; only the key decides
	genHeaderKey := func(r *lib.Rng, rt string, hv acc.HeaderVariant, kv acc.KeyVariant) {
		e := mocks[r.Bool()]
		now := int64(1600000000 + r.Intn(200000000))
		name := "c09-" + strconv.Itoa(n)
		adm := acc.ScopeBearer(e.Cfg.Host, now, []string{"relay:admin"})
		bkD, bkA := "den-"+name, "alw-"+name
		scope := "relay:admin"
		if rt == "status" {
			scope = "relay:stats"
		}
		auth := acc.WithHeaderKey(acc.ScopeBearer(e.Cfg.Host, now, []string{scope}), hv, kv, e.Secret)
		target := bkA
		if rt == "allow" {
			target = bkD
		}
		x := mkReq(rt, auth, target, now+300)
		ld := mkReq("listdeny", adm, "", 0)
		la := mkReq("listallow", adm, "", 0)
		d0 := mkReq("deny", adm, bkD, now+1000)
		a0 := mkReq("allow", adm, bkA, now+1000)
		ops := []acc.Op{{K: "req", Req: &d0}, {K: "req", Req: &a0}, {K: "req", Req: &ld}, {K: "req", Req: &la}, {K: "req", Req: &x}, {K: "req", Req: &ld}, {K: "req", Req: &la}}
		cases = append(cases, acc.Case{Name: name, T0: now, Ops: ops, Cfg: e.Cfg, Mode: "mock"})
		metas = append(metas, meta{kind: "lists", x: 4, class: "exact-scope", before: []int{2, 3}, after: []int{5, 6}})
		n++
	}

	genShaped := func(r *lib.Rng, rt string, cs acc.ClaimShape, w acc.Window) {
		e := mocks[r.Bool()]
		now := int64(1600000000 + r.Intn(200000000))
		name := "c09-" + strconv.Itoa(n)
		adm := acc.ScopeBearer(e.Cfg.Host, now, []string{"relay:admin"})
		scope := "relay:admin"
		if rt == "status" {
			scope = "relay:stats"
		}
		auth := acc.Shaped(acc.ScopeBearer(e.Cfg.Host, now, []string{scope}), cs, w, now)
		bkD, bkA := "den-"+name, "alw-"+name
		target := bkA
		if rt == "allow" {
			target = bkD
		}
		x := mkReq(rt, auth, target, now+300)
		ld := mkReq("listdeny", adm, "", 0)
		la := mkReq("listallow", adm, "", 0)
		d0 := mkReq("deny", adm, bkD, now+1000)
		a0 := mkReq("allow", adm, bkA, now+1000)
		ops := []acc.Op{{K: "req", Req: &d0}, {K: "req", Req: &a0}, {K: "req", Req: &ld}, {K: "req", Req: &la}, {K: "req", Req: &x}, {K: "req", Req: &ld}, {K: "req", Req: &la}}
		cases = append(cases, acc.Case{Name: name, T0: now, Ops: ops, Cfg: e.Cfg, Mode: "mock"})
		metas = append(metas, meta{kind: "lists", x: 4, class: "exact-scope", before: []int{2, 3}, after: []int{5, 6}})
		n++
	}

	genLine := func(r *lib.Rng, ln acc.RequestLine, k int) {
		e := mocks[r.Bool()]
		now := int64(1600000000 + r.Intn(200000000))
		name := "c09-" + strconv.Itoa(n)
		adm := acc.ScopeBearer(e.Cfg.Host, now, []string{"relay:admin"})
		bkD, bkA := "den-"+name, "alw-"+name
		canon, _ := acc.CanonOf(ln.M, ln.T)
		var auth acc.Bearer
		class := ""
		switch k % 4 {
		case 0:
			scope := "relay:admin"
			if canon == "status" {
				scope = "relay:stats"
			}
			auth, class = acc.ScopeBearer(e.Cfg.Host, now, []string{scope}), "exact-scope"
			auth.Label = "good"
		case 1:
			auth, class = acc.SessionBearer(e.Cfg.Host, now, "abc", "bk-"+name, []string{"read", "write"}), "session"
			auth.Label = "session-token"
		case 2:
			auth, class = acc.ScopeBearer(e.Cfg.Host, now, []string{"relay:admin ", "relay:stat", lookalikes[r.Intn(len(lookalikes))]}), "lookalikes"
			if s := auth.Claims["scopes"].([]string); s[2] == "relay:stats" || s[2] == "relay:admin" {
				auth.Claims["scopes"] = s[:2]
			}
			auth.Label = "good"
		default:
			auth, class = acc.Bearer{Kind: "none", Label: "raw:no-header"}, "no-token"
		}
		x := acc.Req{Route: "line", Method: ln.M, Target: ln.T, Auth: auth, Label: "request-line"}
		if canon != "" && canon != "public" {
			x.Canon = canon
		} else if canon == "public" {
			x.Canon = "public"
		}
		if strings.Contains(ln.T, "/bids/") && !strings.Contains(ln.T, "?") && !strings.Contains(ln.T, "#") {
			ex := strconv.FormatInt(now+300, 10)
			x.Bid, x.Exp = &bkA, &ex
			x.Target += "?bid=" + bkA + "&exp=" + ex
		}
		ld := mkReq("listdeny", adm, "", 0)
		la := mkReq("listallow", adm, "", 0)
		d0 := mkReq("deny", adm, bkD, now+1000)
		a0 := mkReq("allow", adm, bkA, now+1000)
		ops := []acc.Op{{K: "req", Req: &d0}, {K: "req", Req: &a0}, {K: "req", Req: &ld}, {K: "req", Req: &la}, {K: "req", Req: &x}, {K: "req", Req: &ld}, {K: "req", Req: &la}}
		cases = append(cases, acc.Case{Name: name, T0: now, Ops: ops, Cfg: e.Cfg, Mode: "mock"})
		metas = append(metas, meta{kind: "lists", x: 4, class: class, before: []int{2, 3}, after: []int{5, 6}})
		n++
	}

	genLookalike := func(r *lib.Rng, rt, la string) {
		e := mocks[r.Bool()]
		now := int64(1600000000 + r.Intn(200000000))
		name := "c09-" + strconv.Itoa(n)
		adm := acc.ScopeBearer(e.Cfg.Host, now, []string{"relay:admin"})
		auth := acc.ScopeBearer(e.Cfg.Host, now, []string{la, "read"})
		auth.Label = "good"
		x := mkReq(rt, auth, "", 0)
		ld := mkReq("listdeny", adm, "", 0)
		la2 := mkReq("listallow", adm, "", 0)
		d0 := mkReq("deny", adm, "den-"+name, now+1000)
		a0 := mkReq("allow", adm, "alw-"+name, now+1000)
		ops := []acc.Op{{K: "req", Req: &d0}, {K: "req", Req: &a0}, {K: "req", Req: &ld}, {K: "req", Req: &la2}, {K: "req", Req: &x}, {K: "req", Req: &ld}, {K: "req", Req: &la2}}
		cases = append(cases, acc.Case{Name: name, T0: now, Ops: ops, Cfg: e.Cfg, Mode: "mock"})
		metas = append(metas, meta{kind: "lists", x: 4, class: "lookalike", before: []int{2, 3}, after: []int{5, 6}})
		n++
	}

	genBystander := func(r *lib.Rng) {
		e := real
		now := time.Now().Unix()
		name := "c09-" + strconv.Itoa(n)
		bk := "bys-" + name
		topic := "t-" + name
		ses := acc.SessionBearer(e.Cfg.Host, now, topic, bk, []string{"read", "write"})
		ses.Claims["exp"] = now + 600
		s0 := acc.Req{Route: "session", ID: topic, Auth: ses}
		s0.Method, s0.Target = acc.TargetFor("session", topic, nil, nil)
		w := acc.Ws{Path: "/session/" + topic, Decoded: "/session/" + topic, Code: acc.CodeRef{Kind: "op", Op: 0}, UA: 1}
		st := mkReq("status", acc.ScopeBearer(e.Cfg.Host, now, []string{"relay:stats"}), "", 0)
		st.Auth.Claims["exp"] = now + 600
		ss := scopeSets(r)
		for ss.class == "exact-admin" || ss.class == "exact-both" || ss.class == "many-with-admin" {
			ss = scopeSets(r)
		}
		auth := acc.ScopeBearer(e.Cfg.Host, now, ss.scopes)
		auth.Claims["exp"] = now + 600
		auth.Label = "good"
		if r.Chance(1, 4) {
			auth = ses
			auth.Label = "session-token"
			ss.class = "session"
		}
		x := mkReq("deny", auth, bk, now+600)
		x.SettleMs = 80 // a wrongful disconnection would be asynchronous: give it time to show
		adm := acc.ScopeBearer(e.Cfg.Host, now, []string{"relay:admin"})
		adm.Claims["exp"] = now + 600
		dn := mkReq("deny", adm, bk, now+600)
		ops := []acc.Op{{K: "req", Req: &s0}, {K: "ws", Ws: &w}, {K: "req", Req: &st}, {K: "req", Req: &x}, {K: "req", Req: &st}, {K: "req", Req: &dn}, {K: "req", Req: &st}}
		// back to back: right after a genuine success on /status and on each list endpoint, the same call by
		// principals that must be refused (no token, session token, look-alike scope, wrong secret, expired) -
		// whatever the relay remembers from the genuine call must not serve them
		refused := func(route, scope string) []acc.Bearer {
			la := acc.ScopeBearer(e.Cfg.Host, now, []string{scope + " ", strings.TrimSuffix(scope, "s"), "read"})
			la.Claims["exp"] = now + 600
			la.Label = "lookalike"
			ws := acc.ScopeBearer(e.Cfg.Host, now, []string{scope})
			ws.Claims["exp"] = now + 600
			ws.Secret = "wrong"
			ws.Label = "secret:wrong"
			ex := acc.ScopeBearer(e.Cfg.Host, now, []string{scope})
			ex.Claims["exp"] = now - 10
			ex.Label = "exp:past"
			st2 := ses
			st2.Label = "session-token"
			all := []acc.Bearer{{Kind: "none", Label: "raw:no-header"}, st2, la, ws, ex}
			i := r.Intn(len(all))
			return []acc.Bearer{all[i], all[(i+1+r.Intn(len(all)-1))%len(all)], all[(i+2)%len(all)]}
		}
		back := func(route, scope string, genuine acc.Req) {
			g := genuine
			g.Label = "genuine"
			ops = append(ops, acc.Op{K: "req", Req: &g})
			for _, b := range refused(route, scope) {
				q := mkReq(route, b, "", 0)
				q.Label = "right-after-genuine"
				ops = append(ops, acc.Op{K: "req", Req: &q})
			}
		}
		back("status", "relay:stats", st)
		back("listdeny", "relay:admin", mkReq("listdeny", adm, "", 0))
		back("listallow", "relay:admin", mkReq("listallow", adm, "", 0))
		c := acc.Case{Name: name, T0: now, Ops: ops, Cfg: e.Cfg, Mode: "real"}
		cases = append(cases, c)
		metas = append(metas, meta{kind: "bystander", x: 3, class: ss.class, before: []int{2}, after: []int{4}})
		n++
	}

	if a.Replay != "" {
		var c acc.Case
		lib.ReadReplayCase(a.Replay, &c)
		m := meta{kind: "lists", x: 4, before: []int{2, 3}, after: []int{5, 6}, class: "replay"}
		st := []int{}
		for i, o := range c.Ops {
			if o.Req != nil && (o.Req.Label == "step" || o.Req.Label == "step-repeat") {
				st = append(st, i)
			}
		}
		if len(st) > 0 {
			m = meta{kind: "history", steps: st, class: "replay"}
		}
		if c.Mode == "real" && m.kind != "history" {
			// drop the recorded clock ops; they are re-recorded
			ops := []acc.Op{}
			for _, o := range c.Ops {
				if o.K != "setnow" {
					ops = append(ops, o)
				}
			}
			c.Ops = ops
			c.Rebase(real)
			m = meta{kind: "bystander", x: 3, before: []int{2}, after: []int{4}, class: "replay"}
		} else {
			c.Rebase(mocks[c.Cfg.AE])
		}
		cases, metas = []acc.Case{c}, []meta{m}
	} else {
		for i := 0; i < a.Pick(260, 5000); i++ {
			genLists(rng.Fork())
		}
		for _, rt := range endpoints {
			for k := range acc.AudienceVariants("http://127.0.0.1:1") {
				genAudience(rng.Fork(), rt, k)
			}
		}
		for _, rt := range endpoints {
			for _, sp := range acc.PathSpellings() {
				if sp.Resolves {
					for kind := 0; kind < 4; kind++ {
						genSpelling(rng.Fork(), rt, sp, kind)
					}
				} else {
					r := rng.Fork()
					genSpelling(r, rt, sp, r.Intn(4))
				}
			}
		}
		{
			k := 0
			kvs := acc.KeyVariants()
			for _, hv := range acc.HeaderVariants() {
				for ki, kv := range kvs {
					if hv.KidFam && kv.Label == "empty-key" { // the key-id family with the empty key: on every endpoint
						for _, rt := range endpoints {
							genHeaderKey(rng.Fork(), rt, hv, kv)
						}
						continue
					}
					if ki > 1 && (k+ki)%3 != 0 { // the other wrong keys: a third of the pairs
						continue
					}
					genHeaderKey(rng.Fork(), endpoints[k%len(endpoints)], hv, kv)
					k++
				}
			}
		}
		// which private claims the token names (neither, prefix only - what `relay token` writes for admin tokens -, topic
		// only, both, empty strings, another prefix) x where the clock stands in its window, with the exact scope, on every
		// admin / status endpoint (rotating)
		{
			k := 0
			for _, cs := range acc.ClaimShapes() {
				for _, w := range acc.Windows() {
					genShaped(rng.Fork(), endpoints[k%len(endpoints)], cs, w)
					k++
				}
			}
		}
		// the request-line dimension (the Coq router decides what each line is): a third of the corner lines, with the
		// exact scope of the endpoint the line aims at (if any), a session token, look-alike scopes or no token
		for i, ln := range acc.LineCorners() {
			if i%4 != 0 {
				continue
			}
			genLine(rng.Fork(), ln, i/4)
		}
		// every look-alike spelling (ASCII and Unicode) on a list endpoint and on /status, with an otherwise good token
		for _, la := range lookalikes {
			// spellings that resemble the stats scope go to /status, all others to a list endpoint
			rt := "listdeny"
			if la != "relay:stats" && (strings.Contains(la, "tat") || strings.Contains(la, "\uff54\uff41\uff54")) {
				rt = "status"
			}
			genLookalike(rng.Fork(), rt, la)
		}
		for i := 0; i < a.Pick(40, 400); i++ {
			genBystander(rng.Fork())
		}
		// the population history on its own instance (never reset)
		{
			pcs, psteps := genPopulation(rng.Fork(), popEnv, a.Pick(2600, 9000), 40, n)
			for k := range pcs {
				cases = append(cases, pcs[k])
				metas = append(metas, meta{kind: "history", steps: psteps[k], class: "population"})
				n++
			}
		}
		// stateful histories on the admin / status endpoints: the same bearer strings (admin, stats, both,
		// look-alike; long-lived, expiring, not yet valid) presented again after clock moves, exact repeats
		w := acc.Weights{Session: 1, Deny: 4, Allow: 4, ListDeny: 3, ListAllow: 3, Status: 4, Clock: 5, Repeat: 4}
		for i := 0; i < a.Pick(40, 800); i++ {
			r := rng.Fork()
			e := mocks[r.Bool()]
			now := int64(1600000000 + r.Intn(200000000))
			c, hm := acc.GenHistory(r, e, "c09-"+strconv.Itoa(n), now, w, r.Range(4, 7), true)
			cases = append(cases, c)
			metas = append(metas, meta{kind: "history", steps: hm.Steps, class: "pool"})
			n++
		}
	}

	// mock cases sequentially (shared clock), bystander cases on the relay in parallel workers
	strad := 0
	leaks := map[int][]leak{}
	portProbes := 0
	var mu sync.Mutex
	var wg sync.WaitGroup
	sem := make(chan struct{}, 6)
	for i := range cases {
		c := &cases[i]
		if c.Mode == "mock" {
			e := mocks[c.Cfg.AE]
			population := len(c.Tags) > 0 && c.Tags[0] == "population"
			if population {
				e = popEnv
			}
			if c.Cfg.Host != e.Cfg.Host {
				c.Rebase(e) // generated for an instance that has been replaced since
			}
			if !population {
				e.ResetStores()
			}
			acc.Progress(a.Out, c)
			rn := acc.NewRunner(e, c.Name)
			rn.StopOnHang = true
			rn.Run(c)
			if rn.Hung { // this instance no longer answers: later cases get a fresh one
				res.Count("server-replaced-after-hang")
				if population {
					popEnv = acc.StartMockAPI(false)
				} else {
					mocks[c.Cfg.AE] = acc.StartMockAPI(c.Cfg.AE)
				}
			}
		}
	}
	acc.UseWallClock(true)
	for i := range cases {
		c := &cases[i]
		if c.Mode == "mock" {
			continue
		}
		wg.Add(1)
		sem <- struct{}{}
		go func(c *acc.Case, i int) {
			defer wg.Done()
			defer func() { <-sem }()
			orig := append([]acc.Op{}, c.Ops...)
			for try := 0; try < 3; try++ {
				c.Ops = append([]acc.Op{}, orig...)
				renameCase(c, try)
				rn := acc.NewRunner(real, c.Name+"-"+strconv.Itoa(try))
				rn.NoteBooking(1, *c.Ops[3].Req.Bid)
				var found []leak
				probed := i%4 == 0 // a quarter of the whole-relay cases also ask every port for the well-known paths
				rn.AfterOp = func(orig int, o *acc.Op, out *acc.Out) {
					if probed && orig == 2 && o.Req != nil && o.Req.Route == "status" { // the bystander is joined and listed
						markers := []string{c.Ops[0].Req.ID, *c.Ops[3].Req.Bid, "verif-" + c.Name + "-" + strconv.Itoa(try) + "-ua"}
						found = probePorts(real, markers)
					}
				}
				rn.Run(c)
				mu.Lock()
				leaks[i] = found
				if probed {
					portProbes++
				}
				mu.Unlock()
				rn.Close()
				if !rn.Strad {
					return
				}
				mu.Lock()
				strad++
				mu.Unlock()
			}
			c.Tags = append(c.Tags, "discarded-clock-tick")
		}(c, i)
	}
	wg.Wait()

	var coq []string
	kept := 0
	for i := range cases {
		c := cases[i]
		discarded := false
		for _, t := range c.Tags {
			if t == "discarded-clock-tick" {
				discarded = true
			}
		}
		if discarded {
			res.Count("discarded:clock-tick")
			continue
		}
		host := c.Cfg.Host
		var idx []string
		if metas[i].kind == "history" {
			oracleHist(c, kept, res)
			for _, k := range metas[i].steps {
				idx = append(idx, lib.N(uint64(k)))
			}
		} else {
			oracle(c, metas[i], kept, host, res)
			idx = []string{lib.N(uint64(executedIndex(c, metas[i].x)))}
			if metas[i].kind == "bystander" {
				oracleHist(c, kept, res) // every call of the whole-relay history is judged, not only X
				for _, l := range leaks[i] {
					res.Violate(lib.Violation{Clause: "stats-only", Case: kept, Key: "stats-only:no-token:" + l.where[strings.LastIndex(l.where, "/"):], Replay: c,
						Detail: fmt.Sprintf("%s without any token answered %d with a body that contains %q - metadata of a live connection (topic / booking id / User-Agent) outside the access API's /status", l.where, l.status, l.marker)})
				}
			}
		}
		coq = append(coq, lib.Tuple(c.Coq(), lib.List(idx)))
		res.Cases = append(res.Cases, c)
		kept++
		res.Count("kind:" + metas[i].kind)
		res.Count("scopes:" + metas[i].class)
		xi := executedIndex(c, metas[i].x)
		if metas[i].kind == "history" {
			xi = -1
			for _, k := range metas[i].steps {
				if k < len(c.Outs) && c.Ops[k].Req != nil {
					res.Count("hist-step:" + c.Ops[k].Req.Route)
					res.Count("hist-bearer:" + c.Ops[k].Req.Auth.Label)
					res.Count("hist-status:" + strconv.Itoa(c.Outs[k].Status))
				}
			}
		}
		if xi >= 0 {
			x := c.Ops[xi].Req
			res.Count("endpoint:" + x.Route)
			res.Count("token:" + part(x.Auth.Label))
			o := c.Outs[xi]
			res.Count("status:" + strconv.Itoa(o.Status))
		}
		res.Sample(c)
	}
	res.CountN("retried:clock-tick", strad)
	res.CountN("port-probes:cases", portProbes)
	res.CountN("port-probes:paths-per-port", len(wellKnownPaths))
	res.Evaluations = kept
	if err := acc.WriteShards(a.Out, "C09", coq, res.ShardSize); err != nil {
		fmt.Fprintln(os.Stderr, err)
		os.Exit(2)
	}
	if err := res.Write(a.Out); err != nil {
		fmt.Fprintln(os.Stderr, err)
		os.Exit(2)
	}
}

// renameCase gives a retried bystander case fresh topic / booking / User-Agent names (the relay keeps
// the state of the abandoned attempt).
func renameCase(c *acc.Case, try int) {
	if try == 0 {
		return
	}
	suffix := "-r" + strconv.Itoa(try)
	for i := range c.Ops {
		o := &c.Ops[i]
		if o.Req != nil {
			q := *o.Req
			q.Auth.Claims = cloneMap(q.Auth.Claims)
			if q.Route == "session" {
				q.ID += suffix
				q.Auth.Claims["topic"] = q.ID
				q.Auth.Claims["booking_id"] = fmt.Sprint(q.Auth.Claims["booking_id"]) + suffix
				q.Method, q.Target = acc.TargetFor("session", q.ID, nil, nil)
			}
			if q.Bid != nil {
				q.Bid = sp(*q.Bid + suffix)
				q.Method, q.Target = acc.TargetFor(q.Route, "", q.Bid, q.Exp)
			}
			if q.Auth.Label == "session-token" && q.Route != "session" {
				q.Auth.Claims["topic"] = fmt.Sprint(q.Auth.Claims["topic"]) + suffix
				q.Auth.Claims["booking_id"] = fmt.Sprint(q.Auth.Claims["booking_id"]) + suffix
			}
			o.Req = &q
		}
		if o.Ws != nil {
			w := *o.Ws
			w.Path += suffix
			w.Decoded += suffix
			o.Ws = &w
		}
	}
}

func cloneMap(m map[string]interface{}) map[string]interface{} {
	out := map[string]interface{}{}
	for k, v := range m {
		out[k] = v
	}
	return out
}
