package main

import (
	"fmt"
	"io"
	"net/http"
	"strings"
	"time"

	"github.com/practable/relay/verifharness/cmd/c01/acc"
)

// "the status report only for a valid token carrying the relay stats scope" holds for everything the relay
// serves, not only for the access API's /status: while a connection with known topic / booking id / User-Agent
// is joined, every port the relay listens on is asked, without any token, for the paths where runtime packages
// and frameworks like to publish state; no answer may contain that connection's metadata.

var wellKnownPaths = []string{"/debug/vars", "/debug/pprof/", "/debug/pprof/goroutine?debug=2", "/debug/pprof/heap?debug=1", "/debug/pprof/cmdline",
	"/debug/requests", "/debug/events", "/metrics", "/status", "/stats", "/healthz", "/health", "/readyz", "/info", "/env", "/actuator/env", "/swagger.json",
	"/docs", "/api/status", "/bids/deny", "/bids/allow", "/session/stats", "/", "/favicon.ico", "/.well-known/status", "/server-status", "/varz", "/statusz"}

type leak struct {
	where, marker string
	status        int
}

// probePorts returns every unauthenticated answer that contains one of the markers.
func probePorts(e *acc.Env, markers []string) []leak {
	var out []leak
	cl := &http.Client{Timeout: 2 * time.Second, CheckRedirect: func(*http.Request, []*http.Request) error { return http.ErrUseLastResponse }}
	bases := []string{"http://" + e.Addr, "http://" + strings.TrimPrefix(e.RelayWs, "ws://")}
	for _, base := range bases {
		for _, p := range wellKnownPaths {
			resp, err := cl.Get(base + p)
			if err != nil {
				continue
			}
			body, _ := io.ReadAll(io.LimitReader(resp.Body, 4<<20))
			resp.Body.Close()
			for _, m := range markers {
				if m != "" && strings.Contains(string(body), m) {
					out = append(out, leak{where: fmt.Sprintf("GET %s%s", base, p), marker: m, status: resp.StatusCode})
					break
				}
			}
		}
	}
	return out
}
