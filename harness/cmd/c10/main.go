// c10: correspondence + oracle for "deny and allow lists behave as one consistent register".
// Drives the real deny.Store directly and through the real access API handlers (own clock via
// Store.SetNowFunc and jwt.TimeFunc), plus a short real-time history through relay.Relay to cover
// the prune loop in relay.go. Emits the observed outputs as Coq cases for Corr/C10.v.
package main

import (
	"encoding/json"
	"fmt"
	"io/ioutil"
	"net"
	"net/http"
	"net/url"
	"os"
	"runtime"
	"sort"
	"strconv"
	"strings"
	"sync"
	"sync/atomic"
	"time"

	"github.com/golang-jwt/jwt/v4"
	"github.com/gorilla/websocket"
	"github.com/practable/relay/internal/access"
	"github.com/practable/relay/internal/crossbar"
	"github.com/practable/relay/internal/deny"
	"github.com/practable/relay/internal/ttlcode"
	"github.com/practable/relay/verifharness/lib"
	log "github.com/sirupsen/logrus"
)

type Op struct {
	K  string `json:"k"`  // ODeny OAllow OIsDenied OPrune OGetDeny OGetAllow OSetNow HDeny HAllow HListDeny HListAllow HSession
	ID uint64 `json:"id"` // interned booking id, 0 = ""
	E  int64  `json:"e"`  // expiry / new clock value
	AE bool   `json:"ae"` // AllowNoBookingID of the API instance that served an HSession
}

type Out struct {
	K string   `json:"k"` // U B L S
	B bool     `json:"b,omitempty"`
	L []uint64 `json:"l,omitempty"`
	S int      `json:"s,omitempty"`
}

type Case struct {
	T0   int64  `json:"t0"`
	Ops  []Op   `json:"ops"`
	Outs []Out  `json:"outs"`
	Kind string `json:"kind"`
}

var idStrings = []string{"", "bk1", "bk2", "bk 3/x", "Bk1", "b%2Fk"}

// idString: interned id -> booking id; ids beyond the fixed spellings are the "wide" population
// (histories over hundreds of ids, to get past map-growth and count thresholds)
func idString(k uint64) string {
	if k < uint64(len(idStrings)) {
		return idStrings[k]
	}
	return fmt.Sprintf("wide-%d-%s", k, strings.Repeat("x", int(k%7)*9))
}

func (o Op) coq() string {
	switch o.K {
	case "HDenyAbandoned":
		// the caller gave up while the handler was blocked on the deny channel: the store operation has
		// happened (or the request was refused outright with 400); for the model this is the plain method
		if o.AE { // AE doubles as "was refused outright"
			return lib.App("HDeny", lib.N(o.ID), lib.Z(o.E))
		}
		return lib.App("ODeny", lib.N(o.ID), lib.Z(o.E))
	case "ODeny", "OAllow", "HDeny", "HAllow":
		return lib.App(o.K, lib.N(o.ID), lib.Z(o.E))
	case "OIsDenied":
		return lib.App(o.K, lib.N(o.ID))
	case "OSetNow":
		return lib.App(o.K, lib.Z(o.E))
	case "HSession":
		return lib.App(o.K, lib.Bool(o.AE), lib.N(o.ID), lib.Z(o.E))
	}
	return o.K
}

func (o Out) coq() string {
	switch o.K {
	case "U":
		return "RUnit"
	case "B":
		return lib.App("RBool", lib.Bool(o.B))
	case "L":
		xs := make([]string, len(o.L))
		for i, v := range o.L {
			xs[i] = lib.N(v)
		}
		return lib.App("RList", lib.List(xs))
	}
	return lib.App("RStatus", lib.N(uint64(o.S)))
}

func (c Case) coq() string {
	ops := make([]string, len(c.Ops))
	for i, o := range c.Ops {
		ops[i] = o.coq()
	}
	outs := make([]string, len(c.Outs))
	for i, o := range c.Outs {
		outs[i] = o.coq()
	}
	return lib.Tuple(lib.Z(c.T0), lib.List(ops), lib.List(outs))
}

// api is one real access API with its own deny store and mocked clocks.
type api struct {
	url    string
	ds     *deny.Store
	secret string
	ae     bool
	r      *lib.Relay    // only Do/Deny/... helpers are used
	dc     chan string   // the deny channel towards the (absent) crossbar, capacity 1
	paused int32         // 1: the drainer leaves the channel alone (a slow crossbar)
	ack    chan struct{} // the drainer confirms that it has seen paused == 1
}

var clock int64 // shared mocked clock (seconds)

func now() int64 { return atomic.LoadInt64(&clock) }

func startAPI(ae bool) *api {
	port := lib.FreePorts(1)[0]
	ds := deny.New()
	ds.SetNowFunc(now)
	dc := make(chan string, 1)
	a := &api{dc: dc, ack: make(chan struct{})}
	go func() {
		for {
			if atomic.LoadInt32(&a.paused) == 1 {
				select {
				case a.ack <- struct{}{}:
				case <-time.After(2 * time.Millisecond):
				}
				continue
			}
			select {
			case <-dc:
			case <-time.After(2 * time.Millisecond):
			}
		}
	}()
	closed := make(chan struct{})
	var wg sync.WaitGroup
	wg.Add(1)
	u := "http://127.0.0.1:" + strconv.Itoa(port)
	cfg := access.Config{
		AllowNoBookingID: ae,
		CodeStore:        ttlcode.NewDefaultCodeStore(),
		DenyChannel:      dc,
		DenyStore:        ds,
		Host:             u,
		Hub:              crossbar.New(),
		Port:             port,
		Secret:           "c10secret",
		Target:           "ws://127.0.0.1:1",
	}
	go access.API(closed, &wg, cfg)
	for i := 0; i < 1000; i++ {
		c, err := net.DialTimeout("tcp", "127.0.0.1:"+strconv.Itoa(port), 50*time.Millisecond)
		if err == nil {
			c.Close()
			break
		}
		time.Sleep(5 * time.Millisecond)
	}
	rl := &lib.Relay{AccessURL: u, Secret: "c10secret"}
	rl.HTTP = lib.NewHTTPClient()
	a.url, a.ds, a.secret, a.ae, a.r = u, ds, "c10secret", ae, rl
	return a
}

func (a *api) reset() {
	a.ds.Lock()
	a.ds.AllowList = make(map[string]int64)
	a.ds.DenyList = make(map[string]int64)
	a.ds.Unlock()
}

func intern(ss []string) []uint64 {
	out := []uint64{}
	for _, s := range ss {
		found := false
		for i, t := range idStrings {
			if s == t {
				out = append(out, uint64(i))
				found = true
			}
		}
		if !found && strings.HasPrefix(s, "wide-") {
			var k uint64
			if _, err := fmt.Sscanf(s, "wide-%d-", &k); err == nil && idString(k) == s {
				out = append(out, k)
				found = true
			}
		}
		if !found {
			out = append(out, 999) // an id nobody put there
		}
	}
	sort.Slice(out, func(i, j int) bool { return out[i] < out[j] })
	return out
}

func class(status int) int {
	switch {
	case status == 200 || status == 204:
		return status
	case status == 400 || status == 422:
		return 400 // the request was refused as a bad request (binding layer or handler)
	}
	return status
}

// exec runs one op against the real code and returns the observed output.
func (a *api) exec(o Op) Out {
	id := idString(o.ID)
	switch o.K {
	case "ODeny":
		a.ds.Deny(id, o.E)
		return Out{K: "U"}
	case "OAllow":
		a.ds.Allow(id, o.E)
		return Out{K: "U"}
	case "OIsDenied":
		return Out{K: "B", B: a.ds.IsDenied(id)}
	case "OPrune":
		a.ds.Prune()
		return Out{K: "U"}
	case "OGetDeny":
		return Out{K: "L", L: intern(a.ds.GetDenyList())}
	case "OGetAllow":
		return Out{K: "L", L: intern(a.ds.GetAllowList())}
	case "OSetNow":
		atomic.StoreInt64(&clock, o.E)
		return Out{K: "U"}
	case "HDeny":
		rs := a.r.Deny(id, o.E, a.admin())
		return Out{K: "S", S: class(status(rs))}
	case "HDenyAbandoned":
		// a slow crossbar: the deny channel is full, the handler blocks on its send after Deny() has
		// been applied, and the caller times out after 300 ms
		atomic.StoreInt32(&a.paused, 1)
		<-a.ack // from here on the drainer does not touch the channel
		select {
		case a.dc <- "filler":
		default:
		}
		short := &lib.Relay{AccessURL: a.url, Secret: a.secret, HTTP: &http.Client{Timeout: 300 * time.Millisecond}}
		rs := short.Deny(id, o.E, a.admin())
		atomic.StoreInt32(&a.paused, 0)
		time.Sleep(60 * time.Millisecond) // the handler finishes (or rolls back) once the channel drains
		if rs.Err == nil && (rs.Status == 400 || rs.Status == 422) {
			return Out{K: "S", S: 400}
		}
		if rs.Err == nil {
			return Out{K: "S", S: class(rs.Status)}
		}
		return Out{K: "U"}
	case "HAllow":
		rs := a.r.Allow(id, o.E, a.admin())
		return Out{K: "S", S: class(status(rs))}
	case "HListDeny":
		l, st := a.r.BidList("deny", a.admin())
		if st != 200 {
			return Out{K: "S", S: st}
		}
		return Out{K: "L", L: intern(l)}
	case "HListAllow":
		l, st := a.r.BidList("allow", a.admin())
		if st != 200 {
			return Out{K: "S", S: st}
		}
		return Out{K: "L", L: intern(l)}
	case "HSession":
		t := now()
		c := a.r.Claims("topic1", id, []string{"read", "write"}, t-1, t-1, o.E)
		st, _, _ := a.r.Session("topic1", lib.Sign(c, a.secret))
		return Out{K: "S", S: class(st)}
	}
	panic("unknown op " + o.K)
}

func status(r lib.Resp) int {
	if r.Err != nil {
		return -1
	}
	return r.Status
}

func (a *api) admin() string {
	t := now()
	c := a.r.Claims("", "", []string{"relay:admin"}, t-1, t-1, t+1000)
	return lib.Sign(c, a.secret)
}

// genHistory produces a structured, mostly-valid history around the clock value t0.
func genHistory(r *lib.Rng, t0 int64, ae bool, handlerLevel bool) []Op {
	n := r.Range(8, 40)
	ops := []Op{}
	t := t0
	nid := r.Range(2, len(idStrings)-1)
	veryWide := false
	if !handlerLevel && r.Chance(1, 40) { // a very wide store-level history: past 1024 live entries on one list
		veryWide = true
		nid = r.Range(1100, 1600)
		n = r.Range(50, 200)
	} else if r.Chance(1, 12) { // a wide history: many ids, many operations (store level mostly: cheap)
		nid = r.Range(20, 400)
		n = r.Range(nid, 2*nid)
		if handlerLevel {
			n = r.Range(60, 160)
		}
	}
	pickID := func() uint64 {
		if r.Chance(1, 12) {
			return 0
		}
		return uint64(1 + r.Intn(nid))
	}
	pickExp := func() int64 {
		if r.Chance(1, 14) { // extremes: far past / far future / the int64 range ends (overflowing "remaining time" arithmetic)
			ext := []int64{t - 10000000000, t - 9223372037, t - 9300000000, t - 18446744074, -9223372036854775808, -9223372036854775807,
				-1, 0, 1, t + 9223372037, t + 10000000000, 9223372036854775807, 9223372036854775806, t - 31536000*300, t + 31536000*300}
			return ext[r.Intn(len(ext))]
		}
		switch r.Intn(10) {
		case 0:
			return t - int64(r.Range(1, 5)) // in the past
		case 1:
			return t // boundary
		case 2:
			return t + 1000000
		}
		return t + int64(r.Range(1, 6))
	}
	if veryWide { // bulk phase: every id denied (or allowed) with a live expiry, then the lists are read
		k := "ODeny"
		if r.Bool() {
			k = "OAllow"
		}
		for id := 1; id <= nid; id++ {
			ops = append(ops, Op{K: k, ID: uint64(id), E: t + int64(r.Range(100, 2000))})
		}
		ops = append(ops, Op{K: "OGetDeny"}, Op{K: "OGetAllow"})
	}
	abandonAt := -1 // at most one abandoned deny per history, in a fifth of the handler-level histories
	if handlerLevel && r.Chance(1, 5) {
		abandonAt = r.Intn(n)
	}
	for i := 0; i < n; i++ {
		var o Op
		switch x := r.Intn(100); {
		case i == abandonAt:
			o = Op{K: "HDenyAbandoned", ID: pickID(), E: pickExp()}
		case x < 18:
			o = Op{K: "HDeny", ID: pickID(), E: pickExp()}
		case x < 34:
			o = Op{K: "HAllow", ID: pickID(), E: pickExp()}
		case x < 44:
			o = Op{K: "HListDeny"}
		case x < 54:
			o = Op{K: "HListAllow"}
		case x < 66:
			id := pickID()
			if id == 0 && !ae && r.Chance(2, 3) {
				id = 1
			}
			o = Op{K: "HSession", ID: id, E: t + int64(r.Range(1, 6)), AE: ae}
		case x < 76:
			t += int64(r.Range(0, 4))
			if r.Chance(1, 10) {
				t -= 2
			}
			o = Op{K: "OSetNow", E: t}
		case x < 84:
			o = Op{K: "OPrune"}
		case x < 88:
			o = Op{K: "ODeny", ID: pickID(), E: pickExp()}
		case x < 92:
			o = Op{K: "OAllow", ID: pickID(), E: pickExp()}
		case x < 95:
			o = Op{K: "OIsDenied", ID: pickID()}
		case x < 98:
			o = Op{K: "OGetDeny"}
		default:
			o = Op{K: "OGetAllow"}
		}
		if !handlerLevel && o.K[0] == 'H' {
			// store-level stream: translate handler ops to the plain methods
			switch o.K {
			case "HDeny":
				o.K = "ODeny"
			case "HAllow":
				o.K = "OAllow"
			case "HListDeny":
				o.K = "OGetDeny"
			case "HListAllow":
				o.K = "OGetAllow"
			case "HSession":
				o = Op{K: "OIsDenied", ID: o.ID}
			}
		}
		ops = append(ops, o)
	}
	// always end by reading both lists
	if handlerLevel {
		ops = append(ops, Op{K: "HListDeny"}, Op{K: "HListAllow"})
	} else {
		ops = append(ops, Op{K: "OGetDeny"}, Op{K: "OGetAllow"})
	}
	return ops
}

// ---- the property's own oracle: an independent one-register transcription in Go ----
type entry struct {
	denied bool
	exp    int64
}

func oracle(c Case, idx int, res *lib.Result) {
	reg := map[uint64]entry{}
	t := c.T0
	list := func(denied bool) []uint64 {
		l := []uint64{}
		for k, v := range reg {
			if v.denied == denied {
				l = append(l, k)
			}
		}
		sort.Slice(l, func(i, j int) bool { return l[i] < l[j] })
		return l
	}
	eq := func(a, b []uint64) bool {
		if len(a) != len(b) {
			return false
		}
		for i := range a {
			if a[i] != b[i] {
				return false
			}
		}
		return true
	}
	bad := func(i int, clause, detail string) {
		res.Violate(lib.Violation{Clause: clause, Case: idx, Detail: fmt.Sprintf("op %d (%s): %s", i, c.Ops[i].K, detail),
			Replay: c, Key: clause + ":" + c.Ops[i].K})
	}
	for i, o := range c.Ops {
		ob := c.Outs[i]
		switch o.K {
		case "ODeny":
			reg[o.ID] = entry{true, o.E}
		case "OAllow":
			reg[o.ID] = entry{false, o.E}
		case "HDenyAbandoned":
			if o.ID != 0 && o.E >= t { // the deny was applied before the handler blocked
				reg[o.ID] = entry{true, o.E}
				if ob.K == "S" {
					bad(i, "abandoned-request-not-blocked", fmt.Sprintf("status %d", ob.S))
				}
			} else if ob.K != "S" || ob.S != 400 {
				bad(i, "bad-request-accepted", "empty id or past expiry was not refused outright")
			}
		case "HDeny", "HAllow":
			valid := o.ID != 0 && o.E >= t
			if valid {
				reg[o.ID] = entry{o.K == "HDeny", o.E}
				if ob.S != 204 {
					bad(i, "valid-request-refused", fmt.Sprintf("status %d", ob.S))
				}
			} else if ob.S == 204 || ob.S == 200 {
				bad(i, "bad-request-accepted", fmt.Sprintf("empty id or past expiry answered %d", ob.S))
			}
		case "HSession":
			e, ok := reg[o.ID]
			denied := ok && e.denied
			refuse := (o.ID == 0 && !o.AE) || denied
			if refuse && ob.S == 200 {
				bad(i, "denied-session-accepted", "session for a denied or empty booking id answered 200")
			}
			if !refuse {
				reg[o.ID] = entry{false, o.E}
				if ob.S != 200 {
					bad(i, "valid-request-refused", fmt.Sprintf("status %d", ob.S))
				}
			}
		case "OIsDenied":
			e, ok := reg[o.ID]
			if ob.B != (ok && e.denied) {
				bad(i, "status-not-last-writer", fmt.Sprintf("IsDenied=%v", ob.B))
			}
		case "OPrune":
			for k, v := range reg {
				if v.exp < t {
					delete(reg, k)
				}
			}
		case "OSetNow":
			t = o.E
		case "OGetDeny", "HListDeny", "OGetAllow", "HListAllow":
			den := o.K == "OGetDeny" || o.K == "HListDeny"
			if ob.K != "L" {
				bad(i, "list-endpoint-failed", fmt.Sprintf("status %d", ob.S))
			} else if !eq(ob.L, list(den)) {
				bad(i, "list-not-exact", fmt.Sprintf("reported %v, register says %v", ob.L, list(den)))
			}
		}
	}
}

func main() {
	a := lib.ParseArgs()
	log.SetOutput(ioutil.Discard)
	res := lib.NewResult("C10", a.Seed, a.Tier)
	rng := lib.NewRng(a.Seed)

	var cases []Case
	if a.Replay != "" {
		var c Case
		lib.ReadReplayCase(a.Replay, &c)
		cases = []Case{c}
	}

	jwt.TimeFunc = func() time.Time { return time.Unix(now(), 0) }
	apis := map[bool]*api{true: startAPI(true), false: startAPI(false)}

	hung := 0
	run := func(c *Case, idx int) {
		ae := false
		for _, o := range c.Ops {
			if o.K == "HSession" && o.AE {
				ae = true
			}
		}
		ap := apis[ae]
		if b, err := json.Marshal(c); err == nil { // journal: if the code under test kills this process, this case is the failing input
			os.WriteFile(a.Out+"/current.json", b, 0o644)
		}
		ap.reset()
		atomic.StoreInt64(&clock, c.T0)
		c.Outs = nil
		for i, o := range c.Ops {
			// every operation runs under a watchdog: a store left locked must not hang the harness
			done := make(chan Out, 1)
			go func(o Op) { done <- ap.exec(o) }(o)
			select {
			case out := <-done:
				if o.K == "HDenyAbandoned" && out.K == "S" && out.S == 400 {
					c.Ops[i].AE = true // refused outright
				}
				c.Outs = append(c.Outs, out)
			case <-time.After(4 * time.Second):
				hung++
				c.Ops = c.Ops[:i+1]
				c.Outs = append(c.Outs, Out{K: "S", S: -1})
				res.Violate(lib.Violation{Clause: "operation-never-answers", Case: idx,
					Detail: fmt.Sprintf("op %d (%s) did not return within 4 s; history so far %v", i, o.K, c.Ops), Replay: *c, Key: "operation-never-answers:" + o.K})
				apis[ae] = startAPI(ae) // the old instance may be wedged for good
				return
			}
		}
	}

	if a.Replay == "" {
		nH := a.Pick(220, 3000)
		nS := a.Pick(80, 1000)
		for i := 0; i < nH+nS; i++ {
			r := rng.Fork()
			t0 := int64(1000 + r.Intn(100000))
			ae := r.Bool()
			h := i < nH
			kind := "handlers"
			if !h {
				kind = "store"
			}
			cases = append(cases, Case{T0: t0, Ops: genHistory(r, t0, ae, h), Kind: kind})
		}
	}
	for i := range cases {
		if hung >= 3 { // the store keeps wedging: stop here, what was found is reported
			cases = cases[:i]
			break
		}
		if !strings.HasPrefix(cases[i].Kind, "realtime") {
			run(&cases[i], i)
		}
	}

	// one real-time history through relay.Relay (covers the prune loop wiring in relay.go)
	if a.Replay == "" && hung == 0 {
		jwt.TimeFunc = time.Now
		cases = append(cases, realtime())
		http.DefaultServeMux = http.NewServeMux() // the crossbar registers "/" on the default mux: one relay per mux
		cases = append(cases, realtimeConnections())
		concurrentStore(res, a.Pick(1, 4))
	}

	coq := make([]string, len(cases))
	for i, c := range cases {
		oracle(c, i, res)
		coq[i] = c.coq()
		res.Count("kind:" + c.Kind)
		res.CountN("ops", len(c.Ops))
		for _, o := range c.Ops {
			res.Count("op:" + o.K)
		}
		for _, o := range c.Outs {
			if o.K == "S" {
				res.Count("status:" + strconv.Itoa(o.S))
			}
		}
		res.Sample(c)
		res.Cases = append(res.Cases, c)
	}
	res.Evaluations = len(cases)
	os.Remove(a.Out + "/current.json")
	if _, err := lib.WriteShards(a.Out, "From Relay Require Import Base.Prelude Model.DenyStore Corr.C10.", "case", coq, res.ShardSize); err != nil {
		fmt.Fprintln(os.Stderr, err)
		os.Exit(2)
	}
	if err := res.Write(a.Out); err != nil {
		fmt.Fprintln(os.Stderr, err)
		os.Exit(2)
	}
}

// realtime: deny id1 (expires in 2 s) and id2 (long) on a real relay with PruneEvery 300 ms, watch
// id1 leave the list only after its expiry. Expressed for the model as clock advances + prunes.
func realtime() Case {
	rl := lib.StartRelay(lib.RelayOpts{PruneEvery: 300 * time.Millisecond})
	adm := rl.AdminBearer("relay:admin")
	// align to just after a second boundary so that whole-second reasoning is exact
	for time.Now().Nanosecond() > 100e6 {
		time.Sleep(10 * time.Millisecond)
	}
	t0 := time.Now().Unix()
	c := Case{T0: t0, Kind: "realtime"}
	add := func(o Op, out Out) { c.Ops = append(c.Ops, o); c.Outs = append(c.Outs, out) }
	lst := func(which string) Out {
		l, st := rl.BidList(which, adm)
		if st != 200 {
			return Out{K: "S", S: st}
		}
		return Out{K: "L", L: intern(l)}
	}
	add(Op{K: "HDeny", ID: 1, E: t0 + 1}, Out{K: "S", S: class(status(rl.Deny(idStrings[1], t0+1, adm)))})
	add(Op{K: "HDeny", ID: 2, E: t0 + 1000}, Out{K: "S", S: class(status(rl.Deny(idStrings[2], t0+1000, adm)))})
	add(Op{K: "HAllow", ID: 3, E: t0 + 1}, Out{K: "S", S: class(status(rl.Allow(idStrings[3], t0+1, adm)))})
	// several prunes have run by +0.7 s at clock t0: nothing may have vanished
	time.Sleep(time.Until(time.Unix(t0, 700e6)))
	add(Op{K: "OPrune"}, Out{K: "U"})
	add(Op{K: "HListDeny"}, lst("deny"))
	add(Op{K: "HListAllow"}, lst("allow"))
	// at t0+1.5 the clock reads t0+1 = exp: still there (prune drops only exp < now)
	time.Sleep(time.Until(time.Unix(t0+1, 500e6)))
	add(Op{K: "OSetNow", E: t0 + 1}, Out{K: "U"})
	add(Op{K: "OPrune"}, Out{K: "U"})
	add(Op{K: "HListDeny"}, lst("deny"))
	if time.Now().After(time.Unix(t0+1, 900e6)) {
		// the machine stalled past the observation window (the next second tick changes the answer): not judged
		c.Kind = "realtime-discarded"
		c.Ops, c.Outs = c.Ops[:3], c.Outs[:3]
		return c
	}
	// at t0+2.6 the clock reads t0+2 > exp and at least one prune has run since the tick
	// (a stalled prune loop gets up to 2.5 s more before the listing is recorded)
	time.Sleep(time.Until(time.Unix(t0+2, 600e6)))
	add(Op{K: "OSetNow", E: t0 + 2}, Out{K: "U"})
	add(Op{K: "OPrune"}, Out{K: "U"})
	for i := 0; i < 10; i++ {
		if o := lst("deny"); o.K == "L" && len(o.L) <= 1 {
			break
		}
		time.Sleep(250 * time.Millisecond)
	}
	add(Op{K: "HListDeny"}, lst("deny"))
	add(Op{K: "HListAllow"}, lst("allow"))
	_ = url.QueryEscape
	rl.Stop()
	return c
}

// realtimeConnections: the lists while websocket connections of the bookings come and go on a real relay. A connection
// whose short token expires, one that the client closes, one that is refused: none of them is a deny, an allow or a
// prune, so for the register they are no operation at all. Booking 4 has a connection on a 2 s token while its allow
// entry has meanwhile been given a far expiry by an admin; booking 5 is denied and a connection attempt with an old
// code is refused; booking 6's client leaves by itself.
func realtimeConnections() Case {
	rl := lib.StartRelay(lib.RelayOpts{PruneEvery: 300 * time.Millisecond})
	adm := rl.AdminBearer("relay:admin")
	for time.Now().Nanosecond() > 100e6 {
		time.Sleep(10 * time.Millisecond)
	}
	t0 := time.Now().Unix()
	c := Case{T0: t0, Kind: "realtime-connections"}
	add := func(o Op, out Out) { c.Ops = append(c.Ops, o); c.Outs = append(c.Outs, out) }
	lst := func(which string) Out {
		l, st := rl.BidList(which, adm)
		if st != 200 {
			return Out{K: "S", S: st}
		}
		return Out{K: "L", L: intern(l)}
	}
	session := func(id int, exp int64) (string, int) {
		topic := fmt.Sprintf("c10-conn-%d", id)
		cl := rl.Claims(topic, idString(uint64(id)), []string{"read", "write"}, t0-1, t0-1, exp)
		st, uri, _ := rl.Session(topic, lib.Sign(cl, rl.Secret))
		return uri, st
	}
	var conns []*websocket.Conn
	defer func() {
		for _, w := range conns {
			w.Close()
		}
	}()
	dial := func(uri string) *websocket.Conn {
		w, _, err := lib.Dial(uri, nil)
		if err != nil {
			return nil
		}
		conns = append(conns, w)
		go func() {
			for {
				if _, _, e := w.ReadMessage(); e != nil {
					return
				}
			}
		}()
		return w
	}
	u4, st4 := session(4, t0+2)
	add(Op{K: "HSession", ID: 4, E: t0 + 2}, Out{K: "S", S: class(st4)})
	dial(u4)
	u4b, st4b := session(4, t0+900) // a second, longer token of the same booking
	add(Op{K: "HSession", ID: 4, E: t0 + 900}, Out{K: "S", S: class(st4b)})
	dial(u4b)
	add(Op{K: "HAllow", ID: 4, E: t0 + 1000}, Out{K: "S", S: class(status(rl.Allow(idString(4), t0+1000, adm)))})
	u5, st5 := session(5, t0+900)
	add(Op{K: "HSession", ID: 5, E: t0 + 900}, Out{K: "S", S: class(st5)})
	add(Op{K: "HDeny", ID: 5, E: t0 + 900}, Out{K: "S", S: class(status(rl.Deny(idString(5), t0+900, adm)))})
	dial(u5) // refused: the code died with the deny
	u6, st6 := session(6, t0+900)
	add(Op{K: "HSession", ID: 6, E: t0 + 900}, Out{K: "S", S: class(st6)})
	if w := dial(u6); w != nil {
		time.Sleep(100 * time.Millisecond)
		w.Close()
	}
	add(Op{K: "HListDeny"}, lst("deny"))
	add(Op{K: "HListAllow"}, lst("allow"))
	// past the short token's expiry (closed by the relay at t0+2 .. t0+3) and several prune ticks later
	time.Sleep(time.Until(time.Unix(t0+3, 600e6)))
	add(Op{K: "OSetNow", E: t0 + 3}, Out{K: "U"})
	add(Op{K: "OPrune"}, Out{K: "U"})
	add(Op{K: "HListDeny"}, lst("deny"))
	add(Op{K: "HListAllow"}, lst("allow"))
	if time.Now().After(time.Unix(t0+3, 950e6)) {
		c.Kind = "realtime-discarded" // stalled across a second boundary: not judged
		c.Ops, c.Outs = c.Ops[:1], c.Outs[:1]
	}
	return c
}

// concurrentStore: the register's invariants when store operations OVERLAP (there is no scheduling point inside an
// operation, so this is a stress with an invariant checked afterwards, not an enumeration). Every operation is one
// critical section, so whatever the overlap the outcome is that of some order:
//
//	(a) a prune racing re-denies: thousands of entries have lapsed; while Prune runs, each id is denied again until far
//	    in the future. Whichever comes first, every id ends up denied (prune drops only entries whose OWN expiry passed);
//	(b) a session request racing a deny on a fresh id: afterwards the id is never on both lists.
func concurrentStore(res *lib.Result, rounds int) {
	report := func(clause, detail string, rep map[string]interface{}) {
		res.Violate(lib.Violation{Clause: clause, Case: -1, Detail: detail, Replay: rep, Key: clause + ":concurrent-store"})
	}
	for round := 0; round < rounds; round++ {
		ds := deny.New()
		var hold int32
		release := make(chan struct{})
		ds.SetNowFunc(func() int64 {
			if atomic.CompareAndSwapInt32(&hold, 1, 2) {
				<-release // the prune's own clock reading waits (inside its critical section) until the re-denies queue up
			}
			return 1000
		})
		n := 3000 + 500*round
		ids := make([]string, n)
		for i := range ids {
			ids[i] = fmt.Sprintf("lapsed-%d-%d", round, i)
			ds.Deny(ids[i], 900) // already lapsed at clock 1000
			if i%3 == 0 {
				ds.Allow(fmt.Sprintf("lapsed-allow-%d-%d", round, i), 900)
			}
		}
		var wg sync.WaitGroup
		wg.Add(1)
		atomic.StoreInt32(&hold, 1)
		go func() { defer wg.Done(); ds.Prune() }()
		for atomic.LoadInt32(&hold) != 2 { // the prune is inside, holding the lock
			time.Sleep(time.Millisecond)
		}
		for _, id := range ids {
			wg.Add(1)
			go func(id string) { defer wg.Done(); ds.Deny(id, 50000) }(id)
		}
		time.Sleep(30 * time.Millisecond) // let them queue on the store's lock
		close(release)
		wg.Wait()
		missing := 0
		first := ""
		for _, id := range ids {
			if !ds.IsDenied(id) {
				if missing == 0 {
					first = id
				}
				missing++
			}
		}
		res.Count("concurrent:prune-vs-redeny")
		if missing > 0 {
			report("vanished-before-own-expiry", fmt.Sprintf("%d lapsed deny entries; while Prune was running each id was denied again until 50000 (clock 1000): afterwards %d of the re-denied ids are not denied (first: %q) - a prune may drop only entries whose own expiry has passed", n, missing, first),
				map[string]interface{}{"kind": "prune-vs-redeny", "entries": n, "missing": missing})
			break
		}
	}
	// (b) a session request racing a deny on a fresh id, released together pair by pair, relative timing swept
	ds := deny.New()
	ds.SetNowFunc(func() int64 { return 1000 })
	pairs := 150000 * rounds
	both := 0
	firstBoth := ""
	const batch = 5000
	var aReady, bReady int64
	spin := func(k int) {
		for x := 0; x < k; x++ {
			runtime.KeepAlive(x)
		}
	}
	for p := 0; p < pairs && both == 0; p += batch {
		ids := make([]string, batch)
		for i := range ids {
			ids[i] = fmt.Sprintf("fresh-%d", p+i)
		}
		atomic.StoreInt64(&aReady, 0)
		atomic.StoreInt64(&bReady, 0)
		var wg sync.WaitGroup
		wg.Add(2)
		go func() {
			defer wg.Done()
			for i, id := range ids {
				atomic.StoreInt64(&aReady, int64(i+1))
				for atomic.LoadInt64(&bReady) < int64(i+1) {
				}
				spin(i % 40)
				ds.AllowIfNotDenied(id, 50000)
			}
		}()
		go func() {
			defer wg.Done()
			for i, id := range ids {
				atomic.StoreInt64(&bReady, int64(i+1))
				for atomic.LoadInt64(&aReady) < int64(i+1) {
				}
				spin((i / 40) % 40)
				ds.Deny(id, 50000)
			}
		}()
		wg.Wait()
		al := map[string]bool{}
		for _, id := range ds.GetAllowList() {
			al[id] = true
		}
		for _, id := range ds.GetDenyList() {
			if al[id] {
				if both == 0 {
					firstBoth = id
				}
				both++
			}
		}
		for _, id := range ids { // keep the store small
			ds.Deny(id, 10)
		}
		ds.Prune()
	}
	res.Count("concurrent:session-vs-deny")
	if both > 0 {
		report("on-both-lists", fmt.Sprintf("a session request (AllowIfNotDenied) and a deny for the same fresh booking id overlapped: afterwards %d ids are on the deny list AND on the allow list (first: %q)", both, firstBoth),
			map[string]interface{}{"kind": "session-vs-deny", "both": both})
	}
}
