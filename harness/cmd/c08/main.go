// c08: correspondence + oracle for "no client behaviour or admin sequence can stop or crash the relay".
//
//	chan   random chanmap operation sequences run directly on a real chanmap.Store (with recover),
//	       compared step by step with Model/ChanMap.v; fresh-name sequences (what the relay produces)
//	       and a malformed stream that reuses child names and channels
//	faults one real relay per scenario IN A CHILD PROCESS: a good writer/reader pair on a topic, then
//	       client faults on further connections (oversize frame, reserved opcode, unmasked frame, oversize
//	       control frame, truncated frame + reset, reset via SO_LINGER 0, half-close, a reader that never
//	       reads and is flooded with small BufferSize); after every step a canary pair on a fresh topic
//	       must exchange a message within 2 s and the good pair must still relay
//	api    histories of session / connect / disconnect / deny / allow / send over 2-3 bookings against a
//	       real relay in a child process; after every call its answer, the relay's own list of live
//	       connections, and the canary
//
// The model predicts ok | crashed | frozen | handler-panic for the abstracted event list (Corr/C08.v).
package main

import (
	"bytes"
	"encoding/json"
	"fmt"
	"io/ioutil"
	"os"
	"os/exec"
	"sort"
	"strconv"
	"strings"
	"sync"
	"syscall"
	"time"

	"github.com/practable/relay/internal/chanmap"
	"github.com/practable/relay/verifharness/lib"
	log "github.com/sirupsen/logrus"
)

// ---------------------------------------------------------------- chanmap differential
type COp struct {
	K  string `json:"k"` // Add DelChild DelCloseChild DelParent DelCloseParent
	P  uint64 `json:"p,omitempty"`
	C  uint64 `json:"c,omitempty"`
	Ch uint64 `json:"ch,omitempty"`
}

type CObs struct {
	R   string `json:"r"` // ok err nilmap close other
	NP  int    `json:"np"`
	NC  int    `json:"nc"`
	NCl int    `json:"ncl"`
}

type DumpParent struct {
	P    uint64      `json:"p"`
	Nil  bool        `json:"nil,omitempty"`
	Kids [][2]uint64 `json:"kids"`
}

type Dump struct {
	Parents []DumpParent `json:"parents"`
	PBC     [][2]uint64  `json:"pbc"`
	Closed  []uint64     `json:"closed"`
}

type Case struct {
	Kind string `json:"kind"` // chan faults api
	// chan
	Fresh bool   `json:"fresh,omitempty"`
	Ops   []COp  `json:"ops,omitempty"`
	Obs   []CObs `json:"obs,omitempty"`
	Final *Dump  `json:"final,omitempty"`
	// faults / api
	Scen   *Scenario   `json:"scen,omitempty"`
	Result *ScenResult `json:"result,omitempty"`
}

func name(prefix string, i uint64) string {
	if i == 0 {
		return ""
	}
	return fmt.Sprintf("%s%d", prefix, i)
}

func unname(prefix, s string) uint64 {
	var i uint64
	if s == "" {
		return 0
	}
	fmt.Sscanf(strings.TrimPrefix(s, prefix), "%d", &i)
	return i
}

func runChan(c *Case) {
	s := chanmap.New()
	chans := map[uint64]chan struct{}{}
	ids := map[chan struct{}]uint64{}
	get := func(id uint64) chan struct{} {
		if id == 0 {
			return nil
		}
		if ch, ok := chans[id]; ok {
			return ch
		}
		ch := make(chan struct{})
		chans[id] = ch
		ids[ch] = id
		return ch
	}
	closedSet := func() []uint64 {
		var out []uint64
		for id, ch := range chans {
			select {
			case <-ch:
				out = append(out, id)
			default:
			}
		}
		sort.Slice(out, func(i, j int) bool { return out[i] < out[j] })
		return out
	}
	c.Obs = nil
	c.Final = nil
	panicked := false
	for _, o := range c.Ops {
		res := func() (r string) {
			defer func() {
				if p := recover(); p != nil {
					msg := fmt.Sprint(p)
					switch {
					case strings.Contains(msg, "nil map"):
						r = "nilmap"
					case strings.Contains(msg, "close of closed channel"):
						r = "close"
					default:
						r = "other:" + msg
					}
				}
			}()
			var err error
			switch o.K {
			case "Add":
				err = s.Add(name("p", o.P), name("c", o.C), get(o.Ch))
			case "DelChild":
				err = s.DeleteChild(name("c", o.C))
			case "DelCloseChild":
				err = s.DeleteAndCloseChild(name("c", o.C))
			case "DelParent":
				err = s.DeleteParent(name("p", o.P))
			case "DelCloseParent":
				err = s.DeleteAndCloseParent(name("p", o.P))
			}
			if err != nil {
				return "err"
			}
			return "ok"
		}()
		if res != "ok" && res != "err" {
			c.Obs = append(c.Obs, CObs{R: res})
			panicked = true
			break
		}
		c.Obs = append(c.Obs, CObs{R: res, NP: len(s.ChildrenByParent), NC: len(s.ParentByChild), NCl: len(closedSet())})
	}
	if !panicked {
		d := &Dump{Closed: closedSet(), Parents: []DumpParent{}, PBC: [][2]uint64{}}
		if d.Closed == nil {
			d.Closed = []uint64{}
		}
		for p, m := range s.ChildrenByParent {
			dp := DumpParent{P: unname("p", p), Nil: m == nil, Kids: [][2]uint64{}}
			for k, ch := range m {
				dp.Kids = append(dp.Kids, [2]uint64{unname("c", k), ids[ch]})
			}
			sort.Slice(dp.Kids, func(i, j int) bool { return dp.Kids[i][0] < dp.Kids[j][0] })
			d.Parents = append(d.Parents, dp)
		}
		sort.Slice(d.Parents, func(i, j int) bool { return d.Parents[i].P < d.Parents[j].P })
		for k, p := range s.ParentByChild {
			d.PBC = append(d.PBC, [2]uint64{unname("c", k), unname("p", p)})
		}
		sort.Slice(d.PBC, func(i, j int) bool { return d.PBC[i][0] < d.PBC[j][0] })
		c.Final = d
	}
}

// oracleChan: the property on the real store, for sequences the relay can produce (fresh child names
// and channels): no panic, and after every prefix the two maps agree and hold no nil map. It replays
// the sequence on a second store and inspects the real maps after each operation.
func oracleChan(c Case, idx int, res *lib.Result) {
	if !c.Fresh {
		return
	}
	s := chanmap.New()
	chans := map[uint64]chan struct{}{}
	bad := func(i int, clause, detail string) {
		res.Violate(lib.Violation{Clause: clause, Case: idx, Replay: c, Key: clause + ":chanmap." + c.Ops[i].K,
			Detail: fmt.Sprintf("chanmap sequence with fresh names, op %d (%s p%d c%d): %s; history %s", i, c.Ops[i].K, c.Ops[i].P, c.Ops[i].C, detail, opsString(c.Ops[:i+1]))})
	}
	for i, o := range c.Ops {
		var ch chan struct{}
		if o.Ch != 0 {
			if chans[o.Ch] == nil {
				chans[o.Ch] = make(chan struct{})
			}
			ch = chans[o.Ch]
		}
		var pv interface{}
		func() {
			defer func() { pv = recover() }()
			switch o.K {
			case "Add":
				s.Add(name("p", o.P), name("c", o.C), ch)
			case "DelChild":
				s.DeleteChild(name("c", o.C))
			case "DelCloseChild":
				s.DeleteAndCloseChild(name("c", o.C))
			case "DelParent":
				s.DeleteParent(name("p", o.P))
			case "DelCloseParent":
				s.DeleteAndCloseParent(name("p", o.P))
			}
		}()
		if pv != nil {
			bad(i, "chanmap-panic", fmt.Sprintf("panic: %v", pv))
			return
		}
		for p, m := range s.ChildrenByParent {
			if m == nil {
				bad(i, "chanmap-nil-map", fmt.Sprintf("a nil child map is stored under parent %q (the next Add for it panics)", p))
				return
			}
			if len(m) == 0 {
				bad(i, "chanmap-empty-parent-kept", fmt.Sprintf("parent %q has no child left but keeps its (empty) map: one entry per past booking for ever", p))
				return
			}
			for k := range m {
				if s.ParentByChild[k] != p {
					bad(i, "chanmap-inconsistent", fmt.Sprintf("child %q is in the map of parent %q but ParentByChild says %q", k, p, s.ParentByChild[k]))
					return
				}
			}
		}
		for k, p := range s.ParentByChild {
			if m, ok := s.ChildrenByParent[p]; !ok || m == nil || m[k] == nil {
				bad(i, "chanmap-inconsistent", fmt.Sprintf("ParentByChild[%q] = %q but that parent's map does not hold the child", k, p))
				return
			}
		}
	}
}

func opsString(ops []COp) string {
	var xs []string
	for _, o := range ops {
		switch o.K {
		case "Add":
			xs = append(xs, fmt.Sprintf("Add(p%d,c%d,ch%d)", o.P, o.C, o.Ch))
		case "DelChild", "DelCloseChild":
			xs = append(xs, fmt.Sprintf("%s(c%d)", o.K, o.C))
		default:
			xs = append(xs, fmt.Sprintf("%s(p%d)", o.K, o.P))
		}
	}
	return strings.Join(xs, "; ")
}

func genChan(r *lib.Rng, fresh bool) Case {
	c := Case{Kind: "chan", Fresh: fresh}
	n := r.Range(4, 30)
	np := uint64(r.Range(1, 4))
	nextC, nextCh := uint64(1), uint64(1)
	var kids []uint64
	for i := 0; i < n; i++ {
		p := uint64(1 + r.Intn(int(np)))
		switch x := r.Intn(100); {
		case x < 40:
			o := COp{K: "Add", P: p}
			if fresh {
				o.C, o.Ch = nextC, nextCh
				nextC++
				nextCh++
			} else {
				o.C, o.Ch = uint64(1+r.Intn(5)), uint64(1+r.Intn(5))
			}
			switch r.Intn(25) { // the argument checks
			case 0:
				o.P = 0
			case 1:
				o.C = 0
			case 2:
				o.Ch = 0
			}
			kids = append(kids, o.C)
			c.Ops = append(c.Ops, o)
		case x < 58:
			c.Ops = append(c.Ops, COp{K: "DelChild", C: pickKid(r, kids, nextC)})
		case x < 72:
			c.Ops = append(c.Ops, COp{K: "DelCloseChild", C: pickKid(r, kids, nextC)})
		case x < 84:
			if r.Chance(1, 20) {
				p = 0
			}
			c.Ops = append(c.Ops, COp{K: "DelParent", P: p})
		default:
			if r.Chance(1, 20) {
				p = 0
			}
			c.Ops = append(c.Ops, COp{K: "DelCloseParent", P: p})
		}
	}
	return c
}

func pickKid(r *lib.Rng, kids []uint64, next uint64) uint64 {
	switch {
	case r.Chance(1, 15):
		return 0
	case r.Chance(1, 10) || len(kids) == 0:
		return next + 3 // nobody
	}
	return kids[r.Intn(len(kids))]
}

func (o COp) coq() string {
	switch o.K {
	case "Add":
		return lib.App("Add", lib.N(o.P), lib.N(o.C), lib.N(o.Ch))
	case "DelChild", "DelCloseChild":
		return lib.App(o.K, lib.N(o.C))
	}
	return lib.App(o.K, lib.N(o.P))
}

func (o CObs) coq() string {
	r := map[string]string{"ok": "ROk", "err": "RErr", "nilmap": "RPanicNilMap", "close": "RPanicClose"}[o.R]
	if r == "" {
		r = "RErr" // an unknown panic: cannot match a model run that does not refuse here... forced mismatch below
	}
	return lib.Tuple(r, lib.N(uint64(o.NP)), lib.N(uint64(o.NC)), lib.N(uint64(o.NCl)))
}

func pairs(xs [][2]uint64) string {
	ys := make([]string, len(xs))
	for i, x := range xs {
		ys[i] = lib.Tuple(lib.N(x[0]), lib.N(x[1]))
	}
	return lib.List(ys)
}

func (c Case) coq() string {
	switch c.Kind {
	case "chan":
		ops := make([]string, len(c.Ops))
		for i, o := range c.Ops {
			ops[i] = o.coq()
		}
		obs := make([]string, len(c.Obs))
		for i, o := range c.Obs {
			obs[i] = o.coq()
			if strings.HasPrefix(o.R, "other") {
				obs[i] = lib.Tuple("RPanicNilMap", lib.N(999999), lib.N(999999), lib.N(999999))
			}
		}
		final := "None"
		if c.Final != nil {
			ps := make([]string, len(c.Final.Parents))
			for i, p := range c.Final.Parents {
				ps[i] = lib.Tuple(lib.N(p.P), lib.OptionOf(!p.Nil, pairs(p.Kids)))
			}
			cl := make([]string, len(c.Final.Closed))
			for i, x := range c.Final.Closed {
				cl[i] = lib.N(x)
			}
			final = "(Some " + lib.Tuple(lib.List(ps), pairs(c.Final.PBC), lib.List(cl)) + ")"
		}
		return lib.App("CChan", lib.List(ops), lib.List(obs), final)
	case "faults":
		if c.Result.PopFinal > 0 {
			return lib.App("CScenPop", lib.List(c.Result.coqEvents()), lib.N(uint64(c.Result.Class)), lib.N(8000), lib.N(uint64(c.Result.PopFinal)))
		}
		return lib.App("CScen", lib.List(c.Result.coqEvents()), lib.N(uint64(c.Result.Class)))
	}
	return lib.App("CApi", lib.Bool(false), lib.List(c.Scen.coqApi()), lib.List(c.Result.coqApiObs()), lib.N(uint64(c.Result.Class)))
}

// ---------------------------------------------------------------- running a scenario in a child process
var className = map[int]string{0: "ok", 1: "crashed", 2: "frozen", 3: "handler-panic"}

func runScenario(sc *Scenario, dir string, id int) *ScenResult {
	in := fmt.Sprintf("%s/scen_%d_in.json", dir, id)
	outp := fmt.Sprintf("%s/scen_%d_out.jsonl", dir, id)
	b, _ := json.Marshal(sc)
	os.MkdirAll(dir, 0o755)
	os.WriteFile(in, b, 0o644)
	os.Remove(outp)
	cmd := exec.Command(os.Args[0], "child-scen", in, outp)
	var se bytes.Buffer
	cmd.Stderr = &se
	res := &ScenResult{}
	if err := cmd.Start(); err != nil {
		res.Class, res.Exit = 1, "could not start: "+err.Error()
		return res
	}
	done := make(chan error, 1)
	go func() { done <- cmd.Wait() }()
	var werr error
	timedOut := false
	select {
	case werr = <-done:
	case <-time.After(time.Duration(sc.Budget()) * time.Second):
		timedOut = true
		cmd.Process.Signal(syscall.SIGQUIT) // the Go runtime prints every goroutine's stack and exits
		select {
		case werr = <-done:
		case <-time.After(5 * time.Second):
			cmd.Process.Kill()
			werr = <-done
		}
	}
	stderr := se.String()
	// what the child got through
	if f, err := os.ReadFile(outp); err == nil {
		for _, ln := range bytes.Split(f, []byte("\n")) {
			if len(bytes.TrimSpace(ln)) == 0 {
				continue
			}
			var so StepObs
			if json.Unmarshal(ln, &so) == nil {
				if so.Dump != "" {
					res.Dump = so.Dump
					continue
				}
				if so.Done {
					res.Finished = true
					continue
				}
				if so.K == "pop-final" {
					res.PopFinal = so.Count
					continue
				}
				res.Steps = append(res.Steps, so)
			}
		}
	}
	code := 0
	if werr != nil {
		code = -1
		if ee, ok := werr.(*exec.ExitError); ok {
			code = ee.ExitCode()
		}
	}
	res.Exit = fmt.Sprintf("exit %d", code)
	crashed := strings.Contains(stderr, "fatal error:") || (strings.Contains(stderr, "panic:") && strings.Contains(stderr, "goroutine ") && !strings.Contains(stderr, "SIGQUIT"))
	switch {
	case timedOut:
		res.Class = 2
		res.Exit = "watchdog: no progress, SIGQUIT"
		res.Dump = truncate(stderr, 12000)
	case code == 3:
		res.Class = 2
	case code != 0 || !res.Finished:
		res.Class = 1
		_ = crashed
	case strings.Contains(stderr, "http: panic serving"):
		res.Class = 3
	default:
		res.Class = 0
	}
	if res.Class != 0 {
		res.Stderr = truncate(interesting(stderr), 6000)
	}
	os.Remove(in)
	os.Remove(outp)
	return res
}

// interesting cuts the noise before the first panic / fatal error line
func interesting(s string) string {
	for _, k := range []string{"fatal error:", "panic:", "http: panic serving", "SIGQUIT"} {
		if i := strings.Index(s, k); i >= 0 {
			return s[i:]
		}
	}
	return s
}

func truncate(s string, n int) string {
	if len(s) > n {
		return s[:n]
	}
	return s
}

func main() {
	if len(os.Args) > 3 && os.Args[1] == "child-scen" {
		childScenario(os.Args[2], os.Args[3])
		return
	}
	if len(os.Args) > 2 && os.Args[1] == "child-chanstress" {
		n, _ := strconv.Atoi(os.Args[2])
		chanStressChild(n)
		return
	}
	a := lib.ParseArgs()
	log.SetOutput(ioutil.Discard)
	res := lib.NewResult("C08", a.Seed, a.Tier)
	rng := lib.NewRng(a.Seed)

	var cases []Case
	if a.Replay != "" {
		var c Case
		lib.ReadReplayCase(a.Replay, &c)
		c.Result = nil
		cases = []Case{c}
	} else {
		// the history that broke chanmap before F06, and its relatives, always run first
		for _, ops := range corpusChan() {
			cases = append(cases, Case{Kind: "chan", Fresh: true, Ops: ops})
		}
		nFresh, nMal := a.Pick(300, 3000), a.Pick(120, 1000)
		for i := 0; i < nFresh; i++ {
			cases = append(cases, genChan(rng.Fork(), true))
		}
		for i := 0; i < nMal; i++ {
			cases = append(cases, genChan(rng.Fork(), false))
		}
		nFaults, nAPI := a.Pick(30, 200), a.Pick(30, 200)
		for i := 0; i < nFaults; i++ {
			cases = append(cases, Case{Kind: "faults", Scen: genFaults(rng.Fork(), i)})
		}
		// one relay with a large population (the only scenario of its size: one child, so the tier stays in budget)
		pr := rng.Fork()
		cases = append(cases, Case{Kind: "faults", Scen: &Scenario{Kind: "faults", BufferSize: 8,
			Steps: []Step{{K: "population", Msgs: pr.Range(1010, 1100)}, {K: faultKinds[pr.Intn(7)]},
				{K: "refused-handshakes", Msgs: pr.Range(10300, 10800)}}}})
		// and one whose stalled reader outstays the relay's 10 s write deadline (runs next to everything else)
		cases = append(cases, Case{Kind: "faults", Scen: &Scenario{Kind: "faults", BufferSize: 2,
			Steps: []Step{{K: "stall-flood-hold", Msgs: pr.Range(18, 24), Size: 1 << 20}, {K: faultKinds[pr.Intn(7)]}}}})
		for i := 0; i < nAPI; i++ {
			cases = append(cases, Case{Kind: "api", Scen: genAPI(rng.Fork(), i)})
		}
	}

	// ---- run
	var wg sync.WaitGroup
	sem := make(chan struct{}, 8)
	for i := range cases {
		c := &cases[i]
		switch c.Kind {
		case "chan":
			// crash journal: the store runs in this process; should it kill it, the driver names this case
			if b, err := json.Marshal(c); err == nil {
				os.WriteFile(a.Out+"/current.json", b, 0o644)
			}
			runChan(c)
		default:
			wg.Add(1)
			go func(i int) {
				defer wg.Done()
				sem <- struct{}{}
				defer func() { <-sem }()
				c.Result = runScenario(c.Scen, a.Out, i)
				if c.Result.Class != 0 && len(c.Result.Steps) == 0 {
					// nothing got through, not even the set-up: most likely the two free ports were taken
					// by somebody else between probing and listening; a real defect shows again
					c.Result = runScenario(c.Scen, a.Out, i)
				}
			}(i)
		}
	}
	os.Remove(a.Out + "/current.json")
	wg.Wait()

	// ---- oracle + emission
	coq := make([]string, len(cases))
	for i, c := range cases {
		switch c.Kind {
		case "chan":
			oracleChan(c, i, res)
			res.Count("chan:fresh=" + lib.Bool(c.Fresh))
			for _, o := range c.Ops {
				res.Count("chanop:" + o.K)
			}
			for _, o := range c.Obs {
				res.Count("chanres:" + strings.SplitN(o.R, ":", 2)[0])
			}
		default:
			oracleScenario(c, i, res)
			res.Count(c.Kind + ":class=" + className[c.Result.Class])
			res.CountN(c.Kind+":steps", len(c.Result.Steps))
			for _, st := range c.Scen.Steps {
				res.Count(c.Kind + "-step:" + st.K)
			}
			for _, so := range c.Result.Steps {
				if so.Note != "" {
					res.Count("note:" + so.Note)
				}
			}
		}
		coq[i] = c.coq()
		res.Count("kind:" + c.Kind)
		if c.Kind != "chan" || i%97 == 0 {
			res.Sample(c)
		}
		res.Cases = append(res.Cases, c)
	}
	if a.Replay == "" {
		chanStress(res, a.Pick(300, 3000))
	}
	res.Evaluations = len(cases)
	if _, err := lib.WriteShards(a.Out, "From Relay Require Import Base.Prelude Model.ChanMap Model.HubFaults Corr.C08.", "case", coq, res.ShardSize); err != nil {
		fmt.Fprintln(os.Stderr, err)
		os.Exit(2)
	}
	if err := res.Write(a.Out); err != nil {
		fmt.Fprintln(os.Stderr, err)
		os.Exit(2)
	}
}

func corpusChan() [][]COp {
	return [][]COp{
		{{K: "Add", P: 1, C: 1, Ch: 1}, {K: "DelCloseParent", P: 1}, {K: "DelChild", C: 1}, {K: "Add", P: 1, C: 2, Ch: 2}},
		{{K: "Add", P: 1, C: 1, Ch: 1}, {K: "Add", P: 1, C: 2, Ch: 2}, {K: "DelParent", P: 1}, {K: "DelCloseChild", C: 2}, {K: "Add", P: 1, C: 3, Ch: 3}, {K: "DelCloseParent", P: 1}},
		{{K: "Add", P: 2, C: 1, Ch: 1}, {K: "DelCloseParent", P: 2}, {K: "DelCloseChild", C: 1}},
	}
}
