package main

import (
	"bytes"
	"encoding/json"
	"fmt"
	"net"
	"net/http"
	"os"
	"runtime"
	"runtime/pprof"
	"sort"
	"strings"
	"sync"
	"sync/atomic"
	"time"

	"github.com/gorilla/websocket"
	"github.com/practable/relay/verifharness/lib"
	log "github.com/sirupsen/logrus"
)

// A scenario is one relay's life: the steps applied to it, in order.
type Scenario struct {
	Kind       string `json:"kind"` // faults | api
	BufferSize int    `json:"buffer_size"`
	StatsEvery int    `json:"stats_every,omitempty"` // seconds between the relay's periodic stats reports (0 = 1)
	Log        string `json:"log,omitempty"`         // trace | debug: the relay's log level (output discarded); behaviour must not depend on it
	Steps      []Step `json:"steps"`
}

type Step struct {
	K string `json:"k"`
	// faults: oversize reserved-opcode unmasked big-control truncated rst half-close stall-flood idle-stall
	Msgs int `json:"msgs,omitempty"` // stall-flood: how many messages
	Size int `json:"size,omitempty"` // stall-flood: bytes per message
	// api: session connect disconnect deny allow send
	B uint64 `json:"b,omitempty"` // booking index (0 = empty booking id)
	C uint64 `json:"c,omitempty"` // code index (as issued by the session steps, 1..; 900+ = never issued)
	N uint64 `json:"n,omitempty"` // connection name (fresh per connect)
	// deny: Exp > 0 = the deny expires that many seconds from now (default 600); wait: Dt seconds
	Exp int `json:"exp,omitempty"`
	Dt  int `json:"dt,omitempty"`
}

// Ev is one abstract event of Model/HubFaults.v
type Ev struct {
	E   string `json:"e"` // WsAdd WsRefuse Register Unregister Broadcast Drain DenyBid
	A   uint64 `json:"a,omitempty"`
	N   uint64 `json:"n,omitempty"`
	Cap int    `json:"cap,omitempty"`
}

type StepObs struct {
	Step   int      `json:"step"`
	K      string   `json:"k"`
	Answer string   `json:"answer,omitempty"` // api: ok refused unit
	Live   []uint64 `json:"live"`             // api: connections the relay lists afterwards
	Canary string   `json:"canary"`           // ok | what went wrong
	Pair   string   `json:"pair,omitempty"`   // faults: did the good writer/reader pair still relay
	Note   string   `json:"note,omitempty"`
	Events []Ev     `json:"events,omitempty"`
	Count  int      `json:"count,omitempty"` // pop-final: connections of the crowded topic the relay lists at the end
	Done   bool     `json:"done,omitempty"`
	Dump   string   `json:"dump,omitempty"`
}

type ScenResult struct {
	Class    int       `json:"class"` // 0 ok 1 crashed 2 frozen 3 handler-panic
	Exit     string    `json:"exit"`
	Finished bool      `json:"finished"`
	Steps    []StepObs `json:"steps"`
	PopFinal int       `json:"pop_final,omitempty"`
	Stderr   string    `json:"stderr,omitempty"`
	Dump     string    `json:"dump,omitempty"`
}

func (s *Scenario) Budget() int {
	b := 25
	for _, st := range s.Steps {
		b += 4
		if st.K == "stall-flood" || st.K == "status-churn-flood" || st.K == "junk-dials-during-sessions" || st.K == "stall-flood-deny" || st.K == "stall-flood-expiry" {
			b += 12
		}
		b += st.Dt
		if st.K == "population" || st.K == "refused-handshakes" {
			b += 60
		}
		if st.K == "stats-ask-and-leave" || st.K == "stall-flood-crowd" || st.K == "stall-flood-hold" {
			b += 20
		}
	}
	return b
}

var bookingNames = []string{"", "c08-bk-A", "c08-bk-B", "c08-bk-C"}

// ---------------------------------------------------------------- generators
var faultKinds = []string{"oversize", "reserved-opcode", "unmasked", "big-control", "truncated", "rst", "half-close", "stall-flood", "idle-stall",
	"status-churn-flood", "junk-dials-during-sessions", "stall-flood-deny", "stall-flood-expiry",
	"pong-unsolicited", "ping-odd", "close-odd", "fragments",
	"oversize-deflate", "truncated-readonly", "half-open-crowd", "stats-ask-and-leave", "stall-flood-crowd"}

func genFaults(r *lib.Rng, i int) *Scenario {
	sc := &Scenario{Kind: "faults", BufferSize: r.Range(1, 2), Log: []string{"", "trace", "", "debug"}[i%4]}
	n := r.Range(2, 5)
	flooded := false
	heavy := map[string]bool{}
	for k := 0; k < n; k++ {
		kind := faultKinds[r.Intn(len(faultKinds))]
		if i < len(faultKinds) && k == 0 {
			kind = faultKinds[i] // every kind appears in every run
		}
		st := Step{K: kind}
		if kind == "stall-flood" {
			if flooded {
				st.K = "rst"
			} else {
				flooded = true
				st.Msgs, st.Size = r.Range(18, 26), 1<<20
			}
		}
		if kind == "status-churn-flood" || kind == "junk-dials-during-sessions" || kind == "stall-flood-deny" || kind == "stall-flood-expiry" {
			if heavy[kind] {
				st.K = "half-close"
			}
			heavy[kind] = true
		}
		if st.K == "close-odd" {
			st.Msgs = r.Intn(5)
		}
		if st.K == "stats-ask-and-leave" || st.K == "stall-flood-crowd" {
			if heavy[st.K] {
				st.K = "rst"
			}
			heavy[kind] = true
		}
		if st.K == "stats-ask-and-leave" {
			sc.StatsEvery = 5 // like the shipped default: the periodic report is rarely due when somebody asks
		}
		if st.K == "stall-flood-crowd" {
			st.Msgs, st.Size, st.N = r.Range(22, 26), 1<<20, uint64(r.Range(17, 20)) // more stalled readers than a small fixed table holds
		}
		if st.K == "stall-flood-deny" || st.K == "stall-flood-expiry" {
			// the relay's writer for the stalled reader must be blocked in the middle of a write while the
			// reader is still registered: a queue long enough not to fill during the flood
			sc.BufferSize = 64
			st.Msgs, st.Size = r.Range(24, 28), 1<<20
		}
		sc.Steps = append(sc.Steps, st)
	}
	return sc
}

func genAPI(r *lib.Rng, i int) *Scenario {
	sc := &Scenario{Kind: "api", BufferSize: 8, Log: []string{"debug", "", "", "trace"}[i%4]}
	nb := uint64(r.Range(2, 3))
	nextCode, nextConn := uint64(1), uint64(1)
	var codes, conns []uint64
	codeBid := map[uint64]uint64{}
	connBid := map[uint64]uint64{}
	add := func(st Step) { sc.Steps = append(sc.Steps, st) }
	session := func(b uint64) {
		add(Step{K: "session", B: b, C: nextCode})
		codes = append(codes, nextCode)
		codeBid[nextCode] = b
		nextCode++
	}
	connect := func(c uint64) {
		add(Step{K: "connect", C: c, N: nextConn})
		conns = append(conns, nextConn)
		connBid[nextConn] = codeBid[c]
		nextConn++
	}
	if i%3 == 0 {
		// the shape that broke the relay before F06, somewhere in every third history
		b := uint64(r.Range(1, int(nb)))
		session(b)
		connect(nextCode - 1)
		add(Step{K: "deny", B: b})
		if r.Bool() {
			add(Step{K: "disconnect", N: nextConn - 1})
		}
		add(Step{K: "allow", B: b})
		session(b)
		connect(nextCode - 1)
	}
	if i%3 == 1 {
		// a deny whose own expiry passes before the store is pruned, then the booking is used again
		b := uint64(r.Range(1, int(nb)))
		add(Step{K: "deny", B: b, Exp: 1})
		add(Step{K: "wait", Dt: r.Range(2, 3)})
		session(b)
		if r.Bool() {
			add(Step{K: "deny", B: b, Exp: 1})
			add(Step{K: "wait", Dt: 2})
		}
		add(Step{K: "allow", B: b})
		session(b)
		connect(nextCode - 1)
	}
	n := r.Range(8, 16)
	for k := 0; k < n; k++ {
		b := uint64(r.Range(1, int(nb)))
		if r.Chance(1, 30) {
			add(Step{K: "deny", B: b, Exp: 1})
			add(Step{K: "wait", Dt: 2})
			continue
		}
		switch x := r.Intn(100); {
		case x < 22:
			if r.Chance(1, 15) {
				b = 0
			}
			session(b)
		case x < 50:
			switch {
			case len(codes) == 0 || r.Chance(1, 12):
				connect(900 + uint64(r.Intn(5)))
			default:
				connect(codes[r.Intn(len(codes))])
			}
		case x < 62:
			if len(conns) > 0 {
				add(Step{K: "disconnect", N: conns[r.Intn(len(conns))]})
			}
		case x < 76:
			add(Step{K: "deny", B: b})
		case x < 88:
			add(Step{K: "allow", B: b})
		default:
			if len(conns) > 0 {
				add(Step{K: "send", N: conns[r.Intn(len(conns))]})
			}
		}
	}
	// end by reconnecting on every booking: the relay must still admit
	for b := uint64(1); b <= nb; b++ {
		add(Step{K: "allow", B: b})
		session(b)
		connect(nextCode - 1)
	}
	return sc
}

// ---------------------------------------------------------------- Coq emission
func (r *ScenResult) coqEvents() []string {
	var xs []string
	for _, so := range r.Steps {
		for _, e := range so.Events {
			xs = append(xs, e.coq())
		}
	}
	return xs
}

func (e Ev) coq() string {
	switch e.E {
	case "WsAdd":
		return lib.App("WsAdd", lib.N(e.A), lib.N(e.N))
	case "Register":
		return lib.App("Register", lib.N(e.N), lib.N(e.A), lib.Nat(e.Cap))
	case "Broadcast":
		return lib.App("Broadcast", lib.N(e.N), lib.N(e.A))
	case "Drain":
		return lib.App("Drain", lib.N(e.N), lib.Nat(e.Cap))
	case "DenyBid":
		return lib.App("DenyBid", lib.N(e.A))
	}
	return lib.App(e.E, lib.N(e.N))
}

func (s *Scenario) coqApi() []string {
	var xs []string
	for _, st := range s.Steps {
		switch st.K {
		case "session":
			xs = append(xs, lib.App("ASession", lib.N(st.C), lib.N(st.B), lib.N(1)))
		case "connect":
			xs = append(xs, lib.App("AConnect", lib.N(st.C), lib.N(st.N), lib.Nat(s.BufferSize)))
		case "disconnect":
			xs = append(xs, lib.App("ADisconnect", lib.N(st.N)))
		case "deny":
			xs = append(xs, lib.App("ADeny", lib.N(st.B)))
		case "allow":
			xs = append(xs, lib.App("AAllow", lib.N(st.B)))
		case "send":
			xs = append(xs, lib.App("ASend", lib.N(st.N), lib.N(7)))
		}
		// "wait" is not an event of the model: nothing the relay's goroutines see happens (the deny
		// store is pruned every 10 min in these runs, an entry whose expiry has passed stays until then)
	}
	return xs
}

func (r *ScenResult) coqApiObs() []string {
	var xs []string
	for _, so := range r.Steps {
		if so.K == "wait" {
			continue
		}
		a := map[string]string{"ok": "AOk", "refused": "ARefused", "unit": "AUnit"}[so.Answer]
		if a == "" {
			a = "AUnit"
		}
		live := make([]string, len(so.Live))
		for i, v := range so.Live {
			live[i] = lib.N(v)
		}
		xs = append(xs, lib.Tuple(a, lib.List(live)))
	}
	return xs
}

// ---------------------------------------------------------------- the child: one relay, one scenario
type child struct {
	rl    *lib.Relay
	sc    *Scenario
	out   *os.File
	stats string
	adm   string
	keep  []interface{}
	mu    sync.Mutex
	hdr   int32
	next  uint64 // abstract connection names for the faults scenarios
	evs   []Ev
}

func (c *child) hold(x interface{}) { c.mu.Lock(); c.keep = append(c.keep, x); c.mu.Unlock() }

func (c *child) emit(so StepObs) {
	b, _ := json.Marshal(so)
	c.out.Write(append(b, '\n'))
	c.out.Sync()
}

// open gets a code through the access API and dials; ua tags the connection in /status.
func (c *child) open(topic, bid, ua string) (*websocket.Conn, error) {
	return c.openExp(topic, bid, ua, 300)
}

// openExp: as open, with a token that expires expIn seconds from now
func (c *child) openExp(topic, bid, ua string, expIn int64) (*websocket.Conn, error) {
	return c.openWith(topic, bid, ua, expIn, []string{"read", "write"}, false)
}

// openWith: scopes of the token, and whether the client offers permessage-deflate
func (c *child) openWith(topic, bid, ua string, expIn int64, scopes []string, deflate bool) (*websocket.Conn, error) {
	now := time.Now().Unix()
	cl := c.rl.Claims(topic, bid, scopes, now-1, now-1, now+expIn)
	st, uri, code := c.rl.Session(topic, lib.Sign(cl, c.rl.Secret))
	if st != 200 || code == "" {
		return nil, fmt.Errorf("session answered %d", st)
	}
	return c.dialWith(uri, ua, deflate)
}

func (c *child) dial(uri, ua string) (*websocket.Conn, error) { return c.dialWith(uri, ua, false) }

// every upgrade request carries the next header profile in turn (what proxies and odd clients add):
// on a correct relay none of them changes anything
func (c *child) dialWith(uri, ua string, deflate bool) (*websocket.Conn, error) {
	h := upgradeHeaders(int(atomic.AddInt32(&c.hdr, 1)))
	h.Set("User-Agent", ua)
	d := websocket.Dialer{HandshakeTimeout: 3 * time.Second, EnableCompression: deflate}
	conn, _, err := d.Dial(uri, h)
	if err != nil {
		return nil, err
	}
	c.hold(conn)
	return conn, nil
}

func upgradeHeaders(k int) http.Header {
	h := http.Header{}
	now := time.Now()
	switch k % 14 {
	case 1:
		h.Set("X-Forwarded-For", "203.0.113.7")
	case 2:
		h.Set("X-Forwarded-For", "203.0.113.7, 10.0.0.1")
	case 3:
		h.Set("X-Forwarded-For", "203.0.113.7:4711")
	case 4:
		h.Set("X-Forwarded-For", "[2001:db8::7]:443")
	case 5:
		h.Set("X-Forwarded-For", "[2001:db8::7") // a truncated IPv6 literal
	case 6:
		h.Set("X-Forwarded-For", strings.Repeat("9", 4096))
		h.Set("X-Real-Ip", "")
	case 7:
		h.Set("X-Real-Ip", "198.51.100.9")
		h.Set("Forwarded", "for=198.51.100.9;proto=https")
	case 8:
		h.Set("X-Request-Id", "req-1") // the same on many connections
		h.Set("X-Correlation-Id", "req-1")
		h.Set("Traceparent", "00-0af7651916cd43dd8448eb211c80319c-b7ad6b7169203331-01")
	case 9:
		t := now.Add(-3 * time.Second)
		h.Set("X-Request-Start", fmt.Sprintf("t=%d.%03d", t.Unix(), t.Nanosecond()/1e6))
	case 10:
		h.Set("X-Request-Start", fmt.Sprintf("t=%d.000", now.Add(time.Hour).Unix()))
	case 11:
		h.Set("X-Request-Start", "yesterday")
	case 12:
		h.Add("X-Forwarded-For", "2001:db8::7")
		h.Add("X-Forwarded-For", "192.0.2.1")
	case 13:
		h.Set("X-Forwarded-For", ", ,")
	}
	return h
}

// listed: which tagged connections does the relay itself report (GET /status)
func (c *child) listed(prefix string) ([]uint64, error) {
	reps, st := c.rl.Status(c.stats)
	if st != 200 {
		return nil, fmt.Errorf("/status answered %d", st)
	}
	out := []uint64{}
	for _, r := range reps {
		ua, _ := r["user_agent"].(string)
		if strings.HasPrefix(ua, prefix) {
			var n uint64
			fmt.Sscanf(strings.TrimPrefix(ua, prefix), "%d", &n)
			out = append(out, n)
		}
	}
	sort.Slice(out, func(i, j int) bool { return out[i] < out[j] })
	return out, nil
}

// settled polls /status until two consecutive answers agree (at least 120 ms after the step)
func (c *child) settled(prefix string) ([]uint64, error) {
	time.Sleep(60 * time.Millisecond)
	prev, err := c.listed(prefix)
	if err != nil {
		return nil, err
	}
	for i := 0; i < 30; i++ {
		time.Sleep(60 * time.Millisecond)
		cur, err := c.listed(prefix)
		if err != nil {
			return nil, err
		}
		if fmt.Sprint(cur) == fmt.Sprint(prev) {
			return cur, nil
		}
		prev = cur
	}
	return prev, nil
}

// canary: two fresh connections on a fresh topic must exchange a message within 2 s
func (c *child) canary(i int) (string, []Ev) {
	topic := fmt.Sprintf("canary%d", i%2)
	a, err := c.open(topic, "c08-canary-bk", "c08-canary")
	if err != nil {
		return "canary sender could not connect: " + err.Error(), nil
	}
	b, err := c.open(topic, "c08-canary-bk", "c08-canary")
	if err != nil {
		return "canary receiver could not connect: " + err.Error(), nil
	}
	defer a.Close()
	defer b.Close()
	na, nb := c.fresh(), c.fresh()
	t := 5000 + uint64(i%2)
	evs := []Ev{{E: "WsAdd", A: 50, N: na}, {E: "Register", N: na, A: t, Cap: c.sc.BufferSize},
		{E: "WsAdd", A: 50, N: nb}, {E: "Register", N: nb, A: t, Cap: c.sc.BufferSize},
		{E: "Broadcast", N: na, A: 1}, {E: "Drain", N: nb, Cap: 1}, {E: "Unregister", N: na}, {E: "Unregister", N: nb}}
	got := make(chan error, 1)
	go func() {
		_, data, err := lib.ReadOne(b, 2*time.Second)
		if err == nil && string(data) != "canary" {
			err = fmt.Errorf("unexpected payload %q", truncate(string(data), 40))
		}
		got <- err
	}()
	deadline := time.Now().Add(2 * time.Second)
	for time.Now().Before(deadline) {
		a.SetWriteDeadline(time.Now().Add(time.Second))
		if err := a.WriteMessage(websocket.TextMessage, []byte("canary")); err != nil {
			return "canary sender could not write: " + err.Error(), evs
		}
		select {
		case err := <-got:
			if err != nil {
				return "canary receiver: " + err.Error(), evs
			}
			return "ok", evs
		case <-time.After(40 * time.Millisecond):
		}
	}
	if err := <-got; err != nil {
		return "no canary message within 2 s: " + err.Error(), evs
	}
	return "ok", evs
}

func (c *child) fresh() uint64 { c.next++; return 1000 + c.next }

func (c *child) fail(i int, so StepObs) {
	c.emit(so)
	var buf bytes.Buffer
	pprof.Lookup("goroutine").WriteTo(&buf, 2)
	c.emit(StepObs{Step: i, Dump: truncate(hubStacks(buf.String()), 12000)})
	os.Exit(3)
}

// hubStacks keeps the goroutines of the relay that matter for a freeze (hub, deny loop, handlers)
func hubStacks(all string) string {
	var keep []string
	for _, g := range strings.Split(all, "\n\n") {
		if strings.Contains(g, "crossbar.(*Hub).run") || strings.Contains(g, "handleConnections") || strings.Contains(g, "crossbar.serveWs") || strings.Contains(g, "chanmap.") ||
			strings.Contains(g, "GetStats") || strings.Contains(g, "statsReporter") || (strings.Contains(g, "readPump") && strings.Contains(g, "sync.")) {
			keep = append(keep, g)
		}
	}
	if len(keep) == 0 {
		return all
	}
	rank := func(g string) int { // the hub loop first, then whoever holds or waits for the hub's lock
		switch {
		case strings.Contains(g, "crossbar.(*Hub).run"):
			return 0
		case strings.Contains(g, "GetStats") || strings.Contains(g, "statsReporter"):
			return 1
		case strings.Contains(g, "readPump"):
			return 2
		}
		return 3
	}
	sort.SliceStable(keep, func(i, j int) bool { return rank(keep[i]) < rank(keep[j]) })
	if len(keep) > 12 {
		keep = keep[:12]
	}
	return strings.Join(keep, "\n\n")
}

func childScenario(inPath, outPath string) {
	b, err := os.ReadFile(inPath)
	if err != nil {
		fmt.Fprintln(os.Stderr, err)
		os.Exit(4)
	}
	var sc Scenario
	if err := json.Unmarshal(b, &sc); err != nil {
		fmt.Fprintln(os.Stderr, err)
		os.Exit(4)
	}
	f, err := os.Create(outPath)
	if err != nil {
		fmt.Fprintln(os.Stderr, err)
		os.Exit(4)
	}
	rl := lib.StartRelay(lib.RelayOpts{BufferSize: int64(sc.BufferSize), PruneEvery: 10 * time.Minute, StatsEvery: time.Duration(sc.StatsEvery) * time.Second})
	switch sc.Log {
	case "trace":
		log.SetLevel(log.TraceLevel)
	case "debug":
		log.SetLevel(log.DebugLevel)
	}
	c := &child{rl: rl, sc: &sc, out: f, stats: rl.AdminBearer("relay:stats"), adm: rl.AdminBearer("relay:admin")}
	if sc.Kind == "faults" {
		c.runFaults()
	} else {
		c.runAPI()
	}
	c.emit(StepObs{Done: true})
	runtime.KeepAlive(c.keep)
	os.Exit(0)
}

// ---------------------------------------------------------------- client faults
func frame(opcode byte, masked bool, payload []byte) []byte {
	return frameFin(true, opcode, masked, payload)
}

// frameFin: one websocket frame as a client would send it; fin=false leaves the message open
func frameFin(fin bool, opcode byte, masked bool, payload []byte) []byte {
	var b []byte
	if fin {
		opcode |= 0x80
	}
	b = append(b, opcode)
	mb := byte(0)
	if masked {
		mb = 0x80
	}
	switch n := len(payload); {
	case n < 126:
		b = append(b, mb|byte(n))
	default:
		b = append(b, mb|126, byte(n>>8), byte(n))
	}
	if masked {
		key := []byte{1, 2, 3, 4}
		b = append(b, key...)
		for i, x := range payload {
			b = append(b, x^key[i%4])
		}
	} else {
		b = append(b, payload...)
	}
	return b
}

func (c *child) runFaults() {
	const topic = "c08topic"
	cp := c.sc.BufferSize
	w, err := c.open(topic, "c08-bk-W", "c08-conn-1")
	if err != nil {
		c.fail(-1, StepObs{Step: -1, K: "setup", Canary: "good writer could not connect: " + err.Error()})
	}
	r, err := c.open(topic, "c08-bk-R", "c08-conn-2")
	if err != nil {
		c.fail(-1, StepObs{Step: -1, K: "setup", Canary: "good reader could not connect: " + err.Error()})
	}
	const W, R = 1, 2
	setup := []Ev{{E: "WsAdd", A: 1, N: W}, {E: "Register", N: W, A: 1, Cap: cp}, {E: "WsAdd", A: 2, N: R}, {E: "Register", N: R, A: 1, Cap: cp}}
	go func() { // the writer also drains whatever it is sent
		for {
			if _, _, err := w.ReadMessage(); err != nil {
				return
			}
		}
	}()
	seq := 0
	// relay sends one message from the good writer and waits until the good reader has it
	relay := func(size int) error {
		seq++
		payload := make([]byte, size)
		copy(payload, fmt.Sprintf("m%06d", seq))
		w.SetWriteDeadline(time.Now().Add(3 * time.Second))
		if err := w.WriteMessage(websocket.BinaryMessage, payload); err != nil {
			return fmt.Errorf("good writer cannot write: %v", err)
		}
		got := 0
		for got < size { // the relay may split or join messages only for queued ones; in lock-step it is 1:1
			_, data, err := lib.ReadOne(r, 3*time.Second)
			if err != nil {
				return fmt.Errorf("good reader did not get message %d (%d of %d bytes): %v", seq, got, size, err)
			}
			if got == 0 && bytes.HasPrefix(data, []byte("late-")) {
				continue // a reader that was dropped as slow may still write: that is a message like any other
			}
			if got == 0 && !bytes.HasPrefix(data, []byte(fmt.Sprintf("m%06d", seq))) {
				return fmt.Errorf("good reader got something else than message %d (%d bytes)", seq, len(data))
			}
			got += len(data)
		}
		return nil
	}
	// wait until both are registered: first message may be sent before the reader is in the hub
	for i := 0; i < 40; i++ {
		if l, err := c.listed("c08-conn-"); err == nil && len(l) == 2 {
			break
		}
		time.Sleep(25 * time.Millisecond)
	}
	if err := relay(64); err != nil {
		c.fail(-1, StepObs{Step: -1, K: "setup", Canary: "ok", Pair: err.Error(), Events: setup})
	}
	c.evs = append(setup, Ev{E: "Broadcast", N: W, A: 1}, Ev{E: "Drain", N: R, Cap: 1})
	c.next = 2
	for i, st := range c.sc.Steps {
		so := StepObs{Step: i, K: st.K, Live: []uint64{}}
		if st.K == "status-churn-flood" || st.K == "junk-dials-during-sessions" || st.K == "population" || st.K == "half-open-crowd" ||
			st.K == "refused-handshakes" || st.K == "stats-ask-and-leave" {
			switch st.K {
			case "half-open-crowd":
				so.Note = c.halfOpenCrowd()
			case "refused-handshakes":
				so.Note = c.refusedHandshakes(st.Msgs)
			case "stats-ask-and-leave":
				so.Note = c.statsAskAndLeave(i)
			case "status-churn-flood":
				so.Note = c.statusChurnFlood(i)
			case "junk-dials-during-sessions":
				so.Note = c.junkDialsDuringSessions(i)
			default:
				var failed string
				so.Note, failed = c.population(i, st.Msgs)
				if failed != "" {
					so.Canary = failed
					so.Events = c.take()
					c.fail(i, so)
				}
			}
			if err := relay(64); err != nil {
				so.Pair = err.Error()
			} else {
				so.Pair = "ok"
				c.evs = append(c.evs, Ev{E: "Broadcast", N: W, A: 2}, Ev{E: "Drain", N: R, Cap: 1})
			}
			var cev []Ev
			so.Canary, cev = c.canary(i)
			c.evs = append(c.evs, cev...)
			so.Events = c.take()
			if so.Canary != "ok" {
				c.fail(i, so)
			}
			c.emit(so)
			continue
		}
		n := uint64(100 + i) // abstract name of the faulty connection
		expIn := int64(300)
		if st.K == "stall-flood-expiry" {
			expIn = 3 // the token runs out while the relay's writer for this connection is blocked
		}
		fbid := fmt.Sprintf("c08-bk-F%d", i)
		opened := time.Now()
		scopes := []string{"read", "write"}
		if st.K == "truncated-readonly" {
			scopes = []string{"read"} // a connection without write scope can still send bytes
		}
		f, err := c.openWith(topic, fbid, fmt.Sprintf("c08-conn-%d", n), expIn, scopes, st.K == "oversize-deflate")
		if err != nil {
			so.Canary = "the relay no longer admits connections: " + err.Error()
			so.Events = c.take()
			c.fail(i, so)
		}
		c.evs = append(c.evs, Ev{E: "WsAdd", A: uint64(10 + i), N: n}, Ev{E: "Register", N: n, A: 1, Cap: cp})
		tcp, _ := f.UnderlyingConn().(*net.TCPConn)
		gone := true // does this fault end the connection (as the relay sees it)
		switch st.K {
		case "oversize", "oversize-deflate":
			size := 10*1024*1024 + 1024
			if st.K == "oversize-deflate" {
				size = 24 << 20 // zeros: if the relay negotiated permessage-deflate this is a few KB on the wire
			}
			f.SetWriteDeadline(time.Now().Add(5 * time.Second))
			f.WriteMessage(websocket.BinaryMessage, make([]byte, size))
			// a message over the limit gets its sender closed (1009), and nobody is sent any of it
			so.Note = "oversize-not-refused"
			deadline := time.Now().Add(3 * time.Second)
			for {
				_, _, err := lib.ReadOne(f, time.Until(deadline))
				if err == nil {
					continue // something relayed from the topic: keep reading
				}
				switch {
				case lib.IsTimeout(err):
				case websocket.IsCloseError(err, websocket.CloseMessageTooBig):
					so.Note = "oversize-closed-1009"
				default:
					so.Note = "oversize-closed"
				}
				break
			}
			// (that nobody is sent any of it shows at the good reader's next message: a read with a deadline
			// that expires would poison the reader's connection, so it is not probed here)
		case "truncated-readonly":
			tcp.Write([]byte{0x82, 0x80 | 126, 0x03, 0xe8, 1, 2, 3, 4}) // announces 1000 bytes ...
			tcp.Write(bytes.Repeat([]byte{0}, 10))                      // ... sends ten
			tcp.CloseWrite()                                            // ... and hangs up its side
		case "reserved-opcode":
			tcp.Write(frame(0x3, true, []byte("reserved")))
		case "unmasked":
			tcp.Write(frame(0x1, false, []byte("not masked")))
		case "big-control":
			tcp.Write(frame(0x9, true, bytes.Repeat([]byte("p"), 200)))
		case "truncated":
			tcp.Write([]byte{0x82, 0x80 | 126, 0x03})
			tcp.SetLinger(0)
			tcp.Close()
		case "rst":
			tcp.SetLinger(0)
			tcp.Close()
		case "half-close":
			tcp.CloseWrite()
		case "idle-stall":
			tcp.SetReadBuffer(4096)
			gone = false
		case "pong-unsolicited":
			// RFC 6455 allows a pong nobody asked for, with any payload up to 125 bytes
			for _, n := range []int{0, 1, 7, 8, 9, 125} {
				tcp.Write(frame(0xA, true, bytes.Repeat([]byte{0xfe}, n)))
				time.Sleep(15 * time.Millisecond)
			}
			time.Sleep(100 * time.Millisecond)
			tcp.SetLinger(0)
			tcp.Close()
		case "ping-odd":
			for _, pl := range [][]byte{{}, {0}, []byte("\xff\xfe\x00"), bytes.Repeat([]byte("z"), 125), []byte("12345678")} {
				tcp.Write(frame(0x9, true, pl))
				time.Sleep(15 * time.Millisecond)
			}
			time.Sleep(100 * time.Millisecond)
			tcp.SetLinger(0)
			tcp.Close()
		case "close-odd":
			switch st.Msgs {
			case 0:
				tcp.Write(frame(0x8, true, []byte{}))
			case 1:
				tcp.Write(frame(0x8, true, []byte{0x03})) // a status code needs two bytes
			case 2:
				tcp.Write(frame(0x8, true, []byte{0x03, 0xe7})) // 999: not a valid status
			case 3:
				tcp.Write(frame(0x8, true, append([]byte{0x03, 0xe8}, 0xff, 0xfe))) // 1000 + invalid UTF-8 reason
			default:
				tcp.Write(frame(0x8, true, append([]byte{0x03, 0xe8}, bytes.Repeat([]byte("r"), 123)...)))
				tcp.Write(frame(0x1, true, []byte("after close")))
			}
		case "fragments":
			// a text message in three fragments (one of them empty) with a ping in between, then a binary one
			// whose last fragment is empty: both are whole messages for the topic
			tcp.Write(frameFin(false, 0x1, true, []byte("frag-a:")))
			tcp.Write(frameFin(false, 0x0, true, []byte{}))
			tcp.Write(frame(0x9, true, []byte("mid")))
			tcp.Write(frameFin(true, 0x0, true, []byte("end")))
			tcp.Write(frameFin(false, 0x2, true, []byte("frag-b:end")))
			tcp.Write(frameFin(true, 0x0, true, []byte{}))
			// (the relay may hand two queued messages to a reader in one frame: compare the byte stream)
			so.Note = "fragments-not-relayed-whole"
			got := ""
			for len(got) < len("frag-a:endfrag-b:end") {
				_, data, err := lib.ReadOne(r, 2*time.Second)
				if err != nil {
					break
				}
				got += string(data)
			}
			if got == "frag-a:endfrag-b:end" {
				so.Note = "fragments-relayed"
				c.evs = append(c.evs, Ev{E: "Broadcast", N: n, A: 4}, Ev{E: "Broadcast", N: n, A: 5}, Ev{E: "Drain", N: R, Cap: 2})
			}
			tcp.SetLinger(0)
			tcp.Close()
		case "stall-flood-deny", "stall-flood-expiry":
			tcp.SetReadBuffer(4096) // never read: after a few MiB the relay's writer for this connection blocks mid-write
			gone = false
			for k := 0; k < st.Msgs; k++ {
				if err := relay(st.Size); err != nil {
					so.Pair = err.Error()
					break
				}
				c.evs = append(c.evs, Ev{E: "Broadcast", N: W, A: uint64(100 + k)}, Ev{E: "Drain", N: R, Cap: 1})
			}
			if st.K == "stall-flood-deny" {
				// ... and now its booking is cancelled
				rs := c.rl.Deny(fbid, time.Now().Unix()+600, c.adm)
				if rs.Err != nil || rs.Status != 204 {
					so.Note = "deny-not-accepted"
				}
				c.evs = append(c.evs, Ev{E: "DenyBid", A: uint64(10 + i)})
			} else {
				time.Sleep(time.Until(opened.Add(4200 * time.Millisecond))) // ... and now its token has expired
			}
			time.Sleep(400 * time.Millisecond)
			if so.Note == "" {
				so.Note = "stalled-reader-closed-by-relay"
				if l, err := c.listed("c08-conn-"); err == nil {
					for _, x := range l {
						if x == n {
							so.Note = "stalled-reader-still-listed"
						}
					}
				}
			}
			tcp.SetLinger(0)
			tcp.Close()
			c.evs = append(c.evs, Ev{E: "Unregister", N: n})
			time.Sleep(150 * time.Millisecond)
		case "stall-flood", "stall-flood-crowd", "stall-flood-hold":
			tcp.SetReadBuffer(4096) // and never read: the relay's writer for this connection blocks once the kernel buffers are full
			gone = false
			var crowd []*net.TCPConn
			var crowdNames []uint64
			if st.K == "stall-flood-crowd" {
				// many readers stall together, so that they all overflow on the same message
				for k := 0; k < int(st.N); k++ {
					name := uint64(30000 + 100*i + k)
					x, err := c.open(topic, fmt.Sprintf("c08-bk-F%d-%d", i, k), fmt.Sprintf("c08-conn-%d", name))
					if err != nil {
						continue
					}
					xt, _ := x.UnderlyingConn().(*net.TCPConn)
					xt.SetReadBuffer(4096)
					crowd = append(crowd, xt)
					crowdNames = append(crowdNames, name)
					c.evs = append(c.evs, Ev{E: "WsAdd", A: uint64(10 + i), N: name}, Ev{E: "Register", N: name, A: 1, Cap: cp})
				}
			}
			for k := 0; k < st.Msgs; k++ {
				if err := relay(st.Size); err != nil {
					so.Pair = err.Error()
					break
				}
				c.evs = append(c.evs, Ev{E: "Broadcast", N: W, A: uint64(100 + k)}, Ev{E: "Drain", N: R, Cap: 1})
			}
			if l, err := c.listed("c08-conn-"); err == nil {
				so.Note = "flooded-reader-still-listed"
				found := false
				for _, x := range l {
					if x == n {
						found = true
					}
				}
				if !found {
					so.Note = "flooded-reader-evicted"
				}
			}
			if st.K == "stall-flood-hold" {
				// the stalled client stays for longer than the relay's write deadline (10 s): the relay has to
				// get rid of it on its own
				time.Sleep(11500 * time.Millisecond)
				so.Note = "held-reader-still-listed"
				if l, err := c.listed("c08-conn-"); err == nil {
					found := false
					for _, x := range l {
						found = found || x == n
					}
					if !found {
						so.Note = "held-reader-gone-after-write-deadline"
					}
				}
			}
			// a client that has been dropped as slow may still write
			f.SetWriteDeadline(time.Now().Add(time.Second))
			if f.WriteMessage(websocket.TextMessage, []byte("late-message")) == nil {
				c.evs = append(c.evs, Ev{E: "Broadcast", N: n, A: 6}, Ev{E: "Drain", N: R, Cap: 1})
				time.Sleep(100 * time.Millisecond)
			}
			// ... and then the stalled client goes away: the relay's blocked writer and its reader both end
			tcp.SetLinger(0)
			tcp.Close()
			c.evs = append(c.evs, Ev{E: "Unregister", N: n})
			for k, x := range crowd {
				x.SetLinger(0)
				x.Close()
				c.evs = append(c.evs, Ev{E: "Unregister", N: crowdNames[k]})
			}
			time.Sleep(150 * time.Millisecond)
		}
		if gone {
			c.evs = append(c.evs, Ev{E: "Unregister", N: n})
		}
		// the good pair on the same topic must be unaffected
		if so.Pair == "" {
			if err := relay(64); err != nil {
				so.Pair = err.Error()
				if strings.HasPrefix(st.K, "oversize") && strings.Contains(so.Pair, "something else") {
					so.Note = "oversize-relayed: " + so.Pair
				}
			} else {
				so.Pair = "ok"
				c.evs = append(c.evs, Ev{E: "Broadcast", N: W, A: 2}, Ev{E: "Drain", N: R, Cap: 1})
			}
		}
		var cev []Ev
		so.Canary, cev = c.canary(i)
		c.evs = append(c.evs, cev...)
		so.Events = c.take()
		if so.Canary != "ok" {
			c.fail(i, so)
		}
		c.emit(so)
	}
	for _, st := range c.sc.Steps {
		if st.K == "population" {
			if l, err := c.settled("c08-pop-"); err == nil {
				c.emit(StepObs{K: "pop-final", Count: len(l), Canary: "ok"})
			}
			break
		}
	}
}

// statusChurnFlood: for about 3 s, three writers flood a second topic, two goroutines fetch GET /status
// in a tight loop (the statistics of every connection are read under the hub's lock), and three
// goroutines connect and disconnect all the time (register / unregister need the hub's lock for
// writing). Nothing here is a fault of any single client; together they exercise every lock the hub
// loop shares with the rest of the relay. The events are abstracted to: the churn connections'
// admissions and departures, and at most 40 of the flood's broadcasts.
func (c *child) statusChurnFlood(i int) string {
	topic := fmt.Sprintf("c08flood%d", i)
	t := uint64(7000 + i)
	stop := make(chan struct{})
	var wg sync.WaitGroup
	var mu sync.Mutex
	var evs []Ev
	sent, polls, churns := 0, 0, 0
	base := uint64(20000 + 1000*i)
	// one reader that drains, three writers that flood
	rd, err := c.open(topic, "c08-bk-FR", "c08-flood")
	if err == nil {
		evs = append(evs, Ev{E: "WsAdd", A: 30, N: base}, Ev{E: "Register", N: base, A: t, Cap: c.sc.BufferSize})
		go func() {
			for {
				if _, _, err := rd.ReadMessage(); err != nil {
					return
				}
			}
		}()
	}
	for g := 0; g < 3; g++ {
		name := base + 1 + uint64(g)
		w, err := c.open(topic, fmt.Sprintf("c08-bk-FW%d", g), "c08-flood")
		if err != nil {
			continue
		}
		evs = append(evs, Ev{E: "WsAdd", A: uint64(31 + g), N: name}, Ev{E: "Register", N: name, A: t, Cap: c.sc.BufferSize})
		go func() { // a writer is also sent the others' messages
			for {
				if _, _, err := w.ReadMessage(); err != nil {
					return
				}
			}
		}()
		wg.Add(1)
		go func() {
			defer wg.Done()
			payload := bytes.Repeat([]byte("f"), 512)
			for {
				select {
				case <-stop:
					return
				default:
				}
				w.SetWriteDeadline(time.Now().Add(2 * time.Second))
				if err := w.WriteMessage(websocket.BinaryMessage, payload); err != nil {
					return
				}
				mu.Lock()
				sent++
				if sent <= 40 {
					evs = append(evs, Ev{E: "Broadcast", N: name, A: 3})
				}
				mu.Unlock()
			}
		}()
	}
	for g := 0; g < 2; g++ {
		wg.Add(1)
		go func() {
			defer wg.Done()
			for {
				select {
				case <-stop:
					return
				default:
				}
				c.rl.Status(c.stats)
				mu.Lock()
				polls++
				mu.Unlock()
			}
		}()
	}
	for g := 0; g < 3; g++ {
		wg.Add(1)
		go func(g int) {
			defer wg.Done()
			for k := 0; ; k++ {
				select {
				case <-stop:
					return
				default:
				}
				conn, err := c.open(topic, fmt.Sprintf("c08-bk-CH%d", g), "c08-churn")
				if err != nil {
					time.Sleep(20 * time.Millisecond)
					continue
				}
				mu.Lock()
				churns++
				name := base + 100 + uint64(churns)
				if churns <= 60 {
					evs = append(evs, Ev{E: "WsAdd", A: uint64(40 + g), N: name}, Ev{E: "Register", N: name, A: t, Cap: c.sc.BufferSize}, Ev{E: "Unregister", N: name})
				}
				mu.Unlock()
				time.Sleep(time.Duration(5+k%7) * time.Millisecond)
				conn.Close()
			}
		}(g)
	}
	time.Sleep(3 * time.Second)
	close(stop)
	done := make(chan struct{})
	go func() { wg.Wait(); close(done) }()
	select {
	case <-done:
	case <-time.After(8 * time.Second): // a frozen relay leaves writers and pollers stuck; the canary will tell
	}
	mu.Lock()
	c.evs = append(c.evs, evs...)
	note := fmt.Sprintf("status-churn-flood:sent>=%d,polls>=%d,churns>=%d", bucket(sent), bucket(polls), bucket(churns))
	mu.Unlock()
	return note
}

// population: more than a thousand idle connections at once (thresholds in reply sizes, map growth, lock
// hold times only show with numbers like these), the relay's own listing of them, 300 bookings with
// three codes each of which 50 are then denied; canary; a hundred of the connections leave; canary.
func (c *child) population(i, n int) (string, string) {
	const topic = "c08pop"
	t := uint64(8000)
	base := uint64(50000)
	conns := make([]*websocket.Conn, n)
	var wg sync.WaitGroup
	sem := make(chan struct{}, 32)
	for k := 0; k < n; k++ {
		wg.Add(1)
		go func(k int) {
			defer wg.Done()
			sem <- struct{}{}
			defer func() { <-sem }()
			for try := 0; try < 3 && conns[k] == nil; try++ {
				if conn, err := c.open(topic, "c08-bk-pop", fmt.Sprintf("c08-pop-%d", k)); err == nil {
					conns[k] = conn
				}
			}
		}(k)
	}
	wg.Wait()
	up := 0
	for k, conn := range conns {
		if conn != nil {
			up++
			c.evs = append(c.evs, Ev{E: "WsAdd", A: 70, N: base + uint64(k)}, Ev{E: "Register", N: base + uint64(k), A: t, Cap: c.sc.BufferSize})
		}
	}
	if up < n {
		return fmt.Sprintf("population:only-%d-of-%d-connected", bucket(up), n), fmt.Sprintf("the relay stopped admitting connections: %d of %d idle connections got in", up, n)
	}
	// the relay's own list must hold every one of them
	listed := -1
	for try := 0; try < 20; try++ {
		if l, err := c.listed("c08-pop-"); err == nil {
			listed = len(l)
			if listed == up {
				break
			}
		}
		time.Sleep(50 * time.Millisecond)
	}
	note := "population:status-lists-all"
	if listed != up {
		note = fmt.Sprintf("population:status-lists-%d-of-%d", listed, up)
	}
	// many bookings with a few codes each, some of them cancelled
	for b := 0; b < 300; b++ {
		wg.Add(1)
		go func(b int) {
			defer wg.Done()
			sem <- struct{}{}
			defer func() { <-sem }()
			now := time.Now().Unix()
			cl := c.rl.Claims("c08many", fmt.Sprintf("c08-bk-M%d", b), []string{"read", "write"}, now-1, now-1, now+300)
			tok := lib.Sign(cl, c.rl.Secret)
			for k := 0; k < 3; k++ {
				c.rl.Session("c08many", tok)
			}
		}(b)
	}
	wg.Wait()
	for b := 0; b < 50; b++ {
		c.rl.Deny(fmt.Sprintf("c08-bk-M%d", b*6), time.Now().Unix()+600, c.adm)
		c.evs = append(c.evs, Ev{E: "DenyBid", A: uint64(3000 + b)})
	}
	if res, cev := c.canary(9000 + i); res != "ok" {
		return note, "with " + fmt.Sprint(up) + " connections registered and after one GET /status: " + res
	} else {
		c.evs = append(c.evs, cev...)
	}
	for k := 0; k < 100 && k < n; k++ {
		conns[k].Close()
		c.evs = append(c.evs, Ev{E: "Unregister", N: base + uint64(k)})
	}
	time.Sleep(200 * time.Millisecond)
	if l, err := c.listed("c08-pop-"); err == nil && len(l) != up-100 {
		time.Sleep(500 * time.Millisecond)
		if l, err = c.listed("c08-pop-"); err == nil && len(l) != up-100 {
			note += fmt.Sprintf(",after-100-left-lists-%d", len(l))
		}
	}
	return note, "" // the caller runs the second canary
}

// halfOpenCrowd: eighty peers that stop in the middle of the upgrade request and forty that stop in the
// middle of an API request, all held open: valid requests must still be served promptly (the canary and
// the good pair that follow say so)
func (c *child) halfOpenCrowd() string {
	ws := strings.TrimPrefix(c.rl.Target, "ws://")
	api := strings.TrimPrefix(c.rl.AccessURL, "http://")
	opened := 0
	for k := 0; k < 120; k++ {
		addr, req := ws, "GET /session/c08topic?code=x HTTP/1.1\r\nHost: "+ws+"\r\nUpgrade: websocket\r\nConnection: Upgr"
		if k >= 80 {
			addr, req = api, "POST /session/c08topic HTTP/1.1\r\nHost: "+api+"\r\nAuthorization: ey"
		}
		conn, err := net.DialTimeout("tcp", addr, time.Second)
		if err != nil {
			continue
		}
		conn.Write([]byte(req[:len(req)-k%7]))
		c.hold(conn)
		opened++
	}
	return fmt.Sprintf("half-open-crowd:%d", bucket(opened))
}

// refusedHandshakes: thousands of websocket handshakes that the relay refuses after the upgrade (no code, a
// code nobody issued, a stale code), one after the other over the life of the process, each client gone
// at once. Whatever the relay keeps per refused handshake must not add up to anything.
func (c *child) refusedHandshakes(total int) string {
	var wg sync.WaitGroup
	var done int32
	for g := 0; g < 32; g++ {
		wg.Add(1)
		go func(g int) {
			defer wg.Done()
			d := websocket.Dialer{HandshakeTimeout: 2 * time.Second}
			for {
				k := int(atomic.AddInt32(&done, 1))
				if k > total {
					return
				}
				u := c.rl.Target + "/session/c08topic"
				switch k % 3 {
				case 1:
					u += fmt.Sprintf("?code=nobody-%d", k)
				case 2:
					u += "?code=00000000-0000-4000-8000-000000000000"
				}
				if conn, _, err := d.Dial(u, nil); err == nil {
					conn.Close()
				}
			}
		}(g)
	}
	wg.Wait()
	return fmt.Sprintf("refused-handshakes:%d", bucket(total))
}

// statsAskAndLeave: a viewer of the relay's own statistics topic asks for an update, gets it, asks again and is
// gone before the answer can come (a page that is reloaded or closed)
func (c *child) statsAskAndLeave(i int) string {
	note := "stats-viewer:answered"
	for round := 0; round < 2; round++ {
		name := uint64(40000 + 10*i + round)
		v, err := c.open("stats", "c08-bk-stats", "c08-stats-viewer")
		if err != nil {
			return "stats-viewer:not-connected"
		}
		c.evs = append(c.evs, Ev{E: "WsAdd", A: 80, N: name}, Ev{E: "Register", N: name, A: 9000, Cap: c.sc.BufferSize})
		v.SetWriteDeadline(time.Now().Add(time.Second))
		v.WriteMessage(websocket.TextMessage, []byte(`{"cmd":"update"}`))
		c.evs = append(c.evs, Ev{E: "Broadcast", N: name, A: 8})
		if _, _, err := lib.ReadOne(v, 3*time.Second); err != nil {
			note = "stats-viewer:no-answer"
		}
		v.SetWriteDeadline(time.Now().Add(time.Second))
		v.WriteMessage(websocket.TextMessage, []byte(`{"cmd":"update"}`))
		v.Close()
		c.evs = append(c.evs, Ev{E: "Broadcast", N: name, A: 8}, Ev{E: "Unregister", N: name})
		time.Sleep(1300 * time.Millisecond) // the reporter's round
	}
	return note
}

func bucket(n int) int {
	b := 0
	for _, x := range []int{10, 100, 1000, 10000, 100000} {
		if n >= x {
			b = x
		}
	}
	return b
}

// junkDialsDuringSessions: for about 1.5 s, eight goroutines present websocket connections with codes
// nobody issued while eight goroutines are being granted sessions (each grant stores a code), and a
// booking is denied now and then (which purges its codes). Every dial must simply be refused.
func (c *child) junkDialsDuringSessions(i int) string {
	const topic = "c08junk"
	stop := make(chan struct{})
	var wg sync.WaitGroup
	var mu sync.Mutex
	dials, grants, denies := 0, 0, 0
	for g := 0; g < 8; g++ {
		wg.Add(1)
		go func(g int) {
			defer wg.Done()
			for k := 0; ; k++ {
				select {
				case <-stop:
					return
				default:
				}
				mu.Lock()
				over := dials >= 1200
				dials++
				mu.Unlock()
				if over {
					time.Sleep(5 * time.Millisecond)
					continue
				}
				d := websocket.Dialer{HandshakeTimeout: 2 * time.Second}
				conn, _, err := d.Dial(fmt.Sprintf("%s/session/%s?code=junk-%d-%d-%d", c.rl.Target, topic, i, g, k), nil)
				if err == nil {
					conn.Close()
				}
			}
		}(g)
	}
	for g := 0; g < 8; g++ {
		wg.Add(1)
		go func(g int) {
			defer wg.Done()
			for {
				select {
				case <-stop:
					return
				default:
				}
				now := time.Now().Unix()
				cl := c.rl.Claims(topic, fmt.Sprintf("c08-bk-J%d", g%4), []string{"read", "write"}, now-1, now-1, now+300)
				c.rl.Session(topic, lib.Sign(cl, c.rl.Secret))
				mu.Lock()
				grants++
				mu.Unlock()
			}
		}(g)
	}
	wg.Add(1)
	go func() {
		defer wg.Done()
		for k := 0; ; k++ {
			select {
			case <-stop:
				return
			case <-time.After(100 * time.Millisecond):
			}
			bid := fmt.Sprintf("c08-bk-J%d", k%4)
			c.rl.Deny(bid, time.Now().Unix()+600, c.adm)
			c.rl.Allow(bid, time.Now().Unix()+600, c.adm)
			mu.Lock()
			denies++
			c.evs = append(c.evs, Ev{E: "DenyBid", A: uint64(60 + k%4)})
			mu.Unlock()
		}
	}()
	time.Sleep(1500 * time.Millisecond)
	close(stop)
	done := make(chan struct{})
	go func() { wg.Wait(); close(done) }()
	select {
	case <-done:
	case <-time.After(8 * time.Second):
	}
	mu.Lock()
	defer mu.Unlock()
	return fmt.Sprintf("junk-dials:dials>=%d,grants>=%d", bucket(dials), bucket(grants))
}

func (c *child) take() []Ev { e := c.evs; c.evs = nil; return e }

// ---------------------------------------------------------------- API histories
func (c *child) runAPI() {
	const topic = "c08api"
	uris := map[uint64]string{}
	conns := map[uint64]*websocket.Conn{}
	for i, st := range c.sc.Steps {
		so := StepObs{Step: i, K: st.K, Answer: "unit"}
		switch st.K {
		case "session":
			now := time.Now().Unix()
			cl := c.rl.Claims(topic, bookingNames[st.B], []string{"read", "write"}, now-1, now-1, now+300)
			code, uri, _ := c.rl.Session(topic, lib.Sign(cl, c.rl.Secret))
			if code == 200 && uri != "" {
				uris[st.C] = uri
				so.Answer = "ok"
			} else {
				so.Answer = "refused"
			}
		case "connect":
			uri, ok := uris[st.C]
			if !ok {
				uri = c.rl.Target + "/session/" + topic + fmt.Sprintf("?code=never-issued-%d", st.C)
			}
			conn, err := c.dial(uri, fmt.Sprintf("c08-conn-%d", st.N))
			so.Answer = "refused"
			if err == nil {
				conns[st.N] = conn
				go func() { // read until the relay closes us
					for {
						if _, _, err := conn.ReadMessage(); err != nil {
							return
						}
					}
				}()
			}
		case "disconnect":
			if conn := conns[st.N]; conn != nil {
				conn.Close()
			}
		case "wait":
			time.Sleep(time.Duration(st.Dt) * time.Second)
		case "deny":
			exp := int64(600)
			if st.Exp > 0 {
				exp = int64(st.Exp)
			}
			rs := c.rl.Deny(bookingNames[st.B], time.Now().Unix()+exp, c.adm)
			so.Answer = "refused"
			if rs.Err == nil && rs.Status == 204 {
				so.Answer = "ok"
			}
		case "allow":
			rs := c.rl.Allow(bookingNames[st.B], time.Now().Unix()+600, c.adm)
			so.Answer = "refused"
			if rs.Err == nil && rs.Status == 204 {
				so.Answer = "ok"
			}
		case "send":
			if conn := conns[st.N]; conn != nil {
				conn.SetWriteDeadline(time.Now().Add(time.Second))
				conn.WriteMessage(websocket.TextMessage, []byte("hello"))
			}
		}
		live, err := c.settled("c08-conn-")
		if err != nil {
			so.Canary = "the relay's /status failed: " + err.Error()
			so.Live = []uint64{}
			c.fail(i, so)
		}
		so.Live = live
		if st.K == "connect" {
			for _, x := range live {
				if x == st.N {
					so.Answer = "ok"
				}
			}
		}
		so.Canary, _ = c.canary(i)
		if so.Canary != "ok" {
			c.fail(i, so)
		}
		c.emit(so)
	}
}

// ---------------------------------------------------------------- the property's own oracle on a scenario
func oracleScenario(c Case, idx int, res *lib.Result) {
	r := c.Result
	last := "setup"
	if n := len(r.Steps); n > 0 {
		last = r.Steps[n-1].K
	}
	if n := len(r.Steps); r.Class == 1 && n < len(c.Scen.Steps) && (n > 0 || c.Kind == "api" || r.Steps == nil) {
		last = c.Scen.Steps[n].K // died while doing the next one
	}
	hist := scenString(c.Scen, len(r.Steps)+1)
	switch r.Class {
	case 1:
		res.Violate(lib.Violation{Clause: "relay-crashed", Case: idx, Replay: c, Key: "relay-crashed:" + c.Kind + ":" + last,
			Detail: fmt.Sprintf("the relay process died (%s) during step %q of [%s]: %s", r.Exit, last, hist, truncate(r.Stderr, 500))})
	case 2:
		why := ""
		if n := len(r.Steps); n > 0 {
			why = r.Steps[n-1].Canary
		}
		res.Violate(lib.Violation{Clause: "relay-frozen", Case: idx, Replay: c, Key: "relay-frozen:" + c.Kind + ":" + last,
			Detail: fmt.Sprintf("after step %q of [%s] the canary failed (%s); %s; hub goroutines: %s", last, hist, why, r.Exit, truncate(r.Dump, 700))})
	case 3:
		res.Violate(lib.Violation{Clause: "handler-panic", Case: idx, Replay: c, Key: "handler-panic:" + c.Kind,
			Detail: fmt.Sprintf("a connection handler panicked during [%s]: %s", hist, truncate(r.Stderr, 400))})
	}
	if c.Kind == "faults" {
		for _, so := range r.Steps {
			if so.Note == "oversize-not-refused" || strings.HasPrefix(so.Note, "oversize-relayed") {
				res.Violate(lib.Violation{Clause: "oversize-not-refused", Case: idx, Replay: c, Key: "oversize-not-refused:" + so.K,
					Detail: fmt.Sprintf("step %q: a message over the 10 MiB limit must get its sender closed and reach nobody; observed: %s", so.K, so.Note)})
			}
			if strings.HasPrefix(so.Note, "population:status-lists-") && so.Note != "population:status-lists-all" {
				res.Violate(lib.Violation{Clause: "status-incomplete-under-load", Case: idx, Replay: c, Key: "status-incomplete-under-load",
					Detail: "with more than a thousand connections registered the relay's own listing (GET /status) was not complete: " + so.Note})
			}
			if so.Pair != "" && so.Pair != "ok" {
				res.Violate(lib.Violation{Clause: "fault-not-local", Case: idx, Replay: c, Key: "fault-not-local:" + so.K,
					Detail: fmt.Sprintf("after fault %q on another connection of the topic the well-behaved pair stopped relaying: %s", so.K, so.Pair)})
				break
			}
		}
		return
	}
	// api: sessions, connects and live connections judged by the property's own words
	denied := map[uint64]bool{}
	codeBid := map[uint64]uint64{}
	connBid := map[uint64]uint64{}
	live := map[uint64]bool{}
	for i, so := range r.Steps {
		st := c.Scen.Steps[i]
		bad := func(clause, detail string) {
			res.Violate(lib.Violation{Clause: clause, Case: idx, Replay: c, Key: clause + ":" + st.K,
				Detail: fmt.Sprintf("step %d (%s) of [%s]: %s", i, st.K, scenString(c.Scen, i+1), detail)})
		}
		switch st.K {
		case "session":
			valid := st.B != 0 && !denied[st.B]
			if valid && so.Answer != "ok" {
				bad("valid-session-refused", fmt.Sprintf("booking %q is not denied, yet no code was issued", bookingNames[st.B]))
			}
			if so.Answer == "ok" {
				codeBid[st.C] = st.B
			}
		case "connect":
			b, ok := codeBid[st.C]
			valid := ok && !denied[b]
			delete(codeBid, st.C)
			if valid && so.Answer != "ok" {
				bad("valid-connect-refused", fmt.Sprintf("a fresh code for booking %q (not denied) was presented, the relay did not admit the connection", bookingNames[b]))
			}
			if so.Answer == "ok" {
				live[st.N] = true
				connBid[st.N] = b
			}
		case "disconnect":
			delete(live, st.N)
		case "deny":
			if st.B != 0 {
				denied[st.B] = true
				for k, b := range codeBid {
					if b == st.B {
						delete(codeBid, k)
					}
				}
				for n, b := range connBid {
					if b == st.B {
						delete(live, n)
					}
				}
			}
		case "allow":
			delete(denied, st.B)
		}
		listed := map[uint64]bool{}
		for _, n := range so.Live {
			listed[n] = true
		}
		for n := range live {
			if !listed[n] {
				bad("connection-lost", fmt.Sprintf("connection %d (booking %q) neither disconnected nor had its booking denied, yet the relay no longer lists it", n, bookingNames[connBid[n]]))
				delete(live, n)
			}
		}
	}
}

func scenString(s *Scenario, upto int) string {
	var xs []string
	for i, st := range s.Steps {
		if i >= upto {
			break
		}
		switch st.K {
		case "session":
			xs = append(xs, fmt.Sprintf("session(%s)->code%d", bookingNames[st.B], st.C))
		case "connect":
			xs = append(xs, fmt.Sprintf("connect(code%d)->conn%d", st.C, st.N))
		case "disconnect", "send":
			xs = append(xs, fmt.Sprintf("%s(conn%d)", st.K, st.N))
		case "wait":
			xs = append(xs, fmt.Sprintf("wait %ds", st.Dt))
		case "deny", "allow":
			if st.Exp > 0 {
				xs = append(xs, fmt.Sprintf("%s(%s, expires in %ds)", st.K, bookingNames[st.B], st.Exp))
			} else {
				xs = append(xs, fmt.Sprintf("%s(%s)", st.K, bookingNames[st.B]))
			}
		default:
			xs = append(xs, st.K)
		}
	}
	return strings.Join(xs, "; ")
}
