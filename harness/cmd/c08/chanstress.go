package main

// Store-level stress of the deny-channel store under CONCURRENT use (wave 7). The theorems C08_chanmap_concurrent_* say
// that, every method being one critical section, any overlap of Add / DeleteChild / DeleteAndCloseParent calls leaves the
// store in the state of a sequential sequence: no panic, no channel closed twice, the two maps consistent, no nil or empty
// child map kept. Here the real store is used that way - the deny goroutine closing a crowded booking while the hub drops
// connections of it and serveWs admits new ones - in a CHILD process, because the Go runtime's "concurrent map iteration
// and map write" is a fatal error that no recover() catches. Nothing here depends on timing: the invariants are read after
// all goroutines have been joined, and on a store whose methods hold the mutex throughout they hold for every schedule.

import (
	"fmt"
	"os"
	"os/exec"
	"runtime"
	"strings"
	"sync"
	"time"

	"github.com/practable/relay/internal/chanmap"
	"github.com/practable/relay/verifharness/lib"
)

func chanStressChild(rounds int) {
	runtime.GOMAXPROCS(8)
	for r := 0; r < rounds; r++ {
		s := chanmap.New()
		const bookings, kids = 4, 40
		for b := 0; b < bookings; b++ {
			for k := 0; k < kids; k++ {
				s.Add(fmt.Sprintf("b%d", b), fmt.Sprintf("b%d-k%d", b, k), make(chan struct{}))
			}
		}
		var wg sync.WaitGroup
		start := make(chan struct{})
		fail := make(chan string, 64)
		guard := func(what string, f func()) {
			wg.Add(1)
			go func() {
				defer wg.Done()
				defer func() {
					if pv := recover(); pv != nil {
						select {
						case fail <- fmt.Sprintf("panic in %s: %v", what, pv):
						default:
						}
					}
				}()
				<-start
				f()
			}()
		}
		for b := 0; b < bookings; b++ {
			b := b
			guard("the deny goroutine (DeleteAndCloseParent)", func() { // the deny, twice (a repeated deny is a valid call)
				s.DeleteAndCloseParent(fmt.Sprintf("b%d", b))
				runtime.Gosched()
				s.DeleteAndCloseParent(fmt.Sprintf("b%d", b))
			})
			guard("Hub.drop (DeleteChild)", func() { // the hub dropping this booking's connections
				for k := 0; k < kids; k++ {
					s.DeleteChild(fmt.Sprintf("b%d-k%d", b, k))
				}
			})
			guard("serveWs (Add)", func() { // new admissions for the same booking, fresh names and channels
				for k := 0; k < kids; k++ {
					s.Add(fmt.Sprintf("b%d", b), fmt.Sprintf("b%d-n%d-%d", b, r, k), make(chan struct{}))
				}
			})
		}
		close(start)
		wg.Wait()
		select {
		case f := <-fail:
			fmt.Printf("STRESS-FAIL round %d: %s\n", r, f)
			os.Exit(3)
		default:
		}
		// afterwards: the invariants of C08_chanmap_concurrent_total
		for p, m := range s.ChildrenByParent {
			if m == nil {
				fmt.Printf("STRESS-FAIL round %d: a nil child map is stored under parent %q\n", r, p)
				os.Exit(3)
			}
			if len(m) == 0 {
				fmt.Printf("STRESS-FAIL round %d: parent %q has no child left but keeps its (empty) map\n", r, p)
				os.Exit(3)
			}
			for k := range m {
				if s.ParentByChild[k] != p {
					fmt.Printf("STRESS-FAIL round %d: child %q is in the map of parent %q but ParentByChild says %q\n", r, k, p, s.ParentByChild[k])
					os.Exit(3)
				}
			}
		}
		for k, p := range s.ParentByChild {
			if m, ok := s.ChildrenByParent[p]; !ok || m == nil || m[k] == nil {
				fmt.Printf("STRESS-FAIL round %d: ParentByChild[%q] = %q but that parent's map does not hold the child\n", r, k, p)
				os.Exit(3)
			}
		}
	}
	fmt.Println("STRESS-OK")
}

// chanStress runs the child and turns anything but a clean end into a violation with the child's own words
func chanStress(res *lib.Result, rounds int) {
	cmd := exec.Command(os.Args[0], "child-chanstress", fmt.Sprint(rounds))
	done := make(chan struct{})
	var out []byte
	var err error
	go func() { out, err = cmd.CombinedOutput(); close(done) }()
	select {
	case <-done:
	case <-time.After(120 * time.Second):
		if cmd.Process != nil {
			cmd.Process.Kill()
		}
		<-done
		err = fmt.Errorf("no end within 120 s (store wedged)")
	}
	res.Count("chanstress-rounds:" + fmt.Sprint(rounds))
	text := string(out)
	if err == nil && strings.Contains(text, "STRESS-OK") {
		res.Count("chanstress:ok")
		return
	}
	first := ""
	for _, l := range strings.Split(text, "\n") {
		if strings.HasPrefix(l, "STRESS-FAIL") || strings.HasPrefix(l, "fatal error") || strings.HasPrefix(l, "panic") || strings.Contains(l, "SIGSEGV") {
			first = l
			break
		}
	}
	if first == "" {
		first = truncate(text, 300)
	}
	clause := "chanmap-concurrent-use"
	res.Violate(lib.Violation{Clause: clause, Case: -1, Key: clause + ":deny-vs-drop-vs-admit",
		Replay: map[string]interface{}{"kind": "chanstress", "rounds": rounds, "how": "harness child-chanstress <rounds>", "child_output": truncate(text, 2000)},
		Detail: fmt.Sprintf("a deny of a booking with 40 connections (DeleteAndCloseParent, twice) overlapping Hub.drop's DeleteChild of those connections and serveWs's Add of new ones on one real chanmap.Store, %d rounds in a child process: %v; %s", rounds, err, first)})
}
