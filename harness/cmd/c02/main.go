// c02: correspondence + oracle for "connection codes are single-use, short-lived and die with the booking".
//
//	seq      random histories (Submit / Exchange / CleanExpired / DeleteByBookingID / GetCodeCount / real
//	         sleeps in whole seconds) on a real ttlcode.CodeStore with TTL 1..3, 16 histories at a time
//	race     N = 2..16 goroutines released together on one code of a real CodeStore
//	e2e      the same vocabulary through a real relay: session -> code, websocket dial = exchange (admission
//	         observed by probe traffic from a legitimate peer), deny of the booking = purge
//	e2e-race N dials released together on one code
//	child    (separate process) issuing, purging, exchanging and sweeping concurrently: must not crash
//
// Every seq/race/e2e case is emitted for Corr/C02.v; the oracle below is a transcription of the
// property statement over the observed traces and does not use the model.
package main

import (
	"bytes"
	"encoding/json"
	"fmt"
	"io/ioutil"
	"net"
	"net/http"
	"os"
	"os/exec"
	"regexp"
	"runtime"
	"sort"
	"strconv"
	"strings"
	"sync"
	"sync/atomic"
	"time"

	"github.com/gorilla/websocket"
	"github.com/practable/relay/internal/access"
	"github.com/practable/relay/internal/crossbar"
	"github.com/practable/relay/internal/deny"
	"github.com/practable/relay/internal/permission"
	"github.com/practable/relay/internal/ttlcode"
	"github.com/practable/relay/verifharness/lib"
	log "github.com/sirupsen/logrus"
)

type Op struct {
	K  string `json:"k"`            // Submit Exchange Sweep Purge Tick Count | Wrong (e2e: code C presented on the path of another topic, variant T)
	C  uint64 `json:"c,omitempty"`  // code index: 1.. in order of issue; >= 1000 never issued (malformed stream)
	T  uint64 `json:"t,omitempty"`  // token identity
	B  uint64 `json:"b,omitempty"`  // booking index
	Dt int64  `json:"dt,omitempty"` // seconds
	H  int    `json:"h,omitempty"`  // e2e: header profile of the upgrade request (0 = whatever is next in turn)
}

type Out struct {
	K string `json:"k"` // C(ode) T(oken) R(efused) U(nit) N(count)
	C uint64 `json:"c,omitempty"`
	T uint64 `json:"t,omitempty"`
	B uint64 `json:"b,omitempty"`
	N int    `json:"n,omitempty"`
}

type Case struct {
	Kind    string  `json:"kind"` // seq race e2e e2e-race
	T0      int64   `json:"t0"`
	TTL     int64   `json:"ttl"`
	Ops     []Op    `json:"ops"` // for race kinds: the prefix history
	Outs    []Out   `json:"outs,omitempty"`
	Clock   []int64 `json:"clock,omitempty"` // seconds since T0 at which each op ran
	Code    uint64  `json:"code,omitempty"`
	N       int     `json:"n,omitempty"`
	Winners int     `json:"winners,omitempty"`
	Discard string  `json:"discard,omitempty"`
}

// booking ids as they come out of manifests and here-docs: look-alikes that differ only in surrounding
// white space are DIFFERENT bookings for every layer (store, deny list, tokens)
var bookings = []string{"", "bk-A", "bk-A ", " bk-C\n", "bk-S"}

func (o Op) coq() string {
	switch o.K {
	case "Submit":
		return lib.App("Submit", lib.N(o.C), lib.N(o.T), lib.N(o.B))
	case "Exchange", "Wrong":
		return lib.App("Exchange", lib.N(o.C))
	case "Purge":
		return lib.App("Purge", lib.N(o.B))
	case "Tick":
		return lib.App("Tick", lib.Z(o.Dt))
	case "Shell": // presented under another connection type: refused before the store is asked - nothing happens
		return lib.App("Tick", lib.Z(0))
	}
	return o.K
}

func (o Out) coq() string {
	switch o.K {
	case "C":
		return lib.App("OCode", lib.N(o.C))
	case "T":
		return lib.App("OTok", lib.N(o.T), lib.N(o.B))
	case "R":
		return "ORefused"
	case "N":
		return lib.App("OCount", lib.N(uint64(o.N)), lib.N(uint64(o.N)))
	}
	return "OUnit"
}

func coqOps(ops []Op) string {
	xs := make([]string, len(ops))
	for i, o := range ops {
		xs[i] = o.coq()
	}
	return lib.List(xs)
}

func (c Case) coq() string {
	if c.Kind == "race" || c.Kind == "e2e-race" {
		return lib.App("CRace", lib.Z(c.TTL), coqOps(c.Ops), lib.N(c.Code), lib.Nat(c.N), lib.N(uint64(c.Winners)))
	}
	outs := make([]string, len(c.Outs))
	for i, o := range c.Outs {
		outs[i] = o.coq()
	}
	if c.Kind == "e2e" {
		ops := make([]string, len(c.Ops))
		for i, o := range c.Ops {
			ops[i] = lib.Tuple(lib.Bool(o.K == "Wrong"), o.coq())
		}
		return lib.App("CSeqW", lib.Z(c.T0), lib.Z(c.TTL), lib.List(ops), lib.List(outs))
	}
	return lib.App("CSeq", lib.Z(c.T0), lib.Z(c.TTL), coqOps(c.Ops), lib.List(outs))
}

// ---------------------------------------------------------------- the real store
var uuid4 = regexp.MustCompile(`^[0-9a-f]{8}-[0-9a-f]{4}-4[0-9a-f]{3}-[89ab][0-9a-f]{3}-[0-9a-f]{12}$`)

var seenMu sync.Mutex
var seenCodes = map[string]bool{}
var badFormat, duplicates int

func noteCode(code string) {
	seenMu.Lock()
	defer seenMu.Unlock()
	if !uuid4.MatchString(code) {
		badFormat++
	}
	if seenCodes[code] {
		duplicates++
	}
	seenCodes[code] = true
}

var malformed = []string{"", "x", " ", "00000000-0000-4000-8000-000000000000", "../../etc/passwd", "%00", strings.Repeat("a", 5000)}

type store struct {
	cs     *ttlcode.CodeStore
	issued map[uint64]string
	last   string
}

func newStore(ttl int64) *store {
	cs := ttlcode.NewDefaultCodeStore()
	time.Sleep(2 * time.Millisecond) // let the sweeper goroutine read the default period first (60 s): no background sweeps in a history
	cs.WithTTL(ttl)
	return &store{cs: cs, issued: map[uint64]string{}}
}

// newStoreQuick: for the untimed races (no sleeps, so no sweep can fall into them)
func newStoreQuick(ttl int64) *store {
	return &store{cs: ttlcode.NewDefaultCodeStore().WithTTL(ttl), issued: map[uint64]string{}}
}

func (s *store) codeString(c uint64) string {
	if v, ok := s.issued[c]; ok {
		return v
	}
	if c >= 2000 && s.last != "" { // a look-alike of a real code
		switch c % 3 {
		case 0:
			return strings.ToUpper(s.last)
		case 1:
			return s.last + " "
		}
		return s.last[:len(s.last)-1]
	}
	if c >= 1000 {
		return malformed[int(c)%len(malformed)]
	}
	return "not-issued-" + strconv.FormatUint(c, 10)
}

func tokenFor(t, b uint64) permission.Token {
	now := time.Now().Unix()
	tk := permission.NewToken("ws://x", "session", "tok"+strconv.FormatUint(t, 10), []string{"read", "write"}, now, now, now+100)
	tk.SetBookingID(bookings[b])
	return tk
}

func bookingIndex(s string) uint64 {
	for i, b := range bookings {
		if b == s {
			return uint64(i)
		}
	}
	return 99
}

func (s *store) exec(o Op) Out {
	switch o.K {
	case "Submit":
		code := s.cs.SubmitToken(tokenFor(o.T, o.B))
		noteCode(code)
		s.issued[o.C] = code
		s.last = code
		return Out{K: "C", C: o.C}
	case "Exchange":
		tk, err := s.cs.ExchangeCode(s.codeString(o.C))
		if err != nil {
			return Out{K: "R"}
		}
		t, _ := strconv.ParseUint(strings.TrimPrefix(tk.Topic, "tok"), 10, 64)
		return Out{K: "T", T: t, B: bookingIndex(tk.BookingID)}
	case "Sweep":
		s.cs.CleanExpired()
		return Out{K: "U"}
	case "Purge":
		s.cs.DeleteByBookingID(bookings[o.B])
		return Out{K: "U"}
	case "Count":
		return Out{K: "N", N: s.cs.GetCodeCount()}
	}
	panic("op " + o.K)
}

// alignSecond sleeps until just after the next second boundary and returns that second.
func alignSecond() int64 {
	for {
		now := time.Now()
		if now.Nanosecond() < 60e6 {
			return now.Unix()
		}
		time.Sleep(time.Duration(1e9-now.Nanosecond()) + 15*time.Millisecond)
	}
}

func runSeq(c *Case) {
	s := newStore(c.TTL)
	defer s.cs.Close()
	c.Outs, c.Clock, c.Discard = nil, nil, ""
	c.T0 = alignSecond()
	var elapsed int64
	for _, o := range c.Ops {
		if o.K == "Tick" {
			elapsed += o.Dt
			time.Sleep(time.Until(time.Unix(c.T0+elapsed, 25e6)))
			c.Outs = append(c.Outs, Out{K: "U"})
			c.Clock = append(c.Clock, elapsed)
			continue
		}
		before := ttlcode.GetTime()
		out := s.exec(o)
		after := ttlcode.GetTime()
		if before != c.T0+elapsed || after != c.T0+elapsed {
			c.Discard = "clock" // the history straddled a second it should not have (scheduling hiccup): ambiguous
		}
		c.Outs = append(c.Outs, out)
		c.Clock = append(c.Clock, elapsed)
	}
}

// runRace: the prefix history on a fresh store, then N goroutines spinning on one flag so that they
// call ExchangeCode as nearly together as the machine allows; repeated for several rounds (fresh store
// each). Reported: the number of winners if all rounds agree, otherwise the round that disagrees most.
func runRace(c *Case) {
	rounds := 8
	lo, hi := 1<<30, -1
	for k := 0; k < rounds; k++ {
		w := raceOnce(c)
		if w < lo {
			lo = w
		}
		if w > hi {
			hi = w
		}
	}
	c.Winners = lo
	if hi > 1 {
		c.Winners = hi
	}
}

var procs = runtime.GOMAXPROCS(0)

func raceOnce(c *Case) int {
	s := newStoreQuick(c.TTL)
	defer s.cs.Close()
	for _, o := range c.Ops {
		s.exec(o)
	}
	code := s.codeString(c.Code)
	var start, wins, ready int32
	var wg sync.WaitGroup
	for i := 0; i < c.N; i++ {
		wg.Add(1)
		go func() {
			defer wg.Done()
			atomic.AddInt32(&ready, 1)
			for spins := 0; atomic.LoadInt32(&start) == 0; spins++ {
				if c.N >= procs || spins > 5000 {
					runtime.Gosched() // more presenters than free processors (or a loaded machine): yield instead of starving the releaser
				}
			}
			if _, err := s.cs.ExchangeCode(code); err == nil {
				atomic.AddInt32(&wins, 1)
			}
		}()
	}
	for atomic.LoadInt32(&ready) < int32(c.N) {
		runtime.Gosched()
	}
	atomic.StoreInt32(&start, 1)
	wg.Wait()
	return int(wins)
}

// ---------------------------------------------------------------- generators
func genSeq(r *lib.Rng, tier string) Case {
	ttl := int64(1)
	switch x := r.Intn(100); {
	case x < 50:
		ttl = 1
	case x < 85:
		ttl = 2
	default:
		ttl = 3
	}
	c := Case{Kind: "seq", TTL: ttl}
	n := r.Range(5, 40)
	budget := int64(3)
	if tier == "thorough" {
		budget = 5
	}
	var issued []uint64
	next := uint64(1)
	nb := r.Range(1, 3)
	submit := func() {
		if len(issued) >= 6 {
			return
		}
		b := uint64(r.Range(1, nb))
		if r.Chance(1, 10) {
			b = 0
		}
		c.Ops = append(c.Ops, Op{K: "Submit", C: next, T: uint64(100 + r.Intn(900)), B: b})
		issued = append(issued, next)
		next++
	}
	submit()
	for i := 0; i < n; i++ {
		switch x := r.Intn(100); {
		case x < 20:
			submit()
		case x < 55:
			code := uint64(0)
			switch y := r.Intn(20); {
			case y == 0:
				code = uint64(1000 + r.Intn(50)) // malformed stream
			case y == 1:
				code = uint64(2000 + r.Intn(50)) // look-alike of the latest real code
			case y == 2:
				code = next // not issued yet
			default:
				code = issued[r.Intn(len(issued))]
			}
			c.Ops = append(c.Ops, Op{K: "Exchange", C: code})
		case x < 65:
			c.Ops = append(c.Ops, Op{K: "Sweep"})
		case x < 75:
			c.Ops = append(c.Ops, Op{K: "Purge", B: uint64(r.Range(0, nb))})
		case x < 88:
			if budget > 0 {
				dt := int64(r.Range(1, 2))
				if dt > budget {
					dt = budget
				}
				if r.Chance(1, 3) && ttl+1 <= budget {
					dt = ttl + 1 // the F1 shape: just past the time-to-live, before any sweep
				}
				budget -= dt
				c.Ops = append(c.Ops, Op{K: "Tick", Dt: dt})
			}
		default:
			c.Ops = append(c.Ops, Op{K: "Count"})
		}
	}
	// drain: present every code ever issued, so that the final contents are observable
	c.Ops = append(c.Ops, Op{K: "Count"})
	for _, k := range issued {
		c.Ops = append(c.Ops, Op{K: "Exchange", C: k})
	}
	c.Ops = append(c.Ops, Op{K: "Count"})
	return c
}

// genBurst: more than a thousand codes issued together expire together and go in ONE sweep, while a few
// younger ones survive it; the survivors are presented after their own expiry (and after a second sweep).
// Counts at and around what a sweep might treat as "large" (1024) and "few left" (a quarter).
func genBurst(r *lib.Rng) Case {
	c := Case{Kind: "seq", TTL: 2}
	n := r.Range(1024, 1600)
	k := r.Range(1, n/4)
	if r.Chance(1, 4) {
		k = n/4 + r.Range(0, 8)
	}
	next := uint64(1)
	for i := 0; i < n; i++ {
		c.Ops = append(c.Ops, Op{K: "Submit", C: next, T: uint64(100 + i%900), B: 1})
		next++
	}
	c.Ops = append(c.Ops, Op{K: "Count"}, Op{K: "Tick", Dt: 1})
	first := next
	for i := 0; i < k; i++ {
		c.Ops = append(c.Ops, Op{K: "Submit", C: next, T: uint64(100 + i%900), B: uint64(2 + i%2)})
		next++
	}
	c.Ops = append(c.Ops, Op{K: "Tick", Dt: 2}, Op{K: "Sweep"}, Op{K: "Count"}, Op{K: "Exchange", C: first}, Op{K: "Exchange", C: 1},
		Op{K: "Tick", Dt: 1}, Op{K: "Count"})
	for i := first + 1; i < next; i += 2 {
		c.Ops = append(c.Ops, Op{K: "Exchange", C: i})
	}
	c.Ops = append(c.Ops, Op{K: "Sweep"}, Op{K: "Count"})
	for i := first + 2; i < next; i += 2 {
		c.Ops = append(c.Ops, Op{K: "Exchange", C: i})
	}
	c.Ops = append(c.Ops, Op{K: "Count"})
	return c
}

func genRace(r *lib.Rng) Case {
	c := Case{Kind: "race", TTL: 3, N: r.Range(2, 16)}
	k := uint64(r.Range(1, 4))
	for i := uint64(1); i <= k; i++ {
		c.Ops = append(c.Ops, Op{K: "Submit", C: i, T: uint64(100 + r.Intn(900)), B: uint64(r.Range(1, 3))})
	}
	c.Code = uint64(r.Range(1, int(k)))
	switch r.Intn(8) {
	case 0:
		c.Ops = append(c.Ops, Op{K: "Exchange", C: c.Code}) // already used
	case 1:
		for _, o := range c.Ops {
			if o.C == c.Code {
				c.Ops = append(c.Ops, Op{K: "Purge", B: o.B}) // booking denied
				break
			}
		}
	case 2:
		c.Code = 1000 + uint64(r.Intn(20)) // nobody's code
	case 3:
		c.Ops = append(c.Ops, Op{K: "Sweep"}, Op{K: "Purge", B: 0})
	}
	return c
}

// ---------------------------------------------------------------- the property's own oracle
type fact struct {
	issuedAt int64
	t, b     uint64
	used     bool // a successful exchange happened
	gone     bool // presented (successfully or not), so the entry is deleted either way
	purged   bool
}

func oracleSeq(c Case, idx int, res *lib.Result) {
	codes := map[uint64]*fact{}
	bad := func(i int, clause, site, detail string) {
		res.Violate(lib.Violation{Clause: clause, Case: idx, Detail: fmt.Sprintf("%s case (ttl %d s), op %d (%s): %s; history [%s]", c.Kind, c.TTL, i, c.Ops[i].K, detail, histString(c.Ops[:i+1])),
			Replay: c, Key: clause + ":" + site})
	}
	site := "ExchangeCode"
	if c.Kind == "e2e" {
		site = "websocket-admission"
	}
	for i, o := range c.Ops {
		now := c.Clock[i]
		ob := c.Outs[i]
		switch o.K {
		case "Submit":
			codes[o.C] = &fact{issuedAt: now, t: o.T, b: o.B}
		case "Purge":
			for _, f := range codes {
				if f.b == o.B {
					f.purged = true
				}
			}
		case "Wrong":
			if f, ok := codes[o.C]; ok {
				f.gone = true // presented: whatever the path, the code has been exchanged
			}
			if ob.K == "T" {
				bad(i, "wrong-path-admitted", site, fmt.Sprintf("code #%d was presented on the path of another topic and the connection was let in", o.C))
			}
		case "Exchange":
			f, ok := codes[o.C]
			if ob.K == "T" {
				switch {
				case !ok:
					bad(i, "unissued-code-accepted", site, fmt.Sprintf("code #%d was never issued", o.C))
				case now > f.issuedAt+c.TTL:
					bad(i, "exchanged-after-ttl", site, fmt.Sprintf("code #%d issued at +%ds with ttl %ds was honoured at +%ds", o.C, f.issuedAt, c.TTL, now))
				case f.used:
					bad(i, "code-exchanged-twice", site, fmt.Sprintf("code #%d had already been exchanged successfully", o.C))
				case f.gone:
					bad(i, "code-exchanged-twice", site, fmt.Sprintf("code #%d had already been presented", o.C))
				case f.purged:
					bad(i, "survived-purge", site, fmt.Sprintf("code #%d of booking %q was honoured after that booking was purged", o.C, bookings[f.b]))
				case ob.T != f.t || ob.B != f.b:
					bad(i, "wrong-token", site, fmt.Sprintf("code #%d returned token %d/booking %d, stored %d/%d", o.C, ob.T, ob.B, f.t, f.b))
				}
				if ok {
					f.used = true
				}
			} else if ok && !f.gone && !f.purged && now <= f.issuedAt+c.TTL {
				bad(i, "live-code-lost", site, fmt.Sprintf("code #%d (unused, unexpired, booking not purged) was refused: an operation on another entry changed it", o.C))
			}
			if ok {
				f.gone = true
			}
		case "Count":
			live, all := 0, 0
			for _, f := range codes {
				if !f.gone && !f.purged {
					all++
					if now <= f.issuedAt+c.TTL {
						live++
					}
				}
			}
			if ob.N < live || ob.N > all {
				bad(i, "count-out-of-range", "GetCodeCount", fmt.Sprintf("store reports %d entries, between %d and %d expected", ob.N, live, all))
			}
		}
	}
}

func histString(ops []Op) string {
	var xs []string
	for i := 0; i < len(ops); i++ {
		o := ops[i]
		switch o.K {
		case "Submit":
			j := i
			for j+1 < len(ops) && ops[j+1].K == "Submit" && ops[j+1].B == o.B {
				j++
			}
			if j-i >= 3 {
				xs = append(xs, fmt.Sprintf("Submit x%d ->#%d..#%d(booking %d)", j-i+1, o.C, ops[j].C, o.B))
				i = j
				continue
			}
			xs = append(xs, fmt.Sprintf("Submit->#%d(booking %d)", o.C, o.B))
		case "Exchange":
			if o.H == 9 || o.H == 10 {
				xs = append(xs, fmt.Sprintf("Exchange #%d (upgrade request carries a stale X-Request-Start)", o.C))
			} else {
				xs = append(xs, fmt.Sprintf("Exchange #%d", o.C))
			}
		case "Purge":
			xs = append(xs, fmt.Sprintf("Purge booking %d", o.B))
		case "Tick":
			xs = append(xs, fmt.Sprintf("Tick %ds", o.Dt))
		case "Wrong":
			xs = append(xs, fmt.Sprintf("Present #%d on another topic's path", o.C))
		case "Shell":
			xs = append(xs, fmt.Sprintf("Present #%d under /shell/", o.C))
		default:
			xs = append(xs, o.K)
		}
	}
	return strings.Join(xs, "; ")
}

func oracleRace(c Case, idx int, res *lib.Result) {
	live := false
	for _, o := range c.Ops {
		switch o.K {
		case "Submit":
			if o.C == c.Code {
				live = true
			}
		case "Exchange":
			if o.C == c.Code {
				live = false
			}
		case "Purge":
			for _, p := range c.Ops {
				if p.K == "Submit" && p.C == c.Code && p.B == o.B {
					live = false
				}
			}
		}
	}
	site := "ExchangeCode"
	if c.Kind == "e2e-race" {
		site = "websocket-admission"
	}
	if c.Winners > 1 {
		res.Violate(lib.Violation{Clause: "two-winners-same-instant", Case: idx, Replay: c, Key: "two-winners-same-instant:" + site,
			Detail: fmt.Sprintf("%d of %d connections presenting code #%d together were all let in", c.Winners, c.N, c.Code)})
	}
	if c.Winners > 0 && !live {
		res.Violate(lib.Violation{Clause: "dead-code-accepted", Case: idx, Replay: c, Key: "dead-code-accepted:" + site,
			Detail: fmt.Sprintf("code #%d was used, purged or never issued, yet %d of %d presenters won", c.Code, c.Winners, c.N)})
	}
	if c.Winners == 0 && live {
		res.Violate(lib.Violation{Clause: "live-code-lost", Case: idx, Replay: c, Key: "live-code-lost:" + site,
			Detail: fmt.Sprintf("none of %d presenters of live code #%d won", c.N, c.Code)})
	}
}

// ---------------------------------------------------------------- end to end on a real relay
type e2e struct {
	stale  time.Duration // > 0: the relay has a short code lifetime; stale X-Request-Start headers name a moment before expiry
	rl     *lib.Relay
	adm    string
	keep   []*websocket.Conn
	keepMu sync.Mutex
}

func (e *e2e) hold(c *websocket.Conn) { e.keepMu.Lock(); e.keep = append(e.keep, c); e.keepMu.Unlock() }

// admitted dials uri and tells whether the connection got onto the topic: the legitimate peer
// keeps sending probes, an admitted reader sees one of them.
func (e *e2e) admitted(uri string, peer *websocket.Conn, peerMu *sync.Mutex, tag string) bool {
	return e.admittedH(uri, peer, peerMu, tag, 0)
}

func (e *e2e) admittedH(uri string, peer *websocket.Conn, peerMu *sync.Mutex, tag string, profile int) bool {
	k := int(atomic.AddInt32(&headerTurn, 1))
	if profile > 0 {
		k = profile
	} else if e.stale > 0 && k%2 == 0 {
		k = 9 + (k/2)%2 // on the short-lived store every other presentation claims to have arrived earlier
	}
	conn, _, err := lib.Dial(uri, upgradeHeaders(k, e.stale+2500*time.Millisecond))
	if err != nil {
		return false
	}
	e.hold(conn)
	stop := make(chan struct{})
	go func() {
		for i := 0; i < 24; i++ {
			select {
			case <-stop:
				return
			default:
			}
			peerMu.Lock()
			peer.SetWriteDeadline(time.Now().Add(time.Second))
			peer.WriteMessage(websocket.TextMessage, []byte("probe-"+tag))
			peerMu.Unlock()
			time.Sleep(40 * time.Millisecond)
		}
	}()
	_, data, err := lib.ReadOne(conn, 1000*time.Millisecond)
	close(stop)
	conn.Close()
	return err == nil && strings.HasPrefix(string(data), "probe-")
}

// bidFor makes booking names private to a case: all e2e cases share one relay and its deny list
func bidFor(topic string, b uint64) string {
	switch b {
	case 2:
		return "bk-B-" + topic + "\n" // trailing newline
	case 3:
		return " bk-C-" + topic + " " // blanks around
	}
	return bookings[b] + "-" + topic
}

// header profiles for websocket upgrades: what proxies and odd clients put on a request. None of them
// may change what the relay does with a code.
func upgradeHeaders(k int, staleBy time.Duration) http.Header {
	h := http.Header{}
	now := time.Now()
	switch k % 14 {
	case 1:
		h.Set("X-Forwarded-For", "203.0.113.7")
	case 2:
		h.Set("X-Forwarded-For", "203.0.113.7, 10.0.0.1")
	case 3:
		h.Set("X-Forwarded-For", "203.0.113.7:4711")
	case 4:
		h.Set("X-Forwarded-For", "[2001:db8::7]:443")
	case 5:
		h.Set("X-Forwarded-For", "[2001:db8::7")
	case 6:
		h.Set("X-Forwarded-For", strings.Repeat("9", 4096))
		h.Set("X-Real-Ip", "")
	case 7:
		h.Set("X-Real-Ip", "198.51.100.9")
		h.Set("Forwarded", "for=198.51.100.9;proto=https")
	case 8:
		h.Set("X-Request-Id", "req-1")
		h.Set("X-Correlation-Id", "req-1")
		h.Set("Traceparent", "00-0af7651916cd43dd8448eb211c80319c-b7ad6b7169203331-01")
	case 9: // the proxy says the request arrived a while ago (lagging clock, queueing - or a forged header)
		t := now.Add(-staleBy)
		h.Set("X-Request-Start", fmt.Sprintf("t=%d.%03d", t.Unix(), t.Nanosecond()/1e6))
	case 10:
		h.Set("X-Request-Start", strconv.FormatInt(now.Add(-staleBy).UnixNano()/1e6, 10))
	case 11:
		h.Set("X-Request-Start", fmt.Sprintf("t=%d.000", now.Add(time.Hour).Unix()))
	case 12:
		h.Set("X-Request-Start", "yesterday")
	case 13:
		h.Add("X-Forwarded-For", "2001:db8::7")
		h.Add("X-Forwarded-For", "192.0.2.1")
	}
	return h
}

var headerTurn int32

func (e *e2e) session(topic, bid string) (string, bool) {
	now := time.Now().Unix()
	exp := now + 300
	if atomic.AddInt32(&headerTurn, 1)%2 == 0 {
		exp = now + 200 // tokens of one booking need not expire together
	}
	cl := e.rl.Claims(topic, bid, []string{"read", "write"}, now-1, now-1, exp)
	st, uri, code := e.rl.Session(topic, lib.Sign(cl, e.rl.Secret))
	if st != 200 || code == "" {
		return "", false
	}
	noteCode(code)
	return uri, true
}

// peerFor opens the legitimate sender of a topic (own booking, never denied).
func (e *e2e) peerFor(topic string) (*websocket.Conn, error) {
	uri, ok := e.session(topic, bidFor(topic, 4))
	if !ok {
		return nil, fmt.Errorf("no session for the probe peer")
	}
	c, _, err := lib.Dial(uri, nil)
	if err != nil {
		return nil, err
	}
	e.hold(c)
	go func() { // drain
		for {
			if _, _, err := c.ReadMessage(); err != nil {
				return
			}
		}
	}()
	return c, nil
}

func genE2E(r *lib.Rng) Case {
	c := Case{Kind: "e2e", TTL: 30}
	next := uint64(1)
	var issued []uint64
	denied := map[uint64]bool{}
	n := r.Range(6, 10)
	sub := func() {
		b := uint64(r.Range(1, 3))
		if denied[b] {
			return
		}
		c.Ops = append(c.Ops, Op{K: "Submit", C: next, T: 1, B: b})
		issued = append(issued, next)
		next++
	}
	sub()
	sub()
	for i := 0; i < n; i++ {
		switch x := r.Intn(10); {
		case x < 3:
			sub()
		case x < 8:
			if len(issued) > 0 {
				k := issued[r.Intn(len(issued))]
				if r.Chance(1, 5) {
					c.Ops = append(c.Ops, Op{K: "Shell", C: k}) // not a session path: the code is not even looked at
				}
				if r.Chance(1, 3) {
					c.Ops = append(c.Ops, Op{K: "Wrong", C: k, T: uint64(r.Intn(3))})
					if r.Bool() {
						c.Ops = append(c.Ops, Op{K: "Exchange", C: k}) // ... and then on its own path
					}
				} else {
					c.Ops = append(c.Ops, Op{K: "Exchange", C: k})
				}
			}
		default:
			b := uint64(r.Range(1, 3))
			denied[b] = true
			c.Ops = append(c.Ops, Op{K: "Purge", B: b})
		}
	}
	for _, k := range issued {
		if r.Chance(2, 3) {
			c.Ops = append(c.Ops, Op{K: "Exchange", C: k})
		}
	}
	return c
}

func (e *e2e) runE2E(c *Case, topic string) error {
	peer, err := e.peerFor(topic)
	if err != nil {
		return err
	}
	var pm sync.Mutex
	uris := map[uint64]string{}
	c.Outs, c.Clock = nil, nil
	var start, elapsed int64
	for _, o := range c.Ops {
		if o.K == "Tick" {
			start = alignSecond() // whole-second reasoning about the relay's 30 s code lifetime
			break
		}
	}
	for i, o := range c.Ops {
		c.Clock = append(c.Clock, elapsed)
		switch o.K {
		case "Tick":
			elapsed += o.Dt
			c.Clock[i] = elapsed
			time.Sleep(time.Until(time.Unix(start+elapsed, 50e6)))
			c.Outs = append(c.Outs, Out{K: "U"})
		case "Submit":
			uri, ok := e.session(topic, bidFor(topic, o.B))
			if !ok {
				return fmt.Errorf("session refused for an undenied booking")
			}
			uris[o.C] = uri
			c.Outs = append(c.Outs, Out{K: "C", C: o.C})
		case "Shell":
			c.Outs = append(c.Outs, Out{K: "U"})
			if u := wrongPath(uris[o.C], topic, 3); u != "" {
				if conn, _, err := lib.Dial(u, upgradeHeaders(int(atomic.AddInt32(&headerTurn, 1)), time.Second)); err == nil {
					e.hold(conn)
					conn.Close()
				}
			}
		case "Wrong":
			// the same code on the path of another topic: never let in, and the code is spent
			c.Outs = append(c.Outs, Out{K: "R"})
			if u := wrongPath(uris[o.C], topic, o.T); u != "" {
				if conn, _, err := lib.Dial(u, nil); err == nil {
					e.hold(conn)
					if _, data, err := lib.ReadOne(conn, 120*time.Millisecond); err == nil && strings.HasPrefix(string(data), "probe-") {
						c.Outs[len(c.Outs)-1] = Out{K: "T", T: 1}
					}
					conn.Close()
				}
			}
		case "Exchange":
			if e.admittedH(uris[o.C], peer, &pm, fmt.Sprintf("%s-%d", topic, i), o.H) {
				var tb uint64
				for _, p := range c.Ops {
					if p.K == "Submit" && p.C == o.C {
						tb = p.B
					}
				}
				c.Outs = append(c.Outs, Out{K: "T", T: 1, B: tb}) // which token it was is not observable here
			} else {
				c.Outs = append(c.Outs, Out{K: "R"})
			}
		case "Purge":
			rs := e.rl.Deny(bidFor(topic, o.B), time.Now().Unix()+600, e.adm)
			if rs.Err != nil || rs.Status != 204 {
				return fmt.Errorf("deny answered %d %v", rs.Status, rs.Err)
			}
			c.Outs = append(c.Outs, Out{K: "U"})
		}
	}
	return nil
}

// wrongPath rewrites the uri a session returned so that it names another topic (still under /session/)
func wrongPath(uri, topic string, variant uint64) string {
	if uri == "" {
		return ""
	}
	var other string
	switch variant % 4 {
	case 0:
		other = "other-" + topic
	case 1:
		other = topic + "x"
	default:
		other = topic + "/sub"
	}
	if variant == 3 {
		return strings.Replace(uri, "/session/"+topic+"?", "/shell/"+topic+"?", 1)
	}
	return strings.Replace(uri, "/session/"+topic+"?", "/session/"+other+"?", 1)
}

func (e *e2e) runE2ERace(c *Case, topic string) error {
	peer, err := e.peerFor(topic)
	if err != nil {
		return err
	}
	var pm sync.Mutex
	uris := map[uint64]string{}
	for _, o := range c.Ops {
		switch o.K {
		case "Submit":
			uri, ok := e.session(topic, bidFor(topic, o.B))
			if !ok {
				return fmt.Errorf("session refused")
			}
			uris[o.C] = uri
		case "Purge":
			e.rl.Deny(bidFor(topic, o.B), time.Now().Unix()+600, e.adm)
		case "Exchange":
			e.admitted(uris[o.C], peer, &pm, topic+"-pre")
		}
	}
	var wins int32
	var wg sync.WaitGroup
	start := make(chan struct{})
	for i := 0; i < c.N; i++ {
		wg.Add(1)
		go func(i int) {
			defer wg.Done()
			<-start
			if e.admitted(uris[c.Code], peer, &pm, fmt.Sprintf("%s-r%d", topic, i)) {
				atomic.AddInt32(&wins, 1)
			}
		}(i)
	}
	close(start)
	wg.Wait()
	c.Winners = int(wins)
	return nil
}

// ---------------------------------------------------------------- concurrency child
// Issues, purges, exchanges, sweeps and counts concurrently for a while. Exits 0 and prints a JSON
// line if the process survived; the Go runtime kills it ("fatal error: concurrent map ...") if a
// method touches the map without the lock.
func childConcurrent(seed int64) {
	log.SetOutput(ioutil.Discard)
	cs := ttlcode.NewDefaultCodeStore().WithTTL(1)
	stop := make(chan struct{})
	var wg sync.WaitGroup
	codes := make(chan string, 4096)
	var double int32
	for g := 0; g < 8; g++ {
		wg.Add(1)
		go func(g int) {
			defer wg.Done()
			for {
				select {
				case <-stop:
					return
				default:
				}
				code := cs.SubmitToken(tokenFor(uint64(g), uint64(1+g%3)))
				select {
				case codes <- code:
				default:
				}
			}
		}(g)
	}
	for g := 0; g < 8; g++ {
		wg.Add(1)
		go func(g int) {
			defer wg.Done()
			for {
				select {
				case <-stop:
					return
				default:
				}
				cs.DeleteByBookingID(bookings[1+g%3])
				if g == 0 {
					cs.CleanExpired()
				}
			}
		}(g)
	}
	for g := 0; g < 4; g++ {
		wg.Add(1)
		go func() {
			defer wg.Done()
			for {
				select {
				case <-stop:
					return
				case code := <-codes:
					var w int32
					var in sync.WaitGroup
					for k := 0; k < 3; k++ {
						in.Add(1)
						go func() {
							defer in.Done()
							if _, err := cs.ExchangeCode(code); err == nil {
								atomic.AddInt32(&w, 1)
							}
						}()
					}
					in.Wait()
					if w > 1 {
						atomic.AddInt32(&double, 1)
					}
				}
			}
		}()
	}
	// connections presenting codes nobody issued, while all of the above goes on: must simply be refused
	var junkWon int32
	for g := 0; g < 6; g++ {
		wg.Add(1)
		go func(g int) {
			defer wg.Done()
			for k := 0; ; k++ {
				select {
				case <-stop:
					return
				default:
				}
				if _, err := cs.ExchangeCode(fmt.Sprintf("junk-%d-%d", g, k)); err == nil {
					atomic.AddInt32(&junkWon, 1)
				}
			}
		}(g)
	}
	time.Sleep(1500 * time.Millisecond)
	close(stop)
	wg.Wait()
	fmt.Printf("{\"survived\":true,\"double\":%d,\"junk\":%d}\n", double, junkWon)
}

func runChild(res *lib.Result, seed int64) {
	cmd := exec.Command(os.Args[0], "child-concurrent", strconv.FormatInt(seed, 10))
	var so, se bytes.Buffer
	cmd.Stdout, cmd.Stderr = &so, &se
	done := make(chan error, 1)
	if err := cmd.Start(); err != nil {
		note(res, "child could not be started: "+err.Error())
		return
	}
	go func() { done <- cmd.Wait() }()
	var err error
	select {
	case err = <-done:
	case <-time.After(30 * time.Second):
		cmd.Process.Kill()
		err = fmt.Errorf("watchdog: child did not finish in 30 s")
	}
	count(res, "child:concurrent")
	stderr := se.String()
	crashed := err != nil || strings.Contains(stderr, "fatal error:") || strings.Contains(stderr, "panic:")
	rep := map[string]interface{}{"kind": "child-concurrent", "seed": seed}
	if crashed {
		first := stderr
		if i := strings.Index(first, "\n\n"); i > 0 {
			first = first[:i]
		}
		site := "unknown"
		for _, fn := range []string{"DeleteByBookingID", "CleanExpired", "ExchangeCode", "SubmitToken"} {
			if strings.Contains(firstStack(stderr), "ttlcode.(*CodeStore)."+fn) {
				site = fn
				break
			}
		}
		rep["stderr"] = truncate(stderr, 3000)
		violate(res, lib.Violation{Clause: "store-crashed-under-concurrency", Case: -1, Replay: rep, Key: "store-crashed-under-concurrency:ttlcode",
			Detail: fmt.Sprintf("8 goroutines issuing codes while 8 purge bookings, 4 exchange, 6 present unissued codes and one sweeps: the process died (%v) in %s: %s", err, site, truncate(first, 300))})
		return
	}
	var out struct {
		Survived bool `json:"survived"`
		Double   int  `json:"double"`
		Junk     int  `json:"junk"`
	}
	json.Unmarshal(so.Bytes(), &out)
	if out.Junk > 0 {
		violate(res, lib.Violation{Clause: "unissued-code-accepted", Case: -1, Replay: rep, Key: "unissued-code-accepted:concurrent-child",
			Detail: fmt.Sprintf("%d codes that nobody issued were exchanged successfully under concurrency", out.Junk)})
	}
	if out.Double > 0 {
		violate(res, lib.Violation{Clause: "two-winners-same-instant", Case: -1, Replay: rep, Key: "two-winners-same-instant:concurrent-child",
			Detail: fmt.Sprintf("%d codes were exchanged successfully by more than one of three simultaneous presenters", out.Double)})
	}
}

// childE2E runs the relay cases in a process of their own (a relay that crashes must not take the
// harness down): reads the cases from inPath, writes them back with observations to outPath.
type e2eFile struct {
	TTL        int64    `json:"ttl"` // 0: the relay as shipped (30 s codes); else a relay assembled around a store with this lifetime
	Cases      []Case   `json:"cases"`
	Codes      []string `json:"codes"`
	Notes      []string `json:"notes"`
	BadFormat  int      `json:"bad_format"`
	Duplicates int      `json:"duplicates"`
}

// startRelayTTL assembles the relay exactly as relay.Relay does, but around a code store with a short
// lifetime (relay.Relay always uses the 30 s default), so that expiry can be watched end to end.
func startRelayTTL(ttl int64) *lib.Relay {
	ps := lib.FreePorts(2)
	r := &lib.Relay{
		AccessURL: "http://127.0.0.1:" + strconv.Itoa(ps[1]),
		Target:    "ws://127.0.0.1:" + strconv.Itoa(ps[0]),
		Secret:    "verif-secret",
		Closed:    make(chan struct{}),
		Wg:        &sync.WaitGroup{},
		HTTP:      lib.NewHTTPClient(),
	}
	cs := ttlcode.NewDefaultCodeStore()
	time.Sleep(2 * time.Millisecond) // the sweeper keeps its default period: expired codes stay unswept during a case
	cs.WithTTL(ttl)
	ds := deny.New()
	hub := crossbar.New()
	denied := make(chan string, 64)
	r.Wg.Add(2)
	go crossbar.Crossbar(crossbar.Config{Listen: ps[0], Audience: r.Target, BufferSize: 128, CodeStore: cs, DenyStore: ds, Hub: hub, StatsEvery: time.Second}, r.Closed, denied, r.Wg)
	go access.API(r.Closed, r.Wg, access.Config{CodeStore: cs, DenyStore: ds, DenyChannel: denied, Host: r.AccessURL, Hub: hub, Port: ps[1], Secret: r.Secret, Target: r.Target})
	for _, p := range ps {
		for i := 0; i < 1000; i++ {
			c, err := net.DialTimeout("tcp", "127.0.0.1:"+strconv.Itoa(p), 100*time.Millisecond)
			if err == nil {
				c.Close()
				break
			}
			time.Sleep(5 * time.Millisecond)
		}
	}
	return r
}

func childE2E(inPath, outPath string) {
	log.SetOutput(ioutil.Discard)
	var f e2eFile
	b, err := os.ReadFile(inPath)
	if err != nil {
		fmt.Fprintln(os.Stderr, err)
		os.Exit(3)
	}
	if err := json.Unmarshal(b, &f); err != nil {
		fmt.Fprintln(os.Stderr, err)
		os.Exit(3)
	}
	var rl *lib.Relay
	if f.TTL > 0 {
		rl = startRelayTTL(f.TTL)
	} else {
		rl = lib.StartRelay(lib.RelayOpts{})
	}
	e := &e2e{rl: rl, adm: rl.AdminBearer("relay:admin")}
	if f.TTL > 0 {
		e.stale = 100 * time.Millisecond
		log.SetLevel(log.TraceLevel) // output stays discarded: the relay must behave the same at every log level
	}
	sem := make(chan struct{}, 6)
	var wg sync.WaitGroup
	var mu sync.Mutex
	for i := range f.Cases {
		wg.Add(1)
		go func(i int) {
			defer wg.Done()
			sem <- struct{}{}
			defer func() { <-sem }()
			c := &f.Cases[i]
			topic := fmt.Sprintf("c02t%d", i)
			var err error
			if c.Kind == "e2e" {
				err = e.runE2E(c, topic)
			} else {
				err = e.runE2ERace(c, topic)
			}
			if err != nil {
				c.Discard = "e2e-setup: " + err.Error()
				mu.Lock()
				f.Notes = append(f.Notes, fmt.Sprintf("relay case %d: %v", i, err))
				mu.Unlock()
			}
		}(i)
	}
	wg.Wait()
	seenMu.Lock()
	for k := range seenCodes {
		f.Codes = append(f.Codes, k)
	}
	f.BadFormat, f.Duplicates = badFormat, duplicates
	seenMu.Unlock()
	out, _ := json.Marshal(f)
	if err := os.WriteFile(outPath, out, 0o644); err != nil {
		fmt.Fprintln(os.Stderr, err)
		os.Exit(3)
	}
}

func runE2EChild(cs []*Case, res *lib.Result, dir string, final bool, ttl int64) bool {
	var f e2eFile
	f.TTL = ttl
	for _, c := range cs {
		f.Cases = append(f.Cases, *c)
	}
	in := fmt.Sprintf("%s/e2e_%d_in.json", dir, ttl)
	outp := fmt.Sprintf("%s/e2e_%d_out.json", dir, ttl)
	b, _ := json.Marshal(f)
	os.MkdirAll(dir, 0o755)
	os.WriteFile(in, b, 0o644)
	os.Remove(outp)
	cmd := exec.Command(os.Args[0], "child-e2e", in, outp)
	var se bytes.Buffer
	cmd.Stderr = &se
	done := make(chan error, 1)
	fail := func(why string) {
		for _, c := range cs {
			c.Discard = "relay-child"
		}
		stderr := se.String()
		head := stderr
		if i := strings.Index(head, "fatal error:"); i >= 0 {
			head = head[i:]
		} else if i := strings.Index(head, "panic:"); i >= 0 {
			head = head[i:]
		}
		if i := strings.Index(head, "\n\n"); i > 0 {
			j := strings.Index(head[i+2:], "\n\n")
			if j > 0 {
				head = head[:i+2+j]
			}
		}
		violate(res, lib.Violation{Clause: "relay-crashed-during-code-histories", Case: -1, Key: "relay-crashed-during-code-histories",
			Replay: map[string]interface{}{"kind": "child-e2e", "cases": f.Cases, "stderr": truncate(stderr, 4000)},
			Detail: fmt.Sprintf("the relay process serving %d session/dial/deny histories (6 at a time) %s: %s", len(cs), why, truncate(head, 700))})
	}
	if err := cmd.Start(); err != nil {
		fail("could not be started: " + err.Error())
		return true
	}
	go func() { done <- cmd.Wait() }()
	select {
	case err := <-done:
		if err != nil {
			fail("died (" + err.Error() + ")")
			return true
		}
	case <-time.After(10 * time.Minute):
		cmd.Process.Kill()
		fail("did not finish in 10 min (watchdog)")
		return true
	}
	ob, err := os.ReadFile(outp)
	var g e2eFile
	if err != nil || json.Unmarshal(ob, &g) != nil || len(g.Cases) != len(cs) {
		fail("left no results")
		return true
	}
	if !final {
		for _, c := range g.Cases {
			if strings.HasPrefix(c.Discard, "e2e-setup") {
				return false
			}
		}
	}
	for i, c := range cs {
		*c = g.Cases[i]
	}
	for _, k := range g.Codes {
		noteCode(k)
	}
	seenMu.Lock()
	badFormat += g.BadFormat
	duplicates += g.Duplicates
	seenMu.Unlock()
	for _, n := range g.Notes {
		note(res, n)
	}
	os.Remove(in)
	os.Remove(outp)
	return true
}

func childRaces(inPath, outPath string) {
	log.SetOutput(ioutil.Discard)
	var f e2eFile
	b, err := os.ReadFile(inPath)
	if err != nil || json.Unmarshal(b, &f) != nil {
		fmt.Fprintln(os.Stderr, "cannot read the race cases", err)
		os.Exit(3)
	}
	for i := range f.Cases {
		runRace(&f.Cases[i])
	}
	seenMu.Lock()
	for k := range seenCodes {
		f.Codes = append(f.Codes, k)
	}
	f.BadFormat, f.Duplicates = badFormat, duplicates
	seenMu.Unlock()
	out, _ := json.Marshal(f)
	if err := os.WriteFile(outPath, out, 0o644); err != nil {
		fmt.Fprintln(os.Stderr, err)
		os.Exit(3)
	}
}

func runRaceChild(cs []*Case, res *lib.Result, dir string) {
	var f e2eFile
	for _, c := range cs {
		f.Cases = append(f.Cases, *c)
	}
	in, outp := dir+"/races_in.json", dir+"/races_out.json"
	b, _ := json.Marshal(f)
	os.MkdirAll(dir, 0o755)
	os.WriteFile(in, b, 0o644)
	os.Remove(outp)
	cmd := exec.Command(os.Args[0], "child-races", in, outp)
	var se bytes.Buffer
	cmd.Stderr = &se
	done := make(chan error, 1)
	var err error
	if err = cmd.Start(); err == nil {
		go func() { done <- cmd.Wait() }()
		select {
		case err = <-done:
		case <-time.After(10 * time.Minute):
			cmd.Process.Kill()
			err = fmt.Errorf("watchdog: the races did not finish in 10 min")
		}
	}
	var g e2eFile
	ob, rerr := os.ReadFile(outp)
	if err != nil || rerr != nil || json.Unmarshal(ob, &g) != nil || len(g.Cases) != len(cs) {
		for _, c := range cs {
			c.Discard = "race-child"
		}
		stderr := se.String()
		head := stderr
		if i := strings.Index(head, "fatal error:"); i >= 0 {
			head = head[i:]
		} else if i := strings.Index(head, "panic:"); i >= 0 {
			head = head[i:]
		}
		violate(res, lib.Violation{Clause: "store-crashed-under-concurrency", Case: -1, Key: "store-crashed-under-concurrency:same-instant-exchange",
			Replay: map[string]interface{}{"kind": "child-races", "cases": f.Cases[:min(len(f.Cases), 20)], "stderr": truncate(stderr, 4000)},
			Detail: fmt.Sprintf("2..16 goroutines presenting one code to ExchangeCode at the same instant: the process died (%v): %s", err, truncate(head, 500))})
		return
	}
	for i, c := range cs {
		*c = g.Cases[i]
	}
	for _, k := range g.Codes {
		noteCode(k)
	}
	seenMu.Lock()
	badFormat += g.BadFormat
	duplicates += g.Duplicates
	seenMu.Unlock()
	os.Remove(in)
	os.Remove(outp)
}

func min(a, b int) int {
	if a < b {
		return a
	}
	return b
}

var resMu sync.Mutex

func violate(res *lib.Result, v lib.Violation) { resMu.Lock(); res.Violate(v); resMu.Unlock() }
func count(res *lib.Result, k string)          { resMu.Lock(); res.Count(k); resMu.Unlock() }
func note(res *lib.Result, n string)           { resMu.Lock(); res.Notes = append(res.Notes, n); resMu.Unlock() }

// childSweep: a big store of live codes (long ttl: nothing ever expires) is swept continuously while
// some codes are exchanged and some bookings purged. Every operation is atomic, so whatever the
// interleaving the final store must be explainable by SOME order of the completed operations: a code
// whose exchange succeeded is gone, no code of a purged booking is left, and every other code is
// still there with its own token.
func childSweep(seed int64) {
	log.SetOutput(ioutil.Discard)
	const nBookings, perBooking, nKeep, nExchange = 20, 1500, 120000, 6000
	cs := ttlcode.NewDefaultCodeStore().WithTTL(3600)
	keepTok := tokenFor(1, 0)
	keepTok.SetBookingID("keep")
	keep := make([]string, nKeep)
	for i := range keep {
		keep[i] = cs.SubmitToken(keepTok)
	}
	purge := make([][]string, nBookings)
	for b := range purge {
		tk := tokenFor(2, 0)
		tk.SetBookingID(fmt.Sprintf("purge-%d", b))
		for k := 0; k < perBooking; k++ {
			purge[b] = append(purge[b], cs.SubmitToken(tk))
		}
	}
	stop := make(chan struct{})
	var sweeps int32
	var sw sync.WaitGroup
	sw.Add(1)
	go func() {
		defer sw.Done()
		for {
			select {
			case <-stop:
				return
			default:
			}
			cs.CleanExpired()
			atomic.AddInt32(&sweeps, 1)
		}
	}()
	var wg sync.WaitGroup
	won := make([]bool, nExchange)
	for g := 0; g < 4; g++ {
		wg.Add(1)
		go func(g int) {
			defer wg.Done()
			for i := g; i < nExchange; i += 4 {
				if _, err := cs.ExchangeCode(keep[i]); err == nil {
					won[i] = true
				}
				if i%50 == 0 {
					time.Sleep(time.Millisecond) // spread the exchanges over many sweeps
				}
			}
		}(g)
	}
	wg.Add(1)
	go func() {
		defer wg.Done()
		for b := 0; b < nBookings; b++ {
			cs.DeleteByBookingID(fmt.Sprintf("purge-%d", b))
			time.Sleep(15 * time.Millisecond)
		}
	}()
	wg.Wait()
	time.Sleep(50 * time.Millisecond)
	close(stop)
	sw.Wait()
	// the reckoning, with nothing else running
	twice, lostFirst, survivors, lost := 0, 0, 0, 0
	for i := 0; i < nExchange; i++ {
		if !won[i] {
			lostFirst++ // a live code that nobody else presented was refused
			continue
		}
		if _, err := cs.ExchangeCode(keep[i]); err == nil {
			twice++
		}
	}
	for b := range purge {
		for _, code := range purge[b] {
			if _, err := cs.ExchangeCode(code); err == nil {
				survivors++
			}
		}
	}
	for i := nExchange; i < nExchange+3000; i++ {
		if tk, err := cs.ExchangeCode(keep[i]); err != nil || tk.BookingID != "keep" {
			lost++
		}
	}
	// second part: sixty thousand codes expire together and go in ONE sweep while writers issue and exchange
	// fresh codes across it; the fresh codes must come through with their own lifetime
	cs2 := ttlcode.NewDefaultCodeStore()
	time.Sleep(2 * time.Millisecond)
	cs2.WithTTL(1)
	for i := 0; i < 60000; i++ {
		cs2.SubmitToken(keepTok)
	}
	time.Sleep(2100 * time.Millisecond)
	var fresh [4][]string
	var exch [4][]bool
	var w2 sync.WaitGroup
	go2 := make(chan struct{})
	for g := 0; g < 4; g++ {
		w2.Add(1)
		go func(g int) {
			defer w2.Done()
			<-go2
			for i := 0; i < 400; i++ {
				code := cs2.SubmitToken(keepTok)
				fresh[g] = append(fresh[g], code)
				ok := false
				if i%2 == 0 {
					_, err := cs2.ExchangeCode(code)
					ok = err == nil
				}
				exch[g] = append(exch[g], ok)
			}
		}(g)
	}
	issued2 := ttlcode.GetTime()
	w2.Add(1)
	go func() { defer w2.Done(); <-go2; cs2.CleanExpired(); cs2.CleanExpired() }()
	close(go2)
	w2.Wait()
	sameSecond := ttlcode.GetTime() == issued2
	lost2, twice2, late2 := 0, 0, 0
	var keepForLater []string
	for g := range fresh {
		for i, code := range fresh[g] {
			switch {
			case i%2 == 0:
				if !exch[g][i] && sameSecond {
					lost2++ // presented in the second of its issue and refused
				}
				if _, err := cs2.ExchangeCode(code); err == nil {
					twice2++
				}
			case i%4 == 1:
				keepForLater = append(keepForLater, code)
			default:
				if _, err := cs2.ExchangeCode(code); err != nil && ttlcode.GetTime() <= issued2+1 {
					lost2++
				}
			}
		}
	}
	time.Sleep(time.Until(time.Unix(issued2+3, 100e6)))
	for _, code := range keepForLater {
		if _, err := cs2.ExchangeCode(code); err == nil {
			late2++
		}
	}
	fmt.Printf("{\"sweeps\":%d,\"twice\":%d,\"lost_first\":%d,\"survivors\":%d,\"lost\":%d,\"lost2\":%d,\"twice2\":%d,\"late2\":%d}\n",
		sweeps, twice, lostFirst, survivors, lost, lost2, twice2, late2)
}

func runSweepChild(res *lib.Result, seed int64) {
	cmd := exec.Command(os.Args[0], "child-sweep", strconv.FormatInt(seed, 10))
	var so, se bytes.Buffer
	cmd.Stdout, cmd.Stderr = &so, &se
	done := make(chan error, 1)
	if err := cmd.Start(); err != nil {
		note(res, "sweep child could not be started: "+err.Error())
		return
	}
	go func() { done <- cmd.Wait() }()
	var err error
	select {
	case err = <-done:
	case <-time.After(60 * time.Second):
		cmd.Process.Kill()
		err = fmt.Errorf("watchdog: sweep child did not finish in 60 s")
	}
	count(res, "child:sweep")
	rep := map[string]interface{}{"kind": "child-sweep", "seed": seed}
	stderr := se.String()
	if err != nil || strings.Contains(stderr, "fatal error:") || strings.Contains(stderr, "panic:") {
		rep["stderr"] = truncate(stderr, 3000)
		violate(res, lib.Violation{Clause: "store-crashed-under-concurrency", Case: -1, Replay: rep, Key: "store-crashed-under-concurrency:sweep",
			Detail: fmt.Sprintf("continuous CleanExpired over 150 000 live codes while 6 000 are exchanged and 20 bookings purged: the process died (%v): %s", err, truncate(firstStack(stderr), 400))})
		return
	}
	var out struct {
		Sweeps    int `json:"sweeps"`
		Twice     int `json:"twice"`
		LostFirst int `json:"lost_first"`
		Survivors int `json:"survivors"`
		Lost      int `json:"lost"`
		Lost2     int `json:"lost2"`
		Twice2    int `json:"twice2"`
		Late2     int `json:"late2"`
	}
	if json.Unmarshal(so.Bytes(), &out) != nil {
		note(res, "sweep child left no result")
		return
	}
	resMu.Lock()
	res.CountN("child:sweep:sweeps-overlapping", out.Sweeps)
	resMu.Unlock()
	const setting = "CleanExpired running continuously over 150 000 live codes (ttl 1 h) while 6 000 codes are exchanged once each and 20 bookings of 1 500 codes are purged; afterwards, with nothing else running: "
	if out.Twice > 0 {
		violate(res, lib.Violation{Clause: "code-exchanged-twice", Case: -1, Replay: rep, Key: "code-exchanged-twice:concurrent-sweep",
			Detail: fmt.Sprintf(setting+"%d codes whose exchange had succeeded were exchanged a second time (a sweep overlapping the exchange brought them back)", out.Twice)})
	}
	if out.Survivors > 0 {
		violate(res, lib.Violation{Clause: "survived-purge", Case: -1, Replay: rep, Key: "survived-purge:concurrent-sweep",
			Detail: fmt.Sprintf(setting+"%d codes of purged bookings could still be exchanged", out.Survivors)})
	}
	const setting2 = "60 000 codes (ttl 1 s) expire together and go in one sweep while four writers issue 400 codes each and exchange every other one; afterwards: "
	if out.Twice2 > 0 {
		violate(res, lib.Violation{Clause: "code-exchanged-twice", Case: -1, Replay: rep, Key: "code-exchanged-twice:writers-racing-a-sweep",
			Detail: fmt.Sprintf(setting2+"%d exchanged codes could be exchanged again", out.Twice2)})
	}
	if out.Late2 > 0 {
		violate(res, lib.Violation{Clause: "exchanged-after-ttl", Case: -1, Replay: rep, Key: "exchanged-after-ttl:writers-racing-a-sweep",
			Detail: fmt.Sprintf(setting2+"%d of the fresh codes were honoured 3 s after their issue", out.Late2)})
	}
	if out.Lost2 > 0 {
		violate(res, lib.Violation{Clause: "live-code-lost", Case: -1, Replay: rep, Key: "live-code-lost:writers-racing-a-sweep",
			Detail: fmt.Sprintf(setting2+"%d fresh codes presented within their lifetime were refused", out.Lost2)})
	}
	if out.Lost > 0 || out.LostFirst > 0 {
		violate(res, lib.Violation{Clause: "live-code-lost", Case: -1, Replay: rep, Key: "live-code-lost:concurrent-sweep",
			Detail: fmt.Sprintf(setting+"%d untouched live codes and %d first presentations of live codes were refused", out.Lost, out.LostFirst)})
	}
}

// firstStack: the goroutine the runtime blames (the first stack after the fatal error line)
func firstStack(stderr string) string {
	i := strings.Index(stderr, "fatal error:")
	if i < 0 {
		i = strings.Index(stderr, "panic:")
	}
	if i < 0 {
		return stderr
	}
	s := stderr[i:]
	if j := strings.Index(s, "\n\ngoroutine "); j >= 0 {
		if k := strings.Index(s[j+2:], "\n\n"); k >= 0 {
			return s[:j+2+k]
		}
	}
	return s
}

func truncate(s string, n int) string {
	if len(s) > n {
		return s[:n]
	}
	return s
}

// sweeperCheck: the background sweeper must never remove an entry that has not expired (one-sided).
func sweeperCheck(res *lib.Result) {
	cs := ttlcode.NewDefaultCodeStore().WithTTL(1)
	defer cs.Close()
	t0 := alignSecond()
	code := cs.SubmitToken(tokenFor(1, 1))
	noteCode(code)
	vanished := int64(-1)
	for time.Now().Before(time.Unix(t0+4, 600e6)) {
		n := cs.GetCodeCount()
		now := ttlcode.GetTime()
		if n == 0 {
			vanished = now - t0
			break
		}
		time.Sleep(50 * time.Millisecond)
	}
	switch {
	case vanished >= 0 && vanished <= 1:
		violate(res, lib.Violation{Clause: "swept-before-expiry", Case: -1, Key: "swept-before-expiry:keepClean",
			Replay: map[string]interface{}{"kind": "sweeper"}, Detail: fmt.Sprintf("entry with ttl 1 vanished at +%d s", vanished)})
	case vanished < 0:
		count(res, "sweeper:not-observed(default-period)")
	default:
		count(res, fmt.Sprintf("sweeper:first-sweep-at+%ds", vanished))
	}
	sweeperPeriods(res)
}

// sweeperPeriods: the real periodic sweeper (ttl 1 s: a sweep every 2 s) over three of its periods. A burst
// of codes expires together and goes in one periodic sweep while a few younger codes survive it; each
// survivor presented after its own expiry must be refused, whatever the sweeper did to the map meanwhile,
// and a code presented within its lifetime must be honoured (one-sided on both sides: the sweeper's phase
// is not under the harness's control).
func sweeperPeriods(res *lib.Result) {
	t0 := alignSecond()
	cs := ttlcode.NewDefaultCodeStore().WithTTL(1) // sweeps just after t0+2, +4, +6
	defer cs.Close()
	at := func(sec int64, ms int) { time.Sleep(time.Until(time.Unix(t0+sec, int64(ms)*1e6))) }
	late, early := 0, 0
	surv := make([][]string, 3)
	present := func(r int) {
		for _, code := range surv[r][1:] {
			if _, err := cs.ExchangeCode(code); err == nil {
				late++
			}
		}
	}
	for r := 0; r < 3; r++ {
		// a burst right after the sweep at t0+2r: it expires with second t0+2r+1 and goes in the sweep at t0+2r+2
		at(int64(2*r), 300)
		for i := 0; i < 1100+100*r; i++ {
			cs.SubmitToken(tokenFor(1, 1))
		}
		// a few younger codes: they expire with second t0+2r+2, which that sweep still counts as alive
		at(int64(2*r+1), 100)
		for i := 0; i < 12; i++ {
			surv[r] = append(surv[r], cs.SubmitToken(tokenFor(2, 2)))
		}
		issued := ttlcode.GetTime()
		if _, err := cs.ExchangeCode(surv[r][0]); err != nil && ttlcode.GetTime() == issued {
			early++
		}
		if r > 0 {
			at(int64(2*r+1), 150)
			present(r - 1) // issued in second t0+2r-1, expired with t0+2r: now is t0+2r+1
		}
	}
	at(7, 150)
	present(2)
	rep := map[string]interface{}{"kind": "sweeper"}
	if late > 0 {
		violate(res, lib.Violation{Clause: "exchanged-after-ttl", Case: -1, Replay: rep, Key: "exchanged-after-ttl:periodic-sweeper",
			Detail: fmt.Sprintf("store with ttl 1 s and its own sweeper running (a sweep every 2 s), bursts of 1100-1300 codes expiring together: %d codes that survived a sweep were honoured 2 s after their issue", late)})
	}
	if early > 0 {
		violate(res, lib.Violation{Clause: "live-code-lost", Case: -1, Replay: rep, Key: "live-code-lost:periodic-sweeper",
			Detail: fmt.Sprintf("%d codes presented in the second of their issue were refused while the periodic sweeper was at work", early)})
	}
	count(res, "sweeper:three-periods")
}

func main() {
	if len(os.Args) > 2 && os.Args[1] == "child-concurrent" {
		seed, _ := strconv.ParseInt(os.Args[2], 10, 64)
		childConcurrent(seed)
		return
	}
	if len(os.Args) > 2 && os.Args[1] == "child-sweep" {
		seed, _ := strconv.ParseInt(os.Args[2], 10, 64)
		childSweep(seed)
		return
	}
	if len(os.Args) > 3 && os.Args[1] == "child-races" {
		childRaces(os.Args[2], os.Args[3])
		return
	}
	if len(os.Args) > 3 && os.Args[1] == "child-e2e" {
		childE2E(os.Args[2], os.Args[3])
		return
	}
	a := lib.ParseArgs()
	log.SetOutput(ioutil.Discard)
	res := lib.NewResult("C02", a.Seed, a.Tier)
	rng := lib.NewRng(a.Seed)

	var cases []Case
	replayChild := false
	if a.Replay != "" {
		var raw struct {
			Kind  string `json:"kind"`
			Cases []Case `json:"cases"`
		}
		lib.ReadReplayCase(a.Replay, &raw)
		switch raw.Kind {
		case "sweeper":
			replayChild = true
			sweeperCheck(res)
		case "child-concurrent":
			replayChild = true
			runChild(res, a.Seed)
		case "child-sweep":
			replayChild = true
			runSweepChild(res, a.Seed)
		case "child-e2e", "child-races":
			cases = raw.Cases
		default:
			var c Case
			lib.ReadReplayCase(a.Replay, &c)
			cases = []Case{c}
		}
	} else {
		nSeq := a.Pick(112, 640)
		nRace := a.Pick(300, 3000)
		nE2E := a.Pick(8, 30)
		nE2ERace := a.Pick(6, 20)
		for i := 0; i < nSeq; i++ {
			cases = append(cases, genSeq(rng.Fork(), a.Tier))
		}
		for i := 0; i < a.Pick(2, 8); i++ {
			cases = append(cases, genBurst(rng.Fork()))
		}
		for i := 0; i < nRace; i++ {
			cases = append(cases, genRace(rng.Fork()))
		}
		for i := 0; i < nE2E; i++ {
			cases = append(cases, genE2E(rng.Fork()))
		}
		// a relay assembled around a store with 2 s codes: a code presented on another topic's path is spent,
		// however often and whenever it is presented there; expiry seen through the websocket
		short := [][]Op{
			{{K: "Submit", C: 1, T: 1, B: 1}, {K: "Wrong", C: 1, T: 0}, {K: "Exchange", C: 1}},
			{{K: "Submit", C: 1, T: 1, B: 1}, {K: "Tick", Dt: 1}, {K: "Wrong", C: 1, T: 1}, {K: "Tick", Dt: 1}, {K: "Wrong", C: 1, T: 0},
				{K: "Tick", Dt: 1}, {K: "Wrong", C: 1, T: 2}, {K: "Tick", Dt: 1}, {K: "Exchange", C: 1}},
			{{K: "Submit", C: 1, T: 1, B: 1}, {K: "Submit", C: 2, T: 1, B: 2}, {K: "Tick", Dt: 2}, {K: "Exchange", C: 2}, {K: "Tick", Dt: 1}, {K: "Exchange", C: 1, H: 9}},
			// expired but not yet swept, and the upgrade request claims (X-Request-Start) to have arrived while the code was alive
			{{K: "Submit", C: 1, T: 1, B: 3}, {K: "Submit", C: 2, T: 1, B: 2}, {K: "Tick", Dt: 3}, {K: "Exchange", C: 1, H: 10}, {K: "Exchange", C: 2, H: 9}},
			{{K: "Submit", C: 1, T: 1, B: 1}, {K: "Submit", C: 2, T: 1, B: 1}, {K: "Tick", Dt: 1}, {K: "Wrong", C: 1, T: 2}, {K: "Exchange", C: 2},
				{K: "Tick", Dt: 2}, {K: "Wrong", C: 1, T: 0}, {K: "Exchange", C: 1}},
		}
		for _, ops := range short {
			cases = append(cases, Case{Kind: "e2e", TTL: 2, Ops: ops})
		}
		if a.Tier == "thorough" {
			// the relay's own store has a 30 s lifetime: one code presented at +5 s, one at +32 s
			for k := 0; k < 2; k++ {
				cases = append(cases, Case{Kind: "e2e", TTL: 30, Ops: []Op{
					{K: "Submit", C: 1, T: 1, B: 1}, {K: "Submit", C: 2, T: 1, B: 2}, {K: "Submit", C: 3, T: 1, B: 1},
					{K: "Tick", Dt: 5}, {K: "Exchange", C: 1}, {K: "Tick", Dt: int64(25 + k*2)}, {K: "Exchange", C: 3},
					{K: "Tick", Dt: int64(2 - k*2 + 1)}, {K: "Exchange", C: 2}, {K: "Exchange", C: 1}}})
			}
		}
		for i := 0; i < nE2ERace; i++ {
			c := genRace(rng.Fork())
			c.Kind, c.TTL = "e2e-race", 30
			if c.N > 8 {
				c.N = 2 + c.N%7
			}
			var ops []Op
			for _, o := range c.Ops { // no sweep through the API
				if o.K != "Sweep" && !(o.K == "Purge" && o.B == 0) {
					ops = append(ops, o)
				}
			}
			c.Ops = ops
			cases = append(cases, c)
		}
	}

	// ---- run: the timed histories 16 at a time; the relay cases next to them; the child and the sweeper check too
	var wg sync.WaitGroup
	sem := make(chan struct{}, 16)
	var relayCases []*Case
	for i := range cases {
		c := &cases[i]
		switch c.Kind {
		case "seq":
			wg.Add(1)
			go func() {
				defer wg.Done()
				sem <- struct{}{}
				defer func() { <-sem }()
				for try := 0; try < 3; try++ {
					runSeq(c)
					if c.Discard == "" {
						break
					}
				}
			}()
		case "e2e", "e2e-race":
			relayCases = append(relayCases, c)
		}
	}
	// one relay child per code lifetime: the relay as shipped (30 s), and one assembled around a 2 s store
	groups := map[int64][]*Case{}
	for _, c := range relayCases {
		ttl := int64(0)
		if c.TTL != 30 {
			ttl = c.TTL
		}
		groups[ttl] = append(groups[ttl], c)
	}
	for ttl, group := range groups {
		wg.Add(1)
		go func(ttl int64, group []*Case) {
			defer wg.Done()
			pristine := make([]Case, len(group))
			for i, c := range group {
				pristine[i] = *c
			}
			if !runE2EChild(group, res, a.Out, false, ttl) {
				// set-up trouble (a session refused out of the blue, the child gone before any result):
				// most likely the free ports were taken in between; a real defect shows again
				for i, c := range group {
					*c = pristine[i]
				}
				runE2EChild(group, res, a.Out, true, ttl)
			}
		}(ttl, group)
	}
	if a.Replay == "" {
		wg.Add(3)
		go func() { defer wg.Done(); runSweepChild(res, a.Seed) }()
		go func() { defer wg.Done(); runChild(res, a.Seed) }()
		go func() { defer wg.Done(); sweeperCheck(res) }()
	}
	// the untimed races run meanwhile, in a process of their own: an unsynchronised map access in the
	// store is a fatal error of the Go runtime, which must not take the harness down
	var raceCases []*Case
	for i := range cases {
		if cases[i].Kind == "race" {
			raceCases = append(raceCases, &cases[i])
		}
	}
	if len(raceCases) > 0 {
		runRaceChild(raceCases, res, a.Out)
	}
	wg.Wait()

	// ---- oracle, emission
	var kept []Case
	for _, c := range cases {
		if c.Discard != "" {
			res.Count("discarded:" + strings.SplitN(c.Discard, ":", 2)[0])
			if strings.HasPrefix(c.Discard, "e2e-setup") {
				res.Violate(lib.Violation{Clause: "e2e-setup-failed", Case: -1, Replay: c, Key: "e2e-setup-failed", Detail: c.Discard})
			}
			continue
		}
		kept = append(kept, c)
	}
	coq := make([]string, len(kept))
	for i, c := range kept {
		switch c.Kind {
		case "seq", "e2e":
			oracleSeq(c, i, res)
		default:
			oracleRace(c, i, res)
		}
		coq[i] = c.coq()
		res.Count("kind:" + c.Kind)
		res.CountN("ops", len(c.Ops))
		for j, o := range c.Ops {
			res.Count("op:" + o.K)
			if j < len(c.Outs) && o.K == "Exchange" {
				res.Count("exchange:" + map[string]string{"T": "token", "R": "refused"}[c.Outs[j].K])
			}
		}
		if c.Kind == "race" || c.Kind == "e2e-race" {
			res.Count(fmt.Sprintf("%s:winners=%d", c.Kind, c.Winners))
			res.CountN(c.Kind+":goroutines", c.N)
		} else {
			res.Count(fmt.Sprintf("%s:ttl=%d", c.Kind, c.TTL))
		}
		res.Sample(c)
		res.Cases = append(res.Cases, c)
	}
	// uuid format / distinctness: a test of the trusted generator, not a proof
	seenMu.Lock()
	res.CountN("codes-seen", len(seenCodes))
	if badFormat > 0 || duplicates > 0 {
		res.Violate(lib.Violation{Clause: "codes-not-distinct-uuid4", Case: -1, Key: "codes-not-distinct-uuid4",
			Replay: map[string]interface{}{"kind": "uuid"}, Detail: fmt.Sprintf("%d codes not in uuid v4 format, %d duplicates among %d", badFormat, duplicates, len(seenCodes))})
	}
	seenMu.Unlock()
	res.Notes = append(res.Notes, "code format (uuid v4) and pairwise distinctness are checked as a test of google/uuid, the theorems take freshness as a hypothesis")
	sort.Strings(res.Notes)
	res.Evaluations = len(kept)
	if !replayChild || len(kept) > 0 {
		if _, err := lib.WriteShards(a.Out, "From Relay Require Import Base.Prelude Model.CodeStore Corr.C02.", "case", coq, res.ShardSize); err != nil {
			fmt.Fprintln(os.Stderr, err)
			os.Exit(2)
		}
	} else {
		lib.WriteShards(a.Out, "From Relay Require Import Base.Prelude Model.CodeStore Corr.C02.", "case", nil, res.ShardSize)
	}
	if err := res.Write(a.Out); err != nil {
		fmt.Fprintln(os.Stderr, err)
		os.Exit(2)
	}
}
